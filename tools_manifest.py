#!/usr/bin/env python3
"""Regenerate the `checks` array of MANIFEST.json from manifest_checks.json
(one entry per claimed property: level text, note, technique)."""
import json, sys
m = json.load(open('MANIFEST.json'))
src = json.load(open('manifest_checks.json'))
checks = []
for pid in sorted(src):
    c = src[pid]
    checks.append({
        "property_id": pid,
        "quick_cmd": "./check %s quick" % pid,
        "thorough_cmd": "./check %s thorough" % pid,
        "evidence_file": "/verif/evidence/%s.json" % pid,
        "replay_cmd_template": "./check replay {path}",
        "engine": "simkern",
        "level_claimed": {"category": c.get("category", "exploration"), "text": c["text"], "design_ref": "DESIGN.md §6 " + pid},
        "level_note": c["note"],
        "technique": c.get("technique", "deterministic simulation with fault injection"),
    })
m["checks"] = checks
m["engines"][0]["serves_properties"] = sorted(src)
json.dump(m, open('MANIFEST.json', 'w'), indent=1)
print("manifest: %d checks" % len(checks))
