# dropped counter is reset when the stamp is applied, not when the stamped record gets through
p='vgirpc/accesslog_async.go'
s=open(p).read()
old='''		record["dropped_records"] = a.dropped
	}
	select {
	case a.ch <- record:
		a.dropped = 0
	default:'''
new='''		record["dropped_records"] = a.dropped
		a.dropped = 0
	}
	select {
	case a.ch <- record:
	default:'''
assert old in s
open(p,'w').write(s.replace(old,new))
