# trace correlation validates only the trace id
p='vgirpc/accesslog_trace.go'
s=open(p).read()
old='if !isLowerHex(traceID, 32) || !isLowerHex(spanID, 16) {'
assert old in s
s=s.replace(old,'if !isLowerHex(traceID, 32) {')
open(p,'w').write(s)
