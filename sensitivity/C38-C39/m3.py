# Close does not wait for the writer to drain
p='vgirpc/accesslog_async.go'
s=open(p).read()
old='''	a.mu.Unlock()
	<-a.done
}'''
assert old in s
s=s.replace(old,'''	a.mu.Unlock()
}''')
open(p,'w').write(s)
