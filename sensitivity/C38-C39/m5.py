# sampler keys on request_id before stream_id
p='vgirpc/accesslog_sample.go'
s=open(p).read()
old='[...]string{"stream_id", "request_id"}'
assert old in s
s=s.replace(old,'[...]string{"request_id", "stream_id"}')
open(p,'w').write(s)
