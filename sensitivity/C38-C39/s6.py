# request_bytes reports the decompressed body length
p='vgirpc/http_helpers.go'
s=open(p).read()
old='''		return decompressBounded(encoding, body, decompressedCap)'''
assert old in s
s=s.replace(old,'''		out, derr := decompressBounded(encoding, body, decompressedCap)
		if rec := egressRecorderFrom(r.Context()); rec != nil && derr == nil {
			rec.requestBytes = int64(len(out))
		}
		return out, derr''')
open(p,'w').write(s)
