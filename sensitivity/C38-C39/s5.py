# redactor panic fails open: the raw claims are logged
p='vgirpc/accesslog_redact.go'
s=open(p).read()
old='''			out = nil
'''
assert old in s
s=s.replace(old,'''			out = claims
''')
open(p,'w').write(s)
