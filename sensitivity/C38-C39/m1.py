# blocking send instead of select/default
p='vgirpc/accesslog_async.go'
s=open(p).read()
old=s[s.index('	select {\n	case a.ch <- record:'):s.index('// close stops the writer')]
new='''	a.ch <- record
	a.dropped = 0
}

'''
s=s.replace(old,new)
open(p,'w').write(s)
