# call-token miss path forgets the stream id (continuation served by an instance that has not cached the call)
p='vgirpc/http_state.go'
s=open(p).read()
old='got := &resolvedCall{SchemaIPC: data.SchemaIPC, StreamID: data.StreamID, CreatedAt: data.CreatedAt}'
assert old in s
s=s.replace(old,'got := &resolvedCall{SchemaIPC: data.SchemaIPC, CreatedAt: data.CreatedAt}')
open(p,'w').write(s)
