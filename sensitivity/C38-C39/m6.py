# full queue falls back to a synchronous write instead of dropping
p='vgirpc/accesslog_async.go'
s=open(p).read()
old='''		delete(record, "dropped_records")
		a.dropped++
'''
assert old in s
s=s.replace(old,'''		a.write(record)
''')
open(p,'w').write(s)
