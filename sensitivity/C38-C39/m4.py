# errors are sampled like everything else unless rate is 0 (error check after the hash)
p='vgirpc/accesslog_sample.go'
s=open(p).read()
old='''	if record["status"] == "error" {
		return true
	}
'''
assert old in s
s=s.replace(old,'''	if record["status"] == "error" && s.rate == 0 {
		return true
	}
''')
open(p,'w').write(s)
