# access-log flush registered after the compressing writer's finish: response_bytes stamped before compression output exists
p='vgirpc/http.go'
s=open(p).read()
old='''		defer rec.flush()
		w = &countingResponseWriter{ResponseWriter: w, rec: rec}
	}
'''
assert old in s
s=s.replace(old,'''		w = &countingResponseWriter{ResponseWriter: w, rec: rec}
		flushAccessLog = rec.flush
	}
''')
old='''	if h.server.dispatchHook != nil {
		rec := &egressRecorder{requestID: requestID}'''
assert old in s
s=s.replace(old,'''	flushAccessLog := func() {}
	if h.server.dispatchHook != nil {
		rec := &egressRecorder{requestID: requestID}''')
old='''			defer cw.finish()
			h.mux.ServeHTTP(cw, r)
			return
		}
	}
	h.mux.ServeHTTP(w, r)
}'''
assert old in s
s=s.replace(old,'''			defer cw.finish()
			defer flushAccessLog()
			h.mux.ServeHTTP(cw, r)
			return
		}
	}
	defer flushAccessLog()
	h.mux.ServeHTTP(w, r)
}''')
open(p,'w').write(s)
