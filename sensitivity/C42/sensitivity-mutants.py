#!/usr/bin/env python3
"""apply a named mutant to the scratch worktree (on top of the fix), run quick, replay, revert"""
import subprocess, sys, os, re, glob
R='/var/tmp/ag-listen/repo'
V='/var/tmp/ag-listen/verif'
FIX='/var/tmp/ag-listen/deliver/fix-C42-stale-idle-timer-callback.diff'
def sub(path, old, new, count=1):
    s=open(path).read()
    assert old in s, (path, old)
    open(path,'w').write(s.replace(old,new,count))
U=R+'/vgirpc/server_unix.go'; T=R+'/vgirpc/server_tcp.go'
def both(old,new):
    for f,l,n in ((U,'ul','Unix'),(T,'tl','Tcp')):
        sub(f, old.replace('LN',l).replace('KIND',n), new.replace('LN',l).replace('KIND',n))
M={}
def m(f): M[f.__name__]=f; return f
@m
def arm_every_close():
    both("if active == 0 && idleTimeout > 0 && !shutdown {","if idleTimeout > 0 && !shutdown {")
@m
def no_disarm_on_accept():
    both("\t\tactive++\n\t\tdisarm()\n","\t\tactive++\n")
@m
def cb_no_active_check():
    both("\t\t\tif active == 0 {\n\t\t\t\tshutdown = true\n\t\t\t\t_ = LN.Close() // unblock Accept\n\t\t\t}\n","\t\t\tshutdown = true\n\t\t\t_ = LN.Close() // unblock Accept\n")
@m
def arm_every_close_and_cb_no_check():
    arm_every_close(); cb_no_active_check()
@m
def no_disarm_and_cb_no_check():
    no_disarm_on_accept(); cb_no_active_check()
@m
def forget_remove_on_return():
    sub(U,"\t\t_ = ul.Close()\n\t\t_ = os.Remove(path)\n","\t\t_ = ul.Close()\n")
@m
def no_chmod():
    sub(U,"\t_ = os.Chmod(path, 0o600)\n","")
@m
def chmod_group():
    sub(U,"os.Chmod(path, 0o600)","os.Chmod(path, 0o660)")
@m
def no_startup_grace():
    both("\t\tarm(grace)\n","\t\t_ = grace\n\t\tarm(idleTimeout)\n")
@m
def no_wg_wait():
    both("\twg.Wait()\n\treturn nil","\treturn nil")
@m
def shared_conn_var():
    both("\tctx := context.Background()\n\tfor {\n","\tctx := context.Background()\n\tvar cur net.Conn\n\tfor {\n")
    both("\t\tgo func(c net.Conn) {\n\t\t\tdefer wg.Done()\n\t\t\ts.serveKINDConn(ctx, c)\n\t\t\t_ = c.Close()\n","\t\tcur = conn\n\t\tgo func(_ net.Conn) {\n\t\t\tdefer wg.Done()\n\t\t\tc := cur\n\t\t\ts.serveKINDConn(ctx, c)\n\t\t\t_ = c.Close()\n")
@m
def no_active_decrement():
    both("\t\t\tactive--\n","")
@m
def half_timeout():
    both("\t\t\t\tarm(idleTimeout)\n","\t\t\t\tarm(idleTimeout / 2)\n")
@m
def rearm_after_shutdown_ignored():
    pass
@m
def unfixed_cb_no_active_check():
    subprocess.run(['git','-C',R,'checkout','--','.'],check=True)
    cb_no_active_check()
@m
def unfixed_no_disarm_on_accept():
    subprocess.run(['git','-C',R,'checkout','--','.'],check=True)
    no_disarm_on_accept()
@m
def unfixed_arm_every_close():
    subprocess.run(['git','-C',R,'checkout','--','.'],check=True)
    arm_every_close()
@m
def shared_shm_state():
    S=R+'/vgirpc/server_serve.go'
    sub(S,"func (c *shmConnState) close() {","var sharedShmConn = &shmConnState{}\n\nfunc (c *shmConnState) close() {")
    both("\tshmConn := &shmConnState{}\n","\tshmConn := sharedShmConn\n")
@m
def drop_fix():
    subprocess.run(['git','-C',R,'checkout','--','.'],check=True)
def reset():
    subprocess.run(['git','-C',R,'checkout','--','.'],check=True)
    subprocess.run(['git','-C',R,'apply',FIX],check=True)
name=sys.argv[1]
reset()
M[name]()
print("=== mutant", name)
print(subprocess.run(['git','-C',R,'diff','--stat'],capture_output=True,text=True).stdout)
env=dict(os.environ, VERIF_REPO=R)
for k in ('VERIF_SEED','VERIF_RUNS'):
    if k in os.environ: env[k]=os.environ[k]
tier=sys.argv[2] if len(sys.argv)>2 else 'quick'
before=set(glob.glob(V+'/replays/C42-*.json'))
p=subprocess.run(['./check','C42',tier],cwd=V,env=env,capture_output=True,text=True)
print(p.stdout[-2500:], p.stderr[-2500:], 'exit', p.returncode)
mm=re.findall(r'replay=(\S+)',p.stdout)
for rp in mm[:1]:
    if rp!='none':
        q=subprocess.run(['./check','replay',rp],cwd=V,env=env,capture_output=True,text=True)
        print('REPLAY:',q.stdout[-800:],q.stderr[-500:],'exit',q.returncode)
reset()
