# M5: open() no longer looks at the drain flag
p='vgirpc/sticky.go'
s=open(p).read()
old='''	r.mu.Lock()
	if r.draining {
		r.mu.Unlock()
		return zero, time.Time{}, nil, &ServerDrainingError{}
	}
	r.entries[sid] = entry'''
assert old in s
s=s.replace(old,'''	r.mu.Lock()
	r.entries[sid] = entry''')
open(p,'w').write(s)
