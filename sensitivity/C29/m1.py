# M1: the session lock is released before the handler runs
p='vgirpc/http_sticky.go'
s=open(p).read()
old='''	entry.lock.Lock()
	sink.installResumed(entry, sid)
	cleanup.entry = entry
'''
assert old in s
s=s.replace(old,'''	entry.lock.Lock()
	sink.installResumed(entry, sid)
	entry.lock.Unlock()
''')
open(p,'w').write(s)
