# M6: sessions are resolved without regard to the caller (token AAD not identity-bound, registry lookup does not compare the principal)
p='vgirpc/sticky.go'
s=open(p).read()
old='''	if entry.principalKey != principalKey {
		r.mu.Unlock()
		return nil
	}
'''
assert old in s
s=s.replace(old,'')
open(p,'w').write(s)
p='vgirpc/sticky_context.go'
s=open(p).read()
assert 'aad := stateTokenAad(sink.auth)' in s
s=s.replace('aad := stateTokenAad(sink.auth)','aad := stateTokenAad(nil)')
open(p,'w').write(s)
p='vgirpc/http_sticky.go'
s=open(p).read()
assert s.count('aad := stateTokenAad(auth)')==2
s=s.replace('aad := stateTokenAad(auth)','aad := stateTokenAad(nil)')
open(p,'w').write(s)
