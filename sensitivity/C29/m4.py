# M4: the unary error/panic path forgets to release the session lock
p='vgirpc/http_unary.go'
s=open(p).read()
old='''	stickyCleanup, stickyErr := h.installStickyOnRequest(r, callCtx, auth)
	defer stickyCleanup.ReleaseLock()
'''
assert old in s
s=s.replace(old,'''	stickyCleanup, stickyErr := h.installStickyOnRequest(r, callCtx, auth)
''')
old2='''	logs := callCtx.drainLogs()
	responseCookies := callCtx.drainCookies()
'''
assert old2 in s
s=s.replace(old2,'''	if callErr == nil {
		stickyCleanup.ReleaseLock()
	}
	logs := callCtx.drainLogs()
	responseCookies := callCtx.drainCookies()
''')
open(p,'w').write(s)
