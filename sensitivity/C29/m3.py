# M3: close() looks the entry up, closes the state, and only then removes it (explicit close racing with reaper/shutdown closes twice)
p='vgirpc/sticky.go'
s=open(p).read()
old='''	r.mu.Lock()
	entry, ok := r.entries[sid]
	if ok {
		delete(r.entries, sid)
	}
	r.mu.Unlock()
	if !ok {
		return false
	}
	closeSessionState(entry.state)
	return true'''
new='''	r.mu.Lock()
	entry, ok := r.entries[sid]
	r.mu.Unlock()
	if !ok {
		return false
	}
	closeSessionState(entry.state)
	r.mu.Lock()
	delete(r.entries, sid)
	r.mu.Unlock()
	return true'''
assert old in s
s=s.replace(old,new)
open(p,'w').write(s)
