# M7: get() no longer checks the expiry itself (only the reaper's tick evicts)
p='vgirpc/sticky.go'
s=open(p).read()
old='''	if entry.expiresAt.Before(now) {
		delete(r.entries, sid)
		r.mu.Unlock()
		closeSessionState(entry.state)
		return nil
	}
'''
assert old in s
s=s.replace(old,'	_ = now\n')
open(p,'w').write(s)
