# M2: the reaper evicts expired sessions without calling Close
p='vgirpc/sticky.go'
s=open(p).read()
old='''	r.mu.Unlock()
	for _, entry := range expired {
		closeSessionState(entry.state)
	}
	return len(expired)'''
assert old in s
s=s.replace(old,'''	r.mu.Unlock()
	return len(expired)''')
open(p,'w').write(s)
