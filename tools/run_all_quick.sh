#!/bin/sh
# Run every registered check's quick tier once and summarise (exit codes, wall).
cd "$(dirname "$0")/.." || exit 2
for p in $(python3 -c "import json;print(' '.join(c['property_id'] for c in json.load(open('MANIFEST.json'))['checks']))"); do
  s=$(date +%s)
  out=$(./check "$p" quick 2>&1); rc=$?
  e=$(date +%s)
  echo "$p exit=$rc wall=$((e-s))s :: $(echo "$out" | grep -a -m2 'VIOLATION\|class=\|HARNESS\|KNOWN\|^OK' | cut -c1-220 | tr '\n' ' ')"
done
