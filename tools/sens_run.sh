#!/bin/sh
# sens_run.sh <Cxx> <patch.diff>... : apply each patch in a scratch worktree of /repo (HEAD) and run
# `./check <Cxx> quick` against it; prints CAUGHT / MISSED / TROUBLE per patch. Nothing is kept.
prop=$1; shift
cd "$(dirname "$0")/.." || exit 2
for d in "$@"; do
  wt=/var/tmp/sens-$$-$(basename "$d" .diff)
  git -C /repo worktree add -q --detach "$wt" HEAD || exit 2
  if git -C "$wt" apply "$(readlink -f "$d")" 2>/dev/null; then
    out=$(VERIF_REPO="$wt" VERIF_SNAPSHOT_SIM=1 VERIF_MAX_VIOLATIONS=1 VERIF_WORKERS="${VERIF_WORKERS:-8}" ./check "$prop" quick 2>&1); rc=$?
    case $rc in
      1) echo "CAUGHT $prop $d: $(echo "$out" | grep -m1 'class=' | cut -c1-160)";;
      0) echo "MISSED $prop $d";;
      *) echo "TROUBLE($rc) $prop $d: $(echo "$out" | tail -3 | cut -c1-300)";;
    esac
  else
    echo "NOAPPLY $prop $d"
  fi
  git -C /repo worktree remove --force "$wt"
done
