#!/bin/sh
# eval_wave.sh <Cxx> [extra properties...] : evaluate every deliverable of the mutation agent for <Cxx>
# (/tmp/mut/<Cxx>/deliver/<slug>/) with seed_eval.py; results go to /verif/seeded/<Cxx>-<slug>/.
id=$1; shift; prop=$(echo "$id" | sed "s/R[0-9]*$//")
for d in /tmp/mut/$id/deliver/*/; do
  [ -f "$d/patch.diff" ] || continue
  python3 "$(dirname "$0")/seed_eval.py" "$prop" "$d" "$@"
done
