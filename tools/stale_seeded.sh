#!/bin/sh
# stale_seeded.sh: list seeded/<dir> whose meta.json was produced by an older harness (sim/ or check changed since)
cd "$(dirname "$0")/.."
cur=$(git log -1 --format=%h -- sim/checks sim/worlds sim/hx sim/simkern sim/weave sim/overlay_src)
for d in seeded/*/; do
  m=$d/meta.json
  h=$(python3 -c "import json,sys;print(json.load(open('$m')).get('harness_commit',''))" 2>/dev/null)
  [ "$h" = "$cur" ] || echo "${d%/}"
done
