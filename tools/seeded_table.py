#!/usr/bin/env python3
"""Print the DESIGN.md §18 table from /verif/seeded/*/meta.json."""
import glob, json, os, subprocess

VERIF = os.path.dirname(os.path.dirname(os.path.abspath(__file__)))
rows = []
cur = subprocess.run(["git", "-C", VERIF, "log", "-1", "--format=%h", "--", "sim/checks", "sim/worlds", "sim/hx", "sim/simkern", "sim/weave", "sim/overlay_src"], capture_output=True, text=True).stdout.strip()
notes = {}
np = os.path.join(VERIF, "seeded", "NOTES.json")
if os.path.exists(np):
    notes = json.load(open(np))
for m in sorted(glob.glob(os.path.join(VERIF, "seeded", "*", "meta.json"))):
    d = json.load(open(m))
    name = os.path.basename(os.path.dirname(m))
    caught = ", ".join(d.get("caught_by") or []) or "—"
    classes = []
    for p, v in (d.get("checks") or {}).items():
        for l in v.get("output") or []:
            if l.strip().startswith("class="):
                c = l.strip().split()[0][len("class="):]
                if c not in classes:
                    classes.append(c)
    needs = (d.get("needs_to_manifest") or "").replace("|", "/")
    if len(needs) > 220:
        needs = needs[:217] + "…"
    note = notes.get(name, d.get("note", ""))
    hc = d.get("harness_commit")
    if hc != cur:
        note = (note + "; " if note else "") + "last evaluated with the harness of %s" % (hc or "an earlier commit of this round")
    rows.append("| %s | %s | %s | %s | %s |" % (name, needs, caught, ", ".join(classes[:3]) or ("" if caught != "—" else "not caught"), note))
print("| Seeded change | Needs, to manifest | Caught by | Violation class | Note |")
print("|---|---|---|---|---|")
print("\n".join(rows))
