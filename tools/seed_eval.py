#!/usr/bin/env python3
"""Evaluate one independently seeded change against the checks.

  seed_eval.py <property> <dir-with-patch.diff-and-demo> [more properties to run ...]

Steps (all in a scratch worktree of /repo under /var/tmp, removed afterwards):
 1. the demo passes on the unchanged tree;
 2. the patch applies, the package builds, the repository's test suite passes;
 3. the demo fails with the patch;
 4. `VERIF_REPO=<worktree> ./check <property> quick` (and any extra properties).
Writes /verif/seeded/<property>-<slug>/{patch.diff, demo, meta.json}.
"""
import json, os, shutil, subprocess, sys, glob, time

VERIF = os.path.dirname(os.path.dirname(os.path.abspath(__file__)))
ENV = dict(os.environ, PATH="/opt/veriftools/go1.26.8/bin:" + os.environ["PATH"], GOFLAGS="-mod=mod", GOPROXY="off", GOSUMDB="off", GOTOOLCHAIN="local")


def sh(cmd, cwd=None, env=None, timeout=3600):
    r = subprocess.run(cmd, cwd=cwd, env=env or ENV, shell=isinstance(cmd, str), stdout=subprocess.PIPE, stderr=subprocess.STDOUT, text=True, errors="replace", timeout=timeout)
    return r.returncode, r.stdout


def main():
    prop, src = sys.argv[1], os.path.abspath(sys.argv[2])
    extra = sys.argv[3:]
    slug = os.path.basename(src.rstrip("/"))
    if os.path.dirname(src.rstrip("/")) == os.path.join(VERIF, "seeded") and slug.startswith(prop + "-"):
        slug = slug[len(prop) + 1:]  # re-evaluation of an already kept change, in place
    out = os.path.join(VERIF, "seeded", "%s-%s" % (prop, slug))
    os.makedirs(out, exist_ok=True)
    patch = os.path.join(src, "patch.diff")
    demos = [p for p in glob.glob(os.path.join(src, "*")) if os.path.basename(p) not in ("patch.diff", "README.md", "meta.json")]
    wt = "/var/tmp/seed-%s-%s" % (prop, slug)
    sh(["git", "-C", "/repo", "worktree", "remove", "--force", wt])
    base = os.environ.get("SEED_BASE", "HEAD")  # the commit the change was written against
    rc, o = sh(["git", "-C", "/repo", "worktree", "add", "-q", "--detach", wt, base])
    meta = {"property": prop, "slug": slug, "repo_head": sh(["git", "-C", "/repo", "rev-parse", "--short", base])[1].strip(), "ran": [],
            "harness_commit": sh(["git", "-C", VERIF, "log", "-1", "--format=%h", "--", "sim/checks", "sim/worlds", "sim/hx", "sim/simkern", "sim/weave", "sim/overlay_src"])[1].strip()}
    try:
        # place the demo
        placed = []
        readme = os.path.join(src, "README.md")
        rtxt = open(readme).read() if os.path.exists(readme) else ""
        import re
        demo_dir = "vgirpc"
        m = re.search(r"demo-dir:\s*`?([A-Za-z0-9_./-]+)", rtxt)
        if m:
            demo_dir = m.group(1).strip("/`")
        tags = ""
        m = re.search(r"-tags[ =]+([A-Za-z0-9_,]+)", rtxt)
        if m:
            tags = " -tags " + m.group(1)
        for d in demos:
            if os.path.isdir(d):
                dst = os.path.join(wt, demo_dir, "zz_" + os.path.basename(d))
                shutil.copytree(d, dst)
                placed.append(dst)
            elif d.endswith("_test.go"):
                dst = os.path.join(wt, demo_dir, "zz_seed_" + os.path.basename(d))
                shutil.copy(d, dst)
                placed.append(dst)
        run_pat = "."
        m = re.search(r"(?<![A-Za-z])-run[ =]+'?\"?\^?(Test[A-Za-z0-9_^$|]+)", rtxt) or \
            re.search(r"(?<![A-Za-z])-run[ =]+'?\"?([A-Za-z0-9_^$|]+)", rtxt)
        if m:
            run_pat = m.group(1)
        meta["demo_run_pattern"] = run_pat
        meta["demo_dir"] = demo_dir
        if os.path.exists(readme):
            import re
            txt = open(readme).read()
            m = re.search(r"^#+[^\n]*needs[^\n]*\n(.*?)(?=^#+ |\Z)", txt, re.S | re.M | re.I)
            if m:
                meta["needs_to_manifest"] = " ".join(m.group(1).split())[:1500]
            m = re.search(r"^#+[^\n]*(clause|property)[^\n]*\n(.*?)(?=^#+ |\Z)", txt, re.S | re.M | re.I)
            if m:
                meta["clause_broken"] = " ".join(m.group(2).split())[:1000]
        if demo_dir == "vgirpc":
            demo_cmd = "go test -count=1 -vet=off%s -run '%s' ./vgirpc/" % (tags, run_pat)
        else:
            demo_cmd = "cd %s && go test -count=1 -vet=off%s -run '%s' ." % (demo_dir, tags, run_pat)
        # SEED_REUSE_CONFIRM=1: the confirmation of the change itself (demo
        # without / with it, the repository's suite with it) does not depend on
        # /verif; when this change was confirmed before against the same /repo
        # commit, carry that over and only re-run the checks
        prev = {}
        try:
            prev = json.load(open(os.path.join(out, "meta.json")))
        except Exception:
            pass
        reuse = (os.environ.get("SEED_REUSE_CONFIRM") == "1" and prev.get("confirmed") is True
                 and prev.get("repo_head") == meta["repo_head"] and os.path.realpath(out) == os.path.realpath(src))
        if reuse:
            meta["demo_without_change"] = "pass"
            meta["ran"] += [r for r in (prev.get("ran") or []) if "./check" not in r]
            meta["confirmation_carried_over"] = True
        else:
            rc0, o0 = sh(demo_cmd, cwd=wt)
            meta["demo_without_change"] = "pass" if rc0 == 0 else "FAIL"
            meta["ran"].append(demo_cmd + " (unchanged tree) -> exit %d" % rc0)
        rc, o = sh(["git", "apply", patch], cwd=wt)
        meta["patch_applies"] = rc == 0
        if rc != 0:
            meta["apply_error"] = o[-800:]
        else:
            if reuse:
                meta["demo_with_change"] = "fail"
                meta["suite_with_change"] = "pass"
            else:
                rc1, o1 = sh(demo_cmd, cwd=wt)
                meta["demo_with_change"] = "fail" if rc1 != 0 else "PASS"
                meta["ran"].append(demo_cmd + " (with change) -> exit %d" % rc1)
            # full suite without the demo files
            for p in placed:
                if os.path.isdir(p):
                    shutil.rmtree(p)
                else:
                    os.remove(p)
            suite = "go build ./... && go test -count=1 -vet=off -timeout 25m ./..."
            ptxt = open(patch).read()
            for sub in ("otel", "s3", "gcs", "jwtauth", "sentry"):
                if ("a/vgirpc/%s/" % sub) in ptxt:
                    suite += " && (cd vgirpc/%s && go build ./... && go test -count=1 -vet=off ./...)" % sub
            if not reuse:
                rc2, o2 = sh(suite, cwd=wt)
                meta["suite_with_change"] = "pass" if rc2 == 0 else "FAIL"
                if rc2 != 0:
                    meta["suite_output_tail"] = o2[-1500:]
                meta["ran"].append(suite + " (with change) -> exit %d" % rc2)
            meta["checks"] = {}
            for p in [prop] + extra:
                t0 = time.time()
                e = dict(ENV, VERIF_REPO=wt, VERIF_MAX_VIOLATIONS="1", VERIF_STOP_AT_FIRST="1", VERIF_SNAPSHOT_SIM=os.environ.get("VERIF_SNAPSHOT_SIM", "head"))
                rcc, oc = sh(["./check", p, "quick"], cwd=VERIF, env=e)
                lines = [l for l in oc.splitlines() if l.startswith("VIOLATION") or l.startswith("  class=") or l.startswith("OK ") or l.startswith("KNOWN") or "HARNESS" in l]
                meta["checks"][p] = {"exit": rcc, "wall_s": round(time.time() - t0, 1), "output": [l[:400] for l in lines[:8]]}
                meta["ran"].append("VERIF_REPO=<worktree with change> ./check %s quick -> exit %d" % (p, rcc))
                if rcc == 0 and os.environ.get("SEED_DEEP", "1") != "0":
                    # not caught by the quick tier: the thorough tier, time-boxed
                    t0 = time.time()
                    e2 = dict(e, VERIF_BUDGET_S=os.environ.get("SEED_DEEP_BUDGET_S", "240"))
                    rct, oct_ = sh(["./check", p, "thorough"], cwd=VERIF, env=e2)
                    lines = [l for l in oct_.splitlines() if l.startswith("VIOLATION") or l.startswith("  class=") or l.startswith("OK ") or "HARNESS" in l]
                    meta["checks"][p + ":thorough"] = {"exit": rct, "wall_s": round(time.time() - t0, 1), "output": [l[:400] for l in lines[:6]]}
                    meta["ran"].append("VERIF_REPO=<worktree with change> VERIF_BUDGET_S=%s ./check %s thorough -> exit %d" % (e2["VERIF_BUDGET_S"], p, rct))
        if os.path.realpath(out) != os.path.realpath(src):
            shutil.copy(patch, os.path.join(out, "patch.diff"))
            for d in demos:
                if os.path.isdir(d):
                    shutil.copytree(d, os.path.join(out, os.path.basename(d)), dirs_exist_ok=True)
                else:
                    shutil.copy(d, os.path.join(out, os.path.basename(d)))
            if os.path.exists(readme):
                shutil.copy(readme, os.path.join(out, "README.md"))
        ok = meta.get("patch_applies") and meta.get("demo_without_change") == "pass" and meta.get("demo_with_change") == "fail" and meta.get("suite_with_change") == "pass"
        meta["confirmed"] = bool(ok)
        meta["caught_by"] = [p.replace(":thorough", " (thorough tier)") for p, v in meta.get("checks", {}).items() if v["exit"] == 1]
        json.dump(meta, open(os.path.join(out, "meta.json"), "w"), indent=1)
        print(json.dumps({k: meta.get(k) for k in ("property", "slug", "confirmed", "demo_without_change", "demo_with_change", "suite_with_change", "caught_by")}, indent=None))
        for p, v in meta.get("checks", {}).items():
            print(" ", p, v["exit"], v["output"][:3])
    finally:
        sh(["git", "-C", "/repo", "worktree", "remove", "--force", wt])
        shutil.rmtree(wt, ignore_errors=True)


if __name__ == "__main__":
    main()
