#!/bin/sh
# Determinism self-test of every registered check: 30 seeds x {GOMAXPROCS 1,4,16} x 2 executions.
cd "$(dirname "$0")/.." || exit 2
rc=0
for p in $(python3 -c "import json;print(' '.join(c['property_id'] for c in json.load(open('MANIFEST.json'))['checks']))"); do
  ./check determinism "$p" "${1:-30}" || rc=2
done
exit $rc
