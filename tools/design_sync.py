#!/usr/bin/env python3
"""Regenerate the seeded-change table of DESIGN.md §18 from seeded/*/meta.json."""
import os, subprocess, sys
V = os.path.dirname(os.path.dirname(os.path.abspath(__file__)))
tbl = subprocess.run([sys.executable, os.path.join(V, "tools", "seeded_table.py")], stdout=subprocess.PIPE, text=True).stdout
p = os.path.join(V, "DESIGN.md")
s = open(p).read()
a, b = s.index("<!-- seeded-table:begin -->"), s.index("<!-- seeded-table:end -->")
s = s[:a] + "<!-- seeded-table:begin -->\n" + tbl + s[b:]
open(p, "w").write(s)
