// Package alogw is world G: the harness side of the access log. It provides
// the io.Writer the real AccessLogHook writes to (a simulated log file that
// can stall, yields on every write and remembers which task wrote what), a
// strict JSON-lines splitter, and small helpers shared by the C38 and C39
// checks.
package alogw

import (
	"bytes"
	"encoding/json"
	"fmt"
	"io"
	"strings"
	"time"

	"verifsim/simkern"
)

// Line is one newline-terminated chunk the hook wrote.
type Line struct {
	Seq  int
	Tag  string        // the writer's tag (which log file / instance)
	Task string        // name of the task whose goroutine completed the line ("" = not a task)
	At   time.Duration // simulated time of the write
	Raw  string        // without the trailing newline
	// Obj is the decoded record when the line is exactly one JSON object.
	Obj map[string]any
	// Bad is why the line is not exactly one JSON object ("" = fine).
	Bad string
	// Writes is the number of Write calls the line took.
	Writes int
}

// Writer is a simulated log file. All fields are harness state; only one task
// runs at a time so no locking is needed.
type Writer struct {
	Sim *simkern.Sim
	Tag string
	// Stalled makes every Write park (harness yield with a guard) until it is
	// cleared: a disk that does not accept bytes.
	Stalled bool
	// NoYield suppresses the scheduling point on unstalled writes.
	NoYield bool
	// Pieces makes the file take every write of more than three bytes in two
	// pieces with a scheduling point in between (io.Writer promises no
	// atomicity: a buffered file, a pipe under back-pressure, a socket to a log
	// shipper all do this). Two callers that are not serialised then tear
	// each other's lines.
	Pieces bool
	// Sink receives every completed line (shared between several writers when
	// one log is fed by several instances).
	Sink *[]*Line
	// OnStall is called (before parking) when a Write meets a stalled file.
	OnStall func(task *simkern.Task)
	// OnLine is called for every completed line.
	OnLine func(l *Line)
	// Calls counts Write calls; Parked counts those that met a stall.
	Calls  int
	Parked int
	// Waiting is the number of Write calls parked on the stall right now.
	Waiting int

	buf    bytes.Buffer
	writes int
	seq    *int
	own    int
}

// NewWriter creates a log file feeding sink.
func NewWriter(sim *simkern.Sim, tag string, sink *[]*Line) *Writer {
	w := &Writer{Sim: sim, Tag: tag, Sink: sink}
	w.seq = &w.own
	return w
}

// ShareSeq makes w number its lines from the same counter as other.
func (w *Writer) ShareSeq(other *Writer) { w.seq = other.seq }

// Write implements io.Writer.
func (w *Writer) Write(b []byte) (int, error) {
	w.Calls++
	var task *simkern.Task
	if w.Sim != nil {
		task = w.Sim.Current()
	}
	if w.Stalled {
		w.Parked++
		if w.OnStall != nil {
			w.OnStall(task)
		}
		if w.Sim != nil {
			w.Waiting++
			w.Sim.Yield("alog.write.stalled:"+w.Tag, func() bool { return !w.Stalled })
			w.Waiting--
		}
	} else if !w.NoYield && w.Sim != nil {
		w.Sim.Y("alog.write:" + w.Tag)
	}
	w.writes++
	if w.Pieces && w.Sim != nil && len(b) > 3 {
		k := len(b) / 2
		w.consume(b[:k], task)
		w.Sim.Y("alog.write.second-piece:" + w.Tag)
		w.consume(b[k:], task)
		return len(b), nil
	}
	w.consume(b, task)
	return len(b), nil
}

func (w *Writer) consume(rest []byte, task *simkern.Task) {
	for {
		i := bytes.IndexByte(rest, '\n')
		if i < 0 {
			w.buf.Write(rest)
			break
		}
		w.buf.Write(rest[:i])
		w.finish(task)
		rest = rest[i+1:]
		if len(rest) == 0 {
			break
		}
		w.writes = 1
	}
}

func (w *Writer) finish(task *simkern.Task) {
	l := &Line{Seq: *w.seq, Tag: w.Tag, Raw: w.buf.String(), Writes: w.writes}
	*w.seq++
	w.buf.Reset()
	w.writes = 0
	if task != nil {
		l.Task = task.Name
	}
	if w.Sim != nil {
		l.At = w.Sim.Now()
	}
	l.Obj, l.Bad = ParseObject(l.Raw)
	if w.Sink != nil {
		*w.Sink = append(*w.Sink, l)
	}
	if w.OnLine != nil {
		w.OnLine(l)
	}
}

// Pending returns bytes written that no newline has terminated yet.
func (w *Writer) Pending() string { return w.buf.String() }

// ParseObject decodes raw as exactly one JSON object (numbers kept as
// json.Number). bad explains a failure.
func ParseObject(raw string) (obj map[string]any, bad string) {
	if strings.TrimSpace(raw) == "" {
		return nil, "empty line"
	}
	dec := json.NewDecoder(strings.NewReader(raw))
	dec.UseNumber()
	var v any
	if err := dec.Decode(&v); err != nil {
		return nil, "not JSON: " + err.Error()
	}
	var extra any
	if err := dec.Decode(&extra); err != io.EOF {
		return nil, "more than one JSON value on the line"
	}
	m, ok := v.(map[string]any)
	if !ok {
		return nil, fmt.Sprintf("JSON value is %T, not an object", v)
	}
	return m, ""
}

// IsLowerHex reports whether s is exactly n lowercase hexadecimal characters.
func IsLowerHex(s string, n int) bool {
	if len(s) != n {
		return false
	}
	for i := 0; i < len(s); i++ {
		c := s[i]
		if !(c >= '0' && c <= '9' || c >= 'a' && c <= 'f') {
			return false
		}
	}
	return true
}

// Str returns obj[key] when it is a JSON string.
func Str(obj map[string]any, key string) (string, bool) {
	s, ok := obj[key].(string)
	return s, ok
}

// Num returns obj[key] when it is a JSON number.
func Num(obj map[string]any, key string) (float64, bool) {
	n, ok := obj[key].(json.Number)
	if !ok {
		return 0, false
	}
	f, err := n.Float64()
	if err != nil {
		return 0, false
	}
	return f, true
}

// Int returns obj[key] when it is a JSON number with an integral value.
func Int(obj map[string]any, key string) (int64, bool) {
	n, ok := obj[key].(json.Number)
	if !ok {
		return 0, false
	}
	if i, err := n.Int64(); err == nil {
		return i, true
	}
	f, err := n.Float64()
	if err != nil || f != float64(int64(f)) {
		return 0, false
	}
	return int64(f), true
}

// Short trims a raw line for diagnostics.
func Short(raw string, n int) string {
	if len(raw) <= n {
		return raw
	}
	return raw[:n] + "…"
}
