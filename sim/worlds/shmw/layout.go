// Package shmw is world M: one real POSIX shared-memory segment seen through
// several attachments, an independent read-only view of the raw bytes, an
// independent parser of the documented header layout and a first-fit interval
// list as reference allocator.
//
// Nothing in this package imports the code under test. The layout below is
// restated from the segment header documentation (vgirpc/shm.go: "wire-format
// constants — must match Python vgi_rpc.shm and Rust shm.rs byte-for-byte"):
//
//	offset  size  field
//	0       4     magic "VGIS"
//	4       4     version, uint32 LE, = 1
//	8       8     data_size, uint64 LE, = segment size - 65536
//	16      4     num_allocs, uint32 LE
//	20      4     padding
//	24      16*i  entry i: offset uint64 LE (absolute, from the start of the
//	              segment), length uint64 LE; entries sorted by offset
//	65536         start of the data area (the header is 65536 bytes, so the
//	              table holds at most (65536-24)/16 = 4094 entries)
package shmw

import (
	"encoding/binary"
	"fmt"
)

// Documented layout constants.
const (
	HeaderSize  = 65536
	FixedSize   = 24
	EntrySize   = 16
	MaxRegions  = (HeaderSize - FixedSize) / EntrySize // 4094
	Version     = 1
	offMagic    = 0
	offVersion  = 4
	offDataSize = 8
	offCount    = 16
)

// Region is one allocation: absolute offset and length in bytes.
type Region struct {
	Off uint64
	Len uint64
}

// End is the first byte after the region (saturating).
func (r Region) End() uint64 {
	if r.Off+r.Len < r.Off {
		return ^uint64(0)
	}
	return r.Off + r.Len
}

func (r Region) String() string { return fmt.Sprintf("[%d+%d)", r.Off, r.Len) }

// Header is what the parser reads out of the raw bytes.
type Header struct {
	Magic    [4]byte
	Version  uint32
	DataSize uint64
	Count    uint32
	Regions  []Region // min(Count, MaxRegions) entries
}

// Parse decodes the header from the raw segment bytes. It never interprets:
// every judgement is in Defects.
func Parse(raw []byte) (*Header, error) { return ParseInto(raw, nil) }

// ParseInto is Parse with a reusable entry buffer.
func ParseInto(raw []byte, buf []Region) (*Header, error) {
	if len(raw) < HeaderSize {
		return nil, fmt.Errorf("segment shorter than its header: %d bytes", len(raw))
	}
	h := &Header{}
	copy(h.Magic[:], raw[offMagic:offMagic+4])
	h.Version = binary.LittleEndian.Uint32(raw[offVersion:])
	h.DataSize = binary.LittleEndian.Uint64(raw[offDataSize:])
	h.Count = binary.LittleEndian.Uint32(raw[offCount:])
	n := int(h.Count)
	if h.Count > MaxRegions {
		n = MaxRegions
	}
	if cap(buf) >= n {
		h.Regions = buf[:n]
	} else {
		h.Regions = make([]Region, n, n+n/4+16)
	}
	for i := 0; i < n; i++ {
		b := FixedSize + i*EntrySize
		h.Regions[i] = Region{binary.LittleEndian.Uint64(raw[b:]), binary.LittleEndian.Uint64(raw[b+8:])}
	}
	return h, nil
}

// Defect is one way the header departs from the documented layout or from the
// structural clauses of the property.
type Defect struct {
	Class  string
	Detail string
}

// Defects checks the structural clauses for a segment of segSize bytes (as
// reported by the file system, not by the code under test): fixed fields,
// count at most the maximum, regions non-empty, inside the data area, in
// strictly increasing offset order and disjoint. The first defect found is
// returned (nil when there is none).
func (h *Header) Defects(segSize uint64) *Defect {
	if string(h.Magic[:]) != "VGIS" {
		return &Defect{"header-magic-changed", fmt.Sprintf("magic %q", h.Magic[:])}
	}
	if h.Version != Version {
		return &Defect{"header-version-changed", fmt.Sprintf("version %d", h.Version)}
	}
	if h.DataSize != segSize-HeaderSize {
		return &Defect{"header-data-size-wrong", fmt.Sprintf("data_size %d, segment is %d bytes so the data area is %d", h.DataSize, segSize, segSize-HeaderSize)}
	}
	if h.Count > MaxRegions {
		return &Defect{"count-over-maximum", fmt.Sprintf("num_allocs %d > %d", h.Count, MaxRegions)}
	}
	prevEnd := uint64(HeaderSize)
	for i, r := range h.Regions {
		if r.Len == 0 {
			return &Defect{"region-empty", fmt.Sprintf("entry %d %v has length 0", i, r)}
		}
		if r.Off < HeaderSize || r.Off+r.Len < r.Off || r.Off+r.Len > segSize {
			return &Defect{"region-outside-data-area", fmt.Sprintf("entry %d %v, data area is [%d,%d)", i, r, HeaderSize, segSize)}
		}
		if i > 0 && r.Off <= h.Regions[i-1].Off {
			return &Defect{"table-not-in-offset-order", fmt.Sprintf("entry %d %v follows entry %d %v", i, r, i-1, h.Regions[i-1])}
		}
		if r.Off < prevEnd {
			return &Defect{"regions-overlap", fmt.Sprintf("entry %d %v starts before the end %d of entry %d %v", i, r, prevEnd, i-1, h.Regions[i-1])}
		}
		prevEnd = r.Off + r.Len
	}
	return nil
}

// SameRegions reports whether two tables are equal entry by entry.
func SameRegions(a, b []Region) bool {
	if len(a) != len(b) {
		return false
	}
	for i := range a {
		if a[i] != b[i] {
			return false
		}
	}
	return true
}

// Brief renders a table for messages (at most 12 entries).
func Brief(rs []Region) string {
	s := fmt.Sprintf("%d regions", len(rs))
	if len(rs) == 0 {
		return s
	}
	s += ":"
	for i, r := range rs {
		if i == 12 {
			s += " …"
			break
		}
		s += " " + r.String()
	}
	return s
}

// FirstDiff describes the first position at which two tables differ.
func FirstDiff(got, want []Region) string {
	for i := 0; i < len(got) || i < len(want); i++ {
		switch {
		case i >= len(got):
			return fmt.Sprintf("entry %d missing, expected %v", i, want[i])
		case i >= len(want):
			return fmt.Sprintf("entry %d is %v, expected the table to end", i, got[i])
		case got[i] != want[i]:
			return fmt.Sprintf("entry %d is %v, expected %v", i, got[i], want[i])
		}
	}
	return "equal"
}
