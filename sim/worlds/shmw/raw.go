package shmw

import (
	"fmt"
	"os"
	"strings"
	"syscall"
)

// RawView is the harness's own read-only mapping of the segment's backing
// object, opened through the file system (/dev/shm/<name>) and not through the
// code under test: a third, passive process's view of the same pages.
type RawView struct {
	Path string
	// FileSize is the size of the backing object as the file system reports
	// it.
	FileSize uint64
	Bytes    []byte
}

// ShmPath maps a POSIX shm name ("/vgi_rpc_…") to its path on Linux.
func ShmPath(name string) string { return "/dev/shm/" + strings.TrimPrefix(name, "/") }

// OpenRaw maps the backing object of the named segment read-only.
func OpenRaw(name string) (*RawView, error) {
	p := ShmPath(name)
	f, err := os.Open(p)
	if err != nil {
		return nil, err
	}
	defer f.Close()
	st, err := f.Stat()
	if err != nil {
		return nil, err
	}
	if st.Size() <= 0 {
		return nil, fmt.Errorf("%s is empty", p)
	}
	b, err := syscall.Mmap(int(f.Fd()), 0, int(st.Size()), syscall.PROT_READ, syscall.MAP_SHARED)
	if err != nil {
		return nil, fmt.Errorf("mmap %s: %w", p, err)
	}
	return &RawView{Path: p, FileSize: uint64(st.Size()), Bytes: b}, nil
}

// Close unmaps the view.
func (r *RawView) Close() {
	if r != nil && r.Bytes != nil {
		_ = syscall.Munmap(r.Bytes)
		r.Bytes = nil
	}
}

// Remove deletes the backing object if it still exists (belt and braces for
// failure paths; the owner's Close normally unlinks it).
func Remove(name string) {
	if name != "" {
		_ = os.Remove(ShmPath(name))
	}
}
