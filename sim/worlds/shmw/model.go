package shmw

// Model is the reference allocator, written from the property statement: the
// data area is [HeaderSize, SegSize); the table is the list of live regions in
// offset order; an allocation of n bytes (n >= 1) takes the first n bytes of
// the lowest-addressed free gap of at least n bytes and fails only when no such
// gap exists or the table already holds the maximum number of regions; a free
// removes exactly the region that starts at the given offset (nothing when
// there is none); a reset empties the table.
type Model struct {
	SegSize uint64
	Regions []Region
}

// NewModel returns the empty table of a segment of segSize bytes.
func NewModel(segSize uint64) *Model { return &Model{SegSize: segSize} }

// Clone copies the model.
func (m *Model) Clone() *Model {
	return &Model{SegSize: m.SegSize, Regions: append([]Region(nil), m.Regions...)}
}

// Gap is a maximal free interval of the data area.
type Gap struct {
	Off uint64
	Len uint64
	// Index is the position in the table at which a region placed in this
	// gap would be inserted.
	Index int
}

// Gaps lists the free gaps in address order.
func (m *Model) Gaps() []Gap {
	var out []Gap
	prev := uint64(HeaderSize)
	for i, r := range m.Regions {
		if r.Off > prev {
			out = append(out, Gap{prev, r.Off - prev, i})
		}
		prev = r.Off + r.Len
	}
	if m.SegSize > prev {
		out = append(out, Gap{prev, m.SegSize - prev, len(m.Regions)})
	}
	return out
}

// Full reports whether the table holds the maximum number of regions.
func (m *Model) Full() bool { return len(m.Regions) >= MaxRegions }

// Fit returns the first gap of at least n bytes.
func (m *Model) Fit(n uint64) (Gap, bool) {
	prev := uint64(HeaderSize)
	for i, r := range m.Regions {
		if r.Off > prev && r.Off-prev >= n {
			return Gap{prev, r.Off - prev, i}, true
		}
		prev = r.Off + r.Len
	}
	if m.SegSize > prev && m.SegSize-prev >= n {
		return Gap{prev, m.SegSize - prev, len(m.Regions)}, true
	}
	return Gap{}, false
}

// LargestGap returns the length of the largest free gap (0 when none).
func (m *Model) LargestGap() uint64 {
	var best uint64
	for _, g := range m.Gaps() {
		if g.Len > best {
			best = g.Len
		}
	}
	return best
}

// Alloc performs a first-fit allocation of n >= 1 bytes.
func (m *Model) Alloc(n uint64) (uint64, bool) {
	if n == 0 || m.Full() {
		return 0, false
	}
	g, ok := m.Fit(n)
	if !ok {
		return 0, false
	}
	m.Regions = append(m.Regions, Region{})
	copy(m.Regions[g.Index+1:], m.Regions[g.Index:])
	m.Regions[g.Index] = Region{g.Off, n}
	return g.Off, true
}

// Find returns the index of the region starting at off, or -1.
func (m *Model) Find(off uint64) int {
	for i, r := range m.Regions {
		if r.Off == off {
			return i
		}
	}
	return -1
}

// Free removes the region starting at off and reports whether there was one.
func (m *Model) Free(off uint64) bool {
	i := m.Find(off)
	if i < 0 {
		return false
	}
	m.Regions = append(m.Regions[:i], m.Regions[i+1:]...)
	return true
}

// Reset empties the table.
func (m *Model) Reset() { m.Regions = m.Regions[:0] }
