// Package stickyw is world S: one or two real HttpServer workers (distinct
// server ids, one token key) with sticky sessions enabled, harness methods
// whose handlers open / use / close sessions and park inside the session lock,
// session state objects that count Close() calls, an operator (drain, undrain,
// shutdown) and a recorder for the per-session history.
//
// Everything the oracles look at is recorded here as plain data; nothing in
// this package reads the session registry, the session lock or any other
// unexported state of the code under test.
package stickyw

import (
	"context"
	"fmt"
	"strings"
	"time"

	"verifsim/hx"
	"verifsim/simkern"
	"verifsim/worlds/httpw"

	"github.com/Query-farm/vgi-rpc-go/vgirpc"
	"github.com/apache/arrow-go/v18/arrow"
	"github.com/apache/arrow-go/v18/arrow/array"
	"github.com/apache/arrow-go/v18/arrow/memory"
)

// Header names restated from the protocol (not imported from the code under test).
const (
	HSession       = "VGI-Session"
	HSessionAccept = "VGI-Session-Accept"
	HSessionClose  = "VGI-Session-Close"
)

// Method names registered on every worker.
const (
	MCall = "s_call"
	MExch = "s_exch"
	MProd = "s_prod"
)

// Sess is the harness's record of one session a handler opened.
type Sess struct {
	ID     int // label: order of opening (never the registry's random id)
	Owner  int // caller index
	Worker int
	TTL    time.Duration // effective TTL (the default when the handler passed 0)
	Phase  int           // run phase in which it was opened

	// Instants (simulated clock) and kernel steps around ctx.OpenSession.
	OpenCallNow, OpenRetNow   time.Duration
	OpenCallStep, OpenRetStep int

	Token string // VGI-Session value once a client has seen it

	Closes    int // Close() invocations on the state object
	InHandler int // resumed calls currently inside a handler
	MaxIn     int

	// Routes by which the session may legitimately be ending right now.
	CloseCalls int // ctx.CloseSession() calls in progress
	Deletes    int // DELETEs by the owner on the owning worker in progress
	// An explicit end whose operation has returned.
	EndedBy string

	// exchange stream bound to the session (owner only)
	Cursor, Call string
}

func (s *Sess) String() string {
	return fmt.Sprintf("s%d(owner c%d, w%d, ttl %v)", s.ID, s.Owner, s.Worker, s.TTL)
}

// State is the session state object handed to ctx.OpenSession.
type State struct {
	w    *World
	sess *Sess
}

// Close implements the registry's cleanup contract; it only counts.
func (s *State) Close() error {
	s.w.onClose(s.sess)
	return nil
}

// Req describes one request the clients send; handlers look it up by id.
type Req struct {
	ID      int64
	Act     string // open | use | close | sinit | turn
	Caller  int
	Worker  int
	TTL     time.Duration // open: 0 = registry default
	Yields  int           // extra scheduling points inside the handler
	Panic   bool          // handler panics at its end (after opening, after closing, while holding the lock)
	Fail    bool          // handler returns an error at its end
	TokSess *Sess         // session the presented token was minted for (nil: none / garbage)
	Cursor  string        // turn: the stream's cursor and call token, captured as a pair
	Call    string

	// filled in by the handler
	Entered   bool
	EntryStep int
	Saw       *Sess // session bound to the request when the handler started
	Opened    *Sess
	OpenErr   string // "", "draining", or another error text
	OpenCall  int
	OpenRet   int
	CloseHit  bool
	DidClose  bool
	CloseCall int
	CloseRet  int
}

// Op is one element of the recorded history. Call/Ret are kernel step numbers.
type Op struct {
	Kind     string // open | resolve | end | advance | shutdown | drain | undrain | tryopen
	Sess     int    // session label, -1 for global operations
	Caller   int
	Worker   int
	TTL      time.Duration
	D        time.Duration
	Call     int
	Ret      int
	Resolved bool   // resolve: true = the request ran bound to the session, false = session_lost
	Outcome  string // tryopen: opened | refused | other
	Via      string // request kind that produced it (use, close, delete, turn, ...)
	Client   int
}

// Worker is one real HttpServer with sticky sessions.
type Worker struct {
	Inst  *httpw.Instance
	Drain *vgirpc.DrainHandle
	// Shutting is set while DrainHandle.Shutdown is executing.
	Shutting bool
	ShutDone bool
}

// Config configures a world.
type Config struct {
	Workers    int
	DefaultTTL time.Duration
	Key        []byte
}

// World is the simulated deployment plus the harness-side records.
type World struct {
	Sim     *simkern.Sim
	Cfg     Config
	Cl      *httpw.Cluster
	W       []*Worker
	Callers []httpw.Ident

	Sess  []*Sess
	Reqs  map[int64]*Req
	next  int64
	Hist  []Op
	Phase int

	// clock bookkeeping: the simulated instant covered by the history so far
	clock time.Duration
	last  int

	// Violate is installed by the check: it records the first violation.
	Violate func(class, site, format string, a ...any)
}

// Cur is the world of the run in progress (handlers and stream states are
// package-level code and find their world here).
var Cur *World

// params of the harness methods
type callParams struct {
	Req int64 `vgirpc:"req"`
}

var exchOut = arrow.NewSchema([]arrow.Field{{Name: "v", Type: arrow.PrimitiveTypes.Int64}}, nil)
var exchIn = arrow.NewSchema([]arrow.Field{{Name: "x", Type: arrow.PrimitiveTypes.Int64}}, nil)

// ExchS is the (serialisable) exchange state of the sticky stream: every turn
// runs the request named by the input batch inside the resumed session.
type ExchS struct{ Turns int }

func init() {
	vgirpc.RegisterStateType(&ExchS{})
	vgirpc.RegisterStateType(&ProdS{})
}

// ProdS is the producer state of the sticky producer stream: its first Produce
// turn — which over HTTP runs inside the /init request, after the init handler
// has returned — runs the same request once more inside the resumed session,
// the second one finishes the stream.
type ProdS struct {
	Req   int64
	Turns int
}

// Produce implements vgirpc.ProducerState.
func (s *ProdS) Produce(_ context.Context, out *vgirpc.OutputCollector, cc *vgirpc.CallContext) error {
	if s.Turns >= 1 {
		return out.Finish()
	}
	s.Turns++
	if w := Cur; w != nil {
		if rq := w.Reqs[s.Req]; rq != nil {
			if err := w.serve(cc, rq); err != nil {
				return err
			}
		}
	}
	return emitOne(out, int64(s.Turns))
}

// Exchange implements vgirpc.ExchangeState.
func (s *ExchS) Exchange(_ context.Context, input arrow.RecordBatch, out *vgirpc.OutputCollector, cc *vgirpc.CallContext) error {
	var id int64 = -1
	if input.NumCols() > 0 {
		if col, ok := input.Column(0).(*array.Int64); ok && col.Len() > 0 {
			id = col.Value(0)
		}
	}
	w := Cur
	var err error
	if w != nil {
		if rq := w.Reqs[id]; rq != nil {
			err = w.serve(cc, rq)
		}
	}
	if err != nil {
		return err
	}
	s.Turns++
	return emitOne(out, int64(s.Turns))
}

func emitOne(out *vgirpc.OutputCollector, v int64) error {
	b := array.NewInt64Builder(memory.NewGoAllocator())
	defer b.Release()
	b.Append(v)
	arr := b.NewArray()
	defer arr.Release()
	return out.EmitArrays([]arrow.Array{arr}, 1)
}

func register(srv *vgirpc.Server) {
	vgirpc.Unary(srv, MCall, func(_ context.Context, cc *vgirpc.CallContext, p callParams) (int64, error) {
		w := Cur
		if w == nil {
			return 0, nil
		}
		rq := w.Reqs[p.Req]
		if rq == nil {
			return 0, &vgirpc.RpcError{Type: "ValueError", Message: "unknown request"}
		}
		return p.Req, w.serve(cc, rq)
	})
	vgirpc.Exchange(srv, MExch, exchOut, exchIn, func(_ context.Context, cc *vgirpc.CallContext, p callParams) (*vgirpc.StreamResult, error) {
		w := Cur
		if w != nil {
			if rq := w.Reqs[p.Req]; rq != nil {
				if err := w.serve(cc, rq); err != nil {
					return nil, err
				}
			}
		}
		return &vgirpc.StreamResult{OutputSchema: exchOut, InputSchema: exchIn, State: &ExchS{}}, nil
	})
	vgirpc.Producer(srv, MProd, exchOut, func(_ context.Context, cc *vgirpc.CallContext, p callParams) (*vgirpc.StreamResult, error) {
		w := Cur
		if w != nil {
			if rq := w.Reqs[p.Req]; rq != nil {
				if err := w.serve(cc, rq); err != nil {
					return nil, err
				}
			}
		}
		return &vgirpc.StreamResult{OutputSchema: exchOut, State: &ProdS{Req: p.Req}}, nil
	})
}

// registerForeign installs a same-named method that opens a throw-away session
// (used only to mint a token sealed under another key).
func registerForeign(srv *vgirpc.Server) {
	vgirpc.Unary(srv, MCall, func(_ context.Context, cc *vgirpc.CallContext, p callParams) (int64, error) {
		return p.Req, cc.OpenSession(&struct{}{}, 0)
	})
}

// ForeignToken is a VGI-Session token minted by a server with the same server
// id but another token key (created once per process by Warm, outside any
// bubble; its bytes never influence a choice).
var ForeignToken string

// Warm exercises every code path of the world once outside any bubble (so that
// process-wide lazily created singletons are bubble-free) and mints the
// foreign-key token.
func Warm() {
	callers := []httpw.Ident{{}, {Auth: true, Domain: "bearer", Principal: "alice"}}
	w := New(nil, Config{Workers: 1, DefaultTTL: time.Minute, Key: []byte("0123456789abcdef0123456789abcdef")}, callers)
	rq := w.NewReq(Req{Act: "open", Caller: 1})
	res := w.Send(rq, "")
	if rq.Opened != nil && res.NewToken != "" {
		s := rq.Opened
		s.Token = res.NewToken
		w.Send(w.NewReq(Req{Act: "use", Caller: 1, TokSess: s}), s.Token)
		ir := w.Send(w.NewReq(Req{Act: "sinit", Caller: 1, TokSess: s}), s.Token)
		if ir.Turn != nil && ir.Turn.Cursor != "" {
			s.Cursor, s.Call = ir.Turn.Cursor, ir.Turn.Call
			w.Send(w.NewReq(Req{Act: "turn", Caller: 1, TokSess: s, Cursor: s.Cursor, Call: s.Call}), s.Token)
		}
		w.Send(w.NewReq(Req{Act: "use", Caller: 0, TokSess: s}), s.Token)
		w.Send(w.NewReq(Req{Act: "close", Caller: 1, TokSess: s}), s.Token)
		w.Delete(1, 0, s.Token, s)
	}
	fk := append([]byte(nil), w.Cfg.Key...)
	fk[0] ^= 0x5a
	fc := httpw.NewCluster(httpw.Config{Key: fk, TTL: time.Hour, CacheSizes: []int{-1}, WithAuth: true, ServerIDs: []string{"worker-a"}, NoTwin: true,
		Setup: func(_ int, srv *vgirpc.Server, h *vgirpc.HttpServer) { registerForeign(srv); h.EnableSticky(time.Hour) }})
	body := hx.RawRequestBytes(hx.Int64Batch("req", []int64{1}, false), hx.M(hx.KMethod, MCall, hx.KReqVersion, "1"))
	fr := httpw.Post(fc.Inst[0], "/"+MCall, body, callers[1], map[string]string{HSessionAccept: "true"})
	ForeignToken = strings.TrimSpace(fr.Header.Get(HSession))
	fc.Inst[0].H.DrainHandle().Shutdown()
	w.StopAll()
	Cur = nil
}

// New builds the world. Must run inside the bubble (or, for the warm-up,
// outside any bubble with sim == nil).
func New(sim *simkern.Sim, cfg Config, callers []httpw.Ident) *World {
	w := &World{Sim: sim, Cfg: cfg, Reqs: map[int64]*Req{}, Callers: callers, Phase: 1}
	ids := []string{"worker-a", "worker-b", "worker-c"}[:cfg.Workers]
	caches := make([]int, cfg.Workers)
	for i := range caches {
		caches[i] = -1
	}
	setup := func(_ int, srv *vgirpc.Server, h *vgirpc.HttpServer) {
		register(srv)
		h.EnableSticky(cfg.DefaultTTL)
	}
	w.Cl = httpw.NewCluster(httpw.Config{Key: cfg.Key, TTL: time.Hour, CacheSizes: caches, WithAuth: true, ServerIDs: ids, Setup: setup, NoTwin: true})
	for _, in := range w.Cl.Inst {
		w.W = append(w.W, &Worker{Inst: in, Drain: in.H.DrainHandle()})
	}
	Cur = w
	return w
}

func (w *World) now() time.Duration {
	if w.Sim == nil {
		return 0
	}
	return w.Sim.Now()
}

func (w *World) step() int {
	if w.Sim == nil {
		return 0
	}
	return w.Sim.Steps
}

func (w *World) y(site string) {
	if w.Sim != nil {
		w.Sim.Y(site)
	}
}

func (w *World) violate(class, site, format string, a ...any) {
	if w.Violate != nil {
		w.Violate(class, site, format, a...)
	}
}

// Record appends an operation to the history, first accounting for simulated
// time that passed without an explicit advance action (the scheduler lets time
// pass by itself when nothing is runnable).
func (w *World) Record(op Op) {
	w.syncClock()
	w.Hist = append(w.Hist, op)
}

func (w *World) syncClock() {
	now := w.now()
	if now > w.clock {
		w.Hist = append(w.Hist, Op{Kind: "advance", Sess: -1, D: now - w.clock, Call: w.last, Ret: w.step(), Client: -1})
		w.clock = now
	}
	w.last = w.step()
}

// Advance is the clock-advance action: it moves simulated time by d and
// records the advance as an instantaneous operation at the current step.
func (w *World) Advance(d time.Duration) {
	w.syncClock()
	w.Sim.Advance(d)
	st := w.step()
	w.Hist = append(w.Hist, Op{Kind: "advance", Sess: -1, D: w.now() - w.clock, Call: st, Ret: st, Client: -1})
	w.clock = w.now()
	w.last = st
}

// NewReq allocates a request descriptor.
func (w *World) NewReq(r Req) *Req {
	w.next++
	r.ID = w.next
	rq := &r
	w.Reqs[rq.ID] = rq
	return rq
}

// ---- handler side ----

// serve is the body of every harness handler and exchange turn.
func (w *World) serve(cc *vgirpc.CallContext, rq *Req) error {
	w.syncClock()
	rq.Entered = true
	rq.EntryStep = w.step()
	var bound *Sess
	if st, ok := cc.Session().(*State); ok && st != nil {
		bound = st.sess
	}
	rq.Saw = bound
	if bound != nil {
		// a call bearing the session is now inside its handler
		bound.InHandler++
		if bound.InHandler > bound.MaxIn {
			bound.MaxIn = bound.InHandler
		}
		if bound.InHandler > 1 {
			w.violate("handlers-overlap", "resumed-"+rq.Act, "%d calls bearing session %s are inside their handlers at once (request %d, %s, step %d)", bound.InHandler, bound, rq.ID, rq.Act, w.step())
		}
		defer func() { bound.InHandler-- }()
	}
	w.y("handler.in")
	for i := 0; i < rq.Yields; i++ {
		w.y("handler.work")
	}
	switch rq.Act {
	case "open":
		w.doOpen(cc, rq)
		w.y("handler.opened")
	case "close":
		if bound != nil {
			w.doClose(cc, rq, bound)
			w.y("handler.closed")
		}
	}
	w.y("handler.out")
	if rq.Panic {
		panic(fmt.Sprintf("sim: scripted panic in request %d", rq.ID))
	}
	if rq.Fail {
		return &vgirpc.RpcError{Type: "ValueError", Message: "scripted failure"}
	}
	return nil
}

func (w *World) doOpen(cc *vgirpc.CallContext, rq *Req) {
	ttl := rq.TTL
	if ttl == 0 {
		ttl = w.Cfg.DefaultTTL
	}
	sess := &Sess{ID: -1, Owner: rq.Caller, Worker: rq.Worker, TTL: ttl, Phase: w.Phase}
	st := &State{w: w, sess: sess}
	w.syncClock()
	sess.OpenCallNow, sess.OpenCallStep = w.now(), w.step()
	err := cc.OpenSession(st, rq.TTL)
	w.syncClock()
	sess.OpenRetNow, sess.OpenRetStep = w.now(), w.step()
	rq.OpenCall, rq.OpenRet = sess.OpenCallStep, sess.OpenRetStep
	switch {
	case err == nil:
		sess.ID = len(w.Sess)
		w.Sess = append(w.Sess, sess)
		rq.Opened = sess
		w.Record(Op{Kind: "open", Sess: sess.ID, Caller: rq.Caller, Worker: rq.Worker, TTL: ttl, Call: sess.OpenCallStep, Ret: sess.OpenRetStep, Client: rq.Caller})
		w.Record(Op{Kind: "tryopen", Sess: sess.ID, Worker: rq.Worker, Outcome: "opened", Call: sess.OpenCallStep, Ret: sess.OpenRetStep, Client: rq.Caller})
	case isDraining(err):
		rq.OpenErr = "draining"
		w.Record(Op{Kind: "tryopen", Sess: -1, Worker: rq.Worker, Outcome: "refused", Call: sess.OpenCallStep, Ret: sess.OpenRetStep, Client: rq.Caller})
	default:
		rq.OpenErr = err.Error()
	}
}

func isDraining(err error) bool {
	k, ok := err.(interface{ ErrorKind() string })
	return ok && k.ErrorKind() == "server_draining"
}

func (w *World) doClose(cc *vgirpc.CallContext, rq *Req, bound *Sess) {
	w.syncClock()
	bound.CloseCalls++
	rq.CloseCall = w.step()
	rq.CloseHit = cc.CloseSession()
	rq.DidClose = true
	bound.CloseCalls--
	rq.CloseRet = w.step()
	if bound.EndedBy == "" {
		bound.EndedBy = "close"
	}
	w.Record(Op{Kind: "end", Sess: bound.ID, Caller: rq.Caller, Worker: rq.Worker, Call: rq.CloseCall, Ret: rq.CloseRet, Via: "close", Client: rq.Caller})
}

// onClose runs inside State.Close().
func (w *World) onClose(s *Sess) {
	s.Closes++
	if w.Sim != nil {
		w.Sim.Probe("state-close")
	}
	if s.Closes > 1 {
		w.violate("close-twice", "state.Close", "Close ran %d times on the state of session %s (step %d, t=%v)", s.Closes, s, w.step(), w.now())
		return
	}
	// Close count must stay 0 while the session is live: at this moment some
	// route must be ending it.
	now := w.now()
	switch {
	case s.CloseCalls > 0:
		w.probe("close-route-close")
	case s.Deletes > 0:
		w.probe("close-route-delete")
	case w.W[s.Worker].Shutting:
		w.probe("close-route-shutdown")
	case now > s.OpenCallNow+s.TTL:
		w.probe("close-route-expiry")
	case s.ID < 0:
		// OpenSession has not reported success for this state: no session was
		// ever announced (roll-back inside OpenSession)
	default:
		w.violate("closed-while-live", "state.Close", "Close ran on session %s at t=%v (step %d) although it was opened at t>=%v with ttl %v and no close, delete or shutdown was in progress", s, now, w.step(), s.OpenCallNow, s.TTL)
	}
}

func (w *World) probe(name string) {
	if w.Sim != nil {
		w.Sim.Probe(name)
	}
}

// ---- client side ----

// Result is the classified outcome of one client request.
type Result struct {
	Resp     *hx.Resp
	Turn     *httpw.Turn
	Req      *Req
	Call     int
	Ret      int
	Outcome  string // resolved | lost | none (no token presented) | deleted | not-deleted | other
	NewToken string // VGI-Session on the response
	Closed   bool   // VGI-Session-Close on the response
}

func (w *World) headers(token string, accept bool) map[string]string {
	h := map[string]string{}
	if token != "" {
		h[HSession] = token
	}
	if accept {
		h[HSessionAccept] = "true"
	}
	return h
}

func sessionLost(t *httpw.Turn) bool {
	return t != nil && t.Err != nil && t.Err.Meta[hx.KErrorKind] == "session_lost"
}

// Send issues one request for rq (unary, stream init or stream turn) bearing
// token and classifies the outcome.
func (w *World) Send(rq *Req, token string) *Result {
	inst := w.W[rq.Worker].Inst
	id := w.Callers[rq.Caller]
	res := &Result{Req: rq}
	w.syncClock()
	res.Call = w.step()
	var resp *hx.Resp
	switch rq.Act {
	case "sinit":
		body := hx.RawRequestBytes(hx.Int64Batch("req", []int64{rq.ID}, false), hx.M(hx.KMethod, MExch, hx.KReqVersion, "1"))
		resp = httpw.Post(inst, "/"+MExch+"/init", body, id, w.headers(token, false))
	case "pinit":
		body := hx.RawRequestBytes(hx.Int64Batch("req", []int64{rq.ID}, false), hx.M(hx.KMethod, MProd, hx.KReqVersion, "1"))
		resp = httpw.Post(inst, "/"+MProd+"/init", body, id, w.headers(token, false))
	case "turn":
		body := httpw.ContBody(rq.Cursor, rq.Call, false, []int64{rq.ID}, false, hx.Meta{})
		resp = httpw.Post(inst, "/"+MExch+"/exchange", body, id, w.headers(token, false))
	default:
		body := hx.RawRequestBytes(hx.Int64Batch("req", []int64{rq.ID}, false), hx.M(hx.KMethod, MCall, hx.KReqVersion, "1"))
		resp = httpw.Post(inst, "/"+MCall, body, id, w.headers(token, rq.Act == "open"))
	}
	w.syncClock()
	res.Ret = w.step()
	res.Resp = resp
	res.Turn = httpw.Decode(resp)
	res.NewToken = strings.TrimSpace(resp.Header.Get(HSession))
	res.Closed = resp.Header.Get(HSessionClose) != ""
	switch {
	case resp.Panicked != nil:
		res.Outcome = "other"
	case rq.Entered && rq.Saw != nil:
		res.Outcome = "resolved"
	case !rq.Entered && sessionLost(res.Turn):
		res.Outcome = "lost"
	case rq.Entered && token == "":
		res.Outcome = "none"
	default:
		res.Outcome = "other"
	}
	return res
}

// Delete issues DELETE /__session__ bearing token.
func (w *World) Delete(caller, worker int, token string, tokSess *Sess) *Result {
	inst := w.W[worker].Inst
	id := w.Callers[caller]
	res := &Result{}
	legit := tokSess != nil && tokSess.Owner == caller && tokSess.Worker == worker && tokSess.Token == token
	w.syncClock()
	res.Call = w.step()
	if legit {
		tokSess.Deletes++
	}
	hdr := w.headers(token, false)
	if h := id.Header(); h != "" {
		hdr[httpw.IdentHeader] = h
	}
	resp := hx.Do(inst.H, hx.Req{Method: "DELETE", Path: "/__session__", Header: hdr})
	if legit {
		tokSess.Deletes--
	}
	w.syncClock()
	res.Ret = w.step()
	res.Resp = resp
	switch {
	case resp.Panicked != nil:
		res.Outcome = "other"
	case resp.Status == 204:
		res.Outcome = "deleted"
	case resp.Status == 200:
		res.Outcome = "not-deleted"
	default:
		res.Outcome = "other"
	}
	return res
}

// ---- operator ----

// SetDrain flips the drain flag of a worker and records the operation.
func (w *World) SetDrain(worker int, on bool) {
	w.syncClock()
	call := w.step()
	if on {
		w.W[worker].Drain.Drain()
	} else {
		w.W[worker].Drain.ClearDrain()
	}
	kind := "undrain"
	if on {
		kind = "drain"
	}
	w.Record(Op{Kind: kind, Sess: -1, Worker: worker, Call: call, Ret: w.step(), Client: -1})
}

// Shutdown runs DrainHandle.Shutdown on a worker and records the operation.
func (w *World) Shutdown(worker int) {
	wk := w.W[worker]
	w.syncClock()
	call := w.step()
	wk.Shutting = true
	wk.Drain.Shutdown()
	wk.Shutting = false
	wk.ShutDone = true
	w.Record(Op{Kind: "shutdown", Sess: -1, Worker: worker, Call: call, Ret: w.step(), Client: -1})
}

// StopAll shuts every registry down without recording anything (end of run:
// the reaper goroutines must exit before the bubble ends).
func (w *World) StopAll() {
	for _, wk := range w.W {
		wk.Shutting = true
		wk.Drain.Shutdown()
		wk.Shutting = false
	}
}
