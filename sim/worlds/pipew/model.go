package pipew

import (
	"fmt"

	"verifsim/hx"
)

// ExpTurn is the outcome the property statement predicts for one input.
type ExpTurn struct {
	Kind string // data | error | eos
	Logs []hx.LogSpec
	Turn int
	Echo int64
	Meta map[string]string
	Rows int
	// error expectations (class only; C05 owns the type strings)
	ErrType string
	ErrMsg  string
	ErrKind string
	ErrAny  bool // type/message not predicted by the script (framework text)
}

// Expected is the predicted transcript of a call.
type Expected struct {
	Refused  bool // the server answers with a single error stream before dispatch
	InitErr  *ExpTurn
	Header   bool
	InitLogs []hx.LogSpec
	Turns    []ExpTurn
	Cancel   bool // a cancel batch is processed by the server
	// Processed: number of Produce/Exchange calls the server makes.
	Processed int
}

func errTurn(e *hx.ErrSpec) ExpTurn {
	return ExpTurn{Kind: "error", ErrType: e.WantType(), ErrMsg: e.WantMessage(), ErrKind: e.WantKind()}
}

// Predict computes the expected transcript of op from its script and the
// client's plan, following the property statements (C04, C06).
func Predict(op *Op) *Expected {
	ex := &Expected{}
	if op.Bad != "" {
		ex.Refused = true
		return ex
	}
	s := op.Script
	lvl := op.LogLevel
	switch s.Outcome {
	case "error":
		t := errTurn(s.Err)
		t.Logs = hx.VisibleLogs(s.Logs, lvl)
		ex.InitErr = &t
		return ex
	case "panic":
		// the envelope's wording around a panic is the framework's; only the
		// panic value's text is predicted (as a substring)
		t := ExpTurn{Kind: "error", ErrType: "RuntimeError", ErrAny: true, ErrMsg: hx.PanicText(s.Panic, s.Nonce)}
		t.Logs = hx.VisibleLogs(s.Logs, lvl)
		ex.InitErr = &t
		return ex
	case "nilresult", "wrongstate":
		if op.Kind == "stream" {
			t := ExpTurn{Kind: "error", ErrType: "RuntimeError", ErrAny: true}
			ex.InitErr = &t
			return ex
		}
	}
	ex.InitLogs = hx.VisibleLogs(s.Logs, lvl)
	if op.Kind != "stream" {
		return ex
	}
	ex.Header = op.HasHeader && s.Header
	total := op.Inputs
	if total < 1 {
		total = 1
	}
	producer := op.StreamKind == "producer"
	turn := 0
	for k := 0; ; k++ {
		if op.CancelAt == k {
			ex.Cancel = true
			ex.Turns = append(ex.Turns, ExpTurn{Kind: "eos"})
			return ex
		}
		if k >= total {
			ex.Turns = append(ex.Turns, ExpTurn{Kind: "eos"})
			return ex
		}
		var st *hx.Step
		if turn < len(s.Turns) {
			st = &s.Turns[turn]
		}
		echo := int64(0)
		if !producer {
			echo = op.SumOf(k)
		}
		if !producer && op.BadCast {
			// the input cannot be cast to the declared schema: the turn fails
			// before the state sees it
			ex.Turns = append(ex.Turns, ExpTurn{Kind: "error", ErrType: "TypeError", ErrAny: true})
			return ex
		}
		ex.Processed++
		if st == nil {
			if producer {
				ex.Turns = append(ex.Turns, ExpTurn{Kind: "eos"})
				return ex
			}
			ex.Turns = append(ex.Turns, ExpTurn{Kind: "data", Turn: turn, Echo: echo, Rows: 1})
			turn++
			continue
		}
		// stream-turn logs are not level-filtered by the collector
		logs := st.Logs
		switch st.Act {
		case "emit", "emitunsealable", "iceptretry": // (on a pipe the state is never serialised)
			rows := 1
			if st.Rows > 1 {
				rows = st.Rows
			}
			ex.Turns = append(ex.Turns, ExpTurn{Kind: "data", Logs: logs, Turn: turn, Echo: echo, Meta: st.Meta, Rows: rows})
			turn++
		case "finish", "finishx":
			if producer {
				ex.Turns = append(ex.Turns, ExpTurn{Kind: "eos", Logs: logs})
			} else {
				ex.Turns = append(ex.Turns, ExpTurn{Kind: "error", ErrAny: true, ErrType: "RuntimeError"})
			}
			return ex
		case "error", "emiterror":
			ex.Turns = append(ex.Turns, errTurn(st.Err))
			return ex
		case "panic", "emitpanic":
			ex.Turns = append(ex.Turns, ExpTurn{Kind: "error", ErrType: "RuntimeError", ErrAny: true, ErrMsg: hx.PanicText(st.Panic, s.Nonce)})
			return ex
		case "noemit", "double", "iceptswallow":
			ex.Turns = append(ex.Turns, ExpTurn{Kind: "error", ErrType: "RuntimeError", ErrAny: true})
			return ex
		default:
			panic(fmt.Sprintf("pipew: unknown act %q", st.Act))
		}
	}
}
