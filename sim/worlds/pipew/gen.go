package pipew

import (
	"fmt"

	"verifsim/hx"
	"verifsim/simkern"
)

// GenCfg biases history generation.
type GenCfg struct {
	MinOps, MaxOps int
	Bad            bool // garbage / malformed requests
	BadStream      bool // parameter mismatch on stream methods (client writes its input stream)
	FailBias       int  // out of 10: stream has a failing turn
	InitFail       bool
	Cancel         bool
	Cast           bool
	BadCast        bool // exchange whose inputs cannot be cast to the declared schema
	AfterCancel    bool // the client keeps writing inputs (and a second cancel) after its cancel batch
	ZeroRows       bool // one exchange input has zero rows
	NoHook         bool // some stream states come without a cancel hook
	WriteAhead     bool
	Levels         bool
	InputMeta      bool
	EmitMeta       bool
	MaxTurns       int
	NonceBase      int64
	OnlyUnary      bool
	OnlyStream     bool
	Pad            int
	// ServerVersion: the protocol version the server declares ("" = none).
	// Every request then carries a matching vgi_rpc.protocol_version, except
	// ops with Bad == "protover", which carry a mismatching one.
	ServerVersion string
}

var unaryBad = []string{"nomethod", "badversion", "noversion", "zerorows", "tworows", "unknown", "params-renamed", "params-extra", "params-type"}
var streamBad = []string{"params-renamed", "params-extra", "params-type"}

// Sig is a stable signature of what kind of call an op is (used as the
// violation site; survives minimisation).
func (op *Op) Sig() string {
	s := op.Kind + "/" + op.Method
	if op.Bad != "" {
		return s + "/" + op.Bad
	}
	if op.Script != nil {
		if op.Script.Outcome != "ok" {
			return s + "/init-" + op.Script.Outcome
		}
		for _, t := range op.Script.Turns {
			if t.Act != "emit" {
				return s + "/turn-" + t.Act
			}
		}
	}
	if op.CancelAt >= 0 {
		return s + "/cancel"
	}
	return s + "/ok"
}

// GenOps draws a call history.
func GenOps(tp *simkern.Tape, c GenCfg) []*Op {
	if c.MaxOps < c.MinOps {
		c.MaxOps = c.MinOps
	}
	n := c.MinOps + tp.Draw(c.MaxOps-c.MinOps+1)
	var ops []*Op
	for i := 0; i < n; i++ {
		nonce := c.NonceBase + int64(i) + 1
		op := &Op{CancelAt: -1, ReqID: fmt.Sprintf("rq-%d", nonce)}
		if c.Levels && tp.Bool(1, 2) {
			op.LogLevel = hx.Levels[tp.Draw(len(hx.Levels))] // EXCEPTION included: then no client log may pass
		}
		kind := tp.Weighted([]int{4, 5, 2})
		if c.OnlyUnary {
			kind = 0
		}
		if c.OnlyStream {
			kind = 1
		}
		if kind == 2 && !c.Bad {
			kind = 0
		}
		switch kind {
		case 0: // unary
			op.Kind = "unary"
			op.Method = hx.UnaryMethods[tp.Draw(len(hx.UnaryMethods))]
			op.Script = hx.GenUnaryScript(tp, nonce)
		case 2: // malformed
			op.Kind = "unary"
			op.Method = hx.UnaryMethods[tp.Draw(len(hx.UnaryMethods))]
			op.Script = &hx.Script{Nonce: nonce, Outcome: "ok"}
			op.Bad = unaryBad[tp.Draw(len(unaryBad))]
			if c.ServerVersion != "" && tp.Bool(1, 4) {
				op.Bad = "protover"
			}
			if c.BadStream && tp.Bool(1, 3) {
				m := hx.StreamMethods[tp.Draw(len(hx.StreamMethods))]
				op.Kind = "stream"
				op.Method = m.Name
				op.HasHeader = m.Header
				op.StreamKind = m.Kind
				if m.Kind == "dynamic" {
					op.StreamKind = "producer"
				}
				op.Script.Mode = op.StreamKind
				op.Bad = streamBad[tp.Draw(len(streamBad))]
				if c.ServerVersion != "" && tp.Bool(1, 3) {
					op.Bad = "protover"
				}
				op.Inputs = 1 + tp.Draw(3)
			}
		case 1: // stream
			m := hx.StreamMethods[tp.Draw(len(hx.StreamMethods))]
			op.Kind = "stream"
			op.Method = m.Name
			op.HasHeader = m.Header
			op.StreamKind = m.Kind
			if m.Kind == "dynamic" {
				op.StreamKind = []string{"producer", "exchange"}[tp.Draw(2)]
			}
			op.Script = hx.GenStreamScript(tp, nonce, op.StreamKind, hx.GenOpts{MaxTurns: c.MaxTurns, FailBias: c.FailBias, AllowMeta: c.EmitMeta, Pad: c.Pad, NoHook: c.NoHook, Icept: c.NoHook})
			op.Script.Header = m.Header
			if c.InitFail && tp.Bool(1, 6) {
				hx.GenInitFailure(tp, op.Script)
			}
			op.Inputs = 1 + tp.Draw(len(op.Script.Turns)+2)
			if c.Cancel && tp.Bool(1, 5) {
				op.CancelAt = tp.Draw(op.Inputs)
				if c.AfterCancel && tp.Bool(1, 2) {
					op.AfterCancel = 1 + tp.Draw(3)
					op.SecondCancel = tp.Bool(1, 2)
				}
			}
			if c.ZeroRows && op.StreamKind == "exchange" && tp.Bool(1, 4) {
				op.ZeroRowAt = 1 + tp.Draw(op.Inputs)
			}
			if c.Cast && op.StreamKind == "exchange" && tp.Bool(1, 3) {
				op.Cast = true
			}
			if c.BadCast && op.StreamKind == "exchange" && op.Method != "dyn" && op.Script.Outcome == "ok" && tp.Bool(1, 6) {
				op.BadCast = true
				op.BadCastShape = tp.Draw(4)
				op.Cast = false
			}
			if c.WriteAhead && tp.Bool(1, 3) {
				op.WriteAhead = 1 + tp.Draw(2)
			}
			if c.InputMeta {
				for k := 0; k < op.Inputs; k++ {
					m := hx.Meta{}
					if tp.Bool(1, 3) {
						m = hx.M("user.in", fmt.Sprintf("i%d", k))
					}
					op.InputMeta = append(op.InputMeta, m)
				}
			}
		}
		if c.ServerVersion != "" {
			v := c.ServerVersion
			if op.Bad == "protover" {
				v = []string{"0.0.1", "99.0.0", "", "1.2.3-rc1", c.ServerVersion + ".0"}[tp.Draw(5)]
			}
			op.Extra = op.Extra.Add(hx.KProtoVer, v)
		}
		ops = append(ops, op)
	}
	return ops
}

// Describe renders a history compactly.
func Describe(ops []*Op) []string {
	var out []string
	for _, op := range ops {
		s := op.Sig()
		if op.Kind == "stream" {
			s += fmt.Sprintf(" inputs=%d cancelAt=%d ahead=%d cast=%v [%s]", op.Inputs, op.CancelAt, op.WriteAhead, op.Cast, op.Script.Describe())
		}
		out = append(out, s)
	}
	return out
}
