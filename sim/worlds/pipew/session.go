// Package pipew is world P: one real Server serving a simulated duplex byte
// stream, and a stub protocol client (written on arrow-go IPC directly) that
// follows the documented client discipline: write the request stream; for a
// stream call open the input stream and write the first tick/input before
// reading anything; then lockstep one input per output; on an exception, on
// EOS, after a cancel batch or when abandoning, write the input stream's EOS.
package pipew

import (
	"context"
	"fmt"
	"io"

	"verifsim/hx"
	"verifsim/simkern"

	"github.com/Query-farm/vgi-rpc-go/vgirpc"
	"github.com/apache/arrow-go/v18/arrow"
	"github.com/apache/arrow-go/v18/arrow/ipc"
)

// Op is one call of a session.
type Op struct {
	Kind   string // unary | stream | raw
	Method string
	Script *hx.Script
	// Declared: what the method registry says about Method.
	StreamKind string // producer | exchange (resolved for dynamic)
	HasHeader  bool
	ReqID      string
	LogLevel   string
	Extra      hx.Meta // extra request metadata (protocol version ...)
	// Bad: request mutation answered by the server with an error stream:
	// "" | nomethod | badversion | noversion | zerorows | tworows | unknown |
	// params-renamed | params-extra | params-type
	Bad string
	// Raw: complete request bytes to send instead (Kind raw).
	Raw []byte
	// stream driving
	Inputs   int  // inputs/ticks the client intends to send (upper bound)
	CancelAt int  // -1 none; k: the k-th input (0-based) is a cancel batch
	Cast     bool // exchange inputs sent as int32 (castable)
	// BadCast: the exchange inputs are sent with a non-castable column type
	// (utf8 "x" for the declared int64): the cast fails on the first turn.
	BadCast bool
	// BadCastShape: 0 a string column "x"; 1 the declared column plus an extra
	// trailing one; 2 a column with another name; 3 no columns at all (empty schema)
	BadCastShape int
	WriteAhead   int // extra inputs written before reading the previous output
	// AfterCancel: inputs the client still writes after its cancel batch before
	// closing the input stream (the last of them another cancel batch when
	// SecondCancel). No turn may run for them and the cancel hook runs once.
	AfterCancel  int
	SecondCancel bool
	// ZeroRowAt: k+1 of the exchange input sent with zero rows (0 = none).
	ZeroRowAt int
	InputMeta []hx.Meta
	// Expect: filled by the generator/oracle helpers.
	ExpectErr bool
}

// TurnOut is what the client received for one input.
type TurnOut struct {
	Logs []hx.Batch
	Data *hx.Batch
	Err  *hx.Batch
	EOS  bool
}

// OpResult is the client-side transcript of one call.
type OpResult struct {
	Op         *Op
	First      *hx.Stream // unary response, or header stream, or init-error stream
	Header     *hx.Batch
	InitLogs   []hx.Batch
	Turns      []TurnOut
	Sent       int // inputs written (including a cancel batch)
	Cancelled  bool
	Ended      string // result | error | eos | cancel | abandon
	ClientErr  error  // framing / parse trouble seen by the client
	AllBatch   []hx.Batch
	DataSchema string
}

// Session is one connection's worth of calls.
type Session struct {
	Sim          *simkern.Sim
	Srv          *vgirpc.Server
	Ops          []*Op
	Results      []*OpResult
	Frag         int
	YieldOnWrite bool
	// ServerReturned is set when ServeWithContext returns.
	ServerReturned         bool
	ClientDone             bool
	CConn, SConn           *hx.Conn
	ServerTask, ClientTask *simkern.Task
	// Serve, when set, replaces srv.ServeWithContext (unix/tcp variants).
	Serve   func(ctx context.Context, conn *hx.Conn)
	WireS2C []byte
	// Shm: a client-owned shared-memory segment. Advertise decides per call
	// whether the request carries the segment name/size; ShmSend makes the
	// client ship request and input batches through the segment when they fit.
	// The client resolves and frees every pointer batch it receives.
	Shm          *vgirpc.ShmSegment
	Advertise    func(op *Op) bool
	ShmSend      bool
	ShmResolved  int
	ShmSentCount int
	ShmDeferred  int // pointer batches held until end of stream (write-ahead ops)
	ShmErr       error
	advertised   bool
	// Hold, when set, decides per pointer batch of a unary response whether the
	// client keeps it unresolved for now (a client that consumes results
	// lazily); ReleaseNow is asked between calls — when the server is idle, as
	// the segment's one-party-at-a-time contract requires — which held pointer
	// to resolve and free next (-1: none now). Everything still held is
	// resolved and freed, in ReleaseNow's order, before the client disconnects.
	// EarlyEnd (set by a check before judging): streams, by nonce, that the
	// server ended early because their per-call context was cancelled.
	EarlyEnd map[int64]bool
	// AdvertiseBogus decides per call (that does not advertise the real segment)
	// whether the request advertises a segment the server cannot attach.
	AdvertiseBogus func(op *Op) bool
	BogusSent      int
	bogusN         int
	onBogus        bool
	Hold           func() bool
	ReleaseNow     func(n int, final bool) int
	held           []*heldPtr
	HeldMax        int
	// ExtInput, when set, may replace a (non-cancel) stream input by an
	// external-location pointer batch the server has to fetch and resolve.
	ExtInput func(op *Op, k int, b arrow.RecordBatch) arrow.RecordBatch
	// Pipeline: how many following unary-shaped requests the client writes
	// before it reads the response of the current one (0 = lockstep).
	Pipeline   int
	prewritten map[*Op]bool
	// S2CCutAt >= 1: the server->client direction breaks after that many bytes
	// (peer hang-up mid-response; the server's next write fails).
	S2CCutAt int
	// Connect, when set, supplies the client's end of a connection whose server
	// side is run by someone else (a listener world); CanConnect is the guard
	// the client waits on before calling it.
	Connect    func() (*hx.Conn, error)
	CanConnect func() bool
}

// resolve is the response-side hook: a shared-memory pointer batch is
// materialised from the client's segment and its slot freed.
func (s *Session) resolve(rec arrow.RecordBatch) (arrow.RecordBatch, bool) {
	if s.Shm == nil || !vgirpc.IsShmPointerBatch(rec) {
		return rec, false
	}
	if s.onBogus {
		// the call advertised a segment the server cannot have opened: whatever
		// this pointer refers to, it is not in a segment of this call
		if s.ShmErr == nil {
			s.ShmErr = fmt.Errorf("a pointer batch arrived on a call that advertised a segment the server cannot open")
		}
		return rec, false
	}
	out, off, release, err := vgirpc.ResolveShmBatch(rec, s.Shm)
	if err != nil {
		if s.ShmErr == nil {
			s.ShmErr = fmt.Errorf("client could not resolve a pointer batch: %w", err)
		}
		return rec, false
	}
	if release {
		_ = s.Shm.FreeOffset(off)
	}
	s.ShmResolved++
	return out, true
}

type heldPtr struct {
	rec arrow.RecordBatch
	res *OpResult
	idx int
}

// releaseHeld resolves held pointer i now: its slot's bytes are read only at
// this moment, decoded into the result it belongs to, and the slot is freed.
func (s *Session) releaseHeld(i int) {
	p := s.held[i]
	s.held = append(s.held[:i], s.held[i+1:]...)
	out, off, release, err := vgirpc.ResolveShmBatch(p.rec, s.Shm)
	if err != nil {
		if s.ShmErr == nil {
			s.ShmErr = fmt.Errorf("client could not resolve a pointer batch it had held: %w", err)
		}
		p.rec.Release()
		return
	}
	p.res.AllBatch[p.idx] = hx.DecodeBatch(out)
	if release {
		_ = s.Shm.FreeOffset(off)
	}
	out.Release()
	p.rec.Release()
	s.ShmResolved++
}

// drainHeld lets ReleaseNow release held pointers (final: all of them).
func (s *Session) drainHeld(final bool) {
	for len(s.held) > 0 {
		i := 0
		if s.ReleaseNow != nil {
			i = s.ReleaseNow(len(s.held), final)
		}
		if i < 0 || i >= len(s.held) {
			if !final {
				return
			}
			i = 0
		}
		s.releaseHeld(i)
	}
}

// viaShm ships b through the client's segment when enabled and it fits.
func (s *Session) viaShm(b arrow.RecordBatch) arrow.RecordBatch {
	// only after the segment has been advertised on this connection
	if s.Shm == nil || !s.ShmSend || !s.advertised {
		return b
	}
	out, replaced, err := vgirpc.MaybeWriteToShm(b, s.Shm)
	if err != nil || !replaced {
		return b
	}
	b.Release()
	s.ShmSentCount++
	return out
}

// Start spawns the server and client tasks.
func (s *Session) Start(name string) {
	s.prewritten = map[*Op]bool{}
	if s.Connect == nil {
		s.CConn, s.SConn = hx.NewConnPair(name)
		s.CConn.R.Frag, s.SConn.R.Frag = s.Frag, s.Frag
		s.SConn.W.YieldOnWrite = s.YieldOnWrite
		s.CConn.W.YieldOnWrite = s.YieldOnWrite
		s.SConn.W.Log = &s.WireS2C
		if s.S2CCutAt > 0 {
			s.SConn.W.CutAt = s.S2CCutAt
		}
		s.ServerTask = s.Sim.Spawn(name+".server", func() {
			if s.Serve != nil {
				s.Serve(context.Background(), s.SConn)
			} else {
				s.Srv.ServeWithContext(context.Background(), s.SConn, s.SConn)
			}
			s.ServerReturned = true
			_ = s.SConn.Close()
		})
	}
	s.ClientTask = s.Sim.Spawn(name+".client", func() {
		if s.Connect != nil {
			// the server side is somebody else's (a listener world): wait until
			// a connection can be made, then talk over it
			if s.CanConnect != nil {
				s.Sim.Yield("client.connect", s.CanConnect)
			}
			c, err := s.Connect()
			if err != nil {
				s.Results = append(s.Results, &OpResult{Op: &Op{Kind: "connect", Script: &hx.Script{}}, ClientErr: err})
				s.ClientDone = true
				return
			}
			s.CConn = c
		}
		for i, op := range s.Ops {
			if s.Pipeline > 0 && op.Kind != "stream" {
				// pipelining: the next requests go out before this response is read
				if !s.prewritten[op] {
					_ = s.write(s.requestBytes(op))
					s.prewritten[op] = true
				}
				for j := 1; j <= s.Pipeline && i+j < len(s.Ops) && s.Ops[i+j].Kind != "stream"; j++ {
					if nx := s.Ops[i+j]; !s.prewritten[nx] {
						_ = s.write(s.requestBytes(nx))
						s.prewritten[nx] = true
					}
				}
			}
			if s.Pipeline == 0 {
				s.drainHeld(false)
			}
			r := s.runOp(op)
			s.Results = append(s.Results, r)
			if r.ClientErr != nil {
				break
			}
		}
		s.drainHeld(true)
		s.ClientDone = true
		_ = s.CConn.Close()
	})
}

// Done reports whether both parties have finished.
func (s *Session) Done() bool {
	if s.ServerTask == nil {
		return s.ClientTask.Done()
	}
	return s.ServerTask.Done() && s.ClientTask.Done()
}

// RequestBytes frames op's request (also used by the HTTP worlds, which post
// the same bytes as the request body).
func RequestBytes(op *Op) []byte { return (&Session{}).requestBytes(op) }

func (s *Session) requestBytes(op *Op) []byte {
	if op.Kind == "raw" {
		return op.Raw
	}
	m := hx.Meta{}
	switch op.Bad {
	case "nomethod":
		m = hx.M(hx.KReqVersion, "1")
	case "badversion":
		m = hx.M(hx.KMethod, op.Method, hx.KReqVersion, "2")
	case "noversion":
		m = hx.M(hx.KMethod, op.Method)
	case "unknown":
		m = hx.M(hx.KMethod, "no_such_method_"+op.Method, hx.KReqVersion, "1")
	default:
		m = hx.M(hx.KMethod, op.Method, hx.KReqVersion, "1")
	}
	if op.ReqID != "" {
		m = m.Add(hx.KReqID, op.ReqID)
	}
	if op.LogLevel != "" {
		m = m.Add(hx.KLogLevel, op.LogLevel)
	}
	m.Keys = append(m.Keys, op.Extra.Keys...)
	m.Vals = append(m.Vals, op.Extra.Vals...)
	s.onBogus = false
	if s.Shm != nil && s.Advertise != nil && s.Advertise(op) {
		m = m.Add(hx.KShmName, s.Shm.Name()).Add(hx.KShmSize, fmt.Sprint(s.Shm.Size()))
		s.advertised = true
	} else if s.Shm != nil && s.AdvertiseBogus != nil && op.Bad == "" && s.AdvertiseBogus(op) {
		// the client rotates to a segment the server cannot open (its name is
		// already gone): this call has to be served without shared memory, and
		// the connection has no segment until one is advertised again
		s.bogusN++
		m = m.Add(hx.KShmName, fmt.Sprintf("/vgi-sim-gone-%d", s.bogusN)).Add(hx.KShmSize, "70000")
		s.advertised = false
		s.onBogus = true
		s.BogusSent++
	}
	var b arrow.RecordBatch
	sc := op.Script.Encode()
	switch op.Bad {
	case "zerorows":
		b = hx.StringBatchN([]string{"script"}, nil)
	case "tworows":
		b = hx.StringBatchN([]string{"script"}, [][]string{{sc}, {sc}})
	case "params-renamed":
		b = hx.StringBatch([]string{"skript"}, []string{sc})
	case "params-extra":
		b = hx.StringBatch([]string{"script", "more"}, []string{sc, "x"})
	case "params-type":
		b = hx.Int64Batch("script", []int64{1}, false)
	default:
		b = hx.StringBatch([]string{"script"}, []string{sc})
	}
	if s.Shm != nil && s.ShmSend && op.Bad == "" {
		wb := s.viaShm(hx.WithMeta(b, m))
		defer wb.Release()
		return hx.EncodeStream(wb.Schema(), wb)
	}
	return hx.RawRequestBytes(b, m)
}

func (s *Session) write(b []byte) error {
	_, err := s.CConn.Write(b)
	return err
}

// inputBatch builds the k-th input of a stream call.
func inputBatch(op *Op, k int, cancel bool) arrow.RecordBatch {
	var b arrow.RecordBatch
	if op.StreamKind == "exchange" {
		if op.BadCast && op.BadCastShape == 3 {
			// the client opened its input stream with an empty schema (it never
			// meant to send data): every batch of that stream, the cancel batch
			// included, has no columns
			b = hx.EmptyBatch()
		} else if cancel && op.BadCast && op.BadCastShape == 1 {
			b = hx.Int64Cols([]string{"x", "z"}, nil)
		} else if cancel && op.BadCast && op.BadCastShape == 2 {
			b = hx.Int64Cols([]string{"y"}, nil)
		} else if cancel && op.BadCast {
			// same (non-castable) schema as the rest of this input stream
			b = hx.StringBatchN([]string{"x"}, nil)
		} else if cancel {
			b = hx.Int64Batch("x", nil, op.Cast)
		} else if op.BadCast && op.BadCastShape == 1 {
			b = hx.Int64Cols([]string{"x", "z"}, []int64{int64(k + 1)})
		} else if op.BadCast && op.BadCastShape == 2 {
			b = hx.Int64Cols([]string{"y"}, []int64{int64(k + 1)})
		} else if op.BadCast {
			b = hx.StringBatch([]string{"x"}, []string{"not-a-number"})
		} else if op.ZeroRowAt == k+1 {
			b = hx.Int64Batch("x", []int64{}, op.Cast)
		} else {
			b = hx.Int64Batch("x", []int64{int64(k + 1), int64(10 * (k + 1))}, op.Cast)
		}
	} else {
		b = hx.EmptyBatch()
	}
	m := hx.Meta{}
	if k < len(op.InputMeta) {
		m = op.InputMeta[k]
	}
	if cancel {
		m = m.Add(hx.KCancel, "1")
	}
	if len(m.Keys) > 0 {
		b = hx.WithMeta(b, m)
	}
	return b
}

// InputSum is the sum the exchange state computes for a regular input k.
func InputSum(k int) int64 { return int64(k+1) + int64(10*(k+1)) }

// SumOf is the sum the exchange state must compute for op's input k.
func (op *Op) SumOf(k int) int64 {
	if op.ZeroRowAt == k+1 {
		return 0
	}
	return InputSum(k)
}

// InputValues are the values of op's exchange input k.
func (op *Op) InputValues(k int) []int64 {
	if op.ZeroRowAt == k+1 {
		return []int64{}
	}
	return []int64{int64(k + 1), int64(10 * (k + 1))}
}

func (s *Session) runOp(op *Op) *OpResult {
	res := &OpResult{Op: op}
	s.Sim.Y("client.op")
	if !s.prewritten[op] {
		if err := s.write(s.requestBytes(op)); err != nil {
			res.ClientErr = fmt.Errorf("write request: %w", err)
			return res
		}
	}
	if op.Kind != "stream" {
		var pend []*heldPtr
		n := 0
		st, err := hx.ReadStreamFn(s.CConn, func(rec arrow.RecordBatch) (arrow.RecordBatch, bool) {
			n++
			if s.Shm != nil && s.Hold != nil && s.Pipeline == 0 && vgirpc.IsShmPointerBatch(rec) && s.Hold() {
				rec.Retain()
				pend = append(pend, &heldPtr{rec: rec, res: res, idx: n - 1})
				return rec, false
			}
			return s.resolve(rec)
		})
		if err != nil {
			res.ClientErr = fmt.Errorf("read unary response: %w", err)
			for _, p := range pend {
				p.rec.Release()
			}
			return res
		}
		s.held = append(s.held, pend...)
		if len(s.held) > s.HeldMax {
			s.HeldMax = len(s.held)
		}
		res.First = st
		res.AllBatch = st.Batches
		res.Ended = "result"
		for i := range st.Batches {
			if st.Batches[i].Kind == "error" {
				res.Ended = "error"
			}
		}
		return res
	}
	// ---- stream call ----
	var inSchema *arrow.Schema
	first := inputBatch(op, 0, op.CancelAt == 0)
	inSchema = first.Schema()
	iw := ipc.NewWriter(s.CConn, ipc.WithSchema(inSchema))
	closed := false
	closeInput := func() {
		if !closed {
			closed = true
			_ = iw.Close()
		}
	}
	defer closeInput()
	sendInput := func(k int) error {
		cancel := op.CancelAt == k
		b := first
		if k > 0 {
			b = inputBatch(op, k, cancel)
		}
		// The client ships an input through its segment only when the server is
		// certain to consume (resolve and free) it: lockstep exchange inputs
		// after the first. The first input is written before anything is read
		// and is discarded unresolved when the init handler fails; write-ahead
		// inputs are discarded when the stream ends early. Those allocations
		// would be the client's own to reclaim, not pointers it "received".
		if !cancel && k >= 1 && op.WriteAhead == 0 {
			b = s.viaShm(b)
		}
		if !cancel && s.ExtInput != nil {
			b = s.ExtInput(op, k, b)
		}
		err := iw.Write(b)
		b.Release()
		res.Sent++
		if cancel {
			res.Cancelled = true
			for j := 0; j < op.AfterCancel && err == nil; j++ {
				extra := inputBatch(op, k+1+j, op.SecondCancel && j == op.AfterCancel-1)
				err = iw.Write(extra)
				extra.Release()
			}
		}
		return err
	}
	total := op.Inputs
	if total < 1 {
		total = 1
	}
	if op.CancelAt >= 0 && op.CancelAt < total {
		total = op.CancelAt + 1
	}
	// the client writes before reading
	if err := sendInput(0); err != nil {
		res.ClientErr = fmt.Errorf("write first input: %w", err)
		return res
	}
	if op.CancelAt == 0 {
		closeInput()
	}
	next := 1
	for a := 0; a < op.WriteAhead && next < total && !res.Cancelled; a++ {
		if err := sendInput(next); err != nil {
			res.ClientErr = err
			return res
		}
		next++
	}
	if res.Cancelled {
		closeInput()
	}
	// first response stream: header, init error, or (no declared header) data
	var rd *ipc.Reader
	var err error
	if op.HasHeader {
		st, rerr := hx.ReadStreamFn(s.CConn, s.resolve)
		if rerr != nil {
			res.ClientErr = fmt.Errorf("read header stream: %w", rerr)
			return res
		}
		res.First = st
		res.AllBatch = append(res.AllBatch, st.Batches...)
		isErr := false
		for i := range st.Batches {
			b := st.Batches[i]
			switch b.Kind {
			case "error":
				isErr = true
			case "log":
				res.InitLogs = append(res.InitLogs, b)
			default:
				bb := b
				res.Header = &bb
			}
		}
		if isErr {
			res.Ended = "error"
			t := TurnOut{}
			for i := range st.Batches {
				if st.Batches[i].Kind == "error" {
					bb := st.Batches[i]
					t.Err = &bb
				}
			}
			res.Turns = append(res.Turns, t)
			closeInput()
			return res
		}
	}
	rd, err = ipc.NewReader(s.CConn)
	if err != nil {
		res.ClientErr = fmt.Errorf("open data stream: %w", err)
		return res
	}
	defer rd.Release()
	res.DataSchema = rd.Schema().String()
	answered := 0 // inputs for which the turn's outcome has been read
	cur := TurnOut{}
	// The shared-memory side channel has no inter-process lock: its contract is
	// that only one party touches the segment at a time (shm.go, "lockstep").
	// A client that writes inputs ahead has the server working on the next turn
	// (allocating its output) while the previous output is being read, so such
	// a client may not touch the segment until the server has finished the
	// stream: it keeps the pointer batches and resolves and frees them all
	// after the end-of-stream marker.
	deferShm := s.Shm != nil && op.WriteAhead > 0
	type heldPtr struct {
		rec      arrow.RecordBatch
		all, trn int
	}
	var held []heldPtr
	defer func() {
		for _, h := range held {
			rec, owned := s.resolve(h.rec)
			b := hx.DecodeBatch(rec)
			if owned {
				rec.Release()
			}
			h.rec.Release()
			res.AllBatch[h.all] = b
			if h.trn < len(res.Turns) {
				bb := b
				res.Turns[h.trn].Data = &bb
			}
		}
	}()
	for {
		if !rd.Next() {
			if rerr := rd.Err(); rerr != nil && rerr != io.EOF {
				res.ClientErr = fmt.Errorf("read data stream: %w", rerr)
				return res
			}
			cur.EOS = true
			res.Turns = append(res.Turns, cur)
			if res.Ended == "" {
				if res.Cancelled {
					res.Ended = "cancel"
				} else if closed {
					res.Ended = "abandon"
				} else {
					res.Ended = "eos"
				}
			}
			closeInput()
			return res
		}
		var b hx.Batch
		if raw := rd.RecordBatch(); deferShm && vgirpc.IsShmPointerBatch(raw) {
			raw.Retain()
			held = append(held, heldPtr{rec: raw, all: len(res.AllBatch), trn: len(res.Turns)})
			s.ShmDeferred++
			b = hx.Batch{Kind: "data"} // filled in after end of stream
		} else {
			rec, owned := s.resolve(raw)
			b = hx.DecodeBatch(rec)
			if owned {
				rec.Release()
			}
		}
		res.AllBatch = append(res.AllBatch, b)
		switch b.Kind {
		case "log":
			cur.Logs = append(cur.Logs, b)
		case "error":
			bb := b
			cur.Err = &bb
			res.Turns = append(res.Turns, cur)
			cur = TurnOut{}
			res.Ended = "error"
			closeInput()
			// keep reading to EOS
		default:
			bb := b
			cur.Data = &bb
			res.Turns = append(res.Turns, cur)
			cur = TurnOut{}
			answered++
			if res.Ended == "" && !closed {
				if next < total {
					if serr := sendInput(next); serr != nil {
						res.ClientErr = serr
						return res
					}
					next++
					if res.Cancelled {
						closeInput()
					}
				} else {
					// the client has nothing more to send: abandon (EOS)
					closeInput()
				}
			}
		}
	}
}
