package pipew

import (
	"fmt"

	"verifsim/hx"
	"verifsim/simkern"

	"github.com/Query-farm/vgi-rpc-go/vgirpc"
)

// Knobs are the transport faults of one session.
type Knobs struct {
	Frag         int  // max bytes per Read (0 = unlimited)
	YieldOnWrite bool // every Write is a scheduling point (delivery delay)
}

// DrawKnobs draws transport knobs (0 = simplest: no fragmentation).
func DrawKnobs(tp *simkern.Tape) Knobs {
	return Knobs{Frag: tp.Pick(0, 1, 3, 7, 64, 0), YieldOnWrite: tp.Bool(1, 3)}
}

// NewServer builds a real Server with the scripted methods.
func NewServer(configure func(*vgirpc.Server)) *vgirpc.Server {
	srv := vgirpc.NewServer()
	srv.SetServerID("pipe-srv")
	hx.Register(srv)
	if configure != nil {
		configure(srv)
	}
	return srv
}

// RunSession runs one session to completion under the simulator and returns
// the stop reason. Fault counters are recorded on the Sim.
func RunSession(sim *simkern.Sim, s *Session, k Knobs, maxSteps int) simkern.StopReason {
	s.Sim = sim
	s.Frag = k.Frag
	s.YieldOnWrite = k.YieldOnWrite
	s.Start("c0")
	reason, _ := sim.Run(simkern.RunOpts{MaxSteps: maxSteps, Done: s.Done})
	if k.Frag > 0 {
		sim.Fault("read-fragmentation")
	}
	if k.YieldOnWrite {
		sim.Fault("write-delay")
	}
	for _, op := range s.Ops {
		if op.WriteAhead > 0 {
			sim.Fault("client-write-ahead")
		}
		if op.CancelAt >= 0 {
			sim.Fault("client-cancel")
		}
		if op.Bad != "" {
			sim.Fault("malformed-request")
		}
	}
	return reason
}

// StuckDetail describes a deadlocked session.
func (s *Session) StuckDetail() string {
	done := len(s.Results)
	cur := "none"
	if done < len(s.Ops) {
		cur = s.Ops[done].Sig()
	}
	return fmt.Sprintf("completed %d of %d calls; stuck in %s; %s", done, len(s.Ops), cur, s.Sim.Stuck())
}
