// Package authw is the authority seam of world H: error values an
// AuthenticateFunc can return, described as trees drawn from the tape so that
// a check can build the real error value and, independently, reason about its
// structure (what is wrapped in what, through which kind of wrapper).
package authw

import (
	"errors"
	"fmt"
	"strings"

	"verifsim/simkern"

	"github.com/Query-farm/vgi-rpc-go/vgirpc"
)

// Node kinds.
const (
	KUnavail = "unavail" // *vgirpc.AuthUnavailableError
	KFailure = "failure" // *vgirpc.AuthFailure
	KRpc     = "rpc"     // *vgirpc.RpcError
	KForeign = "foreign" // errors.New
	KWrap    = "wrap"    // fmt.Errorf("...: %w", kid)            Unwrap() error
	KCWrap   = "cwrap"   // harness error type with Unwrap() error
	KJoin    = "join"    // errors.Join(kid0, kid1)               Unwrap() []error
	KMulti   = "multi"   // fmt.Errorf("%w / %w", kid0, kid1)     Unwrap() []error
)

// ErrSpec is a description of an error value.
type ErrSpec struct {
	Kind   string     `json:"k"`
	Retry  int        `json:"ra,omitempty"`     // KUnavail: RetryAfter seconds, 0 = unset
	Reason string     `json:"reason,omitempty"` // KFailure
	Type   string     `json:"type,omitempty"`   // KRpc
	Kids   []*ErrSpec `json:"kids,omitempty"`
}

// ctxErr is a harness wrapper type with a single-error Unwrap.
type ctxErr struct {
	msg   string
	inner error
}

func (e *ctxErr) Error() string { return e.msg + ": " + e.inner.Error() }
func (e *ctxErr) Unwrap() error { return e.inner }

// Build constructs the real error value.
func (s *ErrSpec) Build() error {
	switch s.Kind {
	case KUnavail:
		return &vgirpc.AuthUnavailableError{Detail: "authority down", RetryAfter: s.Retry}
	case KFailure:
		return &vgirpc.AuthFailure{Reason: vgirpc.AuthReason(s.Reason), Detail: "scripted rejection"}
	case KRpc:
		return &vgirpc.RpcError{Type: s.Type, Message: "scripted rpc error"}
	case KForeign:
		return errors.New("scripted foreign error")
	case KWrap:
		return fmt.Errorf("validating credential: %w", s.Kids[0].Build())
	case KCWrap:
		return &ctxErr{msg: "authority call", inner: s.Kids[0].Build()}
	case KJoin:
		return errors.Join(s.Kids[0].Build(), s.Kids[1].Build())
	case KMulti:
		return fmt.Errorf("%w / %w", s.Kids[0].Build(), s.Kids[1].Build())
	}
	return errors.New("bad spec")
}

// String renders the tree compactly.
func (s *ErrSpec) String() string {
	switch s.Kind {
	case KUnavail:
		if s.Retry > 0 {
			return fmt.Sprintf("Unavailable(ra=%d)", s.Retry)
		}
		return "Unavailable"
	case KFailure:
		return fmt.Sprintf("AuthFailure(%q)", s.Reason)
	case KRpc:
		return fmt.Sprintf("RpcError(%q)", s.Type)
	case KForeign:
		return "foreign"
	}
	var ks []string
	for _, k := range s.Kids {
		ks = append(ks, k.String())
	}
	return s.Kind + "(" + strings.Join(ks, ", ") + ")"
}

// Leaves returns every leaf of the tree in depth-first order.
func (s *ErrSpec) Leaves() []*ErrSpec {
	if len(s.Kids) == 0 {
		return []*ErrSpec{s}
	}
	var out []*ErrSpec
	for _, k := range s.Kids {
		out = append(out, k.Leaves()...)
	}
	return out
}

// LinearTail follows single-error wrappers (Unwrap() error) from the root and
// returns the node at which that chain ends: a leaf, or a multi-error node
// (errors.Join / several %w) which has no Unwrap() error.
func (s *ErrSpec) LinearTail() *ErrSpec {
	n := s
	for n.Kind == KWrap || n.Kind == KCWrap {
		n = n.Kids[0]
	}
	return n
}

// Reasons is the closed set of reason codes (the six declared AuthReason
// constants), restated here from the documentation of unauthorized.go.
var Reasons = []string{"unauthorized", "missing_credential", "invalid_credential", "expired_credential", "insufficient_scope", "proxy_required"}

// RpcTypes are the RpcError types drawn.
var RpcTypes = []string{"ValueError", "PermissionError", "RuntimeError", "TypeError", "KeyError", "", "AuthError"}

// GenLeaf draws a leaf. Value 0 of every draw is the plainest choice (a
// directly returned ValueError RpcError — the classic "credential not mine").
func GenLeaf(tp *simkern.Tape) *ErrSpec {
	switch tp.Draw(4) {
	case 0:
		return &ErrSpec{Kind: KRpc, Type: RpcTypes[tp.Draw(len(RpcTypes))]}
	case 1:
		// the empty reason is the zero value of the struct field
		rs := append([]string{}, Reasons...)
		rs = append(rs, "")
		return &ErrSpec{Kind: KFailure, Reason: rs[tp.Draw(len(rs))]}
	case 2:
		return &ErrSpec{Kind: KUnavail, Retry: tp.Pick(0, 1, 7, 30, 120)}
	}
	return &ErrSpec{Kind: KForeign}
}

// Gen draws an error tree of at most maxDepth wrapper levels.
func Gen(tp *simkern.Tape, maxDepth int) *ErrSpec {
	if maxDepth <= 0 {
		return GenLeaf(tp)
	}
	switch tp.Draw(8) {
	case 0, 1, 2:
		return GenLeaf(tp)
	case 3, 4:
		return &ErrSpec{Kind: KWrap, Kids: []*ErrSpec{Gen(tp, maxDepth-1)}}
	case 5:
		return &ErrSpec{Kind: KCWrap, Kids: []*ErrSpec{Gen(tp, maxDepth-1)}}
	case 6:
		a, b := Gen(tp, maxDepth-1), Gen(tp, maxDepth-1)
		if tp.Bool(1, 2) {
			a, b = b, a
		}
		return &ErrSpec{Kind: KJoin, Kids: []*ErrSpec{a, b}}
	}
	a, b := Gen(tp, maxDepth-1), Gen(tp, maxDepth-1)
	return &ErrSpec{Kind: KMulti, Kids: []*ErrSpec{a, b}}
}

// FaultKind names the fault counter for an outcome (by its most significant
// leaf: unavailable > failure > rpc > foreign).
func (s *ErrSpec) FaultKind() string {
	has := map[string]bool{}
	for _, l := range s.Leaves() {
		has[l.Kind] = true
	}
	switch {
	case has[KUnavail]:
		return "auth-unavailable"
	case has[KFailure]:
		return "auth-failure"
	case has[KRpc]:
		return "auth-rpcerror"
	}
	return "auth-foreign-error"
}

// Wrapped reports whether the root is a wrapper node.
func (s *ErrSpec) Wrapped() bool { return len(s.Kids) > 0 }
