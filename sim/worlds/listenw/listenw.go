// Package listenw is world U: a simulated listening socket behind the woven
// net.Listen seam, so that the real Server.RunUnix / Server.RunTcp accept loop,
// per-connection goroutines and idle timer run under the simulator.
//
// The listener models what the kernel and the net package do for a real one:
//
//   - a connection is established (Dial returns) as soon as it is queued in
//     the backlog, before the server calls Accept;
//   - Accept parks the calling task until a connection is queued or the
//     listener is closed; after Close it fails with net.ErrClosed wrapped in a
//     *net.OpError ("use of closed network connection");
//   - connections still in the backlog when the listener closes are reset
//     (the client sees EOF / broken pipe) and never reach the server;
//   - binding a unix listener creates a file at the path (here a regular
//     stand-in file inside a per-run scratch directory, mode 0755 like a socket
//     bound under umask 022), binding over an existing file fails with
//     EADDRINUSE, and the first Close unlinks the file, as
//     (*net.UnixListener).Close does for listeners made by net.Listen.
//
// The world records, per connection, when it was dialled, accepted, first read
// by the server and closed (by which side), and calls OnStop at the first
// Close of a listener so that a check can judge that instant.
package listenw

import (
	"fmt"
	"net"
	"os"
	"path/filepath"
	"strconv"
	"syscall"
	"time"

	"verifsim/hx"
	"verifsim/simkern"
)

// ConnRec is the history of one simulated connection.
type ConnRec struct {
	ID     int
	Name   string
	Client net.Conn // the client's end
	cli    *hx.Conn
	srv    *hx.Conn

	DialAt   time.Duration
	Accepted bool // handed out by Accept
	AcceptAt time.Duration
	// Refused: reset because the listener closed while the connection was
	// still in the backlog.
	Refused bool
	// SrvRead: the server has started a Read on its end. WasOpen: it did so
	// while neither side had closed the connection.
	SrvRead   bool
	SrvReadAt time.Duration
	WasOpen   bool
	// ClosedAt is the instant of the first Close on either end (-1 = none).
	ClosedAt time.Duration
	ClosedBy string // client | server | listener
}

// Open reports whether the connection is open in the narrow sense used by the
// C42 oracle: the server has started serving it (first read) and neither end
// has been closed.
func (c *ConnRec) Open() bool { return c.WasOpen && c.ClosedAt < 0 }

func (c *ConnRec) noteClose(now time.Duration, by string) {
	if c.ClosedAt < 0 {
		c.ClosedAt = now
		c.ClosedBy = by
	}
}

// srvEnd is the server's end of a connection; it notes the first Read.
type srvEnd struct {
	*hx.Conn
	rec *ConnRec
	w   *World
}

func (s *srvEnd) Read(b []byte) (int, error) {
	if !s.rec.SrvRead {
		s.rec.SrvRead = true
		s.rec.SrvReadAt = s.w.Sim.Now()
		if s.rec.ClosedAt < 0 {
			s.rec.WasOpen = true
		}
	}
	return s.Conn.Read(b)
}

// DialOpts shapes one connection's byte delivery.
type DialOpts struct {
	Frag         int  // max bytes per server-side Read (0 = unlimited)
	YieldOnWrite bool // every Write on either end is a scheduling point
}

// Listener is the simulated net.Listener.
type Listener struct {
	w       *World
	Network string
	Address string
	addr    net.Addr
	path    string // unix: stand-in file
	backlog []*ConnRec

	BoundAt  time.Duration
	Accepts  int
	Closed   bool
	ClosedAt time.Duration
	ClosedBy string // server | operator
}

// World owns the listeners and connections of one run.
type World struct {
	Sim *simkern.Sim
	Dir string // per-run scratch directory (never logged)
	// L is the most recent listener (nil until the server binds).
	L       *Listener
	Listens int
	Conns   []*ConnRec
	// OnStop is called at the first Close of a listener, before anything is
	// torn down, with who closed it ("server" = the code under test,
	// "operator" = the harness).
	OnStop func(l *Listener, by string)
}

// New creates the world, its scratch directory and installs the listen hook.
func New(sim *simkern.Sim) (*World, error) {
	dir, err := os.MkdirTemp("/var/tmp", "verif-listenw-")
	if err != nil {
		return nil, err
	}
	w := &World{Sim: sim, Dir: dir}
	simkern.ListenHook = w.listen
	return w, nil
}

// Close removes the hook and the scratch directory.
func (w *World) Close() {
	simkern.ListenHook = nil
	_ = os.RemoveAll(w.Dir)
}

// SocketPath is the path to hand to RunUnix.
func (w *World) SocketPath() string { return filepath.Join(w.Dir, "worker.sock") }

func (w *World) listen(network, address string) (net.Listener, error) {
	l := &Listener{w: w, Network: network, Address: address, BoundAt: w.Sim.Now(), ClosedAt: -1}
	switch network {
	case "unix":
		if _, err := os.Lstat(address); err == nil {
			return nil, &net.OpError{Op: "listen", Net: network, Addr: &net.UnixAddr{Name: address, Net: "unix"}, Err: os.NewSyscallError("bind", syscall.EADDRINUSE)}
		}
		f, err := os.OpenFile(address, os.O_CREATE|os.O_EXCL|os.O_WRONLY, 0o755)
		if err != nil {
			return nil, &net.OpError{Op: "listen", Net: network, Addr: &net.UnixAddr{Name: address, Net: "unix"}, Err: err}
		}
		_ = f.Close()
		_ = os.Chmod(address, 0o755) // independent of the process umask
		l.path = address
		l.addr = &net.UnixAddr{Name: address, Net: "unix"}
	case "tcp":
		host, portS, err := net.SplitHostPort(address)
		if err != nil {
			return nil, &net.OpError{Op: "listen", Net: network, Err: err}
		}
		port, err := strconv.Atoi(portS)
		if err != nil {
			return nil, &net.OpError{Op: "listen", Net: network, Err: err}
		}
		if port == 0 {
			port = 49152 + w.Listens
		}
		l.addr = &net.TCPAddr{IP: net.ParseIP(host), Port: port}
	default:
		return nil, &net.OpError{Op: "listen", Net: network, Err: fmt.Errorf("listenw: unsupported network %q", network)}
	}
	w.Listens++
	w.L = l
	w.Sim.Logf("listen %s", network)
	return l, nil
}

// Accept implements net.Listener.
func (l *Listener) Accept() (net.Conn, error) {
	s := l.w.Sim
	if s.Current() == nil {
		return nil, &net.OpError{Op: "accept", Net: l.Network, Addr: l.addr, Err: fmt.Errorf("listenw: Accept outside a task")}
	}
	for {
		s.Yield("listener.accept", func() bool { return l.Closed || len(l.backlog) > 0 })
		if l.Closed {
			return nil, &net.OpError{Op: "accept", Net: l.Network, Addr: l.addr, Err: net.ErrClosed}
		}
		if len(l.backlog) > 0 {
			rec := l.backlog[0]
			l.backlog = l.backlog[1:]
			rec.Accepted = true
			rec.AcceptAt = s.Now()
			l.Accepts++
			s.Logf("accept %s", rec.Name)
			return &srvEnd{Conn: rec.srv, rec: rec, w: l.w}, nil
		}
	}
}

// Close implements net.Listener (called by the code under test).
func (l *Listener) Close() error { return l.close("server") }

// Addr implements net.Listener.
func (l *Listener) Addr() net.Addr { return l.addr }

func (l *Listener) close(by string) error {
	if l.Closed {
		return &net.OpError{Op: "close", Net: l.Network, Addr: l.addr, Err: net.ErrClosed}
	}
	if l.w.OnStop != nil {
		l.w.OnStop(l, by)
	}
	l.Closed = true
	l.ClosedAt = l.w.Sim.Now()
	l.ClosedBy = by
	l.w.Sim.Logf("listener closed by %s (backlog %d)", by, len(l.backlog))
	if l.path != "" {
		_ = os.Remove(l.path) // unlink-on-close of a listener made by net.Listen
	}
	for _, rec := range l.backlog {
		rec.Refused = true
		rec.noteClose(l.ClosedAt, "listener")
		_ = rec.srv.Close()
	}
	l.backlog = nil
	return nil
}

// Backlog is the number of established but not yet accepted connections.
func (l *Listener) Backlog() int { return len(l.backlog) }

// OperatorClose closes the current listener on behalf of the harness
// (operator shutdown).
func (w *World) OperatorClose() {
	if w.L != nil && !w.L.Closed {
		_ = w.L.close("operator")
	}
}

// Dial establishes a connection to the current listener. It fails when nothing
// is listening (never bound, or closed).
func (w *World) Dial(name string, o DialOpts) (*ConnRec, error) {
	l := w.L
	if l == nil || l.Closed {
		return nil, &net.OpError{Op: "dial", Net: "sim", Err: os.NewSyscallError("connect", syscall.ECONNREFUSED)}
	}
	cli, srv := hx.NewConnPair(name)
	// addresses as the real network reports them: every accepted Unix
	// connection from an unbound client socket has the same empty peer address;
	// TCP peers differ by ephemeral port
	switch l.Network {
	case "unix":
		srv.Local, srv.Remote = l.addr, &net.UnixAddr{Name: "", Net: "unix"}
		cli.Local, cli.Remote = &net.UnixAddr{Name: "", Net: "unix"}, l.addr
	case "tcp":
		peer := &net.TCPAddr{IP: net.IPv4(127, 0, 0, 1), Port: 40000 + len(w.Conns)}
		srv.Local, srv.Remote = l.addr, peer
		cli.Local, cli.Remote = peer, l.addr
	}
	rec := &ConnRec{ID: len(w.Conns), Name: name, cli: cli, srv: srv, DialAt: w.Sim.Now(), ClosedAt: -1}
	rec.Client = cli
	srv.R.Frag = o.Frag
	if o.YieldOnWrite {
		srv.W.YieldOnWrite = true
		cli.W.YieldOnWrite = true
	}
	cli.OnClose = func() { rec.noteClose(w.Sim.Now(), "client") }
	srv.OnClose = func() { rec.noteClose(w.Sim.Now(), "server") }
	w.Conns = append(w.Conns, rec)
	l.backlog = append(l.backlog, rec)
	w.Sim.Logf("dial %s", name)
	return rec, nil
}

// OpenConns lists the connections that are open (narrow sense) right now.
func (w *World) OpenConns() []*ConnRec {
	var out []*ConnRec
	for _, c := range w.Conns {
		if c.Open() {
			out = append(out, c)
		}
	}
	return out
}
