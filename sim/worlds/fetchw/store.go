package fetchw

import (
	"errors"
	"fmt"
	"net/http"

	"verifsim/simkern"

	"github.com/apache/arrow-go/v18/arrow"
)

// Object is one stored object of the simulated object store ("disk").
type Object struct {
	// TransientCut > 0: the next GET is cut short mid-body (then reset).
	TransientCut int
	Key  string
	URL  string
	Data []byte // bytes at rest (possibly zstd-compressed)
	Enc  string // Content-Encoding the store serves with it
	Lost bool
	// Uploaded is what the uploader handed over (never touched by faults).
	Uploaded    []byte
	UploadedEnc string
	Faults      []string // faults that hit this object, in order
	Gets        int
	// LastServed is what the most recent 200 answer delivered.
	LastServed    []byte
	LastServedEnc string
	LastStatus    int
	// FaultsAtLastServe is len(Faults) when the last answer was produced.
	FaultsAtLastServe int
}

// Store is the simulated object store: vgirpc.ExternalStorage on the write
// side, a handler for the simulated origin on the read side.
type Store struct {
	Sim     *simkern.Sim
	Host    string
	Objects []*Object
	// FailUpload, when set, is consulted on every Upload.
	FailUpload func() error
	seq        int
}

// NewStore creates an empty store served under https://<host>/.
func NewStore(sim *simkern.Sim, host string) *Store { return &Store{Sim: sim, Host: host} }

func (s *Store) add(data []byte, enc string) *Object {
	s.seq++
	key := fmt.Sprintf("o/%d", s.seq)
	o := &Object{Key: key, URL: fmt.Sprintf("https://%s/%s?X-Sig=sig%dz", s.Host, key, 7000+s.seq),
		Data: append([]byte(nil), data...), Enc: enc, Uploaded: append([]byte(nil), data...), UploadedEnc: enc}
	s.Objects = append(s.Objects, o)
	return o
}

// Upload implements vgirpc.ExternalStorage.
func (s *Store) Upload(data []byte, schema *arrow.Schema, contentEncoding string) (string, error) {
	if s.Sim != nil {
		s.Sim.Y("store.upload")
	}
	if s.FailUpload != nil {
		if err := s.FailUpload(); err != nil {
			return "", err
		}
	}
	return s.add(data, contentEncoding).URL, nil
}

// Put stores an object on behalf of a peer uploader (harness side).
func (s *Store) Put(data []byte, enc string) *Object { return s.add(data, enc) }

// ByPath finds the object a request path names.
func (s *Store) ByPath(path string) *Object {
	for _, o := range s.Objects {
		if "/"+o.Key == path {
			return o
		}
	}
	return nil
}

// ByURL finds an object by the URL Upload returned.
func (s *Store) ByURL(u string) *Object {
	for _, o := range s.Objects {
		if o.URL == u {
			return o
		}
	}
	return nil
}

// ServeGet answers a GET for a stored object the way an object store would.
func (s *Store) ServeGet(x *Exchange, req *http.Request) (*http.Response, error) {
	o := s.ByPath(req.URL.Path)
	if o == nil || o.Lost {
		if o != nil {
			o.Gets++
			o.LastStatus = 404
			o.LastServed = nil
			o.FaultsAtLastServe = len(o.Faults)
		}
		x.Answered, x.Outcome, x.Status = true, "not-found", 404
		return Response(req, 404, nil, Exact([]byte("NoSuchKey"))), nil
	}
	o.Gets++
	if o.TransientCut > 0 && len(o.Data) > 1 {
		// a transient delivery fault: this one answer breaks off mid-body (the
		// object at rest is intact; the next GET gets all of it)
		k := 1 + (o.TransientCut-1)%(len(o.Data)-1)
		o.TransientCut = 0
		o.Faults = append(o.Faults, fmt.Sprintf("transient-body-cut@%d", k))
		o.LastStatus, o.LastServed, o.FaultsAtLastServe = 0, nil, len(o.Faults)
		h := http.Header{}
		if o.Enc != "" {
			h.Set("Content-Encoding", o.Enc)
		}
		b := Exact(append([]byte(nil), o.Data...))
		b.CutAfter = k
		x.Answered, x.Outcome, x.Status, x.Sent, x.Encoding = true, "body-cut", 200, k, o.Enc
		x.Declared = int64(len(o.Data))
		return Response(req, 200, h, b), nil
	}
	o.LastStatus = 200
	o.LastServed = append([]byte(nil), o.Data...)
	o.LastServedEnc = o.Enc
	o.FaultsAtLastServe = len(o.Faults)
	h := http.Header{}
	if o.Enc != "" {
		h.Set("Content-Encoding", o.Enc)
	}
	x.Answered, x.Outcome, x.Status, x.Sent, x.Encoding = true, "ok", 200, len(o.Data), o.Enc
	x.Declared = int64(len(o.Data))
	return Response(req, 200, h, Exact(append([]byte(nil), o.Data...))), nil
}

// ---- disk-style faults ----

// BitRot flips one bit of the object at rest.
func (o *Object) BitRot(pos, bit int) {
	if len(o.Data) == 0 {
		return
	}
	pos %= len(o.Data)
	o.Data[pos] ^= 1 << uint(bit%8)
	o.Faults = append(o.Faults, fmt.Sprintf("bitrot@%d.%d", pos, bit%8))
}

// Truncate keeps the first n bytes.
func (o *Object) Truncate(n int) {
	if n > len(o.Data) {
		n = len(o.Data)
	}
	o.Data = o.Data[:n]
	o.Faults = append(o.Faults, fmt.Sprintf("truncate@%d", n))
}

// Lose makes the object disappear.
func (o *Object) Lose() {
	o.Lost = true
	o.Faults = append(o.Faults, "lost")
}

// Substitute replaces the object by other bytes (another stream).
func (o *Object) Substitute(data []byte, enc, what string) {
	o.Data = append([]byte(nil), data...)
	o.Enc = enc
	o.Lost = false
	o.Faults = append(o.Faults, "substituted:"+what)
}

// FlipEncoding makes the store serve the object under the other
// Content-Encoding (zstd <-> identity) without touching the bytes.
func (o *Object) FlipEncoding() {
	if o.Enc == "zstd" {
		o.Enc = ""
	} else {
		o.Enc = "zstd"
	}
	o.Faults = append(o.Faults, "encoding-header:"+o.Enc)
}

// ServedPayload returns the decoded payload of the last answer (nil, false
// when nothing was served or it cannot be decoded).
func (o *Object) ServedPayload() ([]byte, bool) {
	if o.LastStatus != 200 || o.LastServed == nil {
		return nil, false
	}
	if o.LastServedEnc == "zstd" {
		return Unzstd(o.LastServed)
	}
	return o.LastServed, true
}

// ErrUpload is the error a failing upload returns.
var ErrUpload = errors.New("sim: object store unavailable")
