package fetchw

import (
	"bytes"
	"crypto/sha256"
	"encoding/hex"
	"fmt"
	"sort"
	"strings"

	"verifsim/simkern"

	"github.com/apache/arrow-go/v18/arrow"
	"github.com/apache/arrow-go/v18/arrow/array"
	"github.com/apache/arrow-go/v18/arrow/ipc"
	"github.com/apache/arrow-go/v18/arrow/memory"
	"github.com/klauspost/compress/zstd"
)

// Protocol metadata keys, restated from the protocol documentation.
const (
	KLocation   = "vgi_rpc.location"
	KSHA256     = "vgi_rpc.location.sha256"
	KLogLevel   = "vgi_rpc.log_level"
	KLogMessage = "vgi_rpc.log_message"
	KLogExtra   = "vgi_rpc.log_extra"
	KState      = "vgi_rpc.stream_state#b64"
)

var mem = memory.NewGoAllocator()

// SHA returns the hex SHA-256 of data.
func SHA(data []byte) string {
	h := sha256.Sum256(data)
	return hex.EncodeToString(h[:])
}

// Zstd compresses data (harness-side encoder, created and closed per call).
func Zstd(data []byte) []byte {
	enc, err := zstd.NewWriter(nil, zstd.WithEncoderConcurrency(1), zstd.WithEncoderLevel(zstd.SpeedFastest), zstd.WithLowerEncoderMem(true))
	if err != nil {
		panic(err)
	}
	out := enc.EncodeAll(data, nil)
	_ = enc.Close()
	return out
}

// Unzstd decodes data (harness-side decoder; nil, false when undecodable).
func Unzstd(data []byte) ([]byte, bool) {
	dec, err := zstd.NewReader(nil, zstd.WithDecoderConcurrency(1))
	if err != nil {
		return nil, false
	}
	defer dec.Close()
	out, err := dec.DecodeAll(data, nil)
	if err != nil {
		return nil, false
	}
	return out, true
}

// BatchSpec is the readable description of a generated batch.
type BatchSpec struct {
	Cols       []string
	Rows       int
	Pad        int
	SchemaMeta []string
	BatchMeta  []string
}

func (s BatchSpec) String() string {
	return fmt.Sprintf("cols=%v rows=%d pad=%d schema_meta=%v batch_meta=%v", s.Cols, s.Rows, s.Pad, s.SchemaMeta, s.BatchMeta)
}

// GenSchema draws a schema: 1-3 value columns plus an optional pad column,
// with or without schema-level metadata.
func GenSchema(tp *simkern.Tape) (*arrow.Schema, BatchSpec) {
	var spec BatchSpec
	kinds := []string{"i64", "str", "f64", "bool", "list"}
	n := 1 + tp.Draw(3)
	var fields []arrow.Field
	for i := 0; i < n; i++ {
		k := kinds[tp.Draw(len(kinds))]
		spec.Cols = append(spec.Cols, k)
		name := fmt.Sprintf("c%d", i)
		switch k {
		case "i64":
			fields = append(fields, arrow.Field{Name: name, Type: arrow.PrimitiveTypes.Int64, Nullable: true})
		case "str":
			fields = append(fields, arrow.Field{Name: name, Type: arrow.BinaryTypes.String, Nullable: true})
		case "f64":
			fields = append(fields, arrow.Field{Name: name, Type: arrow.PrimitiveTypes.Float64})
		case "bool":
			fields = append(fields, arrow.Field{Name: name, Type: arrow.FixedWidthTypes.Boolean, Nullable: true})
		case "list":
			fields = append(fields, arrow.Field{Name: name, Type: arrow.ListOf(arrow.PrimitiveTypes.Int64), Nullable: true})
		}
	}
	fields = append(fields, arrow.Field{Name: "pad", Type: arrow.BinaryTypes.String})
	var md *arrow.Metadata
	switch tp.Draw(3) {
	case 1:
		m := arrow.NewMetadata([]string{"app.unit"}, []string{"metres"})
		md = &m
		spec.SchemaMeta = []string{"app.unit=metres"}
	case 2:
		m := arrow.NewMetadata([]string{"app.unit", "app.origin"}, []string{"", "sensor-7"})
		md = &m
		spec.SchemaMeta = []string{"app.unit=", "app.origin=sensor-7"}
	}
	return arrow.NewSchema(fields, md), spec
}

// GenData builds a data batch (>= 1 row) for schema. salt varies the values;
// pad is the length of the pad string in row 0; cm is the batch's own custom
// metadata (may be empty).
func GenData(schema *arrow.Schema, rows, pad, salt int, withNulls bool, cm arrow.Metadata) arrow.RecordBatch {
	cols := make([]arrow.Array, schema.NumFields())
	for i, f := range schema.Fields() {
		b := array.NewBuilder(mem, f.Type)
		for r := 0; r < rows; r++ {
			if withNulls && f.Nullable && (r+i)%3 == 1 {
				b.AppendNull()
				continue
			}
			v := int64(salt*1000 + i*100 + r)
			switch bb := b.(type) {
			case *array.Int64Builder:
				bb.Append(v)
			case *array.StringBuilder:
				if f.Name == "pad" {
					if r == 0 && pad < 0 {
						// -pad bytes of incompressible noise (deterministic in salt)
						bb.Append(noise(-pad, salt))
					} else if r == 0 {
						bb.Append(strings.Repeat("x", pad))
					} else {
						bb.Append("")
					}
				} else {
					bb.Append(fmt.Sprintf("s%d", v))
				}
			case *array.Float64Builder:
				bb.Append(float64(v) + 0.25)
			case *array.BooleanBuilder:
				bb.Append(v%2 == 0)
			case *array.ListBuilder:
				bb.Append(true)
				vb := bb.ValueBuilder().(*array.Int64Builder)
				for k := 0; k < r%3; k++ {
					vb.Append(v + int64(k))
				}
			default:
				panic("fetchw: unhandled builder")
			}
		}
		cols[i] = b.NewArray()
		b.Release()
	}
	return array.NewRecordBatchWithMetadata(schema, cols, int64(rows), cm)
}

// noise returns n pseudo-random bytes (xorshift64*, seeded by salt): data a
// compressor cannot shrink.
func noise(n, salt int) string {
	x := uint64(salt)*0x9E3779B97F4A7C15 + 0xD1B54A32D192ED03
	b := make([]byte, n)
	for i := range b {
		x ^= x >> 12
		x ^= x << 25
		x ^= x >> 27
		b[i] = byte((x * 0x2545F4914F6CDD1D) >> 56)
	}
	return string(b)
}

// ZeroRows builds a zero-row batch of schema carrying custom metadata.
func ZeroRows(schema *arrow.Schema, cm arrow.Metadata) arrow.RecordBatch {
	cols := make([]arrow.Array, schema.NumFields())
	for i, f := range schema.Fields() {
		b := array.NewBuilder(mem, f.Type)
		cols[i] = b.NewArray()
		b.Release()
	}
	return array.NewRecordBatchWithMetadata(schema, cols, 0, cm)
}

// LogBatch is a zero-row log (or error, level EXCEPTION) batch.
func LogBatch(schema *arrow.Schema, level, msg string) arrow.RecordBatch {
	return ZeroRows(schema, arrow.NewMetadata([]string{KLogLevel, KLogMessage}, []string{level, msg}))
}

// PointerBatch is a zero-row external-location pointer built on arrow-go
// directly (sha may be empty).
func PointerBatch(schema *arrow.Schema, url, sha string) arrow.RecordBatch {
	k, v := []string{KLocation}, []string{url}
	if sha != "" {
		k, v = append(k, KSHA256), append(v, sha)
	}
	return ZeroRows(schema, arrow.NewMetadata(k, v))
}

// BufSize is the in-memory Arrow buffer size of a batch (sum of buffer
// lengths of the top-level column data).
func BufSize(b arrow.RecordBatch) int64 {
	var n int64
	for i := 0; i < int(b.NumCols()); i++ {
		for _, buf := range b.Column(i).Data().Buffers() {
			if buf != nil {
				n += int64(buf.Len())
			}
		}
	}
	return n
}

// Compose writes batches as one IPC stream of schema.
func Compose(schema *arrow.Schema, batches ...arrow.RecordBatch) []byte {
	var buf bytes.Buffer
	w := ipc.NewWriter(&buf, ipc.WithSchema(schema), ipc.WithAllocator(mem))
	for _, b := range batches {
		if err := w.Write(b); err != nil {
			panic(fmt.Sprintf("fetchw: compose: %v", err))
		}
	}
	_ = w.Close()
	return buf.Bytes()
}

// Meta returns the batch's own custom metadata as a map.
func Meta(b arrow.RecordBatch) map[string]string {
	out := map[string]string{}
	if rm, ok := b.(arrow.RecordBatchWithMetadata); ok {
		md := rm.Metadata()
		for i, k := range md.Keys() {
			out[k] = md.Values()[i]
		}
	}
	return out
}

// Kind classifies a batch of a fetched stream the way the protocol defines
// it: zero rows + log level = log; zero rows + location (no log level) =
// pointer; otherwise data.
func Kind(b arrow.RecordBatch) string {
	m := Meta(b)
	if b.NumRows() == 0 {
		if _, ok := m[KLogLevel]; ok {
			return "log"
		}
		if _, ok := m[KLocation]; ok {
			return "pointer"
		}
		return "empty"
	}
	return "data"
}

func metaString(m map[string]string) string {
	ks := make([]string, 0, len(m))
	for k := range m {
		ks = append(ks, k)
	}
	sort.Strings(ks)
	var sb strings.Builder
	for _, k := range ks {
		fmt.Fprintf(&sb, "%s=%q;", k, m[k])
	}
	return sb.String()
}

func schemaMeta(s *arrow.Schema) map[string]string {
	out := map[string]string{}
	md := s.Metadata()
	for i, k := range md.Keys() {
		out[k] = md.Values()[i]
	}
	return out
}

// Diff compares two batches in schema (fields, field metadata, schema
// metadata), values and the batch's own custom metadata. It returns "" when
// they are equal, else what differs.
func Diff(want, got arrow.RecordBatch) string {
	if !want.Schema().Equal(got.Schema()) {
		return fmt.Sprintf("schema differs: want %s got %s", want.Schema(), got.Schema())
	}
	if a, b := metaString(schemaMeta(want.Schema())), metaString(schemaMeta(got.Schema())); a != b {
		return fmt.Sprintf("schema metadata differs: want {%s} got {%s}", a, b)
	}
	if want.NumRows() != got.NumRows() || want.NumCols() != got.NumCols() {
		return fmt.Sprintf("shape differs: want %dx%d got %dx%d", want.NumRows(), want.NumCols(), got.NumRows(), got.NumCols())
	}
	for i := 0; i < int(want.NumCols()); i++ {
		if !array.Equal(want.Column(i), got.Column(i)) {
			return fmt.Sprintf("values differ in column %d (%s)", i, want.ColumnName(i))
		}
	}
	if a, b := metaString(Meta(want)), metaString(Meta(got)); a != b {
		return fmt.Sprintf("custom metadata differs: want {%s} got {%s}", a, b)
	}
	return ""
}

// Describe renders a batch briefly.
func Describe(b arrow.RecordBatch) string {
	return fmt.Sprintf("%s rows=%d meta={%s}", Kind(b), b.NumRows(), metaString(Meta(b)))
}

// ParseTolerant decodes an IPC stream as far as it goes: the batches read
// before the first error (a truncated tail does not discard the head). ok is
// false when not even the schema could be read.
func ParseTolerant(data []byte) (out []arrow.RecordBatch, ok bool) {
	defer func() {
		if r := recover(); r != nil {
			// arrow-go may panic on rotten flatbuffers; what was read stays
		}
	}()
	rd, err := ipc.NewReader(bytes.NewReader(data), ipc.WithAllocator(mem))
	if err != nil {
		return nil, false
	}
	defer rd.Release()
	ok = true
	for rd.Next() {
		rec := rd.RecordBatch()
		rec.Retain()
		out = append(out, rec)
	}
	return out, ok
}
