// Package fetchw is world F: the real external-location code of the
// repository (ResolveExternalLocation / fetchExternalData, the externalize
// path, FetchWithParallelRangeRequests) against a simulated origin behind an
// http.RoundTripper and a simulated object store behind ExternalStorage.
//
// Nothing here imports unexported knowledge of the code under test: protocol
// keys are restated from the documentation, batches and streams are built
// directly on arrow-go.
package fetchw

import (
	"context"
	"errors"
	"fmt"
	"io"
	"net/http"
	"strings"

	"verifsim/simkern"
)

// Exchange is one request seen by the simulated origin.
type Exchange struct {
	N       int
	Method  string
	URL     string // exactly what the client put on the wire (req.URL.String())
	Host    string
	Range   string
	Initial bool // not caused by a redirect (req.Response == nil)
	// filled when answered
	Answered bool
	Outcome  string
	Status   int
	Sent     int   // body bytes the origin made available
	Declared int64 // Content-Length it declared (-1 unknown)
	Encoding string
	Req      *http.Request
}

// Origin is the http.RoundTripper the world owns. Every request is a
// scheduling point: RoundTrip yields to the simulator before the world's Serve
// function decides the answer (Serve may park the calling task further).
type Origin struct {
	Sim   *simkern.Sim
	Serve func(x *Exchange, req *http.Request) (*http.Response, error)
	Log   []*Exchange
}

// RoundTrip implements http.RoundTripper.
func (o *Origin) RoundTrip(req *http.Request) (*http.Response, error) {
	x := &Exchange{N: len(o.Log), Method: req.Method, URL: req.URL.String(), Host: req.URL.Host,
		Range: req.Header.Get("Range"), Initial: req.Response == nil, Req: req, Declared: -1}
	o.Log = append(o.Log, x)
	if req.Body != nil {
		_ = req.Body.Close()
	}
	if o.Sim != nil {
		o.Sim.Y("origin.request")
	}
	if err := req.Context().Err(); err != nil {
		x.Answered, x.Outcome = true, "cancelled"
		return nil, err
	}
	return o.Serve(x, req)
}

// Client returns an *http.Client that talks to the origin (no timeout, no
// jar: net/http then runs entirely on the calling goroutine).
func (o *Origin) Client() *http.Client { return &http.Client{Transport: o} }

// Body describes a response body the way a real transport would deliver it.
type Body struct {
	Data []byte
	// Declared is the Content-Length header (-1 = none / chunked). When it is
	// larger than len(Data) the connection "closes early": the reader returns
	// io.ErrUnexpectedEOF after the data, as net/http's transport does. When
	// it is smaller the surplus is never delivered.
	Declared int64
	// CutAfter >= 0: the connection breaks after that many bytes (read error).
	CutAfter int
}

// Exact is a body whose declared length matches its data.
func Exact(data []byte) Body { return Body{Data: data, Declared: int64(len(data)), CutAfter: -1} }

// Chunked is a body without Content-Length.
func Chunked(data []byte) Body { return Body{Data: data, Declared: -1, CutAfter: -1} }

// ErrConnBroken is the read error of a cut body.
var ErrConnBroken = errors.New("sim: connection reset by peer")

type bodyReader struct {
	data   []byte
	pos    int
	tail   error // error returned after the data (nil => io.EOF)
	closed bool
}

func (b *bodyReader) Read(p []byte) (int, error) {
	if b.closed {
		return 0, errors.New("sim: read on closed body")
	}
	if b.pos >= len(b.data) {
		if b.tail != nil {
			return 0, b.tail
		}
		return 0, io.EOF
	}
	// deliver in small pieces so that readers that stop at the first short
	// read are exposed
	n := len(b.data) - b.pos
	if n > len(p) {
		n = len(p)
	}
	if n > 37 {
		n = 37
	}
	copy(p, b.data[b.pos:b.pos+n])
	b.pos += n
	return n, nil
}

func (b *bodyReader) Close() error { b.closed = true; return nil }

// Response builds the *http.Response a transport would hand to the client.
func Response(req *http.Request, status int, hdr http.Header, b Body) *http.Response {
	if hdr == nil {
		hdr = http.Header{}
	}
	data := b.Data
	var tail error
	if b.Declared >= 0 {
		if int64(len(data)) > b.Declared {
			data = data[:b.Declared]
		} else if int64(len(data)) < b.Declared {
			tail = io.ErrUnexpectedEOF
		}
		hdr.Set("Content-Length", fmt.Sprint(b.Declared))
	}
	if b.CutAfter >= 0 {
		if b.CutAfter < len(data) {
			data = data[:b.CutAfter]
		}
		tail = ErrConnBroken
	}
	resp := &http.Response{
		Status:        fmt.Sprintf("%d %s", status, http.StatusText(status)),
		StatusCode:    status,
		Proto:         "HTTP/1.1",
		ProtoMajor:    1,
		ProtoMinor:    1,
		Header:        hdr,
		ContentLength: b.Declared,
		Request:       req,
	}
	if req.Method == http.MethodHead {
		resp.Body = http.NoBody
		return resp
	}
	resp.Body = &bodyReader{data: data, tail: tail}
	return resp
}

// Redirect builds a redirect response.
func Redirect(req *http.Request, status int, location string) *http.Response {
	h := http.Header{}
	h.Set("Location", location)
	return Response(req, status, h, Exact(nil))
}

// ---------------------------------------------------------------------------
// Parked requests (C32): the scheduler, not the task, decides the answer.
// ---------------------------------------------------------------------------

// Parked is a request waiting for the scheduler to complete it.
type Parked struct {
	X        *Exchange
	Req      *http.Request
	Answer   func() (*http.Response, error) // set by the scheduler action
	Decided  bool
	IssuedAt int // step at which it was issued (diagnostics)
}

// Await parks the calling task until the scheduler has decided the request's
// answer or the request's context is cancelled. It returns the answer.
func Await(sim *simkern.Sim, p *Parked) (*http.Response, error) {
	ctx := p.Req.Context()
	sim.Yield("origin.await", func() bool { return p.Decided || ctx.Err() != nil })
	if !p.Decided {
		p.Decided = true
		p.X.Answered, p.X.Outcome = true, "cancelled"
		return nil, ctxErr(ctx)
	}
	return p.Answer()
}

func ctxErr(ctx context.Context) error {
	if err := ctx.Err(); err != nil {
		return err
	}
	return context.Canceled
}

// ParseRange parses "bytes=a-b".
func ParseRange(h string) (lo, hi int64, ok bool) {
	if !strings.HasPrefix(h, "bytes=") {
		return 0, 0, false
	}
	var a, b int64
	if n, err := fmt.Sscanf(h[len("bytes="):], "%d-%d", &a, &b); err != nil || n != 2 {
		return 0, 0, false
	}
	return a, b, true
}
