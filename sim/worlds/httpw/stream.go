package httpw

import (
	"fmt"

	"github.com/apache/arrow-go/v18/arrow"

	"verifsim/hx"
	"verifsim/worlds/pipew"
)

// StreamOpts tunes RunStream.
type StreamOpts struct {
	// Pick chooses the instance for each request (load balancer).
	Pick func() *Instance
	// OnResponse is called with every response (monitors).
	OnResponse func(kind string, inst *Instance, resp *hx.Resp, body []byte)
	// BeforeRequest is called before every request (scheduling point, faults).
	BeforeRequest func(kind string)
	Ident         Ident
	Header        map[string]string
	// UserMeta adds user metadata to continuation k.
	UserMeta func(k int) hx.Meta
	// Tokens receives every (cursor, call) pair the client obtained.
	Tokens func(cursor, call string)
	// ExtBody, when set, may frame exchange input k itself (e.g. as an
	// external-location pointer batch); nil result = the ordinary body.
	ExtBody func(k int, input arrow.RecordBatch, m hx.Meta) []byte
}

// RunStream drives one scripted stream call over HTTP with the same client
// plan (inputs, cancel point) as the pipe client, and returns a transcript in
// the same shape (pipew.OpResult) so that transport-independent oracles apply
// to both. For a producer each data batch answers one tick; the client stops
// consuming after op.Inputs ticks.
func RunStream(op *pipew.Op, o StreamOpts) *pipew.OpResult {
	res := &pipew.OpResult{Op: op}
	total := op.Inputs
	if total < 1 {
		total = 1
	}
	post := func(kind, path string, body []byte) *Turn {
		if o.BeforeRequest != nil {
			o.BeforeRequest(kind)
		}
		inst := o.Pick()
		resp := Post(inst, path, body, o.Ident, o.Header)
		if o.OnResponse != nil {
			o.OnResponse(kind, inst, resp, body)
		}
		return Decode(resp)
	}
	t := post("init", "/"+op.Method+"/init", pipew.RequestBytes(op))
	if t.Resp.Panicked != nil {
		res.ClientErr = fmt.Errorf("init: connection aborted (panic: %v)", t.Resp.Panicked)
		return res
	}
	if t.Parse != nil || len(t.Streams) == 0 {
		res.ClientErr = fmt.Errorf("init: status %d, unreadable body: %v", t.Resp.Status, t.Parse)
		return res
	}
	cursor, call := "", ""
	answered := 0
	cur := pipew.TurnOut{}
	ended := false
	// absorb walks the data stream of one response.
	absorb := func(batches []hx.Batch) {
		for i := range batches {
			b := batches[i]
			if ended {
				return
			}
			res.AllBatch = append(res.AllBatch, b)
			switch b.Kind {
			case "log":
				cur.Logs = append(cur.Logs, b)
			case "error":
				bb := b
				cur.Err = &bb
				res.Turns = append(res.Turns, cur)
				cur = pipew.TurnOut{}
				res.Ended = "error"
				ended = true
			case "token":
				cursor = b.Meta[hx.KState]
				if v, ok := b.Meta[hx.KCallState]; ok {
					call = v
				}
			default:
				if v, ok := b.Meta[hx.KState]; ok {
					cursor = v
				}
				if v, ok := b.Meta[hx.KCallState]; ok {
					call = v
				}
				bb := b
				// the cursor is transport plumbing, not user metadata
				bb.Meta = map[string]string{}
				for k, v := range b.Meta {
					if k != hx.KState && k != hx.KCallState {
						bb.Meta[k] = v
					}
				}
				cur.Data = &bb
				res.Turns = append(res.Turns, cur)
				cur = pipew.TurnOut{}
				answered++
				if op.StreamKind == "producer" && answered >= total {
					ended = true
					res.Ended = "abandon"
				}
			}
		}
	}
	streams := t.Streams
	if len(streams) >= 2 {
		for i := range streams[0].Batches {
			b := streams[0].Batches[i]
			res.AllBatch = append(res.AllBatch, b)
			switch b.Kind {
			case "log":
				res.InitLogs = append(res.InitLogs, b)
			case "error":
				bb := b
				res.Turns = append(res.Turns, pipew.TurnOut{Err: &bb})
				res.Ended = "error"
				return res
			default:
				bb := b
				res.Header = &bb
			}
		}
		streams = streams[1:]
	}
	res.First = t.Streams[0]
	cursor, call = "", ""
	if len(streams) > 0 {
		res.DataSchema = streams[len(streams)-1].Schema
		pre := cursor
		_ = pre
		absorb(streams[len(streams)-1].Batches)
	}
	if o.Tokens != nil && cursor != "" {
		o.Tokens(cursor, call)
	}
	finishEOS := func(why string) *pipew.OpResult {
		cur.EOS = true
		res.Turns = append(res.Turns, cur)
		if res.Ended == "" || res.Ended == "abandon" {
			res.Ended = why
		}
		return res
	}
	if res.Ended == "error" {
		return res
	}
	if t.Resp.Status != 200 {
		res.ClientErr = fmt.Errorf("init: status %d without an exception batch", t.Resp.Status)
		return res
	}
	meta := func(k int) hx.Meta {
		if o.UserMeta != nil {
			return o.UserMeta(k)
		}
		if k < len(op.InputMeta) {
			return op.InputMeta[k]
		}
		return hx.Meta{}
	}
	cancel := func(k int) *pipew.OpResult {
		res.Sent++
		res.Cancelled = true
		ct := post("cancel", "/"+op.Method+"/exchange", ContBody(cursor, call, true, nil, false, meta(k)))
		if ct.Resp.Panicked != nil {
			res.ClientErr = fmt.Errorf("cancel: connection aborted (panic: %v)", ct.Resp.Panicked)
			return res
		}
		for _, st := range ct.Streams {
			for i := range st.Batches {
				res.AllBatch = append(res.AllBatch, st.Batches[i])
				if st.Batches[i].Kind == "error" {
					bb := st.Batches[i]
					res.Turns = append(res.Turns, pipew.TurnOut{Err: &bb})
					res.Ended = "error"
					return res
				}
				if st.Batches[i].Kind == "data" || st.Batches[i].Kind == "token" {
					res.ClientErr = fmt.Errorf("cancel response continued the stream (%s batch)", st.Batches[i].Kind)
					return res
				}
			}
		}
		if ct.Resp.Status != 200 {
			res.ClientErr = fmt.Errorf("cancel: status %d", ct.Resp.Status)
			return res
		}
		return finishEOS("cancel")
	}
	if op.StreamKind == "producer" {
		for {
			if ended {
				// consumed everything the client wanted
				if res.Ended == "abandon" {
					return finishEOS("abandon")
				}
				return res
			}
			if cursor == "" {
				return finishEOS("eos")
			}
			if op.CancelAt >= 0 && op.CancelAt <= answered && op.CancelAt < total {
				return cancel(answered)
			}
			res.Sent++
			ct := post("continue", "/"+op.Method+"/exchange", ContBody(cursor, call, false, nil, false, meta(answered)))
			if ct.Resp.Panicked != nil {
				res.ClientErr = fmt.Errorf("continuation: connection aborted (panic: %v)", ct.Resp.Panicked)
				return res
			}
			if ct.Parse != nil || len(ct.Streams) == 0 {
				res.ClientErr = fmt.Errorf("continuation: status %d, unreadable body: %v", ct.Resp.Status, ct.Parse)
				return res
			}
			cursor = ""
			absorb(ct.Streams[len(ct.Streams)-1].Batches)
			if o.Tokens != nil && cursor != "" {
				o.Tokens(cursor, call)
			}
			if res.Ended == "error" {
				return res
			}
			if ct.Resp.Status != 200 {
				res.ClientErr = fmt.Errorf("continuation: status %d without an exception batch", ct.Resp.Status)
				return res
			}
		}
	}
	// exchange: one HTTP request per input
	if cursor == "" {
		res.ClientErr = fmt.Errorf("exchange init returned no cursor")
		return res
	}
	for k := 0; ; k++ {
		if op.CancelAt == k && k < total {
			return cancel(k)
		}
		if k >= total {
			return finishEOS("abandon")
		}
		res.Sent++
		body := ContBody(cursor, call, false, op.InputValues(k), op.Cast, meta(k))
		if o.ExtBody != nil {
			in := hx.Int64Batch("x", op.InputValues(k), op.Cast)
			if b := o.ExtBody(k, in, ContMeta(cursor, call, false, meta(k))); b != nil {
				body = b
			}
			in.Release()
		}
		ct := post("exchange", "/"+op.Method+"/exchange", body)
		if ct.Resp.Panicked != nil {
			res.ClientErr = fmt.Errorf("exchange: connection aborted (panic: %v)", ct.Resp.Panicked)
			return res
		}
		if ct.Parse != nil || len(ct.Streams) == 0 {
			res.ClientErr = fmt.Errorf("exchange: status %d, unreadable body: %v", ct.Resp.Status, ct.Parse)
			return res
		}
		cursor = ""
		before := answered
		absorb(ct.Streams[len(ct.Streams)-1].Batches)
		if o.Tokens != nil && cursor != "" {
			o.Tokens(cursor, call)
		}
		if res.Ended == "error" {
			return res
		}
		if ct.Resp.Status != 200 {
			res.ClientErr = fmt.Errorf("exchange: status %d without an exception batch", ct.Resp.Status)
			return res
		}
		if answered != before+1 {
			res.ClientErr = fmt.Errorf("exchange %d returned %d data batches", k, answered-before)
			return res
		}
		if cursor == "" {
			res.ClientErr = fmt.Errorf("exchange %d returned no fresh cursor", k)
			return res
		}
	}
}
