package httpw

import (
	"verifsim/simkern"

	"github.com/Query-farm/vgi-rpc-go/vgirpc"
)

// track records every HttpServer a cluster ever built (restarts replace
// instances but the old image's sticky reaper goroutine lives on until shut down).
func (c *Cluster) track(h *vgirpc.HttpServer) { c.all = append(c.all, h) }

// Shutdown stops every sticky registry (and its reaper goroutine) the cluster
// created, from an operator task, and runs the simulator until it is done.
func (c *Cluster) Shutdown(sim *simkern.Sim) {
	sim.Spawn("operator.shutdown", func() {
		for _, h := range c.all {
			if h.StickyEnabled() {
				h.DrainHandle().Shutdown()
			}
		}
	})
	sim.Run(simkern.RunOpts{MaxSteps: 50000, Done: sim.RootsDone})
}
