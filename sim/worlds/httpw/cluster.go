// Package httpw is world H: a cluster of real HttpServer instances sharing a
// token key, a cache-less twin, stub clients with identities, and helpers to
// run stream programs over HTTP.
package httpw

import (
	"fmt"
	"net/http"
	"strings"
	"time"

	"verifsim/hx"

	"github.com/Query-farm/vgi-rpc-go/vgirpc"
)

// Ident is a caller identity. The zero value is anonymous.
type Ident struct {
	Auth      bool
	Domain    string
	Principal string
}

func (i Ident) String() string {
	if !i.Auth {
		return "anon"
	}
	return fmt.Sprintf("%q/%q", i.Domain, i.Principal)
}

// Header renders the identity for the harness authenticator.
func (i Ident) Header() string {
	if !i.Auth {
		return ""
	}
	return "id:" + i.Domain + "\x1f" + i.Principal
}

// IdentHeader is the request header the harness authenticator reads.
const IdentHeader = "X-Sim-Ident"

// AuthOutcome lets a world override the authenticator's answer for the next
// request(s): nil = use the identity header.
type AuthOutcome func(r *http.Request) (*vgirpc.AuthContext, error, bool)

// Config configures a cluster.
type Config struct {
	Key         []byte
	TTL         time.Duration
	CacheSizes  []int // per instance; -1 = library default
	BatchLimit  int
	WithAuth    bool
	ServerIDs   []string
	Setup       func(i int, srv *vgirpc.Server, h *vgirpc.HttpServer)
	AuthHook    AuthOutcome
	Compression int // 0 = leave default, -1 = disable
	NoTwin      bool
}

// Instance is one worker.
type Instance struct {
	Name  string
	Srv   *vgirpc.Server
	H     *vgirpc.HttpServer
	Cache int
	idx   int
}

// Cluster is the simulated deployment.
type Cluster struct {
	Cfg  Config
	Inst []*Instance
	Twin *Instance
	// AuthCalls counts authenticator invocations.
	AuthCalls int
	all       []*vgirpc.HttpServer
}

func (c *Cluster) authenticate(r *http.Request) (*vgirpc.AuthContext, error) {
	c.AuthCalls++
	if c.Cfg.AuthHook != nil {
		if a, err, handled := c.Cfg.AuthHook(r); handled {
			return a, err
		}
	}
	v := r.Header.Get(IdentHeader)
	if v == "" {
		return vgirpc.Anonymous(), nil
	}
	if !strings.HasPrefix(v, "id:") {
		return nil, &vgirpc.RpcError{Type: "ValueError", Message: "bad ident"}
	}
	parts := strings.SplitN(v[3:], "\x1f", 2)
	if len(parts) != 2 {
		return nil, &vgirpc.RpcError{Type: "ValueError", Message: "bad ident"}
	}
	return &vgirpc.AuthContext{Domain: parts[0], Principal: parts[1], Authenticated: true}, nil
}

func (c *Cluster) build(i int, name string, cache int) *Instance {
	srv := vgirpc.NewServer()
	id := name
	if i >= 0 && i < len(c.Cfg.ServerIDs) {
		id = c.Cfg.ServerIDs[i]
	}
	srv.SetServerID(id)
	hx.Register(srv)
	h, err := vgirpc.NewHttpServerWithKey(srv, c.Cfg.Key)
	if err != nil {
		panic(err)
	}
	if c.Cfg.TTL > 0 {
		h.SetTokenTTL(c.Cfg.TTL)
	}
	if cache >= 0 {
		h.SetCallStateCacheEntries(cache)
	}
	if c.Cfg.BatchLimit > 0 {
		h.SetProducerBatchLimit(c.Cfg.BatchLimit)
	}
	if c.Cfg.WithAuth {
		h.SetAuthenticate(c.authenticate)
	}
	if c.Cfg.Compression < 0 {
		_ = h.SetCompressionLevel(0)
	}
	if c.Cfg.Setup != nil {
		c.Cfg.Setup(i, srv, h)
	}
	c.track(h)
	return &Instance{Name: name, Srv: srv, H: h, Cache: cache, idx: i}
}

// NewCluster builds the instances.
func NewCluster(cfg Config) *Cluster {
	c := &Cluster{Cfg: cfg}
	for i, cs := range cfg.CacheSizes {
		c.Inst = append(c.Inst, c.build(i, fmt.Sprintf("w%d", i), cs))
	}
	if !cfg.NoTwin {
		c.Twin = c.build(-1, "twin", 0)
	}
	return c
}

// Restart replaces instance i by a fresh process image (cache lost).
func (c *Cluster) Restart(i int) {
	old := c.Inst[i]
	c.Inst[i] = c.build(i, old.Name, old.Cache)
}

// ---- stream client ----

// Turn is the decoded outcome of one HTTP response of a stream.
type Turn struct {
	Resp    *hx.Resp
	Streams []*hx.Stream
	Header  *hx.Batch
	Data    []hx.Batch // data batches in order (token keys stripped from Meta copy)
	Logs    []hx.Batch
	Err     *hx.Batch
	Cursor  string
	Call    string
	Parse   error
	// Accepted: the server processed the request as a stream turn (2xx,
	// parseable). Refused: 4xx client error.
	Refused bool
}

// Decode parses a response body.
func Decode(resp *hx.Resp) *Turn {
	t := &Turn{Resp: resp}
	if resp.Panicked != nil {
		return t
	}
	if resp.Status >= 400 && resp.Status < 500 {
		t.Refused = true
	}
	if resp.Header.Get("Content-Type") != hx.ArrowCT {
		return t
	}
	sts, err := hx.ParseStreams(resp.Decoded)
	t.Streams = sts
	if err != nil {
		t.Parse = err
		return t
	}
	for si, st := range sts {
		for bi := range st.Batches {
			b := st.Batches[bi]
			switch b.Kind {
			case "log":
				t.Logs = append(t.Logs, b)
			case "error":
				bb := b
				t.Err = &bb
			case "token":
				t.Cursor = b.Meta[hx.KState]
				if v, ok := b.Meta[hx.KCallState]; ok {
					t.Call = v
				}
			default:
				if v, ok := b.Meta[hx.KState]; ok {
					t.Cursor = v
				}
				if v, ok := b.Meta[hx.KCallState]; ok {
					t.Call = v
				}
				if si == 0 && len(sts) > 1 {
					bb := b
					t.Header = &bb
				} else {
					t.Data = append(t.Data, b)
				}
			}
		}
	}
	return t
}

// Post sends one request to an instance.
func Post(inst *Instance, path string, body []byte, id Ident, extra map[string]string) *hx.Resp {
	hdr := map[string]string{}
	if h := id.Header(); h != "" {
		hdr[IdentHeader] = h
	}
	for k, v := range extra {
		hdr[k] = v
	}
	return hx.Do(inst.H, hx.Req{Path: path, Body: body, Header: hdr})
}

// InitBody frames a stream init / unary request.
func InitBody(method string, s *hx.Script, extra hx.Meta) []byte {
	return hx.RequestBytes(method, s, extra)
}

// ContBodyDup is ContBody with the token keys repeated once more at the end of
// the request metadata (Arrow metadata may repeat a key).
func ContBodyDup(cursor, call string, cancel bool, input []int64, as32 bool, user hx.Meta) []byte {
	return contBody(cursor, call, cancel, input, as32, user, true)
}

// ContBody frames a continuation. input nil = tick (empty schema).
func ContBody(cursor, call string, cancel bool, input []int64, as32 bool, user hx.Meta) []byte {
	return contBody(cursor, call, cancel, input, as32, user, false)
}

// ContMeta is the metadata of a continuation request batch.
func ContMeta(cursor, call string, cancel bool, user hx.Meta) hx.Meta {
	m := hx.Meta{}
	m.Keys = append(m.Keys, user.Keys...)
	m.Vals = append(m.Vals, user.Vals...)
	if cursor != "" {
		m = m.Add(hx.KState, cursor)
	}
	if call != "" {
		m = m.Add(hx.KCallState, call)
	}
	if cancel {
		m = m.Add(hx.KCancel, "1")
	}
	return m
}

func contBody(cursor, call string, cancel bool, input []int64, as32 bool, user hx.Meta, dup bool) []byte {
	m := hx.Meta{}
	m.Keys = append(m.Keys, user.Keys...)
	m.Vals = append(m.Vals, user.Vals...)
	if cursor != "" {
		m = m.Add(hx.KState, cursor)
	}
	if call != "" {
		m = m.Add(hx.KCallState, call)
	}
	if cancel {
		m = m.Add(hx.KCancel, "1")
	}
	if dup {
		if cursor != "" {
			m = m.Add(hx.KState, cursor)
		}
		if call != "" {
			m = m.Add(hx.KCallState, call)
		}
	}
	if input == nil {
		return hx.RawRequestBytes(hx.EmptyBatch(), m)
	}
	return hx.RawRequestBytes(hx.Int64Batch("x", input, as32), m)
}
