// Package lazyw is world L: one fresh real HttpServer per run whose lazy
// set-up (serve-start hook, page initialiser, protocol hash, health body,
// sticky reaper, pooled codecs) is exercised by concurrent first requests, with
// every optional subsystem the configuration swarm can switch on. It is also
// the server-under-observation of the C20 response-header monitor.
package lazyw

import (
	"context"
	"errors"
	"fmt"
	"net/http"
	"strings"
	"time"

	"verifsim/hx"
	"verifsim/simkern"

	"github.com/Query-farm/vgi-rpc-go/vgirpc"
	"github.com/apache/arrow-go/v18/arrow"
)

// AuthHeader is the request header the harness authenticator reads:
// "" anonymous, "id:<principal>" authenticated, "reject" / "missing" /
// "perm" / "value" rejected (401), "unavail" authority down (503), "error"
// authenticator failure (500).
const AuthHeader = "X-Sim-Auth"

// Config is the per-run configuration swarm. The zero value is the plainest
// server (every optional subsystem off, stock compression).
type Config struct {
	Prefix               string
	Cors                 string // "" = off
	Compression          int    // -1 = leave the default, 0 = off, n = level
	MaxRequestBytes      int64
	// CapsInHook: the request/response/externalized caps are not configured
	// before serving but applied by the serve-start hook when it succeeds
	// (transport-dependent settings, as the repository's conformance worker does)
	CapsInHook bool
	MaxResponseBytes     int64
	MaxExternalizedBytes int64
	UploadProvider       bool
	MaxUploadBytes       int64
	ProofRequired        bool
	ProxyAuthHeaders     []string
	Introspection        bool
	IntrospectRate       int
	Sticky               bool
	StickyTTL            time.Duration
	EchoHeaders          map[string]string
	ExternalStorage      bool
	// ExternalFetchOnly: an external-location configuration without a storage
	// backend (the server resolves pointers it is sent, but cannot externalize)
	ExternalFetchOnly bool
	ExternalThreshold    int64
	OAuthMetadata        bool
	WithAuth             bool
	AccessLog            bool
	DispatchHook         bool
	HookFailures         int  // the first k serve-start hook invocations fail
	HookPanics           int  // ... the first of those by panicking instead of returning an error
	NoHook               bool // no serve-start hook at all
	BatchLimit           int
	NoLanding            bool
	NoDescribePage       bool
	NoNotFoundPage       bool
}

// HookInv is one invocation of the serve-start hook.
type HookInv struct {
	// Panicked: this invocation failed by panicking (net/http recovers it and
	// aborts that one connection).
	Panicked bool
	Index      int
	Ex         *Exchange
	OK         bool
	Done       bool
	KindInside string // Server.TransportKind() read inside the hook
	Concurrent int    // invocations in flight when this one entered (including itself)
}

// Dispatch is one OnDispatchStart observation.
type Dispatch struct {
	Ex     *Exchange
	Method string
	Hash   string
	SuccAt int
}

// Exchange is one request/response pair with everything harness callbacks
// observed while the request was being served.
type Exchange struct {
	Seq         int
	Kind        string // stable route-kind label
	Task        string
	Req         hx.Req
	Resp        *hx.Resp
	Nonce       int64
	SuccAtStart int
	SuccAtEnd   int
	Invs        []*HookInv
	HandlerRuns int
	HandlerSucc []int    // hook successes at each handler entry
	Kinds       []string // Server.TransportKind() read inside the handler
	CtxKinds    []string // CallContext.Kind
	Hashes      []string // Server.ProtocolHash() read inside the handler
	Dispatches  []*Dispatch
	SessionErr  string
}

// SawHookFailure reports whether one of this request's own hook invocations failed.
// SawHookPanic reports whether one of this request's own hook invocations panicked.
func (x *Exchange) SawHookPanic() bool {
	for _, inv := range x.Invs {
		if inv.Panicked {
			return true
		}
	}
	return false
}

func (x *Exchange) SawHookFailure() bool {
	for _, i := range x.Invs {
		if i.Done && !i.OK {
			return true
		}
	}
	return false
}

// World is the simulated deployment.
type World struct {
	Sim *simkern.Sim
	Cfg Config
	Srv *vgirpc.Server
	H   *vgirpc.HttpServer

	Invs        []*HookInv
	Succ        int
	inflight    int
	MaxInflight int
	Dispatches  []*Dispatch
	Exchanges   []*Exchange
	cur         map[string]*Exchange
	AccessLines []string
	Uploads     int
	URLsVended  int
	alog        *vgirpc.AccessLogHook

	// SessionAct maps a script nonce to what the handler does with the
	// sticky session: "open", "close".
	SessionAct map[int64]string
	// Resolver outcome for the next introspections: ok | unresolved | unavail
	ResolverMode string
}

type sessionState struct{ closed int }

func (s *sessionState) Close() error { s.closed++; return nil }

func (w *World) current() *Exchange {
	t := w.Sim.Current()
	if t == nil {
		return nil
	}
	return w.cur[t.Name]
}

func applyCaps(h *vgirpc.HttpServer, cfg Config) {
	if cfg.MaxRequestBytes > 0 {
		h.SetMaxRequestBytes(cfg.MaxRequestBytes)
	}
	if cfg.MaxResponseBytes > 0 {
		h.SetMaxResponseBytes(cfg.MaxResponseBytes)
	}
	if cfg.MaxExternalizedBytes > 0 {
		h.SetMaxExternalizedResponseBytes(cfg.MaxExternalizedBytes)
	}
}

func (w *World) serveStart(kind vgirpc.TransportKind, _ map[string]bool) error {
	ex := w.current()
	inv := &HookInv{Index: len(w.Invs), Ex: ex}
	w.Invs = append(w.Invs, inv)
	w.inflight++
	inv.Concurrent = w.inflight
	if w.inflight > w.MaxInflight {
		w.MaxInflight = w.inflight
	}
	if ex != nil {
		ex.Invs = append(ex.Invs, inv)
	}
	w.Sim.Y("servestart.enter")
	// Hooks may inspect the binding (the repository documents this).
	inv.KindInside = string(w.Srv.TransportKind())
	fail := inv.Index < w.Cfg.HookFailures
	w.Sim.Y("servestart.work")
	w.inflight--
	inv.Done = true
	if fail && inv.Index < w.Cfg.HookPanics {
		inv.Panicked = true
		w.Sim.Fault("serve-start-hook-panic")
		w.Sim.Logf("serve-start hook invocation %d panics (kind=%s)", inv.Index, kind)
		panic("scripted serve-start panic")
	}
	if fail {
		w.Sim.Fault("serve-start-hook-failure")
		w.Sim.Logf("serve-start hook invocation %d fails (kind=%s)", inv.Index, kind)
		return errors.New("scripted serve-start failure")
	}
	if w.Cfg.CapsInHook && w.H != nil {
		applyCaps(w.H, w.Cfg)
		w.Sim.Probe("caps-applied-by-serve-start-hook")
	}
	inv.OK = true
	w.Succ++
	w.Sim.Logf("serve-start hook invocation %d succeeds (kind=%s)", inv.Index, kind)
	return nil
}

// dispatchMux records every dispatch and forwards to the real access log hook.
type dispatchMux struct{ w *World }

type muxToken struct{ inner vgirpc.HookToken }

func (m *dispatchMux) OnDispatchStart(ctx context.Context, info vgirpc.DispatchInfo) (context.Context, vgirpc.HookToken) {
	w := m.w
	d := &Dispatch{Ex: w.current(), Method: info.Method, Hash: info.ProtocolHash, SuccAt: w.Succ}
	w.Dispatches = append(w.Dispatches, d)
	if d.Ex != nil {
		d.Ex.Dispatches = append(d.Ex.Dispatches, d)
	}
	w.Sim.Y("dispatchhook.start")
	tok := &muxToken{}
	if w.alog != nil {
		ctx, tok.inner = w.alog.OnDispatchStart(ctx, info)
	}
	return ctx, tok
}

func (m *dispatchMux) OnDispatchEnd(ctx context.Context, token vgirpc.HookToken, info vgirpc.DispatchInfo, stats *vgirpc.CallStatistics, err error) {
	w := m.w
	w.Sim.Y("dispatchhook.end")
	if w.alog != nil {
		var inner vgirpc.HookToken
		if t, ok := token.(*muxToken); ok {
			inner = t.inner
		}
		w.alog.OnDispatchEnd(ctx, inner, info, stats, err)
	}
}

type logSink struct{ w *World }

func (l *logSink) Write(p []byte) (int, error) {
	l.w.Sim.Y("accesslog.write")
	l.w.AccessLines = append(l.w.AccessLines, string(p))
	return len(p), nil
}

type store struct{ w *World }

func (s *store) Upload(data []byte, _ *arrow.Schema, _ string) (string, error) {
	s.w.Sim.Y("store.upload")
	s.w.Uploads++
	s.w.Sim.Probe("externalized-upload")
	return fmt.Sprintf("https://store.sim/obj/%d", s.w.Uploads), nil
}

type urlProvider struct{ w *World }

func (p *urlProvider) GenerateUploadURL(_ *arrow.Schema) (vgirpc.UploadURL, error) {
	p.w.Sim.Y("uploadurl.generate")
	p.w.URLsVended++
	n := p.w.URLsVended
	return vgirpc.UploadURL{
		UploadURL:   fmt.Sprintf("https://store.sim/put/%d", n),
		DownloadURL: fmt.Sprintf("https://store.sim/get/%d", n),
		ExpiresAt:   time.Now().Add(time.Hour),
	}, nil
}

func (w *World) authenticate(r *http.Request) (*vgirpc.AuthContext, error) {
	w.Sim.Y("authenticate")
	v := r.Header.Get(AuthHeader)
	switch {
	case v == "":
		return vgirpc.Anonymous(), nil
	case strings.HasPrefix(v, "id:"):
		return &vgirpc.AuthContext{Domain: "sim", Principal: v[3:], Authenticated: true}, nil
	case v == "reject":
		w.Sim.Fault("authenticator-reject")
		return nil, vgirpc.NewAuthFailure(vgirpc.AuthReasonInvalidCredential, "scripted rejection")
	case v == "missing":
		w.Sim.Fault("authenticator-reject")
		return nil, vgirpc.NewAuthFailure(vgirpc.AuthReasonMissingCredential, "")
	case v == "perm":
		w.Sim.Fault("authenticator-reject")
		return nil, &vgirpc.RpcError{Type: "PermissionError", Message: "scripted"}
	case v == "value":
		w.Sim.Fault("authenticator-reject")
		return nil, &vgirpc.RpcError{Type: "ValueError", Message: "scripted"}
	case v == "unavail":
		w.Sim.Fault("authenticator-unavailable")
		return nil, vgirpc.NewAuthUnavailable("scripted outage")
	}
	w.Sim.Fault("authenticator-error")
	return nil, errors.New("scripted authenticator error")
}

func (w *World) resolve(credential string) (vgirpc.TokenIdentity, bool, error) {
	w.Sim.Y("introspect.resolve")
	switch w.ResolverMode {
	case "unresolved":
		return vgirpc.TokenIdentity{}, false, nil
	case "unavail":
		w.Sim.Fault("resolver-unavailable")
		return vgirpc.TokenIdentity{}, false, vgirpc.NewAuthUnavailable("scripted resolver outage")
	}
	if strings.HasPrefix(credential, "tok-") {
		return vgirpc.TokenIdentity{Principal: "user-" + credential[4:], TokenName: "sim token"}, true, nil
	}
	return vgirpc.TokenIdentity{}, false, nil
}

// handlerEntry is installed as hx.InitHook for the duration of the run.
func (w *World) handlerEntry(_ context.Context, cc *vgirpc.CallContext, s *hx.Script) {
	ex := w.current()
	kind := string(w.Srv.TransportKind())
	hash := w.Srv.ProtocolHash()
	if ex != nil {
		ex.HandlerRuns++
		ex.HandlerSucc = append(ex.HandlerSucc, w.Succ)
		ex.Kinds = append(ex.Kinds, kind)
		ex.CtxKinds = append(ex.CtxKinds, string(cc.Kind))
		ex.Hashes = append(ex.Hashes, hash)
	}
	switch w.SessionAct[s.Nonce] {
	case "open":
		if err := cc.OpenSession(&sessionState{}, 0); err != nil {
			if ex != nil {
				ex.SessionErr = err.Error()
			}
		} else {
			w.Sim.Probe("sticky-session-opened")
		}
	case "close":
		if cc.CloseSession() {
			w.Sim.Probe("sticky-session-closed")
		}
	}
}

// New builds the server. Must be called inside the bubble, from the scheduler
// goroutine (yields in set-up code are no-ops there).
func New(sim *simkern.Sim, cfg Config) (*World, error) {
	w := &World{Sim: sim, Cfg: cfg, cur: map[string]*Exchange{}, SessionAct: map[int64]string{}, ResolverMode: "ok"}
	srv := vgirpc.NewServer()
	srv.SetServerID("lazy-1")
	srv.SetServiceName("LazyService")
	hx.Register(srv)
	w.Srv = srv
	if !cfg.NoHook {
		srv.SetServeStartHook(w.serveStart)
	}
	if cfg.AccessLog {
		w.alog = vgirpc.NewAccessLogHook(&logSink{w}, "sim-1")
	}
	if cfg.DispatchHook || cfg.AccessLog {
		srv.SetDispatchHook(&dispatchMux{w})
	}
	if cfg.ExternalStorage {
		ec := vgirpc.DefaultExternalLocationConfig(&store{w})
		ec.ExternalizeThresholdBytes = cfg.ExternalThreshold
		srv.SetExternalLocation(ec)
	} else if cfg.ExternalFetchOnly {
		ec := vgirpc.DefaultExternalLocationConfig(nil)
		srv.SetExternalLocation(ec)
	}
	h, err := vgirpc.NewHttpServerWithKey(srv, []byte("0123456789abcdef0123456789abcdef"))
	if err != nil {
		return nil, err
	}
	w.H = h
	// Route-table rebuilding setters first (they drop routes added later).
	if cfg.Prefix != "" {
		h.SetPrefix(cfg.Prefix)
	}
	if cfg.UploadProvider {
		h.SetUploadURLProvider(&urlProvider{w})
		if cfg.MaxUploadBytes > 0 {
			h.SetMaxUploadBytes(cfg.MaxUploadBytes)
		}
	}
	if cfg.Cors != "" {
		h.SetCorsOrigins(cfg.Cors)
	}
	if cfg.Compression >= 0 {
		if err := h.SetCompressionLevel(cfg.Compression); err != nil {
			return nil, err
		}
	}
	if !cfg.CapsInHook {
		applyCaps(h, cfg)
	}
	if cfg.ProofRequired {
		h.SetProxyProofRequired(true)
	}
	if len(cfg.ProxyAuthHeaders) > 0 {
		h.SetProxyAuthHeaders(cfg.ProxyAuthHeaders...)
	}
	if cfg.WithAuth || cfg.Introspection {
		h.SetAuthenticate(w.authenticate)
	}
	if cfg.OAuthMetadata {
		if err := h.SetOAuthResourceMetadata(&vgirpc.OAuthResourceMetadata{
			Resource:             "https://lazy.sim" + cfg.Prefix,
			AuthorizationServers: []string{"https://idp.sim"},
		}); err != nil {
			return nil, err
		}
	}
	if cfg.Introspection {
		if err := h.EnableTokenIntrospection(vgirpc.TokenIntrospectionConfig{
			Resolver: w.resolve, Principals: []string{"proxy"}, RateLimitPerSecond: cfg.IntrospectRate,
		}); err != nil {
			return nil, err
		}
	}
	if cfg.Sticky {
		h.EnableSticky(cfg.StickyTTL)
		if len(cfg.EchoHeaders) > 0 {
			h.SetStickyEchoHeaders(cfg.EchoHeaders)
		}
	}
	if cfg.BatchLimit > 0 {
		h.SetProducerBatchLimit(cfg.BatchLimit)
	}
	if cfg.NoLanding {
		h.SetEnableLandingPage(false)
	}
	if cfg.NoDescribePage {
		h.SetEnableDescribePage(false)
	}
	if cfg.NoNotFoundPage {
		h.SetEnableNotFoundPage(false)
	}
	hx.InitHook = w.handlerEntry
	return w, nil
}

// Close removes the process-global handler hook.
func (w *World) Close() { hx.InitHook = nil }

// Shutdown is run as a task at the end of a run: it stops the sticky reaper
// (when sticky is on) so the bubble can end.
func (w *World) Shutdown() {
	if dh := w.H.DrainHandle(); dh != nil {
		dh.Shutdown()
	}
}

// Do serves one request on the calling task and records everything observed.
func (w *World) Do(kind string, rq hx.Req, nonce int64) *Exchange {
	ex := &Exchange{Seq: len(w.Exchanges), Kind: kind, Req: rq, Nonce: nonce, SuccAtStart: w.Succ}
	if t := w.Sim.Current(); t != nil {
		ex.Task = t.Name
		w.cur[t.Name] = ex
	}
	w.Exchanges = append(w.Exchanges, ex)
	ex.Resp = hx.Do(w.H, rq)
	ex.SuccAtEnd = w.Succ
	if ex.Task != "" {
		delete(w.cur, ex.Task)
	}
	return ex
}

// ReaperTasks counts the implicit tasks started from sticky.go (the reaper).
func (w *World) ReaperTasks() int {
	n := 0
	for _, t := range w.Sim.Tasks() {
		if !t.Root && strings.Contains(t.Name, ">sticky.go:") {
			n++
		}
	}
	return n
}

// P prefixes a path with the configured prefix.
func (w *World) P(path string) string { return w.Cfg.Prefix + path }
