// Package gatesw is world A ("gates with clocks"): helpers shared by the
// proxy-proof check (C25) and the token-introspection check (C26) — a
// deadline clock that lets tasks wait for tape-chosen simulated instants, a
// capturing slog handler, and a plain ServeHTTP caller whose request body
// reports when it is first read.
package gatesw

import (
	"bytes"
	"context"
	"fmt"
	"io"
	"log/slog"
	"net/http"
	"net/http/httptest"
	"runtime/debug"
	"sort"
	"strings"
	"sync"
	"time"

	"verifsim/simkern"
)

// Clock lets tasks wait until a simulated instant and offers the scheduler the
// matching clock actions. Simulated time moves only through these actions.
type Clock struct {
	Sim *simkern.Sim
	// Frozen, when it returns true, withholds every clock action (the world
	// wants the current instant to stay unambiguous).
	Frozen func() bool
	// Jitter are extra small advances offered at every quiescent point.
	Jitter []time.Duration
	// FaultKind is counted whenever the clock is moved.
	FaultKind string

	deadlines map[string]time.Duration
	Advances  int
}

// NewClock creates a clock for sim.
func NewClock(sim *simkern.Sim) *Clock {
	return &Clock{Sim: sim, deadlines: map[string]time.Duration{}, FaultKind: "clock-advance"}
}

// WaitFor parks the calling task until d of simulated time has passed. d <= 0
// is an ordinary yield.
func (c *Clock) WaitFor(task string, d time.Duration) {
	if d <= 0 {
		c.Sim.Y("idle")
		return
	}
	target := c.Sim.Now() + d
	c.deadlines[task] = target
	c.Sim.Yield("wait-until", func() bool { return c.Sim.Now() >= target })
	delete(c.deadlines, task)
}

// Actions returns the clock actions available now.
func (c *Clock) Actions() []simkern.Action {
	if c.Frozen != nil && c.Frozen() {
		return nil
	}
	var acts []simkern.Action
	now := c.Sim.Now()
	var next time.Duration
	names := make([]string, 0, len(c.deadlines))
	for k := range c.deadlines {
		names = append(names, k)
	}
	sort.Strings(names)
	for _, k := range names {
		d := c.deadlines[k]
		if d > now && (next == 0 || d < next) {
			next = d
		}
	}
	if next > 0 {
		delta := next - now
		acts = append(acts, simkern.Action{Name: "advance-to-next-deadline", Weight: 8, Do: func() {
			c.Sim.Fault(c.FaultKind)
			c.Advances++
			c.Sim.Advance(delta)
		}})
	}
	for _, d := range c.Jitter {
		d := d
		acts = append(acts, simkern.Action{Name: fmt.Sprintf("advance %v", d), Weight: 1, Do: func() {
			c.Sim.Fault(c.FaultKind)
			c.Advances++
			c.Sim.Advance(d)
		}})
	}
	return acts
}

// ---- slog capture ----

// LogCapture records every slog record emitted while it is installed as the
// process default logger (all levels, attributes rendered with %v).
type LogCapture struct {
	mu    sync.Mutex
	Lines []string
	prev  *slog.Logger
}

type capHandler struct {
	c      *LogCapture
	prefix string
	attrs  string
}

func (h *capHandler) Enabled(context.Context, slog.Level) bool { return true }

func renderAttr(sb *strings.Builder, prefix string, a slog.Attr) {
	v := a.Value.Resolve()
	if v.Kind() == slog.KindGroup {
		p := prefix
		if a.Key != "" {
			p = prefix + a.Key + "."
		}
		for _, g := range v.Group() {
			renderAttr(sb, p, g)
		}
		return
	}
	fmt.Fprintf(sb, " %s%s=%v", prefix, a.Key, v.Any())
}

func (h *capHandler) Handle(_ context.Context, r slog.Record) error {
	var sb strings.Builder
	sb.WriteString(r.Level.String())
	sb.WriteString(" ")
	sb.WriteString(r.Message)
	sb.WriteString(h.attrs)
	r.Attrs(func(a slog.Attr) bool {
		renderAttr(&sb, h.prefix, a)
		return true
	})
	h.c.mu.Lock()
	h.c.Lines = append(h.c.Lines, sb.String())
	h.c.mu.Unlock()
	return nil
}

func (h *capHandler) WithAttrs(as []slog.Attr) slog.Handler {
	var sb strings.Builder
	sb.WriteString(h.attrs)
	for _, a := range as {
		renderAttr(&sb, h.prefix, a)
	}
	return &capHandler{c: h.c, prefix: h.prefix, attrs: sb.String()}
}

func (h *capHandler) WithGroup(name string) slog.Handler {
	if name == "" {
		return h
	}
	return &capHandler{c: h.c, prefix: h.prefix + name + ".", attrs: h.attrs}
}

// CaptureLogs installs a capturing default logger; call Restore when the run
// ends.
func CaptureLogs() *LogCapture {
	c := &LogCapture{prev: slog.Default()}
	slog.SetDefault(slog.New(&capHandler{c: c}))
	return c
}

// Restore reinstalls the previous default logger.
func (c *LogCapture) Restore() { slog.SetDefault(c.prev) }

// Snapshot returns the lines captured so far.
func (c *LogCapture) Snapshot() []string {
	c.mu.Lock()
	defer c.mu.Unlock()
	return append([]string(nil), c.Lines...)
}

// ---- HTTP ----

// Body is a request body that reports its first read.
type Body struct {
	r       *bytes.Reader
	OnFirst func()
	WasRead bool
}

// NewBody wraps b.
func NewBody(b []byte, onFirst func()) *Body { return &Body{r: bytes.NewReader(b), OnFirst: onFirst} }

func (b *Body) Read(p []byte) (int, error) {
	if !b.WasRead {
		b.WasRead = true
		if b.OnFirst != nil {
			b.OnFirst()
		}
	}
	return b.r.Read(p)
}

// Close implements io.Closer.
func (b *Body) Close() error { return nil }

var _ io.ReadCloser = (*Body)(nil)

// Resp is the outcome of one request.
type Resp struct {
	Status   int
	Header   http.Header
	Body     []byte
	Panicked any
	Stack    string
}

// SlowPeerHeader, set on a request passed to Serve, makes that request's peer
// drain its response slowly: a Write to the response blocks (a scheduling
// point) before the bytes handed to it are consumed, as a write to a socket
// with a full send buffer does. The header is not forwarded.
const SlowPeerHeader = "X-Sim-Slow-Peer"

type slowWriter struct {
	http.ResponseWriter
}

func (s *slowWriter) Write(p []byte) (int, error) {
	if sm := simkern.CurrentSim(); sm != nil {
		sm.Y("peer.slow-read")
	}
	return s.ResponseWriter.Write(p)
}

// Serve calls h.ServeHTTP the way net/http would (an escaped panic is
// recorded: the real server would abort the connection).
func Serve(h http.Handler, method, path string, body *Body, contentLength int64, header map[string]string) *Resp {
	r := httptest.NewRequest(method, path, body)
	r.ContentLength = contentLength
	slow := false
	for k, v := range header {
		if k == SlowPeerHeader {
			slow = true
			continue
		}
		r.Header.Set(k, v)
	}
	w := httptest.NewRecorder()
	var rw http.ResponseWriter = w
	if slow {
		rw = &slowWriter{ResponseWriter: w}
	}
	resp := &Resp{}
	func() {
		defer func() {
			if rv := recover(); rv != nil {
				resp.Panicked = rv
				resp.Stack = string(debug.Stack())
			}
		}()
		h.ServeHTTP(rw, r)
	}()
	resp.Status = w.Code
	resp.Header = w.Header().Clone()
	resp.Body = append([]byte(nil), w.Body.Bytes()...)
	return resp
}
