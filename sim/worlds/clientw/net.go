package clientw

import (
	"bytes"
	"context"
	"errors"
	"fmt"
	"io"
	"net/http"
	"runtime/debug"
	"strings"

	"verifsim/hx"
	"verifsim/simkern"
	"verifsim/worlds/httpw"
)

// Fault kinds (response path unless stated otherwise).
const (
	FDrop          = "drop"              // response lost after the server processed the request
	FDropBefore    = "drop-before"       // request lost before it reached the server
	FTimeout       = "timeout"           // no response before the client's deadline (simulated clock)
	FTimeoutBody   = "timeout-body"      // headers arrive, the body stalls until the deadline
	FTruncBoundary = "truncate-boundary" // body cut at an IPC message boundary
	FTruncMid      = "truncate-mid"      // body cut inside an IPC message
	FCorruptBody   = "corrupt-body"      // byte flipped inside a record-batch body (message stays well formed)
	FCorruptToken  = "corrupt-token"     // byte flipped inside the cursor value
	FCorruptFrame  = "corrupt-frame"     // byte flipped inside the compressed body
	FEncUnknown    = "encoding-unknown"  // Content-Encoding names a coding the client does not speak
	FEncWrong      = "encoding-wrong"    // Content-Encoding does not match the body
	FDrift         = "schema-drift"      // response re-encoded under a perturbed schema
	FStatus        = "status"            // non-2xx status
	FNoCursor      = "missing-cursor"    // continuation token stripped
	FTrailing      = "trailing-bytes"    // bytes after the final stream
	FOverEnc       = "oversize-encoded"  // body larger than the client's encoded cap
	FOverDec       = "oversize-decoded"  // decoded body larger than the client's decoded cap
	FServerAbort   = "server-abort"      // a panic escaped ServeHTTP (net/http aborts the connection)
)

// PlanKinds are the kinds a plan may name (oversize is produced by the
// workload and the client limits, server-abort by the server).
var PlanKinds = []string{FDrop, FDropBefore, FTimeout, FTimeoutBody, FTruncBoundary, FTruncMid, FCorruptBody,
	FCorruptToken, FCorruptFrame, FEncUnknown, FEncWrong, FDrift, FStatus, FNoCursor, FTrailing}

// Fault is one planned response fault.
type Fault struct {
	Kind   string
	P1, P2 int // tape-drawn parameters in [0, 65536)
	P3     int
}

// Xchg is one request seen at the simulated network.
type Xchg struct {
	Idx     int // index within its stream (0 = init / the unary call)
	Path    string
	Cursor  string // vgi_rpc.stream_state#b64 of the request batch ("" on init)
	HasCur  bool
	Cancel  bool
	ReqBody []byte
	Reached bool        // the server processed the request
	True    *httpw.Turn // the server's real answer, decoded independently (nil when not reached)
	Fault   string      // fault that actually fired ("" = none)
	Detail  string
	// delivered sizes (after the fault), for the client-limit oracle
	EncLen, DecLen int
}

// MustReject: the client cannot legitimately produce a result from what was
// delivered (nothing arrived, or the declaration was contradicted).
func (x *Xchg) MustReject() bool {
	switch x.Fault {
	case FDrop, FDropBefore, FTimeout, FTimeoutBody, FServerAbort, FEncUnknown, FEncWrong, FDrift, FTrailing:
		return true
	}
	return false
}

// AlwaysAmbiguous: the outcome is detectably ambiguous whatever the call
// returned; an exchange stream must refuse further turns afterwards.
func (x *Xchg) AlwaysAmbiguous() bool {
	if x.MustReject() {
		return true
	}
	switch x.Fault {
	case FStatus, FNoCursor, FOverEnc, FOverDec:
		return true
	}
	return false
}

// NoCompare: bytes were flipped inside well-formed framing; no client can
// notice, so values delivered on this turn are not compared.
func (x *Xchg) NoCompare() bool {
	switch x.Fault {
	case FCorruptBody, FCorruptToken, FCorruptFrame:
		return true
	}
	return false
}

// Stream is the network-side record of one client call (unary call, producer
// stream or exchange stream).
type Stream struct {
	ID     int
	Kind   string // unary | producer | exchange
	Label  string
	Plan   map[int]*Fault
	Reqs   []*Xchg
	curIdx map[string]int
	// Replay is set when a cursor value was seen in a second request body.
	Replay *ReplayInfo
}

// ReplayInfo describes a replayed cursor.
type ReplayInfo struct {
	First, Second int
	FirstFault    string
	Cancel        bool
}

type streamKey struct{}

// WithStream tags ctx so the network can attribute the requests made under it.
func WithStream(ctx context.Context, s *Stream) context.Context {
	return context.WithValue(ctx, streamKey{}, s)
}

// Net is the simulated network in front of one real HttpServer.
type Net struct {
	H            http.Handler
	MaxEnc       int64
	MaxDec       int64
	Requests     int
	Unattributed int
	// IdentityForward: the network forwards large compressed bodies
	// uncompressed (a legitimate choice: the client offered identity).
	IdentityForward bool
	OnReplay        func(s *Stream, r *ReplayInfo)
	// OnForeignCursor is called when a request of one stream carries a cursor
	// that was first seen in a request of another stream.
	OnForeignCursor func(st, owner *Stream, x *Xchg)
	curOwner        map[string]*Stream
	// Broken is set when harness code inside the network panicked.
	Broken string
}

func y(site string) {
	if s := simkern.CurrentSim(); s != nil {
		s.Y(site)
	}
}

func fault(kind string) {
	if s := simkern.CurrentSim(); s != nil {
		s.Fault(kind)
		s.Logf("net fault %s", kind)
	}
}

func probe(name string) {
	if s := simkern.CurrentSim(); s != nil {
		s.Probe(name)
	}
}

type netErr struct{ msg string }

func (e *netErr) Error() string   { return e.msg }
func (e *netErr) Timeout() bool   { return false }
func (e *netErr) Temporary() bool { return false }

// stallBody delivers a prefix and then blocks until the request context ends.
type stallBody struct {
	ctx  context.Context
	data *bytes.Reader
}

func (b *stallBody) Read(p []byte) (int, error) {
	if b.data.Len() > 0 {
		return b.data.Read(p)
	}
	<-b.ctx.Done()
	return 0, b.ctx.Err()
}
func (b *stallBody) Close() error { return nil }

// RoundTrip implements http.RoundTripper.
func (n *Net) RoundTrip(req *http.Request) (resp *http.Response, err error) {
	defer func() {
		if r := recover(); r != nil {
			if n.Broken == "" {
				n.Broken = fmt.Sprintf("%v\n%s", r, debug.Stack())
			}
			resp, err = nil, &netErr{"simulated network broke (harness error)"}
		}
	}()
	return n.roundTrip(req)
}

func (n *Net) roundTrip(req *http.Request) (*http.Response, error) {
	ctx := req.Context()
	// a real transport reads the request body some time after it was handed
	// the request (another goroutine writes it to the connection)
	y("net.before-body-read")
	var body []byte
	if req.Body != nil {
		body, _ = io.ReadAll(req.Body)
		_ = req.Body.Close()
	}
	n.Requests++
	st, _ := ctx.Value(streamKey{}).(*Stream)
	if st == nil {
		n.Unattributed++
		st = &Stream{Kind: "unknown"}
	}
	x := &Xchg{Idx: len(st.Reqs), Path: req.URL.Path, ReqBody: body}
	if sts, err := hx.ParseStreams(body); err == nil && len(sts) > 0 && len(sts[0].Batches) > 0 {
		m := sts[0].Batches[0].Meta
		x.Cursor, x.HasCur = m[hx.KState]
		_, x.Cancel = m[hx.KCancel]
	}
	st.Reqs = append(st.Reqs, x)
	// The invariant lives at the network: an exchange-stream cursor value must
	// never appear in two request bodies.
	if x.HasCur && st.Kind != "unknown" {
		// ... and a cursor belongs to the stream the server minted it for: it
		// must never travel in a request of another stream
		if n.curOwner == nil {
			n.curOwner = map[string]*Stream{}
		}
		if owner, seen := n.curOwner[x.Cursor]; seen && owner != st {
			if n.OnForeignCursor != nil {
				n.OnForeignCursor(st, owner, x)
			}
		} else if !seen {
			n.curOwner[x.Cursor] = st
		}
	}
	if st.Kind == "exchange" && x.HasCur {
		if st.curIdx == nil {
			st.curIdx = map[string]int{}
		}
		if first, dup := st.curIdx[x.Cursor]; dup && st.Replay == nil {
			st.Replay = &ReplayInfo{First: first, Second: x.Idx, FirstFault: st.Reqs[first].Fault, Cancel: x.Cancel}
			if n.OnReplay != nil {
				n.OnReplay(st, st.Replay)
			}
		} else if !dup {
			st.curIdx[x.Cursor] = x.Idx
		}
	}
	var f *Fault
	if st.Plan != nil {
		f = st.Plan[x.Idx]
	}
	if f == nil {
		f = &Fault{}
	}
	y("net.request")
	if err := ctx.Err(); err != nil {
		x.Fault = FTimeout
		fault(FTimeout)
		return nil, err
	}
	if f.Kind == FDropBefore {
		x.Fault = FDropBefore
		fault(FDropBefore)
		return nil, &netErr{"simulated: connection reset before the request was sent"}
	}
	hdr := map[string]string{}
	for k, v := range req.Header {
		if len(v) > 0 {
			hdr[k] = v[0]
		}
	}
	resp := hx.Do(n.H, hx.Req{Path: req.URL.RequestURI(), Body: body, Header: hdr, NoCT: true})
	x.Reached = true
	x.True = httpw.Decode(resp)
	y("net.response")
	if resp.Panicked != nil {
		x.Fault = FServerAbort
		fault(FServerAbort)
		return nil, &netErr{"simulated: connection aborted by the server"}
	}
	if err := ctx.Err(); err != nil {
		x.Fault = FTimeout
		fault(FTimeout)
		return nil, err
	}
	return n.deliver(req, st, x, f, resp)
}

// transportWouldReplay mirrors net/http's rule for retrying a request on a new
// connection (Request.isReplayable): replayable body and an idempotent method
// or an idempotency-key header.
func transportWouldReplay(req *http.Request) bool {
	if req.Body != nil && req.Body != http.NoBody && req.GetBody == nil {
		return false
	}
	switch req.Method {
	case "GET", "HEAD", "OPTIONS", "TRACE":
		return true
	}
	if _, ok := req.Header["Idempotency-Key"]; ok {
		return true
	}
	_, ok := req.Header["X-Idempotency-Key"]
	return ok
}

func coding(h http.Header) (string, string) {
	if v := h.Get("Content-Encoding"); v != "" {
		return strings.ToLower(strings.TrimSpace(v)), "Content-Encoding"
	}
	if v := h.Get("X-VGI-Content-Encoding"); v != "" {
		return strings.ToLower(strings.TrimSpace(v)), "X-VGI-Content-Encoding"
	}
	return "", ""
}

var recodings = []string{"zstd", "gzip", ""}

func (n *Net) deliver(req *http.Request, st *Stream, x *Xchg, f *Fault, resp *hx.Resp) (*http.Response, error) {
	ctx := req.Context()
	status := resp.Status
	header := resp.Header.Clone()
	enc := resp.Body
	dec := resp.Decoded
	origCoding, _ := coding(header)
	isArrow := header.Get("Content-Type") == hx.ArrowCT && dec != nil
	fired := ""
	detail := ""
	// setDecoded installs a rewritten decoded body under a (possibly different)
	// content coding — any coding the client offered is a legitimate choice for
	// an intermediary.
	setDecoded := func(nd []byte, pick int) {
		c := recodings[pick%len(recodings)]
		header.Del("Content-Encoding")
		header.Del("X-VGI-Content-Encoding")
		if c != "" {
			header.Set("Content-Encoding", c)
		}
		dec = nd
		enc = Compress(c, nd)
		detail += fmt.Sprintf(" recoded=%q", c)
	}
	chunked := false
	var stall *stallBody
	switch f.Kind {
	case FDrop:
		x.Fault = FDrop
		fault(FDrop)
		if n.Requests > 1 && transportWouldReplay(req) {
			// What net/http's Transport does (documented on http.Transport): a
			// request that failed on a re-used keep-alive connection before any
			// response byte arrived is sent again on a fresh connection when it is
			// replayable (no body, or GetBody set) and idempotent — GET, HEAD,
			// OPTIONS, TRACE, or carrying an Idempotency-Key / X-Idempotency-Key
			// header. The caller never learns of the first attempt.
			fault("transport-replays-idempotent-request")
			r2 := req.Clone(ctx)
			if req.GetBody != nil {
				b, err := req.GetBody()
				if err != nil {
					return nil, &netErr{"simulated: connection reset while reading the response"}
				}
				r2.Body = b
			}
			return n.roundTrip(r2)
		}
		return nil, &netErr{"simulated: connection reset while reading the response"}
	case FTimeout:
		if _, has := ctx.Deadline(); has {
			x.Fault = FTimeout
			fault(FTimeout)
			<-ctx.Done()
			return nil, ctx.Err()
		}
	case FTimeoutBody:
		if _, has := ctx.Deadline(); has {
			cut := 0
			if len(enc) > 0 {
				cut = f.P1 % len(enc)
			}
			stall = &stallBody{ctx: ctx, data: bytes.NewReader(enc[:cut])}
			fired = FTimeoutBody
		}
	case FStatus:
		codes := []int{500, 503, 502, 400, 404, 429, 504, 401}
		status = codes[f.P1%len(codes)]
		if f.P2%2 == 1 {
			header = http.Header{"Content-Type": []string{"text/plain; charset=utf-8"}}
			enc = []byte(http.StatusText(status) + "\n")
			dec = enc
		}
		fired = FStatus
		detail = fmt.Sprintf("status=%d", status)
	case FEncUnknown:
		vals := []string{"br", "deflate", "snappy", "zstd, br", "compress"}
		header.Del("X-VGI-Content-Encoding")
		header.Set("Content-Encoding", vals[f.P1%len(vals)])
		fired = FEncUnknown
		detail = "content-encoding=" + header.Get("Content-Encoding")
	case FEncWrong:
		if len(enc) > 0 {
			header.Del("Content-Encoding")
			header.Del("X-VGI-Content-Encoding")
			if origCoding == "zstd" {
				if f.P1%2 == 0 {
					detail = "zstd body, no coding header"
				} else {
					header.Set("Content-Encoding", "gzip")
					detail = "zstd body labelled gzip"
				}
			} else {
				switch f.P1 % 3 {
				case 0:
					header.Set("Content-Encoding", "zstd")
					detail = "identity body labelled zstd"
				case 1:
					header.Set("Content-Encoding", "gzip")
					detail = "identity body labelled gzip"
				default:
					header.Set("X-VGI-Content-Encoding", "zstd")
					detail = "identity body labelled zstd (X-VGI header)"
				}
			}
			fired = FEncWrong
		}
	case FCorruptFrame:
		if origCoding != "" && len(enc) > 0 {
			nb := append([]byte(nil), enc...)
			at := f.P1 % len(nb)
			nb[at] ^= byte(1 + f.P2%255)
			enc = nb
			fired = FCorruptFrame
		}
	}
	if fired == "" && isArrow {
		switch f.Kind {
		case FTruncBoundary, FTruncMid:
			fr, err := Frames(dec)
			if err == nil && len(fr) > 0 {
				var cut int
				if f.Kind == FTruncBoundary {
					// a boundary strictly before the end: 0, or the end of any
					// frame but the last
					cands := []int{0}
					for _, fm := range fr[:len(fr)-1] {
						cands = append(cands, fm.End)
					}
					// favour late cuts (they are the undetectable ones)
					i := len(cands) - 1 - (f.P1 % len(cands))
					if f.P2%3 == 0 {
						i = len(cands) - 1
					}
					cut = cands[i]
					detail = fmt.Sprintf("cut at boundary %d of %d", i, len(cands)-1)
				} else {
					fm := fr[len(fr)-1-(f.P1%len(fr))]
					span := fm.End - fm.Off
					cut = fm.Off + 1 + f.P2%(span-1)
					detail = "cut inside a message"
					if fm.EOS {
						detail = "cut inside the end-of-stream marker"
					}
				}
				setDecoded(append([]byte(nil), dec[:cut]...), f.P3)
				fired = f.Kind
			}
		case FCorruptBody:
			fr, err := Frames(dec)
			if err == nil {
				var cands []Frame
				for _, fm := range fr {
					if fm.Batch && fm.BodyLen > 0 {
						cands = append(cands, fm)
					}
				}
				if len(cands) > 0 {
					fm := cands[f.P1%len(cands)]
					nb := append([]byte(nil), dec...)
					nb[fm.BodyOff+f.P2%fm.BodyLen] ^= byte(1 + f.P3%255)
					setDecoded(nb, f.P3/256)
					fired = FCorruptBody
				}
			}
		case FCorruptToken:
			if cur := x.True.Cursor; cur != "" {
				if at := bytes.Index(dec, []byte(cur)); at >= 0 {
					nb := append([]byte(nil), dec...)
					nb[at+f.P1%len(cur)] ^= 0x01
					setDecoded(nb, f.P2)
					fired = FCorruptToken
				}
			}
		case FDrift:
			nd, what, err := DriftSchema(dec, f.P1, f.P2)
			if err == nil {
				setDecoded(nd, f.P3)
				fired = FDrift
				detail = what + detail
			}
		case FNoCursor:
			nd, changed, err := StripCursor(dec)
			if err == nil && changed {
				setDecoded(nd, f.P1)
				fired = FNoCursor
			}
		case FTrailing:
			var tail []byte
			switch f.P1 % 4 {
			case 0:
				tail = []byte{0}
				detail = "one zero byte"
			case 1:
				tail = []byte{0xff, 0xff, 0xff, 0xff, 0, 0, 0, 0}
				detail = "a second end-of-stream marker"
			case 2:
				tail = LastStream(dec)
				detail = "a second copy of the final stream"
			default:
				tail = []byte("trailing garbage")
				detail = "text"
			}
			if len(tail) > 0 {
				if f.P2%4 == 0 && origCoding != "" {
					// appended on the wire, after the compressed frame
					enc = append(append([]byte(nil), enc...), tail...)
					dec = nil
					detail += " (after the compressed frame)"
				} else {
					setDecoded(append(append([]byte(nil), dec...), tail...), f.P3)
				}
				fired = FTrailing
			}
		}
	}
	// Client limits: the declared caps are part of the contract; a delivered
	// body beyond them is an over-limit outcome whatever produced it.
	if fired == "" && n.IdentityForward && origCoding != "" && n.MaxEnc > 0 && int64(len(dec)) > n.MaxEnc {
		// an intermediary that forwards the body uncompressed (valid: the
		// client offered identity) turns a large decoded body into a large
		// encoded one
		header.Del("Content-Encoding")
		header.Del("X-VGI-Content-Encoding")
		enc = dec
	}
	x.EncLen, x.DecLen = len(enc), len(dec)
	if fired == "" {
		if n.MaxEnc > 0 && int64(len(enc)) > n.MaxEnc {
			fired = FOverEnc
		} else if n.MaxDec > 0 && dec != nil && int64(len(dec)) > n.MaxDec {
			fired = FOverDec
		}
	}
	if fired != "" {
		x.Fault = fired
		x.Detail = strings.TrimSpace(detail)
		fault(fired)
	}
	if x.Idx == 0 && fired != "" {
		probe("fault-on-first-request")
	}
	if x.Cancel && fired != "" {
		probe("fault-on-cancel-request")
	}
	if c, _ := coding(header); c == "gzip" {
		probe("gzip-coded-response")
	} else if c == "zstd" {
		probe("zstd-coded-response")
	}
	if f.P3%5 == 4 {
		chunked = true
	}
	out := &http.Response{
		Status:     fmt.Sprintf("%d %s", status, http.StatusText(status)),
		StatusCode: status,
		Proto:      "HTTP/1.1", ProtoMajor: 1, ProtoMinor: 1,
		Header:        header,
		Request:       req,
		ContentLength: int64(len(enc)),
	}
	if chunked {
		out.ContentLength = -1
	}
	if stall != nil {
		out.Body = stall
	} else {
		out.Body = io.NopCloser(bytes.NewReader(enc))
	}
	return out, nil
}

// IsNetErr reports whether err (or something it wraps) came from the network.
func IsNetErr(err error) bool {
	var ne *netErr
	return errors.As(err, &ne)
}
