// Package clientw is world C: the real vgirpc.HttpClient talking to one real
// HttpServer through a simulated network (an http.RoundTripper owned by the
// simulator) that records every request, serves it by calling ServeHTTP, and
// damages the response in a tape-chosen way.
package clientw

import (
	"bytes"
	"compress/gzip"
	"errors"
	"fmt"
	"io"

	"github.com/apache/arrow-go/v18/arrow"
	"github.com/apache/arrow-go/v18/arrow/array"
	"github.com/apache/arrow-go/v18/arrow/ipc"
	"github.com/klauspost/compress/zstd"

	"verifsim/hx"
)

// Frame is one encapsulated IPC message (or end-of-stream marker) of a body
// that is a concatenation of Arrow IPC streams.
type Frame struct {
	Off     int // offset of the continuation marker
	End     int // offset just past the message body
	BodyOff int
	BodyLen int
	EOS     bool
	Batch   bool // a record-batch message
}

type countingReader struct {
	r *bytes.Reader
}

func (c *countingReader) Read(p []byte) (int, error) { return c.r.Read(p) }

// Frames walks the IPC framing of b with arrow-go's public message reader.
func Frames(b []byte) ([]Frame, error) {
	var out []Frame
	br := bytes.NewReader(b)
	for br.Len() > 0 {
		mr := ipc.NewMessageReader(&countingReader{br})
		for {
			off := len(b) - br.Len()
			msg, err := mr.Message()
			end := len(b) - br.Len()
			if err != nil {
				if errors.Is(err, io.EOF) && end > off {
					out = append(out, Frame{Off: off, End: end, EOS: true})
					break
				}
				mr.Release()
				return out, fmt.Errorf("frames: %w", err)
			}
			bl := int(msg.BodyLen())
			out = append(out, Frame{Off: off, End: end, BodyOff: end - bl, BodyLen: bl, Batch: msg.Type() == ipc.MessageRecordBatch})
		}
		mr.Release()
	}
	return out, nil
}

// rstream is one decoded stream kept as Arrow records for re-encoding.
type rstream struct {
	schema *arrow.Schema
	recs   []arrow.RecordBatch
}

func readStreams(b []byte) ([]*rstream, error) {
	var out []*rstream
	br := bytes.NewReader(b)
	for br.Len() > 0 {
		rd, err := ipc.NewReader(br)
		if err != nil {
			return out, err
		}
		st := &rstream{schema: rd.Schema()}
		for rd.Next() {
			rec := rd.RecordBatch()
			rec.Retain()
			st.recs = append(st.recs, rec)
		}
		err = rd.Err()
		rd.Release()
		out = append(out, st)
		if err != nil && !errors.Is(err, io.EOF) {
			return out, err
		}
	}
	return out, nil
}

func releaseStreams(sts []*rstream) {
	for _, st := range sts {
		for _, r := range st.recs {
			r.Release()
		}
	}
}

func recMeta(rec arrow.RecordBatch) arrow.Metadata {
	if rm, ok := rec.(arrow.RecordBatchWithMetadata); ok {
		return rm.Metadata()
	}
	return arrow.Metadata{}
}

func writeStreams(sts []*rstream) []byte {
	var buf bytes.Buffer
	for _, st := range sts {
		w := ipc.NewWriter(&buf, ipc.WithSchema(st.schema))
		for _, r := range st.recs {
			if err := w.Write(r); err != nil {
				panic(fmt.Sprintf("clientw: re-encode: %v", err))
			}
		}
		_ = w.Close()
	}
	return buf.Bytes()
}

// DriftSchema re-encodes stream number si (modulo the number of streams) of b
// under a perturbed schema; the column data is untouched. variant selects the
// perturbation. It returns the new body and a short description.
func DriftSchema(b []byte, si, variant int) ([]byte, string, error) {
	sts, err := readStreams(b)
	if err != nil || len(sts) == 0 {
		releaseStreams(sts)
		return nil, "", fmt.Errorf("drift: unreadable body: %v", err)
	}
	defer releaseStreams(sts)
	st := sts[si%len(sts)]
	fields := append([]arrow.Field(nil), st.schema.Fields()...)
	md := st.schema.Metadata()
	dropLast := false
	swap := false
	var what string
	nf := len(fields)
	v := variant % 6
	if nf == 0 && (v == 0 || v == 1 || v == 3 || v == 4 || v == 5) {
		v = 2
	}
	if nf < 2 && (v == 4 || v == 5) {
		v = 0
	}
	switch v {
	case 0:
		fields[0].Name = fields[0].Name + "_x"
		what = "field renamed"
	case 1:
		i := nf - 1
		fields[i].Nullable = !fields[i].Nullable
		what = "nullability flipped"
	case 2:
		md = arrow.NewMetadata(append(md.Keys(), "contract"), append(md.Values(), "drifted"))
		what = "schema metadata added"
	case 3:
		fields[0].Metadata = arrow.NewMetadata([]string{"unit"}, []string{"drifted"})
		what = "field metadata added"
	case 4:
		dropLast = true
		fields = fields[:nf-1]
		what = "last column dropped"
	case 5:
		swap = true
		fields[0], fields[1] = fields[1], fields[0]
		what = "first two columns swapped"
	}
	ns := arrow.NewSchema(fields, &md)
	for i, r := range st.recs {
		cols := append([]arrow.Array(nil), r.Columns()...)
		if dropLast {
			cols = cols[:len(cols)-1]
		}
		if swap {
			cols[0], cols[1] = cols[1], cols[0]
		}
		nr := array.NewRecordBatchWithMetadata(ns, cols, r.NumRows(), recMeta(r))
		r.Release()
		st.recs[i] = nr
	}
	st.schema = ns
	return writeStreams(sts), what, nil
}

// StripCursor re-encodes b without the continuation token: zero-row batches
// that only carry the token are removed, data batches lose the token keys.
// changed reports whether anything was there to strip.
func StripCursor(b []byte) (out []byte, changed bool, err error) {
	sts, err := readStreams(b)
	if err != nil {
		releaseStreams(sts)
		return nil, false, err
	}
	defer releaseStreams(sts)
	for _, st := range sts {
		var keep []arrow.RecordBatch
		for _, r := range st.recs {
			m := recMeta(r)
			if m.FindKey(hx.KState) < 0 {
				keep = append(keep, r)
				continue
			}
			changed = true
			if _, isLog := m.GetValue(hx.KLogLevel); r.NumRows() == 0 && !isLog {
				r.Release()
				continue
			}
			var ks, vs []string
			for i, k := range m.Keys() {
				if k == hx.KState || k == hx.KCallState {
					continue
				}
				ks = append(ks, k)
				vs = append(vs, m.Values()[i])
			}
			nr := array.NewRecordBatchWithMetadata(r.Schema(), r.Columns(), r.NumRows(), arrow.NewMetadata(ks, vs))
			r.Release()
			keep = append(keep, nr)
		}
		st.recs = keep
	}
	return writeStreams(sts), changed, nil
}

// LastStream returns the bytes of the last IPC stream of b.
func LastStream(b []byte) []byte {
	fr, err := Frames(b)
	if err != nil || len(fr) == 0 {
		return nil
	}
	start := 0
	for i := 0; i < len(fr)-1; i++ {
		if fr[i].EOS {
			start = fr[i].End
		}
	}
	return b[start:]
}

// Compress encodes b with the named content coding ("" / "identity" = as is).
func Compress(coding string, b []byte) []byte {
	switch coding {
	case "zstd":
		enc, err := zstd.NewWriter(nil, zstd.WithEncoderConcurrency(1))
		if err != nil {
			panic(err)
		}
		out := enc.EncodeAll(b, nil)
		_ = enc.Close()
		return out
	case "gzip":
		var buf bytes.Buffer
		zw := gzip.NewWriter(&buf)
		_, _ = zw.Write(b)
		_ = zw.Close()
		return buf.Bytes()
	}
	return b
}
