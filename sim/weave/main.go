// Command weave inserts scheduling points into a scratch copy of a package of
// the repository under test and writes a go build overlay that substitutes the
// rewritten files. The repository itself is never modified.
//
// Rules ("every synchronisation operation is a scheduling point"):
//
//   - before a statement that calls Lock/RLock on a sync.Mutex/RWMutex:
//     verifYield(site, &mutex)
//   - before once.Do(f): verifYield(site, &once); and at the first statement
//     of a function literal passed to Do
//   - before sync/atomic operations, sync.Map / sync.Pool / WaitGroup.Wait
//     calls, channel sends, receives, selects and range-over-channel:
//     verifYield(site, nil)
//   - go statements -> verifGo(site, func(){...}) with arguments evaluated at
//     the go statement
//   - time.AfterFunc -> verifAfterFunc(site, ...), net.Listen -> verifListen
//   - assertions to *net.UnixListener / *net.TCPListener reduced to their
//     operand
//   - at the entry of every method whose receiver is (a pointer to) a package
//     struct that holds a sync.* / atomic.* field: verifYield(site, nil)
//
// Exit status 2 with a diagnostic when something it must rewrite has a shape
// it does not understand; it never guesses.
package main

import (
	"bytes"
	"encoding/json"
	"flag"
	"fmt"
	"go/ast"
	"go/format"
	"go/token"
	"go/types"
	"os"
	"path/filepath"
	"sort"
	"strings"

	"golang.org/x/tools/go/ast/astutil"
	"golang.org/x/tools/go/packages"
)

type weaver struct {
	fset  *token.FileSet
	info  *types.Info
	pkg   *types.Package
	rel   string // file name relative, for site labels
	count map[string]int
	tmpN  int
	errs  []string
}

func main() {
	dir := flag.String("dir", "/repo/vgirpc", "package directory to weave")
	out := flag.String("out", "", "output directory for rewritten files and overlay.json")
	tags := flag.String("tags", "verif", "build tags")
	extra := flag.String("add", "", "comma separated list of src=dst files to add to the overlay verbatim (dst relative to -dir)")
	merge := flag.String("merge", "", "existing overlay.json to merge into the output")
	flag.Parse()
	if *out == "" {
		fatal("missing -out")
	}
	if err := os.MkdirAll(*out, 0o755); err != nil {
		fatal(err.Error())
	}
	cfg := &packages.Config{
		Mode:       packages.NeedName | packages.NeedFiles | packages.NeedSyntax | packages.NeedTypes | packages.NeedTypesInfo | packages.NeedImports | packages.NeedCompiledGoFiles,
		Dir:        *dir,
		BuildFlags: []string{"-tags=" + *tags, "-mod=mod"},
		Env:        append(os.Environ(), "GOFLAGS=-mod=mod", "GOPROXY=off", "GOSUMDB=off"),
	}
	pkgs, err := packages.Load(cfg, ".")
	if err != nil {
		fatal("load: " + err.Error())
	}
	if len(pkgs) != 1 {
		fatal(fmt.Sprintf("expected one package, got %d", len(pkgs)))
	}
	p := pkgs[0]
	if len(p.Errors) > 0 {
		var sb strings.Builder
		for _, e := range p.Errors {
			sb.WriteString(e.Error() + "\n")
		}
		fatal("package has errors:\n" + sb.String())
	}
	overlay := map[string]string{}
	if *merge != "" {
		data, err := os.ReadFile(*merge)
		if err != nil {
			fatal(err.Error())
		}
		var ov struct{ Replace map[string]string }
		if err := json.Unmarshal(data, &ov); err != nil {
			fatal(err.Error())
		}
		for k, v := range ov.Replace {
			overlay[k] = v
		}
	}
	census := map[string]int{}
	sub := filepath.Base(*dir)
	for _, f := range p.Syntax {
		fname := p.Fset.File(f.Pos()).Name()
		if filepath.Dir(fname) != filepath.Clean(*dir) {
			continue // cgo-generated or foreign
		}
		if strings.HasSuffix(fname, "_test.go") || filepath.Base(fname) == "verif_hooks.go" {
			continue
		}
		if importsC(f) {
			continue
		}
		w := &weaver{fset: p.Fset, info: p.TypesInfo, pkg: p.Types, rel: filepath.Base(fname), count: census}
		before := w.total()
		w.file(f)
		if len(w.errs) > 0 {
			fatal(strings.Join(w.errs, "\n"))
		}
		if w.total() == before {
			continue
		}
		f.Comments = keepDirectives(f)
		var buf bytes.Buffer
		if err := format.Node(&buf, p.Fset, f); err != nil {
			fatal(fname + ": print: " + err.Error())
		}
		src, _ := os.ReadFile(fname)
		if tag := buildLine(src); tag != "" && buildLine(buf.Bytes()) != tag {
			fatal(fname + ": build constraint lost in rewriting")
		}
		dst := filepath.Join(*out, sub+"__"+filepath.Base(fname))
		if err := os.WriteFile(dst, buf.Bytes(), 0o644); err != nil {
			fatal(err.Error())
		}
		overlay[fname] = dst
	}
	if *extra != "" {
		for _, kv := range strings.Split(*extra, ",") {
			parts := strings.SplitN(kv, "=", 2)
			if len(parts) != 2 {
				fatal("bad -add entry " + kv)
			}
			overlay[filepath.Join(*dir, parts[1])] = parts[0]
		}
	}
	data, _ := json.MarshalIndent(map[string]any{"Replace": overlay}, "", " ")
	if err := os.WriteFile(filepath.Join(*out, "overlay.json"), data, 0o644); err != nil {
		fatal(err.Error())
	}
	keys := make([]string, 0, len(census))
	for k := range census {
		keys = append(keys, k)
	}
	sort.Strings(keys)
	cj := map[string]int{}
	for _, k := range keys {
		cj[k] = census[k]
	}
	cdata, _ := json.Marshal(cj)
	_ = os.WriteFile(filepath.Join(*out, "census_"+sub+".json"), cdata, 0o644)
	// Required patterns: if the package is vgirpc these must exist, else the
	// tree changed in a way the simulation cannot see through.
	if sub == "vgirpc" {
		for _, need := range []string{"lock", "go", "afterfunc", "listen", "once"} {
			if census[need] == 0 {
				fatal("weave: found no '" + need + "' site in " + *dir + "; refusing to continue")
			}
		}
	}
	fmt.Printf("weave %s: %s\n", sub, string(cdata))
}

func (w *weaver) total() int {
	n := 0
	for _, v := range w.count {
		n += v
	}
	return n
}

func fatal(msg string) {
	fmt.Fprintln(os.Stderr, "weave: "+msg)
	os.Exit(2)
}

// keepDirectives drops ordinary comments (inserted nodes have no positions, so
// free-floating comments could be re-attached in odd places) and keeps what
// the compiler reads: everything before the package clause and //go: lines.
func keepDirectives(f *ast.File) []*ast.CommentGroup {
	var out []*ast.CommentGroup
	for _, cg := range f.Comments {
		if cg.End() < f.Package {
			out = append(out, cg)
			continue
		}
		var keep []*ast.Comment
		for _, c := range cg.List {
			if strings.HasPrefix(c.Text, "//go:") {
				keep = append(keep, c)
			}
		}
		if len(keep) > 0 {
			out = append(out, &ast.CommentGroup{List: keep})
		}
	}
	return out
}

func importsC(f *ast.File) bool {
	for _, im := range f.Imports {
		if im.Path.Value == `"C"` {
			return true
		}
	}
	return false
}

func buildLine(src []byte) string {
	for _, ln := range strings.Split(string(src), "\n") {
		if strings.HasPrefix(ln, "//go:build ") {
			return strings.TrimSpace(ln)
		}
		if strings.HasPrefix(ln, "package ") {
			break
		}
	}
	return ""
}

func (w *weaver) site(pos token.Pos, op string) *ast.BasicLit {
	p := w.fset.Position(pos)
	return &ast.BasicLit{Kind: token.STRING, Value: fmt.Sprintf("%q", fmt.Sprintf("%s:%d:%s", w.rel, p.Line, op))}
}

func (w *weaver) yieldStmt(pos token.Pos, op string, obj ast.Expr) ast.Stmt {
	if obj == nil {
		obj = ast.NewIdent("nil")
	}
	return &ast.ExprStmt{X: &ast.CallExpr{Fun: ast.NewIdent("verifYield"), Args: []ast.Expr{w.site(pos, op), obj}}}
}

// detPools replaces the type sync.Pool by verifPool (package vgirpc only; the
// type comes from overlay_src/pool_verif.go): whether a Get reuses an earlier
// Put or misses is then a tape decision of the run instead of a property of
// the Go runtime's per-P caches and GC timing.
func (w *weaver) detPools(f *ast.File) {
	if w.pkg.Name() != "vgirpc" {
		return
	}
	n := 0
	astutil.Apply(f, func(c *astutil.Cursor) bool {
		se, ok := c.Node().(*ast.SelectorExpr)
		if !ok || se.Sel.Name != "Pool" {
			return true
		}
		if tn, ok := w.info.Uses[se.Sel].(*types.TypeName); ok && tn.Pkg() != nil && tn.Pkg().Path() == "sync" {
			c.Replace(ast.NewIdent("verifPool"))
			n++
		}
		return true
	}, nil)
	if n == 0 {
		return
	}
	w.count["pool-type"] += n
	// keep the sync import used whatever else the file does with it
	var syncName string
	for _, im := range f.Imports {
		if im.Path.Value == `"sync"` {
			syncName = "sync"
			if im.Name != nil {
				syncName = im.Name.Name
			}
		}
	}
	if syncName != "" && syncName != "_" && syncName != "." {
		f.Decls = append(f.Decls, &ast.GenDecl{Tok: token.VAR, Specs: []ast.Spec{&ast.ValueSpec{
			Names: []*ast.Ident{ast.NewIdent("_")},
			Type:  &ast.SelectorExpr{X: ast.NewIdent(syncName), Sel: ast.NewIdent("Mutex")},
		}}})
	}
}

func (w *weaver) file(f *ast.File) {
	w.detPools(f)
	for _, d := range f.Decls {
		fd, ok := d.(*ast.FuncDecl)
		if !ok || fd.Body == nil {
			// package-level var initialisers may contain func literals
			ast.Inspect(d, func(n ast.Node) bool {
				if fl, ok := n.(*ast.FuncLit); ok {
					fl.Body.List = w.block(fl.Body.List)
					return false
				}
				return true
			})
			continue
		}
		fd.Body.List = w.block(fd.Body.List)
		if fd.Recv != nil && len(fd.Recv.List) == 1 && w.recvHoldsSync(fd) {
			name := recvTypeName(fd.Recv.List[0].Type) + "." + fd.Name.Name
			fd.Body.List = append([]ast.Stmt{w.yieldStmt(fd.Body.Lbrace, "entry:"+name, nil)}, fd.Body.List...)
			w.count["entry"]++
		}
	}
}

func recvTypeName(e ast.Expr) string {
	switch t := e.(type) {
	case *ast.StarExpr:
		return recvTypeName(t.X)
	case *ast.Ident:
		return t.Name
	case *ast.IndexExpr:
		return recvTypeName(t.X)
	case *ast.IndexListExpr:
		return recvTypeName(t.X)
	}
	return "?"
}

func isSyncPkg(p *types.Package) bool {
	return p != nil && (p.Path() == "sync" || p.Path() == "sync/atomic")
}

func (w *weaver) recvHoldsSync(fd *ast.FuncDecl) bool {
	obj := w.info.Defs[fd.Name]
	if obj == nil {
		return false
	}
	sig, ok := obj.Type().(*types.Signature)
	if !ok || sig.Recv() == nil {
		return false
	}
	t := sig.Recv().Type()
	if p, ok := t.(*types.Pointer); ok {
		t = p.Elem()
	}
	st, ok := t.Underlying().(*types.Struct)
	if !ok {
		return false
	}
	for i := 0; i < st.NumFields(); i++ {
		ft := st.Field(i).Type()
		if p, ok := ft.(*types.Pointer); ok {
			ft = p.Elem()
		}
		if n, ok := ft.(*types.Named); ok && isSyncPkg(n.Obj().Pkg()) {
			return true
		}
	}
	return false
}

// block rewrites a statement list.
func (w *weaver) block(list []ast.Stmt) []ast.Stmt {
	var out []ast.Stmt
	for _, st := range list {
		pre := w.shallow(st)
		st = w.rewriteGo(st)
		w.nested(st)
		out = append(out, pre...)
		out = append(out, st)
	}
	return out
}

// nested recurses into the statement's own blocks and function literals.
func (w *weaver) nested(st ast.Stmt) {
	switch s := st.(type) {
	case *ast.BlockStmt:
		s.List = w.block(s.List)
		return
	case *ast.LabeledStmt:
		w.nested(s.Stmt)
		return
	case *ast.CaseClause:
		s.Body = w.block(s.Body)
		for _, e := range s.List {
			w.funcLits(e)
		}
		return
	case *ast.CommClause:
		s.Body = w.block(s.Body)
		return
	}
	first := true
	ast.Inspect(st, func(n ast.Node) bool {
		if first {
			first = false
			return true
		}
		switch b := n.(type) {
		case *ast.BlockStmt:
			b.List = w.block(b.List)
			return false
		case *ast.CaseClause:
			b.Body = w.block(b.Body)
			for _, e := range b.List {
				w.funcLits(e)
			}
			return false
		case *ast.CommClause:
			b.Body = w.block(b.Body)
			return false
		case *ast.FuncLit:
			b.Body.List = w.block(b.Body.List)
			return false
		}
		return true
	})
}

func (w *weaver) funcLits(e ast.Expr) {
	ast.Inspect(e, func(n ast.Node) bool {
		if fl, ok := n.(*ast.FuncLit); ok {
			fl.Body.List = w.block(fl.Body.List)
			return false
		}
		return true
	})
}

// shallow finds synchronisation operations that execute as part of this
// statement itself (not inside nested blocks or function literals) and returns
// the yields to put in front of it. It also performs the in-place call
// rewrites (AfterFunc, Listen, listener assertions, Once body yield).
func (w *weaver) shallow(st ast.Stmt) []ast.Stmt {
	var pre []ast.Stmt
	if _, isGo := st.(*ast.GoStmt); isGo {
		// the call of a go statement does not execute here
		return nil
	}
	if _, isDefer := st.(*ast.DeferStmt); isDefer {
		return nil
	}
	ast.Inspect(st, func(n ast.Node) bool {
		switch x := n.(type) {
		case *ast.BlockStmt:
			return false // handled by nested
		case *ast.FuncLit:
			return false
		case *ast.CaseClause, *ast.CommClause:
			return false
		case *ast.SelectStmt:
			pre = append(pre, w.yieldStmt(x.Pos(), "select", nil))
			w.count["chan"]++
			return false
		case *ast.SendStmt:
			pre = append(pre, w.yieldStmt(x.Pos(), "send", nil))
			w.count["chan"]++
			return true
		case *ast.UnaryExpr:
			if x.Op == token.ARROW {
				pre = append(pre, w.yieldStmt(x.Pos(), "recv", nil))
				w.count["chan"]++
			}
			return true
		case *ast.RangeStmt:
			if tv, ok := w.info.Types[x.X]; ok {
				if _, isChan := tv.Type.Underlying().(*types.Chan); isChan {
					pre = append(pre, w.yieldStmt(x.Pos(), "rangechan", nil))
					x.Body.List = append([]ast.Stmt{w.yieldStmt(x.Pos(), "rangechan-iter", nil)}, x.Body.List...)
					w.count["chan"]++
				}
			}
			return true
		case *ast.TypeAssertExpr:
			if x.Type != nil && w.isConcreteListener(x.Type) {
				// handled by the parent rewrite below (needs parent pointer)
			}
			return true
		case *ast.CallExpr:
			pre = append(pre, w.call(x)...)
			return true
		}
		return true
	})
	w.dropListenerAsserts(st)
	return pre
}

func (w *weaver) isConcreteListener(t ast.Expr) bool {
	tv, ok := w.info.Types[t]
	if !ok {
		return false
	}
	s := tv.Type.String()
	return s == "*net.UnixListener" || s == "*net.TCPListener"
}

// dropListenerAsserts replaces x.(*net.UnixListener) by x in assignments.
func (w *weaver) dropListenerAsserts(st ast.Stmt) {
	as, ok := st.(*ast.AssignStmt)
	if !ok {
		return
	}
	for i, r := range as.Rhs {
		if ta, ok := r.(*ast.TypeAssertExpr); ok && ta.Type != nil && w.isConcreteListener(ta.Type) {
			if len(as.Lhs) != len(as.Rhs) {
				w.errs = append(w.errs, w.fset.Position(ta.Pos()).String()+": comma-ok listener assertion not supported")
				return
			}
			as.Rhs[i] = ta.X
			w.count["listener-assert"]++
		}
	}
}

func (w *weaver) addrOf(recv ast.Expr) ast.Expr {
	tv, ok := w.info.Types[recv]
	if ok {
		if _, isPtr := tv.Type.(*types.Pointer); isPtr {
			return recv
		}
	}
	return &ast.UnaryExpr{Op: token.AND, X: recv}
}

func namedOf(t types.Type) *types.Named {
	if p, ok := t.(*types.Pointer); ok {
		t = p.Elem()
	}
	n, _ := t.(*types.Named)
	return n
}

// call classifies one call expression.
func (w *weaver) call(c *ast.CallExpr) []ast.Stmt {
	sel, ok := c.Fun.(*ast.SelectorExpr)
	if !ok {
		return nil
	}
	// package-qualified function?
	if id, ok := sel.X.(*ast.Ident); ok {
		if pn, ok := w.info.Uses[id].(*types.PkgName); ok {
			path := pn.Imported().Path()
			switch {
			case path == "time" && sel.Sel.Name == "AfterFunc":
				pos := c.Pos()
				c.Fun = ast.NewIdent("verifAfterFunc")
				c.Args = append([]ast.Expr{w.site(pos, "afterfunc")}, c.Args...)
				w.count["afterfunc"]++
			case path == "net" && sel.Sel.Name == "Listen":
				c.Fun = ast.NewIdent("verifListen")
				w.count["listen"]++
			case path == "sync/atomic":
				w.count["atomic"]++
				return []ast.Stmt{w.yieldStmt(c.Pos(), "atomic."+sel.Sel.Name, nil)}
			}
			return nil
		}
	}
	// method call
	s, ok := w.info.Selections[sel]
	if !ok {
		return nil
	}
	fn, ok := s.Obj().(*types.Func)
	if !ok || !isSyncPkg(fn.Pkg()) {
		return nil
	}
	sig := fn.Type().(*types.Signature)
	if sig.Recv() == nil {
		return nil
	}
	rn := namedOf(sig.Recv().Type())
	if rn == nil {
		return nil
	}
	tname := rn.Obj().Name()
	mname := fn.Name()
	if fn.Pkg().Path() == "sync/atomic" {
		w.count["atomic"]++
		return []ast.Stmt{w.yieldStmt(c.Pos(), "atomic."+tname+"."+mname, nil)}
	}
	// package sync
	recvExprType := namedOf(w.info.Types[sel.X].Type)
	direct := recvExprType != nil && recvExprType.Obj() == rn.Obj()
	switch tname {
	case "Mutex", "RWMutex":
		if mname != "Lock" && mname != "RLock" {
			return nil
		}
		if !direct {
			w.errs = append(w.errs, w.fset.Position(c.Pos()).String()+": "+mname+" through an embedded mutex is not supported by the weaver")
			return nil
		}
		w.count["lock"]++
		return []ast.Stmt{w.yieldStmt(c.Pos(), mname, w.addrOf(sel.X))}
	case "Once":
		if mname != "Do" {
			return nil
		}
		if !direct {
			w.errs = append(w.errs, w.fset.Position(c.Pos()).String()+": Do through an embedded Once is not supported by the weaver")
			return nil
		}
		w.count["once"]++
		if len(c.Args) == 1 {
			if fl, ok := c.Args[0].(*ast.FuncLit); ok {
				// body rewritten here (shallow does not descend into FuncLits, nested will)
				fl.Body.List = append([]ast.Stmt{w.yieldStmt(fl.Body.Lbrace, "oncebody", nil)}, fl.Body.List...)
			}
		}
		return []ast.Stmt{w.yieldStmt(c.Pos(), "Once.Do", w.addrOf(sel.X))}
	case "WaitGroup":
		if mname != "Wait" {
			return nil
		}
		w.count["wg"]++
		return []ast.Stmt{w.yieldStmt(c.Pos(), "WaitGroup.Wait", nil)}
	case "Map", "Pool":
		w.count["syncmap"]++
		return []ast.Stmt{w.yieldStmt(c.Pos(), tname+"."+mname, nil)}
	case "Cond":
		w.errs = append(w.errs, w.fset.Position(c.Pos()).String()+": sync.Cond is not supported by the weaver")
	}
	return nil
}

// rewriteGo turns `go f(a, b)` into a block that evaluates f, a, b now and
// hands the call to verifGo.
func (w *weaver) rewriteGo(st ast.Stmt) ast.Stmt {
	g, ok := st.(*ast.GoStmt)
	if !ok {
		return st
	}
	w.count["go"]++
	call := g.Call
	var assignsL, assignsR []ast.Expr
	hoist := func(e ast.Expr) ast.Expr {
		if tv, ok := w.info.Types[e]; ok && tv.Value != nil {
			return e // constant
		}
		if id, ok := e.(*ast.Ident); ok && (id.Name == "nil" || id.Name == "true" || id.Name == "false") {
			return e
		}
		w.tmpN++
		name := ast.NewIdent(fmt.Sprintf("verifTmp%d", w.tmpN))
		assignsL = append(assignsL, name)
		assignsR = append(assignsR, e)
		return ast.NewIdent(name.Name)
	}
	newCall := &ast.CallExpr{Ellipsis: call.Ellipsis}
	switch f := call.Fun.(type) {
	case *ast.FuncLit:
		newCall.Fun = &ast.ParenExpr{X: f}
	case *ast.Ident:
		// plain function or local closure variable: closures may be reassigned,
		// evaluate now when it is a variable
		if _, isVar := w.info.Uses[f].(*types.Var); isVar {
			newCall.Fun = hoist(f)
		} else {
			newCall.Fun = f
		}
	default:
		newCall.Fun = hoist(call.Fun)
	}
	for _, a := range call.Args {
		newCall.Args = append(newCall.Args, hoist(a))
	}
	thunk := &ast.FuncLit{
		Type: &ast.FuncType{Params: &ast.FieldList{}},
		Body: &ast.BlockStmt{List: []ast.Stmt{&ast.ExprStmt{X: newCall}}},
	}
	blk := &ast.BlockStmt{}
	if len(assignsL) > 0 {
		blk.List = append(blk.List, &ast.AssignStmt{Lhs: assignsL, Tok: token.DEFINE, Rhs: assignsR})
	}
	blk.List = append(blk.List, &ast.ExprStmt{X: &ast.CallExpr{Fun: ast.NewIdent("verifGo"), Args: []ast.Expr{w.site(g.Pos(), "go"), thunk}}})
	// the body of a go'd function literal is woven when the caller recurses
	// into the returned block (nested -> thunk -> call -> literal).
	return blk
}
