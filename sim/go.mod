module verifsim

go 1.26.0

require (
	github.com/Query-farm/vgi-rpc-go v0.15.0
	github.com/apache/arrow-go/v18 v18.6.0
)

replace github.com/Query-farm/vgi-rpc-go => /repo

replace github.com/Query-farm/vgi-rpc-go/vgirpc/otel => /repo/vgirpc/otel

require (
	github.com/klauspost/compress v1.19.0
	golang.org/x/tools v0.50.0
)

require (
	github.com/andybalholm/brotli v1.2.2 // indirect
	github.com/apache/thrift v0.24.0 // indirect
	github.com/goccy/go-json v0.10.6 // indirect
	github.com/google/flatbuffers v25.12.19+incompatible // indirect
	github.com/google/uuid v1.6.0 // indirect
	github.com/klauspost/cpuid/v2 v2.4.0 // indirect
	github.com/pierrec/lz4/v4 v4.1.27 // indirect
	github.com/zeebo/xxh3 v1.1.0 // indirect
	golang.org/x/crypto v0.54.0 // indirect
	golang.org/x/exp v0.0.0-20260718201538-764159d718ef // indirect
	golang.org/x/mod v0.41.0 // indirect
	golang.org/x/sync v0.23.0 // indirect
	golang.org/x/sys v0.48.0 // indirect
)

// C33 (world K): the S3 storage backend is a separate module of the repository.
replace github.com/Query-farm/vgi-rpc-go/vgirpc/s3 => /repo/vgirpc/s3

// C33, C43: storage backend, OpenTelemetry hook and the OpenTelemetry SDK
// (in-memory span recorder, manual metric reader).
require (
	github.com/Query-farm/vgi-rpc-go/vgirpc/otel v0.16.0
	github.com/Query-farm/vgi-rpc-go/vgirpc/s3 v0.0.0
	go.opentelemetry.io/otel v1.44.0
	go.opentelemetry.io/otel/metric v1.44.0
	go.opentelemetry.io/otel/sdk v1.44.0
	go.opentelemetry.io/otel/sdk/metric v1.44.0
	go.opentelemetry.io/otel/trace v1.44.0
)

require (
	github.com/aws/aws-sdk-go-v2 v1.42.1 // indirect
	github.com/aws/aws-sdk-go-v2/aws/protocol/eventstream v1.7.14 // indirect
	github.com/aws/aws-sdk-go-v2/config v1.32.30 // indirect
	github.com/aws/aws-sdk-go-v2/credentials v1.19.29 // indirect
	github.com/aws/aws-sdk-go-v2/feature/ec2/imds v1.18.30 // indirect
	github.com/aws/aws-sdk-go-v2/internal/configsources v1.4.30 // indirect
	github.com/aws/aws-sdk-go-v2/internal/endpoints/v2 v2.7.30 // indirect
	github.com/aws/aws-sdk-go-v2/internal/v4a v1.4.31 // indirect
	github.com/aws/aws-sdk-go-v2/service/internal/accept-encoding v1.13.13 // indirect
	github.com/aws/aws-sdk-go-v2/service/internal/checksum v1.9.23 // indirect
	github.com/aws/aws-sdk-go-v2/service/internal/presigned-url v1.13.30 // indirect
	github.com/aws/aws-sdk-go-v2/service/internal/s3shared v1.19.31 // indirect
	github.com/aws/aws-sdk-go-v2/service/s3 v1.105.2 // indirect
	github.com/aws/aws-sdk-go-v2/service/signin v1.4.1 // indirect
	github.com/aws/aws-sdk-go-v2/service/sso v1.32.1 // indirect
	github.com/aws/aws-sdk-go-v2/service/ssooidc v1.37.1 // indirect
	github.com/aws/aws-sdk-go-v2/service/sts v1.44.1 // indirect
	github.com/aws/smithy-go v1.27.4 // indirect
	github.com/cespare/xxhash/v2 v2.3.0 // indirect
	github.com/go-logr/logr v1.4.3 // indirect
	github.com/go-logr/stdr v1.2.2 // indirect
	go.opentelemetry.io/auto/sdk v1.2.1 // indirect
	golang.org/x/net v0.57.0 // indirect
)

// golang.org/x/tools v0.50.0 (weaver) asks for x/net v0.59.0, whose own
// requirement golang.org/x/crypto v0.57.0 is not in the offline module cache;
// every package actually built is satisfied by x/net v0.57.0.
exclude golang.org/x/net v0.59.0

require github.com/anishathalye/porcupine v1.3.0
