module verifsim

go 1.26.0

require (
	github.com/Query-farm/vgi-rpc-go v0.0.0
	github.com/apache/arrow-go/v18 v18.6.0
)

replace github.com/Query-farm/vgi-rpc-go => /repo

replace github.com/Query-farm/vgi-rpc-go/vgirpc/otel => /repo/vgirpc/otel

require (
	github.com/klauspost/compress v1.19.0
	golang.org/x/tools v0.50.0
)

require (
	github.com/andybalholm/brotli v1.2.2 // indirect
	github.com/apache/thrift v0.24.0 // indirect
	github.com/goccy/go-json v0.10.6 // indirect
	github.com/google/flatbuffers v25.12.19+incompatible // indirect
	github.com/google/uuid v1.6.0 // indirect
	github.com/klauspost/cpuid/v2 v2.4.0 // indirect
	github.com/pierrec/lz4/v4 v4.1.27 // indirect
	github.com/zeebo/xxh3 v1.1.0 // indirect
	golang.org/x/crypto v0.54.0 // indirect
	golang.org/x/exp v0.0.0-20260718201538-764159d718ef // indirect
	golang.org/x/mod v0.41.0 // indirect
	golang.org/x/sync v0.23.0 // indirect
	golang.org/x/sys v0.48.0 // indirect
)
