//go:build verif && unix

package vgirpc

// Verification-only exports for the shared-memory allocator (property C34).
// This file is added to package vgirpc through the build overlay of the
// simulation harness; it is never part of /repo and never compiled without the
// "verif" tag. It adds no behaviour: each wrapper reaches the unexported
// allocator primitive the same way the package's own public entry points do
// (closed check, s.mu, the *Locked primitive), and carries the scheduling
// points the weaver would have inserted had the method been part of the woven
// sources (method entry, atomic load, lock acquisition).

// VerifAllocate reserves size bytes with allocateLocked under s.mu, exactly as
// AllocateAndWrite does after it has computed the serialized size, without
// serialising a batch. It returns the absolute offset and whether the
// allocator found room.
func (s *ShmSegment) VerifAllocate(size int) (uint64, bool, error) {
	verifYield("shm_verif_export.go:1:entry:ShmSegment.VerifAllocate", nil)
	verifYield("shm_verif_export.go:2:atomic.Bool.Load", nil)
	if s.closed.Load() {
		return 0, false, ErrShmClosed
	}
	verifYield("shm_verif_export.go:3:Lock", &s.mu)
	s.mu.Lock()
	defer s.mu.Unlock()
	verifYield("shm_verif_export.go:4:atomic.Bool.Load", nil)
	if s.closed.Load() {
		return 0, false, ErrShmClosed
	}
	off, ok := s.allocateLocked(size)
	return off, ok, nil
}

// VerifTable returns the allocation table as this attachment reads it
// (readAllocs under s.mu).
func (s *ShmSegment) VerifTable() ([][2]uint64, error) {
	verifYield("shm_verif_export.go:5:entry:ShmSegment.VerifTable", nil)
	verifYield("shm_verif_export.go:6:atomic.Bool.Load", nil)
	if s.closed.Load() {
		return nil, ErrShmClosed
	}
	verifYield("shm_verif_export.go:7:Lock", &s.mu)
	s.mu.Lock()
	defer s.mu.Unlock()
	verifYield("shm_verif_export.go:8:atomic.Bool.Load", nil)
	if s.closed.Load() {
		return nil, ErrShmClosed
	}
	return s.readAllocs(), nil
}
