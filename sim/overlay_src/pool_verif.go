//go:build verif

package vgirpc

import "sync"

// verifPool stands in for sync.Pool in the woven build of package vgirpc (the
// weaver rewrites the type name; this file is added through the build overlay
// and is never part of /repo). sync.Pool's contract lets any Get miss — the
// runtime may drop pooled items at any time and keeps them in per-P caches —
// so which Get reuses which earlier Put is real nondeterminism. Here it is a
// decision of the run: VerifPoolPick chooses the item (or a miss) from the
// run's tape, and VerifPoolsReset empties every pool when a run starts, so
// that one tape is one execution in any process.
type verifPool struct {
	New func() any

	mu         sync.Mutex
	items      []any
	registered bool
}

var (
	verifPoolsMu sync.Mutex
	verifPools   []*verifPool

	// VerifPoolPick is asked, for a Get on a pool that holds n > 0 items,
	// which one to hand out (0..n-1; n-1 is the most recent Put) or -1 for a
	// miss. nil means "most recent".
	VerifPoolPick func(n int) int
)

// VerifPoolsReset drops every pooled item (what a GC cycle may do at any time).
func VerifPoolsReset() {
	verifPoolsMu.Lock()
	ps := append([]*verifPool(nil), verifPools...)
	verifPoolsMu.Unlock()
	for _, p := range ps {
		p.mu.Lock()
		p.items = nil
		p.mu.Unlock()
	}
}

func (p *verifPool) register() {
	if p.registered {
		return
	}
	p.registered = true
	verifPoolsMu.Lock()
	verifPools = append(verifPools, p)
	verifPoolsMu.Unlock()
}

func (p *verifPool) Get() any {
	p.mu.Lock()
	p.register()
	if n := len(p.items); n > 0 {
		idx := n - 1
		if f := VerifPoolPick; f != nil {
			idx = f(n)
		}
		if idx >= 0 && idx < n {
			x := p.items[idx]
			p.items = append(p.items[:idx], p.items[idx+1:]...)
			p.mu.Unlock()
			return x
		}
	}
	p.mu.Unlock()
	if p.New != nil {
		return p.New()
	}
	return nil
}

func (p *verifPool) Put(x any) {
	if x == nil {
		return
	}
	p.mu.Lock()
	p.register()
	if len(p.items) < 64 {
		p.items = append(p.items, x)
	}
	p.mu.Unlock()
	// Put publishes x: from here on another goroutine's Get may hand it out.
	// A scheduling point right after the publication lets the run interleave
	// that Get with whatever the caller still does afterwards (code that keeps
	// touching an object it has already returned to the pool is exactly what
	// a pool misuse looks like).
	verifYield("pool.put.published", nil)
}
