// Sources in this directory are not part of the harness module: the driver adds
// them to packages of the repository under test through the go build overlay.
// This go.mod only keeps them out of `go build ./...` of module verifsim.
module verifsim/overlay_src

go 1.26.0
