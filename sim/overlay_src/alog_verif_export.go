//go:build verif

package vgirpc

import "unsafe"

// Verification-only observation for the access-log hook (property C39). Added
// to package vgirpc through the build overlay of the simulation harness; never
// part of /repo. It adds no behaviour and no scheduling point: it tells the
// harness which async emitter the hook currently holds (0 = none), so that a
// run which re-configures async emission can stamp the instant of the swap.
func VerifAccessLogEmitter(h *AccessLogHook) uintptr {
	return uintptr(unsafe.Pointer(h.async.Load()))
}
