//go:build verif

// This file is not part of the repository. The verification driver adds it to
// package vgis3 (github.com/Query-farm/vgi-rpc-go/vgirpc/s3) through a go build
// overlay, as verif_export_gen.go, when it builds the C33 check. It exports the
// unexported object-id generator that S3Storage.Upload appends to the key
// prefix, so that the simulator can call it at simulated instants of its own
// choosing.
package vgis3

import (
	"time"

	"github.com/Query-farm/vgi-rpc-go/vgirpc"
)

// VerifGenerateObjectID returns what Upload would append to the key prefix if
// it ran now.
func VerifGenerateObjectID() string { return generateUUID() }

// The weaver rewrites synchronisation operations, go statements and
// time.AfterFunc calls of the package it weaves into calls of these three
// functions. s3.go has none today; the forwarders make a future version that
// has some (a mutex- or atomic-protected sequence number, say) build and be
// scheduled like the main package instead of failing with "undefined".
func verifYield(site string, obj any) {
	if f := vgirpc.VerifYield; f != nil {
		f(site, obj)
	}
}

func verifGo(site string, fn func()) {
	if f := vgirpc.VerifGo; f != nil {
		f(site, fn)
		return
	}
	go fn()
}

func verifAfterFunc(site string, d time.Duration, fn func()) *time.Timer {
	if f := vgirpc.VerifAfterFunc; f != nil {
		return f(site, d, fn)
	}
	return time.AfterFunc(d, fn)
}
