package checks

import (
	"bytes"
	"context"
	"fmt"
	"sort"
	"strings"
	"sync"

	"verifsim/hx"
	"verifsim/simkern"
	"verifsim/worlds/httpw"
	"verifsim/worlds/pipew"

	"github.com/Query-farm/vgi-rpc-go/vgirpc"
	"github.com/apache/arrow-go/v18/arrow"
	"github.com/apache/arrow-go/v18/arrow/array"
	"github.com/apache/arrow-go/v18/arrow/ipc"
	"github.com/apache/arrow-go/v18/arrow/memory"
)

// The generated family of tagged parameter structs (none is a lone binary
// `request` field): scalars, nullable pointers, declared defaults, lists.
type p7Scalar struct {
	ID int64   `vgirpc:"id"`
	A  int64   `vgirpc:"a"`
	B  string  `vgirpc:"b"`
	C  float64 `vgirpc:"c"`
	D  bool    `vgirpc:"d"`
}
type p7Opt struct {
	ID int64   `vgirpc:"id"`
	E  *int64  `vgirpc:"e"`
	F  *string `vgirpc:"f"`
	G  int64   `vgirpc:"g,default=42"`
	H  string  `vgirpc:"h,default=dflt"`
}
type p7List struct {
	ID int64    `vgirpc:"id"`
	L  []int64  `vgirpc:"l"`
	S  []string `vgirpc:"s"`
	N  int64    `vgirpc:"n"`
}

// sim7Zero counts explicit zero values generated (reach probe).
var sim7Zero int

var p7Defaults = map[string]string{"g": "i:42", "h": "s:dflt"}

var (
	p7mu   sync.Mutex
	p7seen = map[int64]map[string]string{}
)

func p7record(id int64, vals map[string]string) {
	p7mu.Lock()
	p7seen[id] = vals
	p7mu.Unlock()
}

func p7get(id int64) (map[string]string, bool) {
	p7mu.Lock()
	defer p7mu.Unlock()
	v, ok := p7seen[id]
	return v, ok
}

func rI(v int64) string   { return fmt.Sprintf("i:%d", v) }
func rS(v string) string  { return "s:" + v }
func rF(v float64) string { return fmt.Sprintf("f:%v", v) }
func rB(v bool) string    { return fmt.Sprintf("b:%v", v) }

func p7Register(srv *vgirpc.Server) {
	vgirpc.Unary(srv, "p_scalar", func(_ context.Context, _ *vgirpc.CallContext, p p7Scalar) (int64, error) {
		p7record(p.ID, map[string]string{"a": rI(p.A), "b": rS(p.B), "c": rF(p.C), "d": rB(p.D)})
		return p.ID, nil
	})
	vgirpc.Unary(srv, "p_opt", func(_ context.Context, _ *vgirpc.CallContext, p p7Opt) (int64, error) {
		m := map[string]string{"g": rI(p.G), "h": rS(p.H), "e": "null", "f": "null"}
		if p.E != nil {
			m["e"] = rI(*p.E)
		}
		if p.F != nil {
			m["f"] = rS(*p.F)
		}
		p7record(p.ID, m)
		return p.ID, nil
	})
	vgirpc.Unary(srv, "p_list", func(_ context.Context, _ *vgirpc.CallContext, p p7List) (int64, error) {
		p7record(p.ID, map[string]string{"l": fmt.Sprintf("li:%v", append([]int64{}, p.L...)), "s": fmt.Sprintf("ls:%q", append([]string{}, p.S...)), "n": rI(p.N)})
		return p.ID, nil
	})
}

var p7Methods = []string{"p_scalar", "p_opt", "p_list"}

// declared parameter schemas, obtained from the server's own __describe__
func p7Declared(srv *vgirpc.Server) (map[string]*arrow.Schema, error) {
	var out bytes.Buffer
	req := hx.RawRequestBytes(hx.EmptyBatch(), hx.M(hx.KMethod, "__describe__", hx.KReqVersion, "1"))
	srv.Serve(bytes.NewReader(req), &out)
	rd, err := ipc.NewReader(bytes.NewReader(out.Bytes()))
	if err != nil {
		return nil, err
	}
	defer rd.Release()
	res := map[string]*arrow.Schema{}
	for rd.Next() {
		rec := rd.RecordBatch()
		var names *array.String
		var params *array.Binary
		for i, f := range rec.Schema().Fields() {
			switch f.Name {
			case "name":
				names, _ = rec.Column(i).(*array.String)
			case "params_schema_ipc":
				params, _ = rec.Column(i).(*array.Binary)
			}
		}
		if names == nil || params == nil {
			return nil, fmt.Errorf("describe batch lacks name/params_schema_ipc")
		}
		for i := 0; i < names.Len(); i++ {
			sr, err := ipc.NewReader(bytes.NewReader(params.Value(i)))
			if err != nil {
				continue
			}
			res[names.Value(i)] = sr.Schema()
			sr.Release()
		}
	}
	return res, nil
}

// p7Value is a value to send for one field (nil = null).
type p7Value struct {
	null bool
	i    int64
	s    string
	f    float64
	b    bool
	li   []int64
	ls   []string
}

func (v p7Value) render(t arrow.DataType) string {
	if v.null {
		return "null"
	}
	switch t.ID() {
	case arrow.INT64, arrow.INT32:
		return rI(v.i)
	case arrow.STRING, arrow.LARGE_STRING:
		return rS(v.s)
	case arrow.FLOAT64, arrow.FLOAT32:
		return rF(v.f)
	case arrow.BOOL:
		return rB(v.b)
	case arrow.LIST:
		if t.(*arrow.ListType).Elem().ID() == arrow.STRING {
			return fmt.Sprintf("ls:%q", append([]string{}, v.ls...))
		}
		return fmt.Sprintf("li:%v", append([]int64{}, v.li...))
	}
	return "?"
}

func p7Build(mem memory.Allocator, t arrow.DataType, v p7Value) arrow.Array {
	b := array.NewBuilder(mem, t)
	defer b.Release()
	if v.null {
		b.AppendNull()
		return b.NewArray()
	}
	switch bb := b.(type) {
	case *array.Int64Builder:
		bb.Append(v.i)
	case *array.Int32Builder:
		bb.Append(int32(v.i))
	case *array.Int8Builder:
		bb.Append(1)
	case *array.StringBuilder:
		bb.Append(v.s)
	case *array.LargeStringBuilder:
		bb.Append(v.s)
	case *array.Float64Builder:
		bb.Append(v.f)
	case *array.Float32Builder:
		bb.Append(float32(v.f))
	case *array.BooleanBuilder:
		bb.Append(v.b)
	case *array.ListBuilder:
		bb.Append(true)
		switch vb := bb.ValueBuilder().(type) {
		case *array.Int64Builder:
			for _, x := range v.li {
				vb.Append(x)
			}
		case *array.Int32Builder:
			for _, x := range v.li {
				vb.Append(int32(x))
			}
		case *array.StringBuilder:
			for _, x := range v.ls {
				vb.Append(x)
			}
		}
	default:
		b.AppendNull()
	}
	return b.NewArray()
}

type p7Call struct {
	method  string
	id      int64
	perturb string
	body    []byte
	want    map[string]string // what the handler must receive when it runs
	reqID   string
}

func perturbType(t arrow.DataType) arrow.DataType {
	switch t.ID() {
	case arrow.INT64:
		return arrow.PrimitiveTypes.Int32
	case arrow.STRING:
		return arrow.BinaryTypes.LargeString
	case arrow.FLOAT64:
		return arrow.PrimitiveTypes.Float32
	case arrow.BOOL:
		return arrow.PrimitiveTypes.Int8
	case arrow.LIST:
		lt := t.(*arrow.ListType)
		if lt.Elem().ID() == arrow.INT64 {
			return arrow.ListOf(arrow.PrimitiveTypes.Int32)
		}
		return arrow.ListOfNonNullable(lt.Elem())
	}
	return arrow.PrimitiveTypes.Int32
}

var p7Perturbs = []string{"none", "none", "reorder", "narrow", "widen", "type", "nullability", "rename"}

func p7Gen(tp *simkern.Tape, decl map[string]*arrow.Schema, id int64) (*p7Call, error) {
	method := p7Methods[tp.Draw(len(p7Methods))]
	sc := decl[method]
	if sc == nil {
		return nil, fmt.Errorf("describe does not list %s", method)
	}
	c := &p7Call{method: method, id: id, perturb: p7Perturbs[tp.Draw(len(p7Perturbs))], want: map[string]string{}, reqID: fmt.Sprintf("rq-%d", id)}
	fields := append([]arrow.Field(nil), sc.Fields()...)
	vals := make([]p7Value, len(fields))
	for i, f := range fields {
		v := p7Value{i: int64(tp.Draw(2000)) - 1000, s: fmt.Sprintf("s%d-ü", tp.Draw(100)), f: float64(tp.Draw(1000)) / 8, b: tp.Bool(1, 2)}
		n := tp.Draw(4)
		for k := 0; k < n; k++ {
			v.li = append(v.li, int64(tp.Draw(100)))
			v.ls = append(v.ls, fmt.Sprintf("e%d", tp.Draw(100)))
		}
		if tp.Bool(1, 4) {
			// the Go zero value, sent explicitly (not null): it must arrive as
			// sent, also in a field that declares a non-zero default
			v = p7Value{}
			sim7Zero++
		}
		if f.Name == "id" {
			v.i = id
		} else if f.Nullable && tp.Bool(1, 2) {
			v.null = true
		}
		vals[i] = v
		if f.Name != "id" {
			w := v.render(f.Type)
			if v.null {
				if d, ok := p7Defaults[f.Name]; ok {
					w = d
				}
			}
			c.want[f.Name] = w
		}
	}
	// perturb the shape
	switch c.perturb {
	case "reorder":
		if len(fields) >= 2 {
			i := tp.Draw(len(fields) - 1)
			fields[i], fields[i+1] = fields[i+1], fields[i]
			vals[i], vals[i+1] = vals[i+1], vals[i]
		}
	case "narrow":
		i := 1 + tp.Draw(len(fields)-1)
		fields = append(fields[:i:i], fields[i+1:]...)
		vals = append(vals[:i:i], vals[i+1:]...)
	case "widen":
		fields = append(fields, arrow.Field{Name: "zz_extra", Type: arrow.BinaryTypes.String, Nullable: tp.Bool(1, 2)})
		vals = append(vals, p7Value{s: "x"})
	case "type":
		i := 1 + tp.Draw(len(fields)-1)
		fields[i].Type = perturbType(fields[i].Type)
	case "nullability":
		i := tp.Draw(len(fields))
		fields[i].Nullable = !fields[i].Nullable
		vals[i].null = false
	case "rename":
		i := 1 + tp.Draw(len(fields)-1)
		fields[i].Name = fields[i].Name + "_x"
	}
	mem := memory.NewGoAllocator()
	cols := make([]arrow.Array, len(fields))
	for i, f := range fields {
		cols[i] = p7Build(mem, f.Type, vals[i])
	}
	schema := arrow.NewSchema(fields, nil)
	if c.perturb != "none" && schema.Equal(sc) {
		c.perturb = "none"
	}
	rec := array.NewRecordBatch(schema, cols, 1)
	for _, a := range cols {
		a.Release()
	}
	c.body = hx.RawRequestBytes(rec, hx.M(hx.KMethod, method, hx.KReqVersion, "1", hx.KReqID, c.reqID))
	return c, nil
}

func renderWant(m map[string]string) string {
	ks := make([]string, 0, len(m))
	for k := range m {
		ks = append(ks, k)
	}
	sort.Strings(ks)
	var sb strings.Builder
	for _, k := range ks {
		fmt.Fprintf(&sb, "%s=%s ", k, m[k])
	}
	return sb.String()
}

func c07Judge(e *simkern.Env, transport string, c *p7Call, batches []hx.Batch) bool {
	site := transport + ":" + c.method + "/" + c.perturb
	got, ran := p7get(c.id)
	eb := lastErr(batches)
	if c.perturb == "none" {
		if !ran {
			msg := ""
			if eb != nil {
				msg = eb.Message
			}
			e.Violate("equal-schema-refused", site, "a batch with exactly the declared schema did not reach the handler: %s", msg)
			return true
		}
		if renderWant(got) != renderWant(c.want) {
			e.Violate("parameter-values-wrong", site, "handler received %s, the request carried %s", renderWant(got), renderWant(c.want))
			return true
		}
		return false
	}
	if ran {
		e.Violate("mismatched-schema-dispatched", site, "the handler ran although the batch's schema is %s relative to the declared one (received %s)", c.perturb, renderWant(got))
		return true
	}
	if eb == nil {
		e.Violate("mismatch-without-error", site, "no exception batch for a %s batch", c.perturb)
		return true
	}
	if eb.ExcType() != "TypeError" {
		e.Violate("mismatch-not-typeerror", site, "a %s batch was answered with %s (%q), expected TypeError", c.perturb, eb.ExcType(), eb.Message)
		return true
	}
	return false
}

// C07 — parameters bind only when the batch matches the declared schema.
func C07(e *simkern.Env) {
	tp := e.Tape
	kn := pipew.DrawKnobs(tp)
	n := 3 + tp.Draw(6)
	var sample []string
	left := e.Bubble(func() {
		sim := simkern.NewSim(tp, e.Trace)
		defer sim.Close()
		p7mu.Lock()
		p7seen = map[int64]map[string]string{}
		p7mu.Unlock()
		srv := pipew.NewServer(p7Register)
		decl, err := p7Declared(srv)
		if err != nil {
			e.Harness("describe: %v", err)
			return
		}
		var calls []*p7Call
		var ops []*pipew.Op
		for i := 0; i < n; i++ {
			c, err := p7Gen(tp, decl, int64(7000+i))
			if err != nil {
				e.Harness("%v", err)
				return
			}
			calls = append(calls, c)
			ops = append(ops, &pipew.Op{Kind: "raw", Raw: c.body, CancelAt: -1, Script: &hx.Script{}, ReqID: c.reqID})
			sample = append(sample, c.method+"/"+c.perturb)
		}
		sess := &pipew.Session{Srv: srv, Ops: ops}
		reason := pipew.RunSession(sim, sess, kn, 60000)
		if reason == simkern.StopDeadlock {
			e.Violate("session-deadlock", "pipe", "%s", sess.StuckDetail())
		}
		for i, r := range sess.Results {
			if e.Violated() || r.ClientErr != nil {
				break
			}
			if c07Judge(e, "pipe", calls[i], r.AllBatch) {
				break
			}
		}
		if !e.Violated() && reason == simkern.StopDone {
			// the same shapes over HTTP (fresh ids)
			cl := httpw.NewCluster(httpw.Config{Key: []byte("0123456789abcdef0123456789abcdef"), CacheSizes: []int{-1}, NoTwin: true,
				Setup: func(i int, s *vgirpc.Server, h *vgirpc.HttpServer) { p7Register(s) }})
			var hcalls []*p7Call
			for i := 0; i < n; i++ {
				c, _ := p7Gen(tp, decl, int64(7500+i))
				hcalls = append(hcalls, c)
			}
			for k := 0; k < 2; k++ {
				k := k
				sim.Spawn(fmt.Sprintf("http%d", k), func() {
					for i, c := range hcalls {
						if i%2 != k || e.Violated() {
							continue
						}
						sim.Y("client.op")
						t := httpw.Decode(httpw.Post(cl.Inst[0], "/"+c.method, c.body, httpw.Ident{}, nil))
						if t.Resp.Panicked != nil {
							e.Violate("panic", "http:"+c.method+"/"+c.perturb, "panic: %v", t.Resp.Panicked)
							return
						}
						var bs []hx.Batch
						for _, st := range t.Streams {
							bs = append(bs, st.Batches...)
						}
						if c07Judge(e, "http", c, bs) {
							return
						}
					}
				})
			}
			r2, _ := sim.Run(simkern.RunOpts{MaxSteps: 60000, Done: sim.RootsDone})
			if r2 != simkern.StopDone {
				reason = r2
			}
		}
		e.Conclude(sim, reason, false)
		e.Res.Nontrivial = true
	})
	if left != "" && !e.Violated() {
		e.Harness("bubble: %s", left)
	}
	e.Res.Sample = sample
}

func init() {
	Registry["C07"] = &Info{
		Run:   C07,
		Level: "exploration",
		Rule:  "session-oracle check: the declared parameter schemas are read from the server's own __describe__; each run draws 3-8 calls over three tagged parameter structs (scalars; nullable pointers and declared defaults; lists) whose batch is equal to the declared schema or perturbed (adjacent columns reordered, one column dropped, one added, one type changed to a castable neighbour, one nullability flag flipped, one field renamed), with random values, explicit Go zero values (one field in four, also in fields that declare a non-zero default) and nulls in nullable fields; the history runs on a simulated pipe and over HTTP from two concurrent client tasks; distinct = schedule fingerprint",
		Real:  []string{"vgirpc deserializeParams / struct schema derivation / describe, on serveUnary and HTTP unary"},
		Stub:  []string{"transports", "protocol client building arbitrary Arrow batches", "handlers recording the values they received"},
		Quick: 900, Thorough: 80000,
		FaultKinds: []string{"read-fragmentation", "write-delay"},
		Assumptions: []string{"input family bounded by the three compiled-in parameter structs", "no schedule dependence of its own"},
	}
}
