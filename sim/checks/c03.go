package checks

import (
	"bytes"
	"context"
	"encoding/binary"
	"fmt"
	"io"

	"verifsim/hx"
	"verifsim/simkern"
	"verifsim/worlds/clientw"
	"verifsim/worlds/httpw"
	"verifsim/worlds/pipew"

	"github.com/Query-farm/vgi-rpc-go/vgirpc"
	"github.com/apache/arrow-go/v18/arrow"
	"github.com/apache/arrow-go/v18/arrow/array"
	"github.com/apache/arrow-go/v18/arrow/memory"
	"time"
)

const c03MaxLen = 1 << 20 // declared lengths above this are not sent (see Assumptions)

// bodyLenOf parses the bodyLength field of an IPC Message flatbuffer.
func bodyLenOf(meta []byte) (int64, bool) {
	if len(meta) < 8 {
		return 0, false
	}
	root := int(binary.LittleEndian.Uint32(meta[0:4]))
	if root+4 > len(meta) {
		return 0, false
	}
	vt := root - int(int32(binary.LittleEndian.Uint32(meta[root:root+4])))
	if vt < 0 || vt+12 > len(meta) {
		return 0, false
	}
	vtSize := int(binary.LittleEndian.Uint16(meta[vt : vt+2]))
	if vtSize < 12 {
		return 0, true // bodyLength absent = 0
	}
	off := int(binary.LittleEndian.Uint16(meta[vt+10 : vt+12]))
	if off == 0 {
		return 0, true
	}
	p := root + off
	if p+8 > len(meta) {
		return 0, false
	}
	return int64(binary.LittleEndian.Uint64(meta[p : p+8])), true
}

// safeLengths walks the length prefixes of b the way the IPC reader will and
// reports whether every declared metadata/body length it would act on is
// within c03MaxLen (a corrupted length makes arrow-go allocate what it
// declares, up to 2 GiB; such inputs are not sent).
func safeLengths(b []byte) bool {
	i := 0
	for i+8 <= len(b) {
		if binary.LittleEndian.Uint32(b[i:i+4]) != 0xFFFFFFFF {
			// legacy framing: the first word is the length
			n := int64(int32(binary.LittleEndian.Uint32(b[i : i+4])))
			if n < 0 || n > c03MaxLen {
				return false
			}
			return true // the reader's view from here on is not modelled
		}
		n := int64(int32(binary.LittleEndian.Uint32(b[i+4 : i+8])))
		if n < 0 || n > c03MaxLen {
			return false
		}
		if n == 0 {
			i += 8
			continue
		}
		if i+8+int(n) > len(b) {
			return true // truncated: the reader hits EOF
		}
		bl, ok := bodyLenOf(b[i+8 : i+8+int(n)])
		if !ok || bl < 0 || bl > c03MaxLen {
			return false
		}
		i += 8 + int(n) + int(bl)
	}
	return true
}

// flipZones returns the byte positions of a valid IPC byte string at which an
// alteration cannot change a flatbuffer's structure: record-batch bodies, the
// 4-byte message length prefixes (guarded by safeLengths afterwards) and the
// contents of custom-metadata strings (located by searching the metadata for
// the given texts). Structural flatbuffer bytes are excluded: arrow-go sizes
// allocations from the vector lengths found there (see Assumptions).
func flipZones(b []byte, texts []string) []int {
	var zones []int
	frames, err := clientw.Frames(b)
	if err != nil {
		return nil
	}
	for _, f := range frames {
		for i := f.Off + 4; i < f.Off+8 && i < len(b); i++ {
			zones = append(zones, i)
		}
		if f.EOS {
			continue
		}
		for i := f.BodyOff; i < f.BodyOff+f.BodyLen && i < len(b); i++ {
			zones = append(zones, i)
		}
		meta := b[f.Off+8 : f.BodyOff]
		for _, t := range texts {
			from := 0
			for {
				k := bytes.Index(meta[from:], []byte(t))
				if k < 0 {
					break
				}
				for j := 0; j < len(t); j++ {
					zones = append(zones, f.Off+8+from+k+j)
				}
				from += k + len(t)
			}
		}
	}
	return zones
}

var c03Texts = []string{"vgi_rpc.method", "vgi_rpc.request_version", "vgi_rpc.request_id", "vgi_rpc.log_level", "vgi_rpc.stream_state#b64", "vgi_rpc.call_state#b64", "u_str", "exch", "rq-3001", "rq-3002", "script"}

// advOutcome is what one adversarial connection produced.
type advOutcome struct {
	panicked any
	stack    string
	returned bool
	stuck    string
	reply    []byte
}

// advPipe runs one connection: the adversary writes payload, half-closes, and
// drains whatever the server answers until the server closes.
func advPipe(sim *simkern.Sim, srv *vgirpc.Server, name string, payload []byte, frag int) advOutcome {
	cc, sc := hx.NewConnPair(name)
	sc.R.Frag = frag
	var out advOutcome
	st := sim.Spawn(name+".server", func() {
		srv.ServeWithContext(context.Background(), sc, sc)
		out.returned = true
		_ = sc.Close()
	})
	ct := sim.Spawn(name+".adversary", func() {
		_, _ = cc.Write(payload)
		cc.W.CloseWrite()
		buf := make([]byte, 4096)
		for {
			n, err := cc.Read(buf)
			out.reply = append(out.reply, buf[:n]...)
			if err != nil {
				return
			}
		}
	})
	reason, _ := sim.Run(simkern.RunOpts{MaxSteps: 200000, Done: func() bool { return st.Done() && ct.Done() }, IdleLimit: 10 * 60 * 1e9})
	if st.Panic != nil {
		out.panicked, out.stack = st.Panic, st.PanicStack
	}
	if reason != simkern.StopDone {
		out.stuck = sim.Stuck()
		// unblock both sides so the bubble can end
		_ = cc.Close()
		_ = sc.Close()
		sim.Run(simkern.RunOpts{MaxSteps: 20000, Done: func() bool { return st.Done() && ct.Done() }, IdleLimit: 60 * 1e9})
	}
	return out
}

func int64Col(name string, vals []int64) (arrow.Field, arrow.Array) {
	b := array.NewInt64Builder(memory.NewGoAllocator())
	defer b.Release()
	for _, v := range vals {
		b.Append(v)
	}
	return arrow.Field{Name: name, Type: arrow.PrimitiveTypes.Int64}, b.NewArray()
}

func binCol(name string, vals [][]byte) (arrow.Field, arrow.Array) {
	b := array.NewBinaryBuilder(memory.NewGoAllocator(), arrow.BinaryTypes.Binary)
	defer b.Release()
	for _, v := range vals {
		if v == nil {
			b.AppendNull()
		} else {
			b.Append(v)
		}
	}
	return arrow.Field{Name: name, Type: arrow.BinaryTypes.Binary, Nullable: true}, b.NewArray()
}

func mkBatch(fs []arrow.Field, cols []arrow.Array, rows int64) arrow.RecordBatch {
	rb := array.NewRecordBatch(arrow.NewSchema(fs, nil), cols, rows)
	for _, c := range cols {
		c.Release()
	}
	return rb
}

// oddInput builds a well-formed stream input batch whose shape differs from the
// declared exchange input schema (one int64 column "x").
func oddInput(tp *simkern.Tape) (arrow.RecordBatch, string) {
	x64 := func() (arrow.Field, arrow.Array) { return int64Col("x", []int64{7}) }
	x32 := func() (arrow.Field, arrow.Array) {
		b := hx.Int64Batch("x", []int64{7}, true)
		return b.Schema().Field(0), b.Column(0)
	}
	str := func(name string) (arrow.Field, arrow.Array) {
		b := hx.StringBatch([]string{name}, []string{"v"})
		return b.Schema().Field(0), b.Column(0)
	}
	two := func(f1 arrow.Field, a1 arrow.Array, f2 arrow.Field, a2 arrow.Array) arrow.RecordBatch {
		return mkBatch([]arrow.Field{f1, f2}, []arrow.Array{a1, a2}, 1)
	}
	switch tp.Draw(11) {
	case 0:
		return hx.StringBatch([]string{"x"}, []string{"nan"}), "x-as-string"
	case 1:
		return hx.Int64Batch("x", nil, false), "zero-rows"
	case 2:
		return hx.Int64Batch("y", []int64{1}, false), "renamed-column"
	case 3:
		return hx.EmptyBatch(), "no-columns"
	case 4:
		f1, a1 := x64()
		f2, a2 := str("extra")
		return two(f1, a1, f2, a2), "superset-extra-trailing-column"
	case 5:
		f1, a1 := str("extra")
		f2, a2 := x64()
		return two(f1, a1, f2, a2), "superset-extra-leading-column"
	case 6:
		f1, a1 := x32()
		f2, a2 := str("extra")
		return two(f1, a1, f2, a2), "castable-x-plus-extra-column"
	case 7:
		f1, a1 := x64()
		f2, a2 := x64()
		return two(f1, a1, f2, a2), "duplicate-column-name"
	case 8:
		f1, a1 := x64()
		f2, a2 := int64Col("y", []int64{1})
		f3, a3 := str("z")
		return mkBatch([]arrow.Field{f1, f2, f3}, []arrow.Array{a1, a2, a3}, 1), "three-columns"
	case 9:
		f, a := binCol("x", [][]byte{{1, 2, 3}})
		return mkBatch([]arrow.Field{f}, []arrow.Array{a}, 1), "x-as-binary"
	default:
		f, a := int64Col("x", []int64{1, 2, 3})
		fn := f
		fn.Nullable = !f.Nullable
		return mkBatch([]arrow.Field{fn}, []arrow.Array{a}, 3), "nullability-flipped"
	}
}

// structured builds a structurally valid request with an unexpected shape.
func structured(tp *simkern.Tape, method string, nonce int64, segName string, segSize int) ([]byte, string) {
	sc := (&hx.Script{Nonce: nonce, Outcome: "ok", Mode: "producer", Turns: []hx.Step{{Act: "emit"}}}).Encode()
	base := hx.M(hx.KMethod, method, hx.KReqVersion, "1", hx.KReqID, fmt.Sprintf("rq-%d", nonce))
	good := func() arrow.RecordBatch { return hx.StringBatch([]string{"script"}, []string{sc}) }
	switch tp.Draw(16) {
	case 0:
		return hx.RawRequestBytes(hx.StringBatchN([]string{"script"}, nil), base.Add(hx.KLocation, "https://nowhere.sim/x")), "zero-row+location"
	case 1:
		return hx.RawRequestBytes(hx.StringBatchN([]string{"script"}, nil), base.Add(hx.KShmOffset, "0").Add(hx.KShmLength, "64")), "zero-row+shm-pointer"
	case 2:
		off := []string{"-1", "18446744073709551615", "abc", "", "65536", "99999999999"}[tp.Draw(6)]
		ln := []string{"-5", "2147483648", "x", "0", "1"}[tp.Draw(5)]
		return hx.RawRequestBytes(hx.StringBatchN([]string{"script"}, nil), base.Add(hx.KShmName, segName).Add(hx.KShmSize, fmt.Sprint(segSize)).Add(hx.KShmOffset, off).Add(hx.KShmLength, ln)), "advertised-segment+bad-pointer"
	case 3:
		return hx.RawRequestBytes(good(), base.Add(hx.KShmName, "/no-such-segment-"+fmt.Sprint(nonce)).Add(hx.KShmSize, []string{"70000", "-1", "abc", "99999999999999999999"}[tp.Draw(4)])), "unknown-segment-advertised"
	case 4:
		f, a := binCol("request", [][]byte{{1, 2, 3, 4, 5, 6, 7, 8, 9}})
		return hx.RawRequestBytes(mkBatch([]arrow.Field{f}, []arrow.Array{a}, 1), base), "request-column-garbage"
	case 5:
		inner := hx.EncodeStream(arrow.NewSchema([]arrow.Field{{Name: "other", Type: arrow.PrimitiveTypes.Int64}}, nil), hx.Int64Batch("other", []int64{1}, false))
		f, a := binCol("request", [][]byte{inner})
		return hx.RawRequestBytes(mkBatch([]arrow.Field{f}, []arrow.Array{a}, 1), base), "request-column-foreign-inner-schema"
	case 6:
		inner := hx.EncodeStream(hx.ParamsSchema, hx.StringBatchN([]string{"script"}, nil))
		f, a := binCol("request", [][]byte{inner})
		return hx.RawRequestBytes(mkBatch([]arrow.Field{f}, []arrow.Array{a}, 1), base), "request-column-zero-row-inner"
	case 7:
		f, a := binCol("request", [][]byte{nil})
		return hx.RawRequestBytes(mkBatch([]arrow.Field{f}, []arrow.Array{a}, 1), base), "request-column-null"
	case 8:
		rows := make([][]string, 2+tp.Draw(50))
		for i := range rows {
			rows[i] = []string{sc}
		}
		return hx.RawRequestBytes(hx.StringBatchN([]string{"script"}, rows), base), "many-rows"
	case 9:
		return hx.RawRequestBytes(hx.EmptyBatch(), base), "no-columns"
	case 10:
		return hx.RawRequestBytes(good(), hx.M(hx.KMethod, string([]byte{0xff, 0xfe, 'x'}), hx.KReqVersion, "1")), "method-invalid-utf8"
	case 11:
		return hx.RawRequestBytes(good(), base.Add(hx.KCancel, "1").Add(hx.KState, "AAAA").Add(hx.KCallState, "!!!!")), "framework-keys-on-request"
	case 12:
		return hx.RawRequestBytes(hx.StringBatch([]string{"script"}, []string{"{not json"}), base), "script-not-json"
	case 13:
		f, a := int64Col("script", []int64{7})
		return hx.RawRequestBytes(mkBatch([]arrow.Field{f}, []arrow.Array{a}, 1), base.Add(hx.KLocation, "")), "wrong-type+empty-location"
	case 14:
		return hx.RawRequestBytes(good(), hx.M(hx.KMethod, "__describe__", hx.KReqVersion, "1", hx.KLocation, "https://nowhere.sim/y")), "describe+location"
	default:
		return hx.RawRequestBytes(hx.StringBatchN([]string{"script"}, nil), hx.M(hx.KMethod, "__transport_options__", hx.KReqVersion, "1", hx.KShmOffset, "1", hx.KShmLength, "1")), "transport-options+pointer"
	}
}

// C03 — no client-supplied bytes can crash the server or abort an HTTP exchange.
func C03(e *simkern.Env) {
	tp := e.Tape
	sweep := tp.Bool(1, 16)
	frag := tp.Pick(0, 1, 5, 64)
	var sample []string
	left := e.Bubble(func() {
		sim := simkern.NewSim(tp, e.Trace)
		defer sim.Close()
		hx.Rec.Reset()
		srv := pipew.NewServer(nil)
		seg, serr := vgirpc.ShmCreate(vgirpc.ShmHeaderSize + 4096)
		segName, segSize := "", 0
		if serr == nil {
			segName, segSize = seg.Name(), seg.Size()
			defer seg.Close()
		}
		// canonical valid byte strings
		unaryOp := &pipew.Op{Kind: "unary", Method: "u_str", Script: &hx.Script{Nonce: 3001, Outcome: "ok", Logs: []hx.LogSpec{{Level: "INFO", Msg: "hello"}}}, CancelAt: -1, ReqID: "rq-3001"}
		streamOp := &pipew.Op{Kind: "stream", Method: "exch", Script: &hx.Script{Nonce: 3002, Outcome: "ok", Mode: "exchange", Header: true, Turns: []hx.Step{{Act: "emit"}, {Act: "emit"}}}, StreamKind: "exchange", HasHeader: true, CancelAt: -1, ReqID: "rq-3002", Inputs: 2}
		unaryBytes := pipew.RequestBytes(unaryOp)
		in0 := hx.Int64Batch("x", []int64{1, 2}, false)
		in1 := hx.Int64Batch("x", []int64{3}, false)
		streamBytes := append(append([]byte(nil), pipew.RequestBytes(streamOp)...), hx.EncodeStream(in0.Schema(), in0, in1)...)
		in0.Release()
		in1.Release()
		conn := 0
		judgePipe := func(site, what string, payload []byte) bool {
			conn++
			o := advPipe(sim, srv, fmt.Sprintf("c%d", conn), payload, frag)
			if o.panicked != nil {
				e.Violate("panic-escapes-serve", site, "%s: panic out of the serve loop: %v", what, o.panicked)
				return true
			}
			if !o.returned {
				e.Violate("serve-hangs-after-client-close", site, "%s: the client closed its side but Serve did not return: %s", what, o.stuck)
				return true
			}
			if len(o.reply) > 0 {
				if _, err := hx.ParseStreams(o.reply); err != nil {
					// an answer cut short is fine only if the server closed cleanly; a
					// half-written stream followed by a clean close is what the property allows
					sim.Probe("reply-not-a-complete-stream")
				}
			}
			return false
		}
		live := func(site string) bool {
			// liveness after the faults stop: a fresh connection serves a valid call
			n := int64(3900 + conn)
			s := &pipew.Session{Srv: srv, Ops: []*pipew.Op{{Kind: "unary", Method: "u_int", Script: &hx.Script{Nonce: n, Outcome: "ok"}, CancelAt: -1, ReqID: "rq-live"}}}
			r := pipew.RunSession(sim, s, pipew.Knobs{}, 40000)
			if r != simkern.StopDone || len(s.Results) != 1 || s.Results[0].ClientErr != nil || len(s.Results[0].AllBatch) != 1 || s.Results[0].AllBatch[0].Result != hx.WantResult("u_int", n, 0) {
				e.Violate("server-not-serving-after-bad-input", site, "after the adversarial connection a fresh connection did not get a valid answer (reason %v)", r)
				return true
			}
			return false
		}
		if sweep {
			// complete sweep: every truncation offset and every single-byte flip of
			// the canonical unary request and of the canonical stream call
			for ci, canon := range [][]byte{unaryBytes, streamBytes} {
				cname := []string{"unary", "stream"}[ci]
				for cut := 0; cut < len(canon) && !e.Violated(); cut++ {
					if judgePipe("pipe:"+cname+"/truncate", fmt.Sprintf("%s request truncated at byte %d of %d", cname, cut, len(canon)), canon[:cut]) {
						break
					}
				}
				sim.Fault("sweep-truncate")
				skipped := 0
				for _, pos := range flipZones(canon, c03Texts) {
					if e.Violated() {
						break
					}
					m := append([]byte(nil), canon...)
					m[pos] ^= 0xFF
					if !safeLengths(m) {
						skipped++
						continue
					}
					if judgePipe("pipe:"+cname+"/flip", fmt.Sprintf("%s request with byte %d flipped", cname, pos), m) {
						break
					}
				}
				sim.Fault("sweep-flip")
				sim.ProbeN("flips-skipped-for-declared-length", skipped)
			}
			if !e.Violated() {
				live("pipe:after-sweep")
			}
			sample = append(sample, fmt.Sprintf("sweep of %d+%d byte positions (truncate and flip)", len(unaryBytes), len(streamBytes)))
		} else {
			frames, _ := clientw.Frames(streamBytes)
			n := 4 + tp.Draw(10)
			for k := 0; k < n && !e.Violated(); k++ {
				var payload []byte
				var what, site string
				canon, cname := unaryBytes, "unary"
				if tp.Bool(1, 2) {
					canon, cname = streamBytes, "stream"
				}
				switch tp.Draw(7) {
				case 6:
					// a valid exchange call whose input stream carries well-formed
					// batches of an unexpected shape (first, or after a good input)
					method := []string{"exch", "exch2", "dyn"}[tp.Draw(3)]
					op := &pipew.Op{Kind: "stream", Method: method, Script: &hx.Script{Nonce: int64(3300 + k), Outcome: "ok", Mode: "exchange", Header: method != "exch2", Turns: []hx.Step{{Act: "emit"}, {Act: "emit"}}}, StreamKind: "exchange", HasHeader: method != "exch2", CancelAt: -1, ReqID: fmt.Sprintf("rq-33%d", k), Inputs: 2}
					odd, shape := oddInput(tp)
					m := append([]byte(nil), pipew.RequestBytes(op)...)
					if tp.Bool(1, 2) {
						g := hx.Int64Batch("x", []int64{1}, false)
						m = append(m, hx.EncodeStream(g.Schema(), g)...) // NB: a second input stream is what a confused client sends
					}
					m = append(m, hx.EncodeStream(odd.Schema(), odd)...)
					payload, what, site = m, method+" exchange with input "+shape, "pipe:stream-input/"+shape
					sim.Fault("stream-input-shape")
				case 0:
					cut := tp.Draw(len(canon))
					payload, what, site = canon[:cut], fmt.Sprintf("%s truncated at %d", cname, cut), "pipe:"+cname+"/truncate"
					sim.Fault("truncate")
				case 1:
					m := append([]byte(nil), canon...)
					nf := 1 + tp.Draw(4)
					zones := flipZones(canon, c03Texts)
					if len(zones) == 0 {
						continue
					}
					for j := 0; j < nf; j++ {
						m[zones[tp.Draw(len(zones))]] ^= byte(1 + tp.Draw(255))
					}
					if !safeLengths(m) {
						sim.Probe("flips-skipped-for-declared-length")
						continue
					}
					payload, what, site = m, fmt.Sprintf("%s with %d bytes altered", cname, nf), "pipe:"+cname+"/flip"
					sim.Fault("flip")
				case 2:
					// duplicate / splice whole messages of the stream call
					if len(frames) < 2 {
						continue
					}
					a := frames[tp.Draw(len(frames))]
					b := frames[tp.Draw(len(frames))]
					m := append([]byte(nil), streamBytes[:b.End]...)
					m = append(m, streamBytes[a.Off:a.End]...)
					m = append(m, streamBytes[b.End:]...)
					payload, what, site = m, fmt.Sprintf("message [%d,%d) spliced in after offset %d", a.Off, a.End, b.End), "pipe:stream/splice"
					sim.Fault("splice")
				case 3:
					// the valid request followed by garbage / a second copy
					m := append([]byte(nil), canon...)
					if tp.Bool(1, 2) {
						m = append(m, canon...)
					} else {
						// fewer than 8 bytes: cannot form a message header
						for j := 0; j < 1+tp.Draw(7); j++ {
							m = append(m, byte(tp.Draw(256)))
						}
					}
					payload, what, site = m, cname+" followed by trailing bytes", "pipe:"+cname+"/trailing"
					sim.Fault("trailing")
				default:
					method := []string{"u_int", "u_str", "prod", "exch2", "dyn", "u_rich"}[tp.Draw(6)]
					p, shape := structured(tp, method, int64(3100+k), segName, segSize)
					payload, what, site = p, method+" "+shape, "pipe:structured/"+shape
					sim.Fault("structured")
				}
				sample = append(sample, what)
				if judgePipe(site, what, payload) {
					break
				}
				if tp.Bool(1, 3) && live(site) {
					break
				}
			}
			if !e.Violated() {
				live("pipe:end-of-run")
			}
		}
		// ---- HTTP: every request gets a complete response with a status
		if !e.Violated() {
			cl := httpw.NewCluster(httpw.Config{Key: []byte("0123456789abcdef0123456789abcdef"), CacheSizes: []int{-1}, NoTwin: true, BatchLimit: 1, WithAuth: true,
				Setup: func(_ int, _ *vgirpc.Server, h *vgirpc.HttpServer) {
					h.SetUploadURLProvider(c22Provider{gen: func() (vgirpc.UploadURL, error) {
						return vgirpc.UploadURL{UploadURL: "https://store.test/up", DownloadURL: "https://store.test/down", ExpiresAt: time.Now().Add(time.Hour)}, nil
					}})
				}})
			sim.Spawn("http-adversary", func() {
				// legitimate tokens to play with
				ex := &pipew.Op{Kind: "stream", Method: "exch2", Script: &hx.Script{Nonce: 3500, Outcome: "ok", Mode: "exchange"}, StreamKind: "exchange", CancelAt: -1}
				tk := httpw.Decode(httpw.Post(cl.Inst[0], "/exch2/init", pipew.RequestBytes(ex), httpw.Ident{}, nil))
				contBody := httpw.ContBody(tk.Cursor, tk.Call, false, []int64{1}, false, hx.Meta{})
				// a producer stream advanced by one or two legitimate turns: the
				// cursors of later turns are replayed on other routes too
				psc := &hx.Script{Nonce: 3501, Outcome: "ok", Mode: "producer"}
				for k := 0; k < 6; k++ {
					psc.Turns = append(psc.Turns, hx.Step{Act: "emit"})
				}
				pr := &pipew.Op{Kind: "stream", Method: "prod2", Script: psc, StreamKind: "producer", CancelAt: -1}
				ptk := httpw.Decode(httpw.Post(cl.Inst[0], "/prod2/init", pipew.RequestBytes(pr), httpw.Ident{}, nil))
				lateBody := contBody
				if ptk.Cursor != "" {
					cur := ptk.Cursor
					for k := 0; k < 1+tp.Draw(2); k++ {
						t2 := httpw.Decode(httpw.Post(cl.Inst[0], "/prod2/exchange", httpw.ContBody(cur, ptk.Call, false, nil, false, hx.Meta{}), httpw.Ident{}, nil))
						if t2.Cursor == "" {
							break
						}
						cur = t2.Cursor
					}
					lateBody = httpw.ContBody(cur, ptk.Call, false, nil, false, hx.Meta{})
				}
				uploadBody := hx.RawRequestBytes(hx.Int64Batch("count", []int64{2}, false), hx.M(hx.KMethod, "__upload_url__", hx.KReqVersion, "1"))
				routes := []struct {
					path string
					body []byte
				}{{"/u_str", unaryBytes}, {"/exch/init", pipew.RequestBytes(streamOp)}, {"/exch2/exchange", contBody}, {"/prod2/exchange", contBody}, {"/dyn/exchange", contBody}, {"/__describe__", unaryBytes},
					{"/exch2/exchange", lateBody}, {"/dyn/exchange", lateBody}, {"/prod/exchange", lateBody}, {"/u_str/exchange", lateBody}, {"/prod2/exchange", lateBody},
					{"/__upload_url__/init", uploadBody}}
				n := 6 + tp.Draw(10)
				if sweep {
					n = 0
					for _, rt := range routes[:3] {
						for cut := 0; cut < len(rt.body); cut += 1 {
							resp := hx.Do(cl.Inst[0].H, hx.Req{Path: rt.path, Body: rt.body[:cut]})
							if resp.Panicked != nil {
								e.Violate("panic-aborts-http-exchange", "http:"+rt.path+"/truncate", "body truncated at %d: panic %v", cut, resp.Panicked)
								return
							}
						}
					}
					sim.Fault("http-sweep-truncate")
				}
				for k := 0; k < n; k++ {
					sim.Y("adversary.request")
					rt := routes[tp.Draw(len(routes))]
					body := append([]byte(nil), rt.body...)
					what := ""
					switch tp.Draw(5) {
					case 0:
						body = body[:tp.Draw(len(body))]
						what = "truncated"
						sim.Fault("http-truncate")
					case 1:
						zones := flipZones(rt.body, c03Texts)
						if len(zones) == 0 {
							continue
						}
						for j := 0; j < 1+tp.Draw(4); j++ {
							body[zones[tp.Draw(len(zones))]] ^= byte(1 + tp.Draw(255))
						}
						if !safeLengths(body) {
							continue
						}
						what = "bytes altered"
						sim.Fault("http-flip")
					case 2:
						p, shape := structured(tp, []string{"u_str", "exch", "exch2", "prod2", "__upload_url__"}[tp.Draw(5)], int64(3600+k), segName, segSize)
						if tp.Bool(1, 4) {
							rt.path = "/__upload_url__/init" // pointer-shaped and odd batches on the upload-URL route too
						}
						body, what = p, "structured "+shape
						sim.Fault("http-structured")
					case 3:
						// continuation with odd shapes
						m := hx.M(hx.KState, tk.Cursor, hx.KCallState, tk.Call)
						b, shape := oddInput(tp)
						if tp.Bool(1, 2) {
							m = m.Add(hx.KLocation, "https://nowhere.sim/z")
						}
						body, what = hx.RawRequestBytes(b, m), "continuation with input "+shape
						sim.Fault("http-continuation-shape")
					default:
						what = "valid body on this route"
					}
					id := httpw.Ident{}
					if tp.Bool(1, 4) {
						id = httpw.Ident{Auth: true, Domain: "d", Principal: "p"}
					}
					resp := httpw.Post(cl.Inst[0], rt.path, body, id, nil)
					sample = append(sample, "http "+rt.path+" "+what)
					if resp.Panicked != nil {
						e.Violate("panic-aborts-http-exchange", "http:"+rt.path, "%s: panic escaped ServeHTTP: %v", what, resp.Panicked)
						return
					}
					if resp.Status < 100 || resp.Status > 599 {
						e.Violate("no-http-status", "http:"+rt.path, "%s: status %d", what, resp.Status)
						return
					}
				}
				// still serving
				ok := &pipew.Op{Kind: "unary", Method: "u_int", Script: &hx.Script{Nonce: 3999, Outcome: "ok"}, CancelAt: -1}
				t := httpw.Decode(httpw.Post(cl.Inst[0], "/u_int", pipew.RequestBytes(ok), httpw.Ident{}, nil))
				if t.Resp.Status != 200 || t.Err != nil {
					e.Violate("server-not-serving-after-bad-input", "http:end-of-run", "%s", t.Resp.ErrText())
				}
			})
			sim.Run(simkern.RunOpts{MaxSteps: 400000, Done: sim.RootsDone})
		}
		e.Conclude(sim, simkern.StopDone, true)
		e.Res.Nontrivial = true
	})
	if left != "" && !e.Violated() {
		e.Harness("bubble: %s", left)
	}
	e.Res.Sample = firstN(sample, 8)
}

var _ = io.EOF

func init() {
	Registry["C03"] = &Info{
		Run:   C03,
		Level: "fault_enumeration",
		Rule:  "the adversary is the network/client: one run in sixteen is a complete sweep of every truncation offset and every single-byte flip (xor 0xFF) within the alterable zones (see Assumptions) of one canonical unary request and one canonical stream call (request + input stream) on a simulated pipe, and of every truncation offset of a unary, a stream-init and a continuation body over HTTP; the other runs draw 4-13 adversarial connections (truncation, 1-4 altered bytes, whole messages duplicated/spliced, trailing garbage, and structurally valid requests with unexpected shapes: zero-row batches carrying location or shm-pointer keys with and without an advertised segment, malformed offsets/lengths, unknown segments, `request` columns with garbage / foreign inner schema / zero-row inner batch / null, many rows, no columns, invalid UTF-8 method, framework keys on requests, describe/transport-options with pointer keys; and valid exchange calls whose input stream carries a well-formed batch of an unexpected shape: string/binary/renamed/zero-row/no column, a superset of the declared schema with the extra column first or last, a castable column plus an extra one, duplicate column names, three columns, flipped nullability) and 6-15 HTTP requests of the same families plus continuation bodies of the same unexpected input shapes on every stream method's route; after adversarial connections a fresh connection must serve a valid call; distinct = schedule fingerprint (includes the mutation choices)",
		Real:  []string{"vgirpc.Server.ServeWithContext / serveOne / ReadRequest / deserializeParams / shm attach+resolve, HttpServer.ServeHTTP on unary, init and exchange routes", "arrow-go IPC reader (reached through the server)"},
		Stub:  []string{"duplex byte stream with half-close", "adversary", "net/http-style panic capture around ServeHTTP"},
		Quick: 400, Thorough: 40000,
		Warm:        c36Warm,
		FaultKinds:  []string{"truncate", "flip", "splice", "trailing", "structured", "stream-input-shape", "sweep-truncate", "sweep-flip", "http-truncate", "http-flip", "http-structured", "http-continuation-shape", "http-sweep-truncate"},
		Assumptions: []string{"byte alterations are confined to record-batch bodies, message length prefixes and the contents of custom-metadata strings, and alterations that make a length prefix or declared body length exceed 1 MiB are not sent: arrow-go sizes allocations from the lengths and flatbuffer vector lengths it reads (a flipped Schema.fields length made it request 376 GB and the Go runtime killed the worker with 'fatal error: out of memory', which no in-process harness can observe and survive — recorded in DESIGN.md as a finding outside the explored space); the number skipped is reported as a probe", "the adversary half-closes after writing, so a server blocked waiting for more bytes is not counted as a hang"},
		Exhaustive:  false,
	}
}
