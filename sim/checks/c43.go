package checks

import (
	"context"
	"encoding/binary"
	"encoding/hex"
	"fmt"
	"net/http"
	"sort"
	"strings"
	"time"

	"verifsim/hx"
	"verifsim/simkern"
	"verifsim/worlds/httpw"

	"github.com/Query-farm/vgi-rpc-go/vgirpc"
	vgiotel "github.com/Query-farm/vgi-rpc-go/vgirpc/otel"
	"github.com/apache/arrow-go/v18/arrow"
	"github.com/apache/arrow-go/v18/arrow/ipc"
	"go.opentelemetry.io/otel"
	"go.opentelemetry.io/otel/attribute"
	"go.opentelemetry.io/otel/codes"
	"go.opentelemetry.io/otel/propagation"
	sdkmetric "go.opentelemetry.io/otel/sdk/metric"
	"go.opentelemetry.io/otel/sdk/metric/metricdata"
	sdktrace "go.opentelemetry.io/otel/sdk/trace"
	"go.opentelemetry.io/otel/sdk/trace/tracetest"
	"go.opentelemetry.io/otel/trace"
	"go.opentelemetry.io/otel/trace/embedded"
)

// ---- world O: the real vgiotel hook against the SDK's in-memory recorders ----
//
// Parties: 1-2 real HttpServers (world H helpers) and 0-2 real Servers on
// simulated pipes (Server.ServeWithContext in a task), every one instrumented
// by the real vgiotel.InstrumentServer with one shared SDK TracerProvider
// (tracetest.SpanRecorder) and one SDK MeterProvider (ManualReader); stub
// clients that run generated call histories (unary, producer and exchange
// streams with continuations, success, handler error, handler panic, failing
// turn, cancel), each request with or without a W3C traceparent/tracestate.
//
// The TracerProvider handed to the hook is a thin harness wrapper around the
// SDK's: it forwards everything and only (a) notes which call of the history
// the calling task is serving when a span is started and (b) counts End calls
// per span (the SDK swallows a second End, the property says "exactly once").

type o43TP struct {
	traceID string // 32 hex
	spanID  string // 16 hex
	sampled bool
	state   string
}

func (t *o43TP) header() string {
	fl := "00"
	if t.sampled {
		fl = "01"
	}
	return "00-" + t.traceID + "-" + t.spanID + "-" + fl
}

type o43SpanRec struct {
	call      *o43Call
	name      string
	recording bool
	sc        trace.SpanContext
	ends      int
}

type o43Call struct {
	id        int
	transport string // http | pipe
	kind      string // unary | init | continuation | stream
	method    string
	tp        *o43TP
	stateOnly bool // tracestate sent without traceparent
	failed    bool
	done      bool
	spans     []*o43SpanRec
	note      string
}

func (c *o43Call) site() string { return c.transport + "-" + c.kind }

func (c *o43Call) String() string {
	tp := "no traceparent"
	if c.tp != nil {
		tp = "traceparent " + c.tp.header()
		if c.tp.state != "" {
			tp += " tracestate " + c.tp.state
		}
	} else if c.stateOnly {
		tp = "tracestate only"
	}
	out := "succeeded"
	if c.failed {
		out = "failed"
	}
	return fmt.Sprintf("call %d (%s %s %s, %s, %s%s)", c.id, c.transport, c.kind, c.method, tp, out, c.note)
}

type o43World struct {
	sim     *simkern.Sim
	current map[string]*o43Call // task name -> the call that task is serving
	calls   []*o43Call
	spans   []*o43SpanRec
	orphans []*o43SpanRec
	idn     uint64
	tpn     uint64
}

func (w *o43World) taskName() string {
	if w.sim != nil {
		if t := w.sim.Current(); t != nil {
			return t.Name
		}
	}
	return "main"
}

// ---- wrapper provider ----

type o43Provider struct {
	embedded.TracerProvider
	inner trace.TracerProvider
	w     *o43World
}

func (p *o43Provider) Tracer(name string, opts ...trace.TracerOption) trace.Tracer {
	return &o43Tracer{inner: p.inner.Tracer(name, opts...), w: p.w}
}

type o43Tracer struct {
	embedded.Tracer
	inner trace.Tracer
	w     *o43World
}

func (t *o43Tracer) Start(ctx context.Context, name string, opts ...trace.SpanStartOption) (context.Context, trace.Span) {
	ctx, sp := t.inner.Start(ctx, name, opts...)
	rec := &o43SpanRec{name: name, recording: sp.IsRecording(), sc: sp.SpanContext()}
	w := t.w
	if c := w.current[w.taskName()]; c != nil {
		rec.call = c
		c.spans = append(c.spans, rec)
	} else {
		w.orphans = append(w.orphans, rec)
	}
	w.spans = append(w.spans, rec)
	ws := &o43Span{Span: sp, rec: rec}
	return trace.ContextWithSpan(ctx, ws), ws
}

type o43Span struct {
	trace.Span
	rec *o43SpanRec
}

func (s *o43Span) End(opts ...trace.SpanEndOption) {
	s.rec.ends++
	s.Span.End(opts...)
}

// o43IDs hands out span and trace ids from a counter so that traces of a run
// do not depend on the SDK's random source.
type o43IDs struct{ w *o43World }

func (g o43IDs) NewIDs(ctx context.Context) (trace.TraceID, trace.SpanID) {
	g.w.idn++
	var t trace.TraceID
	t[0] = 0x5e
	binary.BigEndian.PutUint64(t[8:], g.w.idn)
	return t, g.NewSpanID(ctx, t)
}

func (g o43IDs) NewSpanID(context.Context, trace.TraceID) trace.SpanID {
	g.w.idn++
	var s trace.SpanID
	s[0] = 0x5e
	binary.BigEndian.PutUint32(s[4:], uint32(g.w.idn))
	return s
}

func (w *o43World) newTP(tp *simkern.Tape) *o43TP {
	w.tpn++
	var t [16]byte
	t[0] = 0xc1
	binary.BigEndian.PutUint64(t[8:], w.tpn)
	var s [8]byte
	s[0] = 0xc1
	binary.BigEndian.PutUint32(s[4:], uint32(w.tpn))
	out := &o43TP{traceID: hex.EncodeToString(t[:]), spanID: hex.EncodeToString(s[:]), sampled: !tp.Bool(1, 5)}
	out.state = []string{"", "vendor=opaque", "a=1,b=2"}[tp.Draw(3)]
	return out
}

// drawTrace decides what trace context a request carries.
func (w *o43World) drawTrace(tp *simkern.Tape) (t *o43TP, stateOnly bool) {
	switch tp.Draw(4) {
	case 0, 1:
		return w.newTP(tp), false
	case 2:
		return nil, false
	default:
		return nil, true
	}
}

func (w *o43World) begin(task, transport, kind, method string, t *o43TP, stateOnly bool) *o43Call {
	c := &o43Call{id: len(w.calls), transport: transport, kind: kind, method: method, tp: t, stateOnly: stateOnly}
	w.calls = append(w.calls, c)
	w.current[task] = c
	return c
}

func (w *o43World) finish(task string, c *o43Call, failed bool) {
	c.failed = failed
	c.done = true
	if w.current[task] == c {
		delete(w.current, task)
	}
	if w.sim != nil {
		w.sim.Logf("%s %s %s done failed=%v", c.transport, c.kind, c.method, failed)
	}
}

func o43HTTPHeaders(t *o43TP, stateOnly bool) map[string]string {
	h := map[string]string{}
	if t != nil {
		h["Traceparent"] = t.header()
		if t.state != "" {
			h["Tracestate"] = t.state
		}
	} else if stateOnly {
		h["Tracestate"] = "vendor=orphan"
	}
	return h
}

func o43PipeMeta(t *o43TP, stateOnly bool) hx.Meta {
	m := hx.Meta{}
	if t != nil {
		m = m.Add("traceparent", t.header())
		if t.state != "" {
			m = m.Add("tracestate", t.state)
		}
	} else if stateOnly {
		m = m.Add("tracestate", "vendor=orphan")
	}
	return m
}

// ---- HTTP client ----

// o43Outcome is what one finished call did, for fault accounting.
type o43Plan struct {
	method string
	kind   string // unary | producer | exchange
	header bool
	script *hx.Script
	turns  int  // exchange: how many inputs the client sends; producer: max continuations
	cancel bool // client cancels instead of running to the end
}

func o43GenPlan(tp *simkern.Tape, nonce int64) *o43Plan {
	switch tp.Draw(3) {
	case 0:
		m := hx.UnaryMethods[tp.Draw(len(hx.UnaryMethods))]
		return &o43Plan{method: m, kind: "unary", script: hx.GenUnaryScript(tp, nonce)}
	}
	sm := hx.StreamMethods[tp.Draw(4)] // prod, exch, prod2, exch2
	sc := hx.GenStreamScript(tp, nonce, sm.Kind, hx.GenOpts{MaxTurns: 4, FailBias: 4})
	sc.Header = sm.Header
	if tp.Bool(1, 6) {
		hx.GenInitFailure(tp, sc)
	}
	p := &o43Plan{method: sm.Name, kind: sm.Kind, header: sm.Header, script: sc}
	p.turns = 1 + tp.Draw(4)
	p.cancel = tp.Bool(1, 5)
	return p
}

func (p *o43Plan) describe() string {
	s := p.method + " " + p.script.Describe()
	if p.kind != "unary" {
		s += fmt.Sprintf(" turns=%d", p.turns)
		if p.cancel {
			s += " cancel"
		}
	}
	return s
}

func (w *o43World) countFaults(p *o43Plan, failed bool) {
	if w.sim == nil || !failed {
		return
	}
	switch p.script.Outcome {
	case "error":
		w.sim.Fault("handler-error")
		return
	case "panic":
		w.sim.Fault("handler-panic")
		return
	case "nilresult", "wrongstate":
		w.sim.Fault("handler-nil-result")
		return
	}
	w.sim.Fault("stream-turn-failure")
}

type o43Halt struct{ msg string }

// httpCall runs one planned call over HTTP; every HTTP request is one dispatch.
func (w *o43World) httpCall(tp *simkern.Tape, task string, cl *httpw.Cluster, p *o43Plan) *o43Halt {
	inst := func() *httpw.Instance { return cl.Inst[tp.Draw(len(cl.Inst))] }
	post := func(kind, path string, body []byte) (*httpw.Turn, *o43Call, *o43Halt) {
		t, so := w.drawTrace(tp)
		c := w.begin(task, "http", kind, p.method, t, so)
		turn := httpw.Decode(httpw.Post(inst(), path, body, httpw.Ident{}, o43HTTPHeaders(t, so)))
		if turn.Resp.Panicked != nil {
			return turn, c, &o43Halt{fmt.Sprintf("panic out of ServeHTTP on %s: %v", path, turn.Resp.Panicked)}
		}
		if turn.Resp.Status != 200 || turn.Parse != nil {
			return turn, c, &o43Halt{fmt.Sprintf("well-formed request to %s was answered %s (parse %v)", path, turn.Resp.ErrText(), turn.Parse)}
		}
		failed := turn.Err != nil
		w.finish(task, c, failed)
		w.countFaults(p, failed)
		return turn, c, nil
	}
	if p.kind == "unary" {
		_, _, halt := post("unary", "/"+p.method, httpw.InitBody(p.method, p.script, hx.Meta{}))
		return halt
	}
	turn, _, halt := post("init", "/"+p.method+"/init", httpw.InitBody(p.method, p.script, hx.Meta{}))
	if halt != nil {
		return halt
	}
	cursor, call := turn.Cursor, turn.Call
	for i := 0; i < p.turns && turn.Err == nil && cursor != ""; i++ {
		w.sim.Y("client.between-turns")
		var input []int64
		if p.kind == "exchange" {
			input = []int64{int64(i + 1)}
		}
		cancel := p.cancel && i == p.turns-1
		if cancel {
			input = nil
		}
		turn, _, halt = post("continuation", "/"+p.method+"/exchange", httpw.ContBody(cursor, call, cancel, input, false, hx.Meta{}))
		if halt != nil {
			return halt
		}
		if cancel {
			w.sim.Fault("client-cancel")
			return nil
		}
		w.sim.Probe("http-continuation")
		cursor = turn.Cursor
	}
	return nil
}

// ---- pipe client ----

var o43EmptySchema = arrow.NewSchema(nil, nil)

// pipeCall runs one planned call on a simulated pipe; one request (a whole
// stream included) is one dispatch. The client follows the discipline the
// server documents: request, then for a stream the input stream is opened and
// the first input written before anything is read, then one input per
// output, and the input stream's EOS after an error, a cancel or the end.
func (w *o43World) pipeCall(tp *simkern.Tape, serverTask string, conn *hx.Conn, p *o43Plan) *o43Halt {
	t, so := w.drawTrace(tp)
	kind := "unary"
	if p.kind != "unary" {
		kind = "stream"
	}
	c := w.begin(serverTask, "pipe", kind, p.method, t, so)
	if _, err := conn.Write(hx.RequestBytes(p.method, p.script, o43PipeMeta(t, so))); err != nil {
		return &o43Halt{"pipe write: " + err.Error()}
	}
	done := func(failed bool) *o43Halt {
		// c stays the server task's current call until the next request is
		// written: the server starts nothing for another call before that.
		c.failed, c.done = failed, true
		w.sim.Logf("pipe %s %s done failed=%v", kind, p.method, failed)
		w.countFaults(p, failed)
		return nil
	}
	hasErr := func(st *hx.Stream) bool {
		for _, b := range st.Batches {
			if b.Kind == "error" {
				return true
			}
		}
		return false
	}
	if p.kind == "unary" {
		st, err := hx.ReadStream(conn)
		if err != nil {
			return &o43Halt{"pipe unary response: " + err.Error()}
		}
		return done(hasErr(st))
	}
	inSchema := o43EmptySchema
	if p.kind == "exchange" {
		inSchema = hx.InSchema
	}
	iw := ipc.NewWriter(conn, ipc.WithSchema(inSchema))
	inClosed := false
	closeIn := func() {
		if !inClosed {
			inClosed = true
			_ = iw.Close()
		}
	}
	sendInput := func(i int, cancel bool) error {
		var b arrow.RecordBatch
		switch {
		case p.kind == "exchange" && cancel:
			b = hx.Int64Batch("x", nil, false)
		case p.kind == "exchange":
			b = hx.Int64Batch("x", []int64{int64(i + 1)}, false)
		default:
			b = hx.EmptyBatch()
		}
		if cancel {
			b = hx.WithMeta(b, hx.M(hx.KCancel, "1"))
		}
		defer b.Release()
		return iw.Write(b)
	}
	sent := 0
	if err := sendInput(sent, false); err != nil {
		return &o43Halt{"pipe input write: " + err.Error()}
	}
	sent++
	if p.header {
		hs, err := hx.ReadStream(conn)
		if err != nil {
			return &o43Halt{"pipe header stream: " + err.Error()}
		}
		if hasErr(hs) {
			closeIn()
			return done(true)
		}
	}
	rd, err := ipc.NewReader(conn)
	if err != nil {
		return &o43Halt{"pipe output stream: " + err.Error()}
	}
	defer rd.Release()
	failed := false
	outputs := 0
	for rd.Next() {
		b := hx.DecodeBatch(rd.RecordBatch())
		switch b.Kind {
		case "log":
			continue
		case "error":
			failed = true
			closeIn()
			continue
		}
		outputs++
		w.sim.Probe("pipe-stream-output")
		if inClosed {
			continue
		}
		if outputs >= p.turns {
			if p.cancel {
				if err := sendInput(sent, true); err != nil {
					return &o43Halt{"pipe cancel write: " + err.Error()}
				}
				w.sim.Fault("client-cancel")
			}
			closeIn()
			continue
		}
		if err := sendInput(sent, false); err != nil {
			return &o43Halt{"pipe input write: " + err.Error()}
		}
		sent++
	}
	if err := rd.Err(); err != nil {
		return &o43Halt{"pipe output stream: " + err.Error()}
	}
	closeIn()
	return done(failed)
}

// ---- set-up ----

type o43Cfg struct {
	tracing, metrics, recordExc bool
	sampler                     int // 0 always, 1 parent-based(always), 2 never, 3 record-only under a sampled-out parent
	explicitPropagator          bool
}

type o43Telemetry struct {
	rec    *tracetest.SpanRecorder
	tp     *sdktrace.TracerProvider
	reader *sdkmetric.ManualReader
	mp     *sdkmetric.MeterProvider
	cfg    vgiotel.OtelConfig
}

// o43RecordOnlySampler: RecordAndSample under a sampled (or absent) parent,
// RecordOnly under a sampled-out parent.
type o43RecordOnlySampler struct{}

func (o43RecordOnlySampler) ShouldSample(p sdktrace.SamplingParameters) sdktrace.SamplingResult {
	psc := trace.SpanContextFromContext(p.ParentContext)
	d := sdktrace.RecordAndSample
	if psc.IsValid() && !psc.IsSampled() {
		d = sdktrace.RecordOnly
	}
	return sdktrace.SamplingResult{Decision: d, Tracestate: psc.TraceState()}
}
func (o43RecordOnlySampler) Description() string { return "o43RecordOnlySampler" }

func o43NewTelemetry(w *o43World, c o43Cfg) *o43Telemetry {
	t := &o43Telemetry{rec: tracetest.NewSpanRecorder(), reader: sdkmetric.NewManualReader()}
	var s sdktrace.Sampler
	switch c.sampler {
	case 1:
		s = sdktrace.ParentBased(sdktrace.AlwaysSample())
	case 2:
		s = sdktrace.NeverSample()
	case 3:
		// records every span but samples (exports) only those whose parent was
		// sampled: spans under a sampled-out parent are recording and unsampled
		s = o43RecordOnlySampler{}
	default:
		s = sdktrace.AlwaysSample()
	}
	t.tp = sdktrace.NewTracerProvider(sdktrace.WithSpanProcessor(t.rec), sdktrace.WithSampler(s), sdktrace.WithIDGenerator(o43IDs{w}))
	t.mp = sdkmetric.NewMeterProvider(sdkmetric.WithReader(t.reader))
	t.cfg = vgiotel.OtelConfig{
		TracerProvider:   &o43Provider{inner: t.tp, w: w},
		MeterProvider:    t.mp,
		EnableTracing:    c.tracing,
		EnableMetrics:    c.metrics,
		RecordExceptions: c.recordExc,
		CustomAttributes: []attribute.KeyValue{attribute.String("deployment.environment", "sim")},
	}
	if c.explicitPropagator {
		t.cfg.Propagator = propagation.TraceContext{}
	}
	return t
}

func (t *o43Telemetry) shutdown() {
	_ = t.tp.Shutdown(context.Background())
	_ = t.mp.Shutdown(context.Background())
}

// counts reads rpc.server.requests per "method|status".
func (t *o43Telemetry) counts() (map[string]int64, error) {
	var rm metricdata.ResourceMetrics
	if err := t.reader.Collect(context.Background(), &rm); err != nil {
		return nil, err
	}
	out := map[string]int64{}
	for _, sm := range rm.ScopeMetrics {
		for _, m := range sm.Metrics {
			if m.Name != "rpc.server.requests" {
				continue
			}
			sum, ok := m.Data.(metricdata.Sum[int64])
			if !ok {
				return nil, fmt.Errorf("rpc.server.requests is a %T, not an int64 sum", m.Data)
			}
			for _, dp := range sum.DataPoints {
				me, _ := dp.Attributes.Value("rpc.method")
				st, _ := dp.Attributes.Value("status")
				out[me.AsString()+"|"+st.AsString()] += dp.Value
			}
		}
	}
	return out, nil
}

func o43Key() []byte { return []byte("0123456789abcdef0123456789abcdef") }

// warmOtel creates the process-wide singletons of the HTTP server (token
// codec) and of the OpenTelemetry API/SDK outside any bubble, and installs the
// W3C propagator as the process's global one (what a deployment that relies
// on DefaultConfig's nil Propagator has to do).
func warmOtel() {
	warmHTTP()
	otel.SetTextMapPropagator(propagation.TraceContext{})
	w := &o43World{current: map[string]*o43Call{}}
	tel := o43NewTelemetry(w, o43Cfg{tracing: true, metrics: true, recordExc: true})
	cl := httpw.NewCluster(httpw.Config{Key: o43Key(), CacheSizes: []int{-1}, BatchLimit: 1, NoTwin: true,
		Setup: func(_ int, srv *vgirpc.Server, _ *vgirpc.HttpServer) { vgiotel.InstrumentServer(srv, tel.cfg) }})
	for i, outcome := range []string{"ok", "error", "panic"} {
		sc := &hx.Script{Nonce: int64(900 + i), Outcome: outcome, Err: &hx.ErrSpec{Shape: "rpc", Type: "ValueError", Msg: "warm"}}
		t := &o43TP{traceID: strings.Repeat("ab", 16), spanID: strings.Repeat("cd", 8), sampled: true, state: "a=1"}
		httpw.Decode(httpw.Post(cl.Inst[0], "/u_int", httpw.InitBody("u_int", sc, hx.Meta{}), httpw.Ident{}, o43HTTPHeaders(t, false)))
	}
	_, _ = tel.counts()
	tel.shutdown()
	hx.Rec.Reset()
}

// C43 — the OpenTelemetry hook ends every span it starts with the call's outcome.
func C43(e *simkern.Env) {
	tp := e.Tape
	cfg := o43Cfg{
		tracing:            !tp.Bool(1, 8),
		metrics:            !tp.Bool(1, 8),
		recordExc:          !tp.Bool(1, 4),
		sampler:            tp.Weighted([]int{6, 3, 1, 3}),
		explicitPropagator: !tp.Bool(1, 3),
	}
	nInst := 1 + tp.Draw(2)
	batchLimit := 1 + tp.Draw(2)
	nHTTP := tp.Draw(4)   // 0-3 HTTP client tasks
	nPipe := tp.Draw(3)   // 0-2 pipe connections
	if nHTTP+nPipe == 0 { // at least one party
		nHTTP = 1
	}
	callsPer := 2 + tp.Draw(3)
	if e.Tier == "thorough" {
		callsPer = 2 + tp.Draw(6)
	}
	// the dispatch context may already carry a span (tracing middleware in
	// front of the handler; a connection-level span on a pipe): the caller's
	// traceparent still decides the parent
	ambient := tp.Bool(1, 3)
	e.Knob("tracing", cfg.tracing)
	e.Knob("metrics", cfg.metrics)
	e.Knob("sampler", []string{"always", "parent-based", "never", "record-only-under-unsampled-parent"}[cfg.sampler])
	e.Knob("explicit_propagator", cfg.explicitPropagator)
	e.Knob("http_instances", nInst)
	e.Knob("batch_limit", batchLimit)
	e.Knob("http_clients", nHTTP)
	e.Knob("pipe_connections", nPipe)
	e.Knob("ambient_span_in_context", ambient)

	var sample []string
	left := e.Bubble(func() {
		sim := simkern.NewSim(tp, e.Trace)
		defer sim.Close()
		hx.Rec.Reset()
		ambientCtx := func(ctx context.Context, n byte) context.Context {
			if !ambient {
				return ctx
			}
			sc := trace.NewSpanContext(trace.SpanContextConfig{
				TraceID: trace.TraceID{0xab, n, 1, 2, 3, 4, 5, 6, 7, 8, 9, 10, 11, 12, 13, 14},
				SpanID:  trace.SpanID{0xcd, n, 1, 2, 3, 4, 5, 6}, TraceFlags: trace.FlagsSampled})
			return trace.ContextWithSpanContext(ctx, sc)
		}
		if ambient {
			hx.RequestContext = func(r *http.Request) context.Context { return ambientCtx(r.Context(), 1) }
			defer func() { hx.RequestContext = nil }()
		}
		w := &o43World{sim: sim, current: map[string]*o43Call{}}
		tel := o43NewTelemetry(w, cfg)
		defer tel.shutdown()
		caches := make([]int, nInst)
		for i := range caches {
			caches[i] = -1
		}
		cl := httpw.NewCluster(httpw.Config{Key: o43Key(), CacheSizes: caches, BatchLimit: batchLimit, NoTwin: true,
			Setup: func(_ int, srv *vgirpc.Server, _ *vgirpc.HttpServer) { vgiotel.InstrumentServer(srv, tel.cfg) }})

		var halt *o43Halt
		stop := func(h *o43Halt) {
			if h != nil && halt == nil {
				halt = h
			}
		}
		nonce := int64(0)
		var plans []string
		for ci := 0; ci < nHTTP; ci++ {
			name := fmt.Sprintf("http%d", ci)
			sim.Spawn(name, func() {
				for k := 0; k < callsPer && halt == nil; k++ {
					sim.Y("client.idle")
					nonce++
					p := o43GenPlan(tp, nonce)
					plans = append(plans, name+": "+p.describe())
					stop(w.httpCall(tp, name, cl, p))
				}
			})
		}
		for pi := 0; pi < nPipe; pi++ {
			cname, sname := fmt.Sprintf("pipe%d", pi), fmt.Sprintf("pserver%d", pi)
			srv := vgirpc.NewServer()
			srv.SetServerID(sname)
			hx.Register(srv)
			vgiotel.InstrumentServer(srv, tel.cfg)
			cc, sc := hx.NewConnPair(cname)
			if tp.Bool(1, 3) {
				sc.R.Frag = 1 + tp.Draw(64)
				cc.R.Frag = 1 + tp.Draw(64)
			}
			sim.Spawn(sname, func() {
				srv.ServeWithContext(ambientCtx(context.Background(), byte(2+pi)), sc, sc)
				_ = sc.Close()
			})
			sim.Spawn(cname, func() {
				for k := 0; k < callsPer && halt == nil; k++ {
					sim.Y("client.idle")
					nonce++
					p := o43GenPlan(tp, nonce)
					plans = append(plans, cname+": "+p.describe())
					stop(w.pipeCall(tp, sname, cc, p))
				}
				_ = cc.Close()
			})
		}

		menu := []time.Duration{3 * time.Millisecond, time.Second}
		reason, _ := sim.Run(simkern.RunOpts{
			MaxSteps: 60000,
			Done:     sim.RootsDone,
			Extra: func() []simkern.Action {
				var acts []simkern.Action
				for _, d := range menu {
					d := d
					acts = append(acts, simkern.Action{Name: fmt.Sprintf("advance %v", d), Weight: 1, Do: func() {
						sim.Fault("clock-advance")
						sim.Advance(d)
					}})
				}
				return acts
			},
		})
		if halt != nil {
			e.Harness("world O client: %s", halt.msg)
		}
		if reason == simkern.StopDone && halt == nil && len(sim.Panicked()) == 0 {
			o43Judge(e, w, tel, cfg)
		}
		e.Conclude(sim, reason, false)
		concurrent := sim.Interleavings > 0
		nFailed, nTP := 0, 0
		for _, c := range w.calls {
			if c.failed {
				nFailed++
			}
			if c.tp != nil {
				nTP++
			}
		}
		e.Res.Nontrivial = len(w.calls) >= 2 && (concurrent || nFailed > 0 || nTP > 0)
		for i, p := range plans {
			if i >= 10 {
				sample = append(sample, fmt.Sprintf("... %d more", len(plans)-i))
				break
			}
			sample = append(sample, p)
		}
		sample = append(sample, fmt.Sprintf("dispatches=%d failed=%d with-traceparent=%d spans=%d", len(w.calls), nFailed, nTP, len(w.spans)))
	})
	if left != "" {
		e.Harness("bubble: %s", left)
	}
	e.Res.Sample = sample
}

// o43Judge is the oracle, evaluated when every client and server task has
// finished.
func o43Judge(e *simkern.Env, w *o43World, tel *o43Telemetry, cfg o43Cfg) {
	sim := w.sim
	if len(w.orphans) > 0 {
		e.Harness("world O: %d span(s) started outside any call of the history (first: %q)", len(w.orphans), w.orphans[0].name)
		return
	}
	ended := map[trace.SpanID]sdktrace.ReadOnlySpan{}
	endedN := map[trace.SpanID]int{}
	for _, s := range tel.rec.Ended() {
		ended[s.SpanContext().SpanID()] = s
		endedN[s.SpanContext().SpanID()]++
	}
	for _, c := range w.calls {
		if !c.done {
			e.Harness("world O: %s never completed", c)
			return
		}
		if len(c.spans) == 0 {
			if cfg.tracing {
				sim.Probe("dispatch-without-span-though-tracing-enabled")
			} else {
				sim.Probe("dispatch-without-span-tracing-disabled")
			}
		}
		for _, s := range c.spans {
			if !s.recording {
				sim.Probe("non-recording-span")
				continue
			}
			sim.Probe("recording-span")
			// 1. ended exactly once
			if s.ends == 0 {
				e.Violate("span-never-ended", c.site(), "span %q started for %s was not ended by the end of the run (End calls: 0)", s.name, c)
				return
			}
			if s.ends > 1 {
				e.Violate("span-ended-more-than-once", c.site(), "span %q started for %s had End called %d times", s.name, c, s.ends)
				return
			}
			ro := ended[s.sc.SpanID()]
			if ro == nil || endedN[s.sc.SpanID()] != 1 {
				e.Harness("world O: span of %s ended once by the hook but recorded %d times by the SDK", c, endedN[s.sc.SpanID()])
				return
			}
			// 2. error status <=> the call failed
			isErr := ro.Status().Code == codes.Error
			if c.failed && !isErr {
				e.Violate("failed-call-span-not-error", c.site(), "%s: its span %q ended with status %v (%q)", c, s.name, ro.Status().Code, ro.Status().Description)
				return
			}
			if !c.failed && isErr {
				e.Violate("successful-call-span-error", c.site(), "%s: its span %q ended with status Error (%q)", c, s.name, ro.Status().Description)
				return
			}
			if c.failed {
				sim.Probe("error-span")
			}
			// 3. parented on the caller's traceparent
			if c.tp != nil {
				par := ro.Parent()
				if par.TraceID().String() != c.tp.traceID || par.SpanID().String() != c.tp.spanID || ro.SpanContext().TraceID().String() != c.tp.traceID {
					e.Violate("span-not-parented-on-traceparent", c.site(), "%s: its span %q has parent trace=%s span=%s and trace id %s", c, s.name, par.TraceID(), par.SpanID(), ro.SpanContext().TraceID())
					return
				}
				sim.Probe("span-parented-on-traceparent")
				if c.tp.state != "" {
					sim.Probe("traceparent-with-tracestate")
				}
			}
		}
	}
	// 4. one count per dispatch under (method, status)
	if cfg.metrics {
		got, err := tel.counts()
		if err != nil {
			e.Harness("world O: collecting metrics: %v", err)
			return
		}
		want := map[string]int64{}
		for _, c := range w.calls {
			st := "ok"
			if c.failed {
				st = "error"
			}
			want[c.method+"|"+st]++
		}
		keys := map[string]bool{}
		for k := range got {
			keys[k] = true
		}
		for k := range want {
			keys[k] = true
		}
		var ks []string
		for k := range keys {
			ks = append(ks, k)
		}
		sort.Strings(ks)
		for _, k := range ks {
			if got[k] != want[k] {
				var hist []string
				for _, c := range w.calls {
					if strings.HasPrefix(k, c.method+"|") {
						hist = append(hist, c.String())
					}
				}
				e.Violate("request-counter-mismatch", "rpc.server.requests", "counter for (method|status) %q is %d, the history has %d such dispatches; dispatches of that method: %s", k, got[k], want[k], strings.Join(hist, "; "))
				return
			}
		}
		sim.ProbeN("counter-series-compared", len(ks))
	}
}

func init() {
	Registry["C43"] = &Info{
		Run:   C43,
		Level: "exploration",
		Rule: "each run draws the hook configuration (tracing on/off, metrics on/off, RecordExceptions, sampler always | parent-based | never | record-only under a sampled-out parent, explicit or global W3C propagator), 1-2 HTTP instances with producer batch limit 1-2, 0-3 HTTP client tasks and 0-2 pipe connections (each a real Server.ServeWithContext task on a simulated pipe, optionally fragmented), and per client 2-4 (thorough 2-7) calls from the tape: scripted unary methods and producer/exchange streams (with and without header) that succeed, fail or panic in the handler, fail at a drawn turn, or are cancelled by the client; over HTTP a stream is an init plus continuation requests, each its own dispatch; every request independently carries a fresh traceparent (sampled or not, with or without tracestate), nothing, or a tracestate alone; " +
			"the scheduler interleaves the tasks at woven sites and harness yields (so dispatches overlap between hook start and hook end) and moves the clock; oracle at the end of the run over the SDK's span recorder, an End-counting wrapper and the manual metric reader; distinct = distinct schedule fingerprint; non-trivial = at least two dispatches and (tasks interleaved, or a call failed, or a traceparent was sent)",
		Real:  []string{"vgiotel.InstrumentServer / otelHook.OnDispatchStart / OnDispatchEnd", "vgirpc.Server dispatch over a pipe (ServeWithContext, serveUnary, serveStream)", "vgirpc.HttpServer (unary, stream init, stream exchange, startDispatchHook, buildHTTPTransportMeta)", "OpenTelemetry Go SDK v1.44 (TracerProvider, tracetest.SpanRecorder, MeterProvider, ManualReader, propagation.TraceContext)"},
		Stub:  []string{"protocol clients (arrow-go IPC; lockstep stream client on the pipe)", "simulated pipe; HTTP transport (direct ServeHTTP call)", "scripted handlers and stream states", "TracerProvider wrapper that attributes each started span to the call its task is serving and counts End calls (forwards everything to the SDK)", "counter-based span/trace id generator"},
		Quick: 640, Thorough: 48000,
		Warm:       warmOtel,
		FaultKinds: []string{"handler-error", "handler-panic", "handler-nil-result", "stream-turn-failure", "client-cancel", "clock-advance"},
		Assumptions: []string{
			"package vgiotel is not woven (it starts no goroutine and holds no lock of its own); scheduling points between a dispatch's hook start and hook end come from the woven vgirpc package and from harness handlers",
			"'the call failed' is decided on the client side: the response of that dispatch carries an EXCEPTION batch (pipe: anywhere in the call's response streams)",
			"a span is attributed to the dispatch that its starting goroutine was serving (HTTP: the request's own goroutine; pipe: the connection's serve loop), i.e. the hook is assumed to start spans synchronously in OnDispatchStart; a span started elsewhere is reported as harness trouble, not as a violation",
			"only well-formed requests that reach dispatch are generated (requests refused before dispatch - unknown method, bad token, wrong content type - are not dispatches and no clause speaks about them)",
			"for a dispatch that sent no traceparent nothing is demanded of the span's parent; for non-recording spans (sampled out) nothing is demanded; with metrics disabled nothing is demanded of the counter",
			"clauses refer to the documented telemetry schema (docs/guide/observability.md): counter rpc.server.requests with attributes rpc.method and status = ok|error",
		},
	}
}
