package checks

import (
	"bytes"
	"fmt"
	"math"
	"runtime/debug"
	"strings"

	"github.com/Query-farm/vgi-rpc-go/vgirpc"
	"github.com/apache/arrow-go/v18/arrow"
	"github.com/apache/arrow-go/v18/arrow/array"
	"github.com/apache/arrow-go/v18/arrow/ipc"
	"github.com/apache/arrow-go/v18/arrow/memory"

	"verifsim/simkern"
	"verifsim/worlds/shmw"
)

// C34 — the shared-memory allocator keeps its table consistent (world M).
//
// One real POSIX segment; two attachments A and B (two processes' views), 1-2
// tasks on each; a third, read-only mapping of /dev/shm/<name> opened by the
// harness itself, parsed by shmw.Parse (documented layout, no code of /repo);
// shmw.Model (first-fit interval list) as reference.

var c34Schema = arrow.NewSchema([]arrow.Field{{Name: "v", Type: arrow.PrimitiveTypes.Int64}}, nil)

type c34Op struct {
	id   int
	att  int
	task string
	kind string // alloc | write | free | reset
	size uint64 // alloc: bytes requested
	rows int    // write: rows of the int64 batch
	off  uint64 // free: offset argument
	why  string // how the argument was chosen (trace only)

	resOff   uint64
	resLen   uint64
	ok       bool
	err      error
	panicked any
	inv, ret int
}

func (o *c34Op) String() string {
	var s string
	switch o.kind {
	case "alloc":
		s = fmt.Sprintf("alloc(%d %s)", o.size, o.why)
	case "write":
		s = fmt.Sprintf("write-batch(%d rows)", o.rows)
	case "free":
		s = fmt.Sprintf("free(%d %s)", o.off, o.why)
	default:
		s = "reset"
	}
	s = o.task + " " + s
	if o.ret == 0 {
		return s + " …"
	}
	if o.panicked != nil {
		return s + fmt.Sprintf(" -> panic %v", o.panicked)
	}
	switch o.kind {
	case "alloc":
		if o.ok {
			return s + fmt.Sprintf(" -> %d", o.resOff)
		}
		return s + " -> refused"
	case "write":
		if o.ok {
			return s + fmt.Sprintf(" -> [%d+%d)", o.resOff, o.resLen)
		}
		return s + " -> declined"
	case "free":
		if o.err != nil {
			return s + " -> error"
		}
		return s + " -> ok"
	}
	return s
}

type c34Att struct {
	name string
	h    *vgirpc.ShmSegment
}

type c34World struct {
	e   *simkern.Env
	sim *simkern.Sim
	tp  *simkern.Tape

	segSize uint64
	data    uint64
	segName string
	own     *vgirpc.ShmSegment
	att     [2]*c34Att
	raw     *shmw.RawView
	model   *shmw.Model

	inflight [2]int
	epoch    []*c34Op
	seq      int
	nextID   int
	pending  bool
	epochCap int

	live []uint64
	dead []uint64

	parseBuf []shmw.Region

	nAllocOK, nFreeHit, nHole, nRefused, nRestart, nConc int
	opsByAtt                                             [2]int
	sample                                               []string
	quiet                                                bool // prefill: no trace lines, sparse cross-view checks
	nearFull                                             bool // the run was prefilled towards the maximum count
}

func (w *c34World) probe(name string) { w.sim.Probe(name) }

// c34Batch builds an int64 batch of n rows.
func c34Batch(n int) arrow.RecordBatch {
	b := array.NewInt64Builder(memory.DefaultAllocator)
	b.Reserve(n)
	for i := 0; i < n; i++ {
		b.UnsafeAppend(int64(i))
	}
	col := b.NewArray()
	b.Release()
	rb := array.NewRecordBatch(c34Schema, []arrow.Array{col}, int64(n))
	col.Release()
	return rb
}

// c34StreamLen is the exact length of the batch as a complete IPC stream,
// computed with arrow-go's writer (not with the code under test).
func c34StreamLen(rb arrow.RecordBatch) uint64 {
	var buf bytes.Buffer
	wr := ipc.NewWriter(&buf, ipc.WithSchema(rb.Schema()))
	_ = wr.Write(rb)
	_ = wr.Close()
	return uint64(buf.Len())
}

func c34Warm() {
	seg, err := vgirpc.ShmCreate(shmw.HeaderSize + 1<<16)
	if err != nil {
		return
	}
	defer shmw.Remove(seg.Name())
	defer seg.Close()
	rb := c34Batch(100)
	defer rb.Release()
	off, n, ok, _ := seg.AllocateAndWrite(rb)
	if ok {
		if out, err := seg.ReadBatch(off, n, c34Schema); err == nil {
			out.Release()
		}
		_ = seg.FreeOffset(off)
	}
	_, _, _ = seg.VerifAllocate(10)
	_, _ = seg.VerifTable()
	seg.Reset()
	_ = c34StreamLen(rb)
	// the near-full histories allocate 64 KiB table copies per operation in
	// the code under test; collect less often
	debug.SetGCPercent(400)
}

// exec performs the operation on handle h (called from a task, or from the
// scheduler goroutine during set-up where the woven yields are no-ops).
func (w *c34World) exec(o *c34Op, h *vgirpc.ShmSegment) {
	defer func() {
		if r := recover(); r != nil {
			o.panicked = r
		}
	}()
	switch o.kind {
	case "alloc":
		sz := o.size
		if sz > math.MaxInt64 {
			sz = math.MaxInt64
		}
		o.resOff, o.ok, o.err = h.VerifAllocate(int(sz))
		o.resLen = o.size
	case "write":
		rb := c34Batch(o.rows)
		defer rb.Release()
		var n int
		o.resOff, n, o.ok, o.err = h.AllocateAndWrite(rb)
		o.resLen = uint64(n)
	case "free":
		o.err = h.FreeOffset(o.off)
	case "reset":
		h.Reset()
	}
}

func (w *c34World) begin(o *c34Op) {
	w.seq++
	o.inv = w.seq
	w.nextID++
	o.id = w.nextID
	w.inflight[o.att]++
	w.epoch = append(w.epoch, o)
	w.opsByAtt[o.att]++
	switch o.kind {
	case "free":
		for i, x := range w.live {
			if x == o.off {
				w.live = append(w.live[:i], w.live[i+1:]...)
				if len(w.dead) < 64 {
					w.dead = append(w.dead, x)
				}
				break
			}
		}
	case "reset":
		w.live = w.live[:0]
	}
}

func (w *c34World) end(o *c34Op) {
	w.seq++
	o.ret = w.seq
	w.inflight[o.att]--
	if o.ok && (o.kind == "alloc" || o.kind == "write") && len(w.live) < 8192 {
		w.live = append(w.live, o.resOff)
	}
	if !w.quiet {
		w.sim.Logf("%s", o.String())
		if len(w.sample) < 14 {
			w.sample = append(w.sample, o.String())
		}
	}
	if w.inflight[0]+w.inflight[1] == 0 {
		w.pending = true
	}
}

func (w *c34World) tableNow() (*shmw.Header, bool) {
	hdr, err := shmw.ParseInto(w.raw.Bytes, w.parseBuf)
	if err != nil {
		w.e.Harness("raw view: %v", err)
		return nil, false
	}
	w.parseBuf = hdr.Regions[:0]
	return hdr, true
}

// views checks that every attachment reads the table the raw bytes hold.
func (w *c34World) views(hdr *shmw.Header, site string) {
	for _, a := range w.att {
		t, err := a.h.VerifTable()
		if err != nil {
			w.e.Harness("VerifTable on %s: %v", a.name, err)
			return
		}
		got := make([]shmw.Region, len(t))
		for i, x := range t {
			got[i] = shmw.Region{Off: x[0], Len: x[1]}
		}
		if !shmw.SameRegions(got, hdr.Regions) {
			w.e.Violate("attachment-reads-different-table", site, "attachment %s reads %s; the segment bytes hold %s (%s)", a.name, shmw.Brief(got), shmw.Brief(hdr.Regions), shmw.FirstDiff(got, hdr.Regions))
			return
		}
	}
	w.probe("cross-attachment-views-compared")
}

func c34Site(ops []*c34Op) string {
	if len(ops) == 1 {
		if ops[0].kind == "write" {
			return "write-batch"
		}
		return ops[0].kind
	}
	return "concurrent-ops"
}

func c34Describe(ops []*c34Op) string {
	var ss []string
	for _, o := range ops {
		ss = append(ss, fmt.Sprintf("%s (invoked@%d returned@%d)", o.String(), o.inv, o.ret))
	}
	return strings.Join(ss, "; ")
}

// judge is run on the scheduler goroutine at a quiescent point at which no
// operation is in flight on either attachment.
func (w *c34World) judge(crossViews bool) {
	ops := w.epoch
	w.epoch = nil
	w.pending = false
	if len(ops) == 0 || w.e.Violated() {
		return
	}
	site := c34Site(ops)
	hdr, ok := w.tableNow()
	if !ok {
		return
	}
	if d := hdr.Defects(w.raw.FileSize); d != nil {
		w.e.Violate(d.Class, site, "after %s: %s; table before: %s; table now: %s", c34Describe(ops), d.Detail, shmw.Brief(w.model.Regions), shmw.Brief(hdr.Regions))
		return
	}
	for _, o := range ops {
		if o.panicked != nil {
			w.e.Harness("operation panicked with a structurally sound table: %s", o.String())
			return
		}
		if o.err != nil && o.kind != "free" {
			w.e.Harness("operation returned an error: %s: %v", o.String(), o.err)
			return
		}
	}
	if len(ops) == 1 {
		w.judgeOne(ops[0], hdr, site)
	} else {
		w.nConc++
		w.probe("concurrent-epoch")
		w.linearise(ops, hdr, site)
	}
	if w.e.Violated() {
		return
	}
	if len(hdr.Regions) == shmw.MaxRegions {
		w.probe("table-at-maximum-count")
	}
	if crossViews {
		w.views(hdr, site)
	}
}

func (w *c34World) touchesNeighbour(i int) bool {
	rs := w.model.Regions
	r := rs[i]
	if i > 0 && rs[i-1].Off+rs[i-1].Len == r.Off {
		return true
	}
	return i+1 < len(rs) && r.Off+r.Len == rs[i+1].Off
}

// judgeOne judges a single operation against the model and then requires the
// table to equal the model.
func (w *c34World) judgeOne(o *c34Op, hdr *shmw.Header, site string) {
	m := w.model
	before := shmw.Brief(m.Regions)
	switch o.kind {
	case "alloc", "write":
		if o.kind == "write" && !o.ok {
			// declined before or by the allocator: the table must be untouched
			// (probe only) was there room for the exact stream?
			need := uint64(o.rows) * 8 // the body alone
			if _, fits := m.Fit(need); fits && !m.Full() {
				rb := c34Batch(o.rows)
				need = c34StreamLen(rb)
				rb.Release()
			}
			if _, fits := m.Fit(need); fits && !m.Full() {
				w.probe("write-declined-by-capacity-precheck")
			} else {
				w.probe("write-declined-no-gap")
			}
			break
		}
		n := o.resLen
		full := m.Full()
		g, fits := m.Fit(n)
		wantOK := fits && !full && n > 0
		switch {
		case o.ok && !wantOK:
			w.e.Violate("allocation-succeeded-without-room", site, "%s of %d bytes returned offset %d, but no free gap of that size exists (largest gap %d, %d of %d regions); table before: %s", o.String(), n, o.resOff, m.LargestGap(), len(m.Regions), shmw.MaxRegions, before)
			return
		case !o.ok && wantOK:
			w.e.Violate("allocation-failed-although-a-gap-fits", site, "%s of %d bytes was refused, but the gap [%d+%d) is large enough and the table holds %d of %d regions; table before: %s", o.String(), n, g.Off, g.Len, len(m.Regions), shmw.MaxRegions, before)
			return
		case o.ok && o.resOff != g.Off:
			w.e.Violate("allocation-not-first-fit", site, "%s of %d bytes was placed at %d; the first gap that fits is [%d+%d); table before: %s", o.String(), n, o.resOff, g.Off, g.Len, before)
			return
		}
		if o.ok {
			if g.Index < len(m.Regions) {
				w.nHole++
				w.probe("alloc-into-hole")
			}
			if g.Len == n {
				w.probe("alloc-exact-fit")
			}
			if g.Off+n == m.SegSize {
				w.probe("alloc-ends-at-end-of-data-area")
			}
			m.Alloc(n)
			w.nAllocOK++
			w.probe(o.kind + "-ok")
		} else {
			w.nRefused++
			if full {
				w.probe("alloc-refused-table-full")
			} else {
				w.probe("alloc-refused-no-gap")
			}
		}
	case "free":
		i := m.Find(o.off)
		if i >= 0 {
			victim := m.Regions[i]
			adjacent := w.touchesNeighbour(i)
			m.Free(o.off)
			if !shmw.SameRegions(hdr.Regions, m.Regions) {
				prev := append([]shmw.Region(nil), m.Regions[:i]...)
				prev = append(append(prev, victim), m.Regions[i:]...)
				switch {
				case shmw.SameRegions(hdr.Regions, prev):
					w.e.Violate("free-removed-nothing", site, "%s: region %v starts at that offset and is still listed; table: %s", o.String(), victim, shmw.Brief(hdr.Regions))
				case len(hdr.Regions) == len(prev)-1 && c34Has(hdr.Regions, victim):
					w.e.Violate("free-removed-wrong-region", site, "%s: region %v starts at that offset and is still listed while another region is gone (%s); table before: %s; table now: %s", o.String(), victim, shmw.FirstDiff(hdr.Regions, m.Regions), before, shmw.Brief(hdr.Regions))
				default:
					w.e.Violate("table-differs-from-model", site, "%s: %s; table before: %s; table now: %s", o.String(), shmw.FirstDiff(hdr.Regions, m.Regions), before, shmw.Brief(hdr.Regions))
				}
				return
			}
			w.nFreeHit++
			w.probe("free-hit")
			if adjacent {
				w.probe("free-of-region-touching-a-neighbour")
			}
		} else {
			if !shmw.SameRegions(hdr.Regions, m.Regions) {
				w.e.Violate("free-without-matching-region-changed-table", site, "%s: no region starts at that offset, yet the table changed (%s); table before: %s; table now: %s", o.String(), shmw.FirstDiff(hdr.Regions, m.Regions), before, shmw.Brief(hdr.Regions))
				return
			}
			w.probe("free-miss")
		}
	case "reset":
		m.Reset()
		w.probe("reset")
	}
	if !shmw.SameRegions(hdr.Regions, m.Regions) {
		w.e.Violate("table-differs-from-model", site, "%s: %s; table before: %s; table now: %s", o.String(), shmw.FirstDiff(hdr.Regions, m.Regions), before, shmw.Brief(hdr.Regions))
	}
}

func c34Has(rs []shmw.Region, r shmw.Region) bool {
	for _, x := range rs {
		if x == r {
			return true
		}
	}
	return false
}

// c34Apply applies o to m and reports whether o's observed result is the one
// the model produces at this point.
func c34Apply(m *shmw.Model, o *c34Op) bool {
	switch o.kind {
	case "alloc", "write":
		if o.kind == "write" && !o.ok {
			return true
		}
		off, ok := m.Alloc(o.resLen)
		return ok == o.ok && (!ok || off == o.resOff)
	case "free":
		m.Free(o.off)
	case "reset":
		m.Reset()
	}
	return true
}

// linearise looks for an order of the epoch's operations that respects real
// time (an operation that returned before another was invoked comes first), in
// which every operation has the result the model gives, and which ends in the
// table the segment holds.
func (w *c34World) linearise(ops []*c34Op, hdr *shmw.Header, site string) {
	var final *shmw.Model
	var order []*c34Op
	var dfs func(m *shmw.Model, rest []*c34Op, acc []*c34Op) bool
	dfs = func(m *shmw.Model, rest []*c34Op, acc []*c34Op) bool {
		if len(rest) == 0 {
			if shmw.SameRegions(m.Regions, hdr.Regions) {
				final = m
				order = append([]*c34Op(nil), acc...)
				return true
			}
			return false
		}
		for i, o := range rest {
			first := true
			for j, p := range rest {
				if j != i && p.ret < o.inv {
					first = false
					break
				}
			}
			if !first {
				continue
			}
			m2 := m.Clone()
			if !c34Apply(m2, o) {
				continue
			}
			nr := make([]*c34Op, 0, len(rest)-1)
			nr = append(nr, rest[:i]...)
			nr = append(nr, rest[i+1:]...)
			if dfs(m2, nr, append(acc, o)) {
				return true
			}
		}
		return false
	}
	if !dfs(w.model, ops, nil) {
		w.e.Violate("no-sequential-order-explains-results", site, "operations of one attachment's goroutines: %s; table before: %s; table now: %s — no order of these operations consistent with real time gives these results and this table under first fit", c34Describe(ops), shmw.Brief(w.model.Regions), shmw.Brief(hdr.Regions))
		return
	}
	for i := 1; i < len(order); i++ {
		if order[i].inv < order[i-1].inv {
			w.probe("linearised-out-of-invocation-order")
			break
		}
	}
	for _, o := range order {
		switch {
		case (o.kind == "alloc" || o.kind == "write") && o.ok:
			w.nAllocOK++
			w.probe(o.kind + "-ok")
		case o.kind == "alloc":
			w.nRefused++
		case o.kind == "free" && o.err == nil:
			w.nFreeHit++
			w.probe("free-hit")
		}
	}
	w.model = final
}

// genOp draws the next operation for attachment a.
func (w *c34World) genOp(a int, task string) *c34Op {
	tp := w.tp
	o := &c34Op{att: a, task: task}
	data := w.data
	clampDraw := func(n uint64) int {
		if n > 1<<30 {
			n = 1 << 30
		}
		if n < 1 {
			n = 1
		}
		return int(n)
	}
	k := tp.Weighted([]int{10, 8, 4, 3, 1})
	if k == 1 && len(w.live) == 0 {
		k = 0
	}
	switch k {
	case 0:
		o.kind = "alloc"
		class := -1
		if w.nearFull && tp.Bool(2, 3) {
			// histories around the maximum count need many small regions
			class = tp.Pick(3, 0, 1)
		} else {
			class = tp.Draw(8)
		}
		switch class {
		case 0:
			o.size, o.why = uint64(1+tp.Draw(clampDraw(min(64, data)))), "small"
		case 1:
			gaps := w.model.Gaps()
			if len(gaps) == 0 {
				o.size, o.why = 1, "no-gap"
				break
			}
			g := gaps[tp.Draw(len(gaps))]
			switch tp.Draw(3) {
			case 0:
				o.size, o.why = g.Len, "gap"
			case 1:
				o.size, o.why = g.Len+1, "gap+1"
			default:
				o.size, o.why = max(1, g.Len-1), "gap-1"
			}
		case 2:
			o.size, o.why = max(1, data/uint64(2+tp.Draw(15))), "fraction"
		case 3:
			o.size, o.why = 1, "one"
		case 4:
			o.size, o.why = uint64(1+tp.Draw(clampDraw(data))), "any"
		case 5:
			d := uint64(tp.Draw(3))
			if d >= data {
				d = data - 1
			}
			o.size, o.why = data-d, "area"
		case 6:
			o.size, o.why = data+1+uint64(tp.Draw(2)), "over"
		default:
			o.size, o.why = uint64([]int64{1 << 31, 1 << 40, math.MaxInt64}[tp.Draw(3)]), "huge"
		}
	case 1:
		o.kind = "free"
		o.off, o.why = w.live[tp.Draw(len(w.live))], "live"
	case 2:
		o.kind = "write"
		maxRows := int(min(data/8+2, 600_000))
		switch tp.Draw(5) {
		case 0:
			o.rows = 1 + tp.Draw(64)
		case 1:
			o.rows = 1
		case 2:
			o.rows = max(1, maxRows/(2+tp.Draw(8)))
		case 3:
			// near the capacity of the data area, both sides
			o.rows = max(1, int(min(data, 600_000*8))/8-560+tp.Draw(80))
		default:
			o.rows = maxRows
		}
	case 3:
		o.kind = "free"
		rs := w.model.Regions
		switch c := tp.Draw(6); {
		case c == 0 && len(w.dead) > 0:
			o.off, o.why = w.dead[tp.Draw(len(w.dead))], "freed-before"
		case c == 1 && len(rs) > 0:
			o.off, o.why = rs[tp.Draw(len(rs))].Off+1, "inside"
		case c == 2 && len(rs) > 0:
			r := rs[tp.Draw(len(rs))]
			o.off, o.why = r.Off+r.Len, "end-of-region"
		case c == 4:
			o.off, o.why = uint64(tp.Pick(0, 24, shmw.HeaderSize-1)), "header"
		case c == 5:
			o.off, o.why = w.segSize+uint64(tp.Draw(3)), "past-end"
		default:
			o.off, o.why = shmw.HeaderSize+uint64(tp.Draw(clampDraw(data))), "random"
		}
	default:
		o.kind = "reset"
	}
	return o
}

// reattach detaches attachment i and attaches it again (a process restart).
func (w *c34World) reattach(i int) {
	a := w.att[i]
	w.sim.Fault("detach-reattach")
	w.nRestart++
	if a.h != w.own {
		if err := a.h.Close(); err != nil {
			w.e.Harness("detach %s: %v", a.name, err)
			return
		}
	}
	h, err := vgirpc.ShmAttach(w.segName, int(w.segSize), false)
	if err != nil {
		hdr, _ := w.tableNow()
		tbl := ""
		if hdr != nil {
			tbl = shmw.Brief(hdr.Regions)
		}
		w.e.Violate("reattach-refused", "reattach", "attaching the segment again failed: %v; table: %s", c34ScrubName(err.Error(), w.segName), tbl)
		a.h = w.own
		return
	}
	a.h = h
	hdr, ok := w.tableNow()
	if !ok {
		return
	}
	if d := hdr.Defects(w.raw.FileSize); d != nil {
		w.e.Violate(d.Class, "reattach", "after re-attaching %s: %s", a.name, d.Detail)
		return
	}
	if !shmw.SameRegions(hdr.Regions, w.model.Regions) {
		w.e.Violate("table-differs-from-model", "reattach", "after re-attaching %s: %s", a.name, shmw.FirstDiff(hdr.Regions, w.model.Regions))
		return
	}
	w.views(hdr, "reattach")
}

func c34ScrubName(s, name string) string {
	return strings.ReplaceAll(s, name, "<segment>")
}

// C34 is the run function.
func C34(e *simkern.Env) {
	tp := e.Tape
	dataSizes := []int{4096, 1, 2, 3, 17, 100, 4095, 4097, 8192, 65536, 1 << 20, 4 << 20}
	dc := tp.Draw(len(dataSizes))
	data := dataSizes[dc]
	if dc >= 8 {
		data += tp.Draw(4096)
	}
	tasksPer := [2]int{tp.Pick(1, 1, 2), tp.Pick(1, 1, 2)}
	opsPerTask := 6 + tp.Draw(20)
	if e.Tier == "thorough" {
		opsPerTask = 8 + tp.Draw(72)
	}
	prefill := 0
	prefillOdds := 20
	if e.Tier == "thorough" {
		prefillOdds = 8
	}
	if tp.Bool(1, prefillOdds) {
		prefill = shmw.MaxRegions - tp.Pick(0, 1, 3, 12)
		data = tp.Pick(16384, 65536, 1<<20) + tp.Draw(64)
	}
	fillStride := 1 + tp.Draw(3)
	holes := 0
	if prefill > 0 {
		holes = tp.Draw(10)
	}
	e.Knob("data_bytes", data)
	e.Knob("tasks_A", tasksPer[0])
	e.Knob("tasks_B", tasksPer[1])
	e.Knob("ops_per_task", opsPerTask)
	e.Knob("prefill_regions", prefill)

	w := &c34World{e: e, tp: tp, segSize: uint64(shmw.HeaderSize + data), data: uint64(data), epochCap: 5}
	left := e.Bubble(func() {
		sim := simkern.NewSim(tp, e.Trace)
		defer sim.Close()
		w.sim = sim

		if vgirpc.ShmHeaderSize != shmw.HeaderSize || vgirpc.ShmMaxAllocs != shmw.MaxRegions {
			e.Violate("layout-constants-changed", "constants", "exported header size %d / maximum count %d; documented %d / %d", vgirpc.ShmHeaderSize, vgirpc.ShmMaxAllocs, shmw.HeaderSize, shmw.MaxRegions)
			return
		}
		own, err := vgirpc.ShmCreate(int(w.segSize))
		if err != nil {
			e.Harness("ShmCreate(%d): %v", w.segSize, err)
			return
		}
		w.own, w.segName = own, own.Name()
		defer shmw.Remove(w.segName)
		defer own.Close() // owner: unlinks
		defer func() {
			for _, a := range w.att {
				if a != nil && a.h != nil && a.h != own {
					_ = a.h.Close()
				}
			}
			w.raw.Close()
		}()
		raw, err := shmw.OpenRaw(w.segName)
		if err != nil {
			e.Harness("raw view: %v", err)
			return
		}
		w.raw = raw
		if raw.FileSize != w.segSize {
			e.Harness("backing object is %d bytes, asked for %d", raw.FileSize, w.segSize)
			return
		}
		w.model = shmw.NewModel(raw.FileSize)
		other, err := vgirpc.ShmAttach(w.segName, int(w.segSize), false)
		if err != nil {
			e.Violate("attach-refused", "attach", "attaching the freshly created segment failed: %s", c34ScrubName(err.Error(), w.segName))
			return
		}
		w.att[0] = &c34Att{name: "A", h: own}
		w.att[1] = &c34Att{name: "B", h: other}
		hdr, ok := w.tableNow()
		if !ok {
			return
		}
		if d := hdr.Defects(raw.FileSize); d != nil {
			e.Violate(d.Class, "create", "fresh segment: %s", d.Detail)
			return
		}
		if len(hdr.Regions) != 0 {
			e.Violate("table-differs-from-model", "create", "fresh segment lists %s", shmw.Brief(hdr.Regions))
			return
		}

		// Prefill towards the maximum count: strictly alternating whole
		// operations of A and B, issued from the scheduler goroutine.
		if prefill > 0 {
			w.quiet = true
			for i := 0; i < prefill && !e.Violated() && e.Res.HarnessError == ""; i++ {
				o := &c34Op{att: i & 1, task: w.att[i&1].name + "-fill", kind: "alloc", size: uint64(1 + (i*fillStride)%3), why: "fill"}
				w.begin(o)
				w.exec(o, w.att[o.att].h)
				w.end(o)
				w.judge(i%512 == 0 || i == prefill-1)
			}
			for i := 0; i < holes && !e.Violated() && e.Res.HarnessError == "" && len(w.model.Regions) > 0; i++ {
				r := w.model.Regions[tp.Draw(len(w.model.Regions))]
				o := &c34Op{att: i & 1, task: w.att[i&1].name + "-fill", kind: "free", off: r.Off, why: "hole"}
				w.begin(o)
				w.exec(o, w.att[o.att].h)
				w.end(o)
				w.judge(i == holes-1)
			}
			w.quiet = false
			w.nearFull = true
			sim.Logf("prefilled to %d regions", len(w.model.Regions))
			w.sample = append(w.sample, fmt.Sprintf("prefill to %d regions, %d holes", prefill, holes))
		}
		if e.Violated() || e.Res.HarnessError != "" {
			e.Absorb(sim)
			return
		}

		for a := 0; a < 2; a++ {
			for k := 0; k < tasksPer[a]; k++ {
				a, name := a, fmt.Sprintf("%s%d", w.att[a].name, k)
				sim.Spawn(name, func() {
					for n := 0; n < opsPerTask && !e.Violated() && e.Res.HarnessError == ""; n++ {
						sim.Yield("c34.idle", func() bool {
							if w.pending || w.inflight[1-a] > 0 {
								return false
							}
							if len(w.epoch) >= w.epochCap && w.inflight[a] > 0 {
								return false
							}
							return true
						})
						if e.Violated() || e.Res.HarnessError != "" {
							return
						}
						o := w.genOp(a, name)
						h := w.att[a].h
						w.begin(o)
						w.exec(o, h)
						w.end(o)
					}
				})
			}
		}
		reason, _ := sim.Run(simkern.RunOpts{
			MaxSteps: 400 + 120*opsPerTask*(tasksPer[0]+tasksPer[1]),
			Done:     sim.RootsDone,
			Extra: func() []simkern.Action {
				if w.pending || w.inflight[0]+w.inflight[1] > 0 || w.nRestart >= 6 {
					return nil
				}
				var acts []simkern.Action
				for i := range w.att {
					i := i
					acts = append(acts, simkern.Action{Name: "detach+reattach " + w.att[i].name, Weight: 1, Do: func() { w.reattach(i) }})
				}
				return acts
			},
			Check: func() error {
				if w.pending && w.inflight[0]+w.inflight[1] == 0 {
					w.judge(true)
				}
				if e.Violated() || e.Res.HarnessError != "" {
					return fmt.Errorf("stop")
				}
				return nil
			},
		})
		if reason == simkern.StopCheck {
			reason = simkern.StopDone
		}
		e.Conclude(sim, reason, false)
		if !e.Violated() && e.Res.HarnessError == "" && e.Res.Inconclusive == "" {
			if w.inflight[0]+w.inflight[1] != 0 {
				e.Harness("operations still in flight at the end of the run")
			} else if len(w.epoch) > 0 {
				w.judge(true)
			}
		}
		e.Res.Nontrivial = w.nAllocOK >= 2 && w.nFreeHit >= 1
	})
	if left != "" {
		e.Harness("bubble: %s", left)
	}
	e.Res.Sample = map[string]any{
		"segment_bytes": w.segSize, "ops_A": w.opsByAtt[0], "ops_B": w.opsByAtt[1], "concurrent_epochs": w.nConc,
		"reattachments": w.nRestart, "allocations_placed": w.nAllocOK, "allocations_refused": w.nRefused, "frees_matched": w.nFreeHit,
		"history_head": w.sample,
	}
}

func init() {
	Registry["C34"] = &Info{
		Run:   C34,
		Level: "exploration",
		Rule: "each run draws a data-area size (1 byte .. 4 MiB+), 1-2 goroutine tasks per attachment, 6-25 (thorough 8-79) operations per task and, in one run of 20 (thorough: 8), a prefill by real allocations to 4082-4094 regions with up to 9 holes; tasks issue allocate (sizes: small, exact gap, gap±1, fractions, whole area, over, huge) / free (live start, freed before, inside a region, end of a region, header, past the end) / reset / write-batch on two attachments of one real /dev/shm segment, whole operations of A and B alternating as the tape decides, goroutines of one attachment interleaved at every woven scheduling point; detach+re-attach injected between operations; after every operation (every quiescent point) an independent parser reads the raw mapping and the table is compared with a first-fit interval-list model and with what both attachments read; " +
			"distinct = distinct fingerprint of schedule and history; non-trivial = at least two allocations were placed and at least one free removed a region",
		Real:  []string{"vgirpc.ShmSegment (ShmCreate, ShmAttach, Close, allocateLocked via VerifAllocate, AllocateAndWrite, FreeOffset, Reset, readAllocs via VerifTable)", "POSIX shm_open/mmap on /dev/shm (cgo)", "arrow-go IPC payload writer"},
		Stub:  []string{"verif-tagged wrappers VerifAllocate/VerifTable (overlay-added file; closed check + s.mu + allocateLocked/readAllocs as AllocateAndWrite/FreeOffset do)", "the two 'processes' are two ShmSegment handles in one OS process", "raw read-only mapping and header parser (harness)", "first-fit reference model (harness)"},
		Quick: 640, Thorough: 24000,
		Warm:       c34Warm,
		FaultKinds: []string{"detach-reattach"},
		Assumptions: []string{
			"Concurrency: the segment has no cross-process lock (ShmSegment doc: 'Lockstep RPC — only one of client or server is touching the segment at a time — means no locking is required inside the allocator'; s.mu 'guards the intra-process race; inter-process coherence still relies on lockstep'). So operations of the two attachments never overlap: an operation on B starts only when no operation on A is in flight and vice versa; the tape decides whose turn it is. Goroutines of ONE attachment may overlap (that is what s.mu is documented to make safe); their operations are judged by looking for a sequential order, consistent with real time, that explains every result and the final table under first fit.",
			"The table is parsed and judged only at points where no operation is in flight (the statement speaks of the table after a sequence of operations); intermediate header states inside an operation are not judged. Detach/re-attach happens only at such points (Close is not synchronised with in-flight operations of its own handle).",
			"Allocation sizes are >= 1 byte (a request for zero or negative bytes is not an allocation); the maximum count 4094 and the header size 65536 come from the documented layout.",
			"First fit means: the lowest-addressed free gap that is large enough, region placed at the start of that gap.",
			"write-batch (AllocateAndWrite) may decline before it reaches the allocator because of its documented conservative capacity pre-check (estimate = buffer bytes + overhead); a declined write must leave the table untouched but is not judged as an allocation failure (counted as probe write-declined-by-capacity-precheck). Refusals are judged strictly for raw allocations (allocateLocked) and for every write that was placed.",
			"free is judged by its effect on the table (exactly the region starting at the offset disappears, or nothing when there is none), not by its error value.",
			"Contents of the data area (what write-batch stores, reading it back) are C35/C36, not judged here.",
		},
	}
}
