package checks

import (
	"bytes"
	"fmt"
	"io"
	"net/http"
	"strconv"
	"strings"
	"time"

	"verifsim/hx"
	"verifsim/simkern"
	"verifsim/worlds/authw"
	"verifsim/worlds/httpw"

	"github.com/Query-farm/vgi-rpc-go/vgirpc"
	"github.com/apache/arrow-go/v18/arrow"
)

// c22Req is one HTTP request of the workload together with everything harness
// code observed on its behalf.
type c22Req struct {
	id    int64
	kind  string
	gated bool // an RPC / control route that must sit behind the authenticator
	// plan: how the authority answers this request
	reject *authw.ErrSpec // nil = accept
	// rejectWithCtx: the rejecting authenticator also returns a non-nil context
	rejectWithCtx bool
	noProof       bool // proof gate in require mode and the request carries no valid proof
	ident         httpw.Ident
	// observations
	authCalls int
	provider  int
	fetches   int // external-location fetches the server made on behalf of this request
	resolver  int
	rehydrate int
	custom    int
}

func (r *c22Req) rejected() bool { return r.reject != nil || r.noProof }

func (r *c22Req) how() string {
	switch {
	case r.noProof:
		return "proof gate (require mode, no proof presented)"
	case r.reject != nil:
		return "authenticator returns " + r.reject.String()
	}
	return "accepted as " + r.ident.String()
}

type c22Stream struct {
	nonce  int64
	method string
	kind   string
	ident  httpw.Ident
	cursor string
	call   string
	inst   int
	nextIn int64
	dead   bool
}

type c22Provider struct {
	gen func() (vgirpc.UploadURL, error)
}

// c22RoundTripper adapts a function to http.RoundTripper.
type c22RoundTripper func(*http.Request) (*http.Response, error)

func (f c22RoundTripper) RoundTrip(r *http.Request) (*http.Response, error) { return f(r) }

func (p c22Provider) GenerateUploadURL(_ *arrow.Schema) (vgirpc.UploadURL, error) { return p.gen() }

func c22Calls(c hx.CallRec) int {
	return c.InitCalls + c.ProduceCalls + c.ExchangeCalls + c.CancelCalls + c.Rehydrates
}

// C22 — every RPC and control route is behind the authenticator.
func C22(e *simkern.Env) {
	tp := e.Tape
	prefix := []string{"", "/vgi", "/a/b"}[tp.Draw(3)]
	fUpload := !tp.Bool(1, 4)
	fExt := tp.Bool(1, 2)
	fIntro := !tp.Bool(1, 4)
	fSticky := !tp.Bool(1, 4)
	fMeta := !tp.Bool(1, 4)
	fPkce := fMeta && tp.Bool(1, 3)
	proofMode := tp.Pick(0, 1, 2) // off, allow, require
	fCors := tp.Bool(1, 2)
	nInst := 1 + tp.Draw(2)
	caches := make([]int, nInst)
	for i := range caches {
		caches[i] = tp.Pick(-1, 0, 1)
	}
	batchLimit := 1 + tp.Draw(2)
	nClients := 1 + tp.Draw(3)
	ops := 5 + tp.Draw(8)
	if e.Tier == "thorough" {
		ops = 6 + tp.Draw(16)
	}
	e.Knob("prefix", prefix)
	e.Knob("upload_provider", fUpload)
	e.Knob("external_locations", fExt)
	e.Knob("introspection", fIntro)
	e.Knob("sticky", fSticky)
	e.Knob("oauth_metadata", fMeta)
	e.Knob("pkce", fPkce)
	e.Knob("proof_mode", []string{"off", "allow", "require"}[proofMode])
	e.Knob("cors", fCors)
	e.Knob("caches", caches)
	e.Knob("batch_limit", batchLimit)
	e.Knob("clients", nClients)

	var sample []string
	left := e.Bubble(func() {
		sim := simkern.NewSim(tp, e.Trace)
		defer sim.Close()
		hx.Rec.Reset()

		reqs := map[string]*c22Req{}
		cur := map[string]*c22Req{} // client task name -> request in flight
		orphans := 0
		// inFlight attributes a harness callback to the request whose
		// ServeHTTP call is on the calling goroutine's stack (requests run
		// synchronously on their client's task; children of a task are named
		// "<task>>site#n").
		inFlight := func() *c22Req {
			t := sim.Current()
			if t == nil {
				orphans++
				return nil
			}
			name := t.Name
			if i := strings.Index(name, ">"); i >= 0 {
				name = name[:i]
			}
			rq := cur[name]
			if rq == nil {
				orphans++
			}
			return rq
		}

		idents := []httpw.Ident{{}, {Auth: true, Domain: "bearer", Principal: "alice"}, {Auth: true, Domain: "bearer", Principal: "proxy"}}

		inner := func(r *http.Request) (*vgirpc.AuthContext, error) {
			sim.Y("authenticator")
			rq := reqs[r.Header.Get("X-Sim-Req")]
			if rq == nil {
				orphans++
				return nil, &vgirpc.RpcError{Type: "ValueError", Message: "no plan"}
			}
			rq.authCalls++
			if rq.reject != nil {
				sim.Fault(rq.reject.FaultKind())
				if rq.rejectWithCtx {
					// "Return a non-nil error to reject the request" — the contract
					// says nothing about the context value that comes with it; an
					// authenticator that fills in what it learned before failing
					// (the presented principal) still rejects
					sim.Fault("auth-reject-with-context")
					return &vgirpc.AuthContext{Domain: "bearer", Principal: "alice", Authenticated: true}, rq.reject.Build()
				}
				return nil, rq.reject.Build()
			}
			if !rq.ident.Auth {
				return vgirpc.Anonymous(), nil
			}
			return &vgirpc.AuthContext{Domain: rq.ident.Domain, Principal: rq.ident.Principal, Authenticated: true}, nil
		}
		proofSecret := []byte("0123456789abcdef0123456789abcdef")
		const proofOrigin = "worker-1"
		authFn := vgirpc.AuthenticateFunc(inner)
		setupErr := ""
		if proofMode != 0 {
			mode := vgirpc.ProofModeAllow
			if proofMode == 2 {
				mode = vgirpc.ProofModeRequire
			}
			gate, err := vgirpc.ProofAuthenticate(vgirpc.ProofConfig{Mode: mode, OriginID: proofOrigin, SkewSeconds: 30,
				Secrets: map[string]vgirpc.ProofSecret{"k1": {Secret: proofSecret, Label: "edge"}}}, inner)
			if err != nil {
				setupErr = err.Error()
			} else {
				authFn = func(r *http.Request) (*vgirpc.AuthContext, error) {
					a, err := gate(r)
					if err != nil {
						if rq := reqs[r.Header.Get("X-Sim-Req")]; rq != nil && rq.noProof && rq.authCalls == 0 {
							sim.Fault("proof-gate-reject")
						}
					}
					return a, err
				}
			}
		}

		provider := c22Provider{gen: func() (vgirpc.UploadURL, error) {
			sim.Y("upload.provider")
			if rq := inFlight(); rq != nil {
				rq.provider++
			}
			return vgirpc.UploadURL{UploadURL: "https://store.test/up", DownloadURL: "https://store.test/down", ExpiresAt: time.Now().Add(time.Hour)}, nil
		}}
		resolver := func(cred string) (vgirpc.TokenIdentity, bool, error) {
			sim.Y("token.resolver")
			rq := reqs[strings.TrimPrefix(cred, "opaque-")]
			if rq == nil {
				orphans++
			} else {
				rq.resolver++
			}
			return vgirpc.TokenIdentity{Principal: "subject", TokenName: "t"}, true, nil
		}
		// external locations: a continuation may carry its input as a pointer to
		// a caller-chosen URL, which the server would have to fetch
		extFetch := c22RoundTripper(func(r *http.Request) (*http.Response, error) {
			sim.Y("external.fetch")
			if rq := inFlight(); rq != nil {
				rq.fetches++
			}
			return &http.Response{StatusCode: 404, Status: "404 Not Found", Body: io.NopCloser(bytes.NewReader([]byte("NoSuchKey"))), Header: http.Header{}, Request: r}, nil
		})
		rehydrate := func(state interface{}, method string) error {
			sim.Y("rehydrate")
			if rq := inFlight(); rq != nil {
				rq.rehydrate++
			}
			return nil
		}
		customRoute := func(w http.ResponseWriter, r *http.Request) {
			sim.Y("custom.route")
			if rq := reqs[r.Header.Get("X-Sim-Req")]; rq != nil {
				rq.custom++
			}
			w.WriteHeader(http.StatusOK)
			_, _ = w.Write([]byte("pong"))
		}

		cl := httpw.NewCluster(httpw.Config{
			Key: []byte("0123456789abcdef0123456789abcdef"), CacheSizes: caches, BatchLimit: batchLimit, NoTwin: true,
			Setup: func(i int, srv *vgirpc.Server, h *vgirpc.HttpServer) {
				// Order as the documentation requires: the prefix and the
				// upload provider rebuild the route table, so they come first.
				h.SetPrefix(prefix)
				if fUpload {
					h.SetUploadURLProvider(provider)
				}
				h.SetRehydrateFunc(rehydrate)
				if fExt {
					cfg := vgirpc.DefaultExternalLocationConfig(&simStore{sim: sim, objects: map[string][]byte{}, perTask: map[string]int64{}})
					cfg.ExternalizeThresholdBytes = 1 << 30
					cfg.HTTPClient = &http.Client{Transport: extFetch}
					cfg.MaxRetries = 1
					cfg.RetryDelay = 1
					srv.SetExternalLocation(cfg)
				}
				h.SetAuthenticate(authFn)
				if fMeta {
					if err := h.SetOAuthResourceMetadata(&vgirpc.OAuthResourceMetadata{Resource: "https://rpc.example.test" + prefix,
						AuthorizationServers: []string{"https://idp.example.test"}, ClientID: "sim-client"}); err != nil {
						setupErr = err.Error()
					}
				}
				if fPkce {
					if err := h.SetOAuthPkce(vgirpc.OAuthPkceConfig{}); err != nil {
						setupErr = err.Error()
					}
				}
				if fIntro {
					if err := h.EnableTokenIntrospection(vgirpc.TokenIntrospectionConfig{Resolver: resolver, Principals: []string{"proxy"}, RateLimitPerSecond: 100000}); err != nil {
						setupErr = err.Error()
					}
				}
				if fSticky {
					h.EnableSticky(0)
				}
				if proofMode == 2 {
					h.SetProxyProofRequired(true)
				}
				if fCors {
					h.SetCorsOrigins("*")
				}
				h.Handle("GET "+prefix+"/ops/ping", customRoute)
				h.Handle("POST "+prefix+"/ops/admin", customRoute)
			},
		})
		if setupErr != "" {
			e.Harness("C22 setup: %s", setupErr)
			return
		}

		nextID := int64(5000)
		proofN := 0
		judged, rejectedGated, rejectedBypass := 0, 0, 0
		attributed := 0 // handler/state invocations attributed to some request
		streams := make([][]*c22Stream, nClients)

		// judge applies the property to one finished request. hxCalls is the
		// number of handler / stream-state invocations attributable to it.
		judge := func(rq *c22Req, resp *hx.Resp, hxCalls int) {
			judged++
			attributed += hxCalls
			desc := fmt.Sprintf("%s (%s): status %d, authenticator consulted %d time(s); during the request: handler/state calls %d, rehydrate %d, upload provider %d, token resolver %d",
				rq.kind, rq.how(), resp.Status, rq.authCalls, hxCalls, rq.rehydrate, rq.provider, rq.resolver)
			if resp.Panicked != nil {
				e.Violate("panic-in-route", rq.kind, "%s: panic %v", desc, resp.Panicked)
				return
			}
			if rq.gated {
				if !rq.rejected() {
					if hxCalls+rq.provider+rq.resolver > 0 {
						sim.Probe("accepted-" + rq.kind + "-did-work")
					}
					if rq.rehydrate > 0 {
						sim.Probe("accepted-continuation-rehydrated")
					}
					return
				}
				rejectedGated++
				sim.Probe("rejected-" + rq.kind)
				switch {
				case rq.fetches > 0:
					e.Violate("work-for-rejected-request", rq.kind+":external-fetch", "%s; the server fetched the external location named by the request %d time(s)", desc, rq.fetches)
				case rq.provider > 0:
					e.Violate("work-for-rejected-request", rq.kind+":upload-provider", "%s", desc)
				case rq.resolver > 0:
					e.Violate("work-for-rejected-request", rq.kind+":token-resolver", "%s", desc)
				case rq.rehydrate > 0:
					e.Violate("work-for-rejected-request", rq.kind+":rehydrate", "%s", desc)
				case hxCalls > 0:
					e.Violate("work-for-rejected-request", rq.kind+":handler-or-state", "%s", desc)
				case resp.Status >= 200 && resp.Status < 300:
					e.Violate("rejected-request-served", rq.kind, "%s", desc)
				}
				return
			}
			// bypass set: must answer whatever the authenticator says
			if rq.rejected() {
				rejectedBypass++
				sim.Probe("bypass-" + rq.kind + "-under-rejecting-authenticator")
			}
			refused := resp.Status == 401 || resp.Status == 500 || resp.Status == 503
			pagesGated := fPkce && rq.kind == "page" // with browser login enabled the pages are the login entry and are deliberately authenticated
			if refused && !pagesGated {
				e.Violate("bypass-route-refused", rq.kind, "%s: this route is in the set that answers without authentication", desc)
				return
			}
			if (rq.kind == "custom-get" || rq.kind == "custom-post") && rq.custom != 1 {
				e.Violate("bypass-route-refused", rq.kind, "%s: operator route handler ran %d times", desc, rq.custom)
			}
		}

		client := func(ci int) func() {
			me := fmt.Sprintf("client%d", ci)
			return func() {
				for op := 0; op < ops && !e.Violated(); op++ {
					sim.Y("client.idle")
					nextID++
					rq := &c22Req{id: nextID, gated: true}
					ids := strconv.FormatInt(rq.id, 10)
					// ---- route ----
					var live []*c22Stream
					for _, s := range streams[ci] {
						if !s.dead && s.cursor != "" {
							live = append(live, s)
						}
					}
					w := []int{4, 2, 4, 0, 0, 3, 3, 1, 1, 1, 1, 1, 1, 0, 0, 1}
					names := []string{"unary", "describe", "stream-init", "continuation", "cancel", "upload-url", "introspection",
						"preflight", "health", "oauth-metadata", "page", "custom-get", "custom-post", "session-delete", "login", "not-found-page"}
					if len(live) > 0 {
						w[3], w[4] = 6, 1
					}
					if fSticky {
						w[13] = 1
					}
					if fPkce {
						w[14] = 1
					}
					rq.kind = names[tp.Weighted(w)]
					// ---- the authority's answer ----
					rq.ident = idents[tp.Draw(len(idents))]
					if tp.Bool(1, 2) {
						rq.reject = authw.Gen(tp, 2)
						rq.rejectWithCtx = tp.Bool(1, 3)
					}
					hdr := map[string]string{"X-Sim-Req": ids}
					if tp.Bool(2, 3) {
						// callers present one of a few bearer credentials; what the
						// authority answers is still this request's own matter (it
						// looks at more than the credential: the proof, the route,
						// its own health at that moment)
						hdr["Authorization"] = fmt.Sprintf("Bearer cred-%d", tp.Draw(2))
						sim.Probe("request-with-bearer-credential")
					}
					if proofMode != 0 {
						if tp.Bool(1, 5) {
							if proofMode == 2 {
								rq.noProof = true
							}
							if tp.Bool(1, 2) {
								hdr[vgirpc.ProofHeader] = "v1.k1.0.AAAAAAAAAAAAAAAAAAAAAA.AAAAAAAAAAAAAAAAAAAAAAAAAAAAAAAAAAAAAAAAAAA"
							}
						} else {
							proofN++
							nonce := fmt.Sprintf("n%021d", proofN)
							pf, err := vgirpc.MintProof(proofSecret, "k1", proofOrigin, time.Now().Unix(), nonce)
							if err != nil {
								e.Harness("mint proof: %v", err)
								return
							}
							hdr[vgirpc.ProofHeader] = pf
						}
					}
					var st *c22Stream
					req := hx.Req{}
					inst := tp.Draw(nInst)
					var sc *hx.Script
					switch rq.kind {
					case "unary":
						m := hx.UnaryMethods[tp.Draw(len(hx.UnaryMethods))]
						sc = &hx.Script{Nonce: rq.id, Outcome: "ok"}
						req = hx.Req{Path: prefix + "/" + m, Body: hx.RequestBytes(m, sc, hx.Meta{})}
					case "describe":
						req = hx.Req{Path: prefix + "/__describe__", Body: hx.RawRequestBytes(hx.EmptyBatch(), hx.M(hx.KMethod, "__describe__", hx.KReqVersion, "1"))}
					case "stream-init":
						sm := hx.StreamMethods[tp.Draw(len(hx.StreamMethods))]
						kind := sm.Kind
						if kind == "dynamic" {
							kind = []string{"producer", "exchange"}[tp.Draw(2)]
						}
						sc = &hx.Script{Nonce: rq.id, Outcome: "ok", Mode: kind, Header: sm.Header}
						if kind == "producer" {
							for k := 0; k < 8; k++ {
								sc.Turns = append(sc.Turns, hx.Step{Act: "emit"})
							}
						}
						st = &c22Stream{nonce: rq.id, method: sm.Name, kind: kind, ident: rq.ident, inst: inst}
						req = hx.Req{Path: prefix + "/" + sm.Name + "/init", Body: hx.RequestBytes(sm.Name, sc, hx.Meta{})}
					case "continuation", "cancel":
						st = live[tp.Draw(len(live))]
						rq.ident = st.ident // a token only opens for the identity it was minted for
						var input []int64
						if st.kind == "exchange" && rq.kind == "continuation" {
							st.nextIn++
							input = []int64{st.nextIn}
						}
						req = hx.Req{Path: prefix + "/" + st.method + "/exchange", Body: httpw.ContBody(st.cursor, st.call, rq.kind == "cancel", input, false, hx.Meta{})}
						if fExt && st.kind == "exchange" && rq.kind == "continuation" && tp.Bool(1, 3) {
							// the input travels as an external-location pointer
							sim.Fault("external-pointer-continuation")
							in := hx.Int64Batch("x", input, false)
							m := httpw.ContMeta(st.cursor, st.call, false, hx.Meta{}).Add(hx.KLocation, "https://objects.sim/in/"+ids)
							req.Body = hx.RawRequestBytes(hx.PointerLike(in, hx.Meta{}), m)
							in.Release()
						}
					case "upload-url":
						req = hx.Req{Path: prefix + "/__upload_url__/init", Body: hx.RawRequestBytes(hx.Int64Batch("count", []int64{int64(1 + tp.Draw(3))}, false),
							hx.M(hx.KMethod, "__upload_url__", hx.KReqVersion, "1"))}
					case "introspection":
						if tp.Bool(2, 3) {
							rq.ident = idents[2] // an allow-listed introspector
						}
						hdr["Content-Type"] = "application/json"
						req = hx.Req{Path: prefix + "/__introspect_token__", Body: []byte(`{"token":"opaque-` + ids + `"}`)}
					case "preflight":
						rq.gated = false
						paths := []string{"/health", prefix + "/u_int", prefix + "/prod/init", prefix + "/__upload_url__/init", prefix + "/__introspect_token__"}
						req = hx.Req{Method: http.MethodOptions, Path: paths[tp.Draw(len(paths))]}
						hdr["Origin"] = "https://app.example.test"
						hdr["Access-Control-Request-Method"] = "POST"
					case "health":
						rq.gated = false
						p := "/health"
						if prefix != "" && tp.Bool(1, 2) {
							p = prefix + "/health"
						}
						req = hx.Req{Method: http.MethodGet, Path: p}
					case "oauth-metadata":
						rq.gated = false
						req = hx.Req{Method: http.MethodGet, Path: "/.well-known/oauth-protected-resource" + prefix}
					case "page":
						rq.gated = false
						p := prefix
						if p == "" {
							p = "/"
						}
						if tp.Bool(1, 2) {
							p = prefix + "/describe"
						}
						req = hx.Req{Method: http.MethodGet, Path: p}
					case "not-found-page":
						rq.gated = false
						req = hx.Req{Method: http.MethodGet, Path: prefix + "/no/such/page/here"}
					case "custom-get":
						rq.gated = false
						req = hx.Req{Method: http.MethodGet, Path: prefix + "/ops/ping"}
					case "custom-post":
						rq.gated = false
						req = hx.Req{Path: prefix + "/ops/admin", Body: []byte("x")}
					case "session-delete":
						rq.gated = false
						req = hx.Req{Method: http.MethodDelete, Path: prefix + "/__session__"}
						if tp.Bool(2, 3) {
							hdr["VGI-Session"] = "bm90LWEtc2Vzc2lvbi10b2tlbg"
						}
					case "login":
						rq.gated = false
						p := prefix + "/_oauth/logout"
						if tp.Bool(1, 2) {
							p = prefix + "/_oauth/callback"
						}
						req = hx.Req{Method: http.MethodGet, Path: p}
					}
					if h := rq.ident.Header(); h != "" {
						hdr[httpw.IdentHeader] = h
					}
					req.Header = hdr
					reqs[ids] = rq
					cur[me] = rq
					watch := rq.id
					if st != nil {
						watch = st.nonce
					}
					before := c22Calls(hx.Rec.Get(watch))
					if rq.rejected() {
						sim.Probe("planned-rejection")
					}
					resp := hx.Do(cl.Inst[inst].H, req)
					hxCalls := c22Calls(hx.Rec.Get(watch)) - before
					delete(cur, me)
					sim.Logf("%s %s #%d reject=%v -> %d auth=%d hx=%d prov=%d res=%d reh=%d", me, rq.kind, rq.id, rq.rejected(), resp.Status, rq.authCalls, hxCalls, rq.provider, rq.resolver, rq.rehydrate)
					judge(rq, resp, hxCalls)
					if len(sample) < 8 {
						sample = append(sample, fmt.Sprintf("%s [%s] -> %d", rq.kind, rq.how(), resp.Status))
					}
					// ---- keep the stream book up to date ----
					if !rq.rejected() && st != nil && resp.Status == 200 {
						turn := httpw.Decode(resp)
						switch rq.kind {
						case "stream-init":
							if turn.Err == nil && turn.Cursor != "" && turn.Call != "" {
								st.cursor, st.call = turn.Cursor, turn.Call
								streams[ci] = append(streams[ci], st)
								sim.Probe("stream-opened-with-continuation-token")
							}
						case "continuation":
							if turn.Err != nil || turn.Cursor == "" {
								st.dead = true
							} else {
								st.cursor = turn.Cursor
							}
						case "cancel":
							st.dead = true
						}
					}
				}
			}
		}
		for ci := 0; ci < nClients; ci++ {
			sim.Spawn(fmt.Sprintf("client%d", ci), client(ci))
		}
		reason, _ := sim.Run(simkern.RunOpts{MaxSteps: 60000, Done: sim.RootsDone})
		if fSticky {
			// stop the session reapers from a task (Shutdown waits for them)
			sim.Spawn("operator-shutdown", func() {
				for _, in := range cl.Inst {
					if dh := in.H.DrainHandle(); dh != nil {
						dh.Shutdown()
					}
				}
			})
		}
		if orphans > 0 {
			e.Harness("C22: %d harness callbacks could not be attributed to a request", orphans)
		}
		e.Conclude(sim, reason, false)
		if total := hx.Rec.TotalInvocations(); total != attributed && !e.Violated() {
			// every handler / state call must have happened inside the request
			// it was attributed to; anything else means the attribution (and
			// with it the oracle) missed work done on some request's behalf
			e.Harness("C22: %d handler/state invocations recorded but %d attributed to requests", total, attributed)
		}
		e.Res.Nontrivial = rejectedGated+rejectedBypass > 0
		_ = judged
	})
	if left != "" {
		e.Harness("bubble: %s", left)
	}
	e.Res.Sample = sample
}

func init() {
	Registry["C22"] = &Info{
		Run:   C22,
		Level: "exploration",
		Rule:  "each run draws a server configuration (prefix, upload-URL provider, external locations — a third of the exchange continuations then carry their input as a pointer to a caller-chosen URL —, token introspection, sticky sessions, OAuth metadata, PKCE browser login, proof gate off/allow/require, CORS, 1-2 instances sharing a key with call caches {default,0,1}, batch limit) and 1-3 concurrent client tasks that walk every route kind (unary, __describe__, stream init, continuation and cancel with previously minted valid tokens, __upload_url__/init, introspection, preflight, health, OAuth metadata document, landing/describe/404 pages, two operator routes, session DELETE, login routes); two thirds of the requests carry one of two bearer credentials (so the same credential is accepted for one request and refused, or unavailable, for another — concurrently and later); for every request the tape decides whether the authority accepts (anonymous / alice / the introspector) or rejects, and how (error tree: AuthFailure with each reason, RpcError of seven types, AuthUnavailableError, foreign error, wrapped 0-2 deep; or a missing/forged proof under a require-mode gate); the authenticator, handlers, stream states, rehydrate callback, upload provider, token resolver and operator routes are harness code that yields, so requests interleave; each invocation is attributed to its request (script nonce, per-stream exclusive ownership, request marker, or the task whose ServeHTTP call is on the stack). distinct = distinct schedule/outcome fingerprint; non-trivial = at least one request was sent under a rejecting authority",
		Real:  []string{"vgirpc.HttpServer (ServeHTTP, route table, authenticate, unary/stream/upload-url/introspection/sticky-delete/health/pages/OAuth handlers)", "vgirpc.ProofAuthenticate, ChainAuthenticate+CookieAuthenticate (PKCE)", "vgirpc.Server dispatch, token seal/open, call-state cache", "sticky-session reaper on the simulated clock"},
		Stub:  []string{"authenticator (outcome from the tape)", "UploadURLProvider, TokenResolver, RehydrateFunc, operator routes (counting, yielding)", "scripted handlers and stream states", "HTTP transport (direct ServeHTTP call)", "load balancer (tape)"},
		Quick: 1200, Thorough: 80000,
		Warm:       warmHTTP,
		FaultKinds: []string{"auth-unavailable", "auth-failure", "auth-rpcerror", "auth-foreign-error", "auth-reject-with-context", "proof-gate-reject", "external-pointer-continuation"},
		Assumptions: []string{
			"'rejects a request' is decided by the fault plan: a request for which the configured authenticator would return an error; a route that never consults the authenticator is judged by the same plan",
			"for __describe__ (no callback to observe) 'performs no work' is read as 'is not answered with a 2xx'; the same is required of every rejected request on a gated route",
			"with PKCE browser login enabled the landing/describe pages are deliberately authenticated (they are the login entry points) and are not required to answer; OIDC discovery is never triggered (it uses a hard-wired http.Client with no seam), so the browser redirect itself is not exercised",
			"session DELETE is exercised with missing and unopenable session tokens only (no live sticky session is opened in this world)",
			"an authenticator returning (nil, nil) breaks the AuthenticateFunc contract and is not generated",
			"routes enter at ServeHTTP; net/http connection handling is not simulated",
		},
	}
}
