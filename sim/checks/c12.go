package checks

import (
	"bytes"
	"context"
	"encoding/base64"
	"fmt"
	"strings"
	"time"

	"verifsim/hx"
	"verifsim/simkern"
	"verifsim/worlds/httpw"
	"verifsim/worlds/pipew"

	"github.com/Query-farm/vgi-rpc-go/vgirpc"
)

// countingHook counts dispatch-hook starts (C12: must stay silent for a
// refused token).
type countingHook struct{ starts, ends int }

func (h *countingHook) OnDispatchStart(ctx context.Context, info vgirpc.DispatchInfo) (context.Context, vgirpc.HookToken) {
	h.starts++
	return ctx, nil
}
func (h *countingHook) OnDispatchEnd(ctx context.Context, tok vgirpc.HookToken, info vgirpc.DispatchInfo, st *vgirpc.CallStatistics, err error) {
	h.ends++
}

// mutation of a token string. sig = the refusal must be the uniform
// signature-failure answer.
type tokMut struct {
	name string
	sig  bool
	fn   func(tok string, tp *simkern.Tape) string
}

func rawOf(tok string) []byte {
	raw, err := base64.StdEncoding.DecodeString(tok)
	if err != nil {
		panic("c12: minted token is not std base64: " + err.Error())
	}
	return raw
}

func enc(raw []byte) string { return base64.StdEncoding.EncodeToString(raw) }

var tokMuts = []tokMut{
	{"flip-one-bit-in-sealed-part", true, func(tok string, tp *simkern.Tape) string {
		raw := rawOf(tok)
		i := 1 + tp.Draw(len(raw)-1)
		raw[i] ^= 1 << uint(tp.Draw(8))
		return enc(raw)
	}},
	{"overwrite-bytes-in-sealed-part", true, func(tok string, tp *simkern.Tape) string {
		raw := rawOf(tok)
		n := 2 + tp.Draw(6)
		for k := 0; k < n; k++ {
			i := 1 + tp.Draw(len(raw)-1)
			raw[i] ^= byte(1 + tp.Draw(255))
		}
		return enc(raw)
	}},
	{"extend", true, func(tok string, tp *simkern.Tape) string {
		raw := rawOf(tok)
		n := 1 + tp.Draw(40)
		for k := 0; k < n; k++ {
			raw = append(raw, byte(tp.Draw(256)))
		}
		return enc(raw)
	}},
	{"truncate-tail", false, func(tok string, tp *simkern.Tape) string {
		raw := rawOf(tok)
		keep := tp.Draw(len(raw)) // 0..len-1 bytes
		return enc(raw[:keep])
	}},
	{"truncate-keeping-min-length", true, func(tok string, tp *simkern.Tape) string {
		raw := rawOf(tok)
		// keep at least version+nonce+tag (41 bytes) so that the failure is the signature
		min := 41
		if len(raw) <= min+1 {
			return enc(raw[:len(raw)-1])
		}
		keep := min + tp.Draw(len(raw)-min)
		return enc(raw[:keep])
	}},
	{"re-version", false, func(tok string, tp *simkern.Tape) string {
		raw := rawOf(tok)
		raw[0] = byte(int(raw[0]) + 1 + tp.Draw(254))
		return enc(raw)
	}},
	{"base64-url-alphabet", false, func(tok string, tp *simkern.Tape) string {
		return base64.URLEncoding.EncodeToString(rawOf(tok))
	}},
	{"base64-no-padding", false, func(tok string, tp *simkern.Tape) string {
		return strings.TrimRight(tok, "=")
	}},
	{"base64-inserted-newline", false, func(tok string, tp *simkern.Tape) string {
		i := tp.Draw(len(tok) + 1)
		return tok[:i] + "\n" + tok[i:]
	}},
	{"base64-noncanonical-trailing-bits", false, func(tok string, tp *simkern.Tape) string {
		// when the token ends in padding, the last data character has unused
		// low bits; setting one yields another spelling of the same bytes
		const alpha = "ABCDEFGHIJKLMNOPQRSTUVWXYZabcdefghijklmnopqrstuvwxyz0123456789+/"
		n := len(tok)
		if n < 4 || tok[n-1] != '=' {
			return tok
		}
		i := n - 2
		if tok[i] == '=' {
			i = n - 3
		}
		v := strings.IndexByte(alpha, tok[i])
		if v < 0 {
			return tok
		}
		return tok[:i] + string(alpha[v|1]) + tok[i+1:]
	}},
	{"base64-garbage-char", false, func(tok string, tp *simkern.Tape) string {
		i := tp.Draw(len(tok))
		return tok[:i] + "*" + tok[i+1:]
	}},
	{"empty", false, func(tok string, tp *simkern.Tape) string { return "" }},
}

// C12 — forged or altered state tokens never reach stream state.
func C12(e *simkern.Env) {
	tp := e.Tape
	sweep := e.Tier == "quick" && tp.Bool(1, 8) // one run in eight is a complete single-byte sweep of one token
	left := e.Bubble(func() {
		sim := simkern.NewSim(tp, e.Trace)
		defer sim.Close()
		hx.Rec.Reset()
		// the deployment's key: any length >= 16 is legal
		key := []byte("0123456789abcdef0123456789abcdefFEDCBA9876543210fedcba9876543210")[:tp.Pick(32, 32, 16, 20, 31, 33, 40, 64)]
		hooks := map[*vgirpc.HttpServer]*countingHook{}
		rehydrates := 0
		setup := func(i int, srv *vgirpc.Server, h *vgirpc.HttpServer) {
			hk := &countingHook{}
			srv.SetDispatchHook(hk)
			hooks[h] = hk
			h.SetRehydrateFunc(func(state interface{}, method string) error { rehydrates++; return nil })
		}
		cacheMain := tp.Pick(0, -1)
		// one run in four has a history: a short token TTL, a stream that is
		// continued over time (its cursor is re-minted on every turn, its call
		// token is not), and forged presentations placed around the instant the
		// call token's age crosses the TTL
		aged := !sweep && tp.Bool(1, 4)
		var ttl time.Duration
		if aged {
			ttl = time.Duration(tp.Pick(20, 60, 600)) * time.Second
			cacheMain = tp.Pick(-1, -1, 1)
			e.Knob("token_ttl", ttl.String())
		}
		// both workers report the same server id so that refusal bodies are comparable byte for byte
		cl := httpw.NewCluster(httpw.Config{Key: key, TTL: ttl, CacheSizes: []int{cacheMain, 0}, BatchLimit: 1, NoTwin: true, Setup: setup, WithAuth: true, ServerIDs: []string{"w", "w"}})
		// a second real deployment with another key (lengths 16..64)
		fkey := bytes.Repeat([]byte{byte(1 + tp.Draw(200))}, 16+tp.Draw(49))
		switch tp.Draw(6) {
		// other keys that are near misses of the deployment's key
		case 0: // same leading bytes, another tail
			fkey = append(append([]byte(nil), key...), byte('x'), byte(tp.Draw(256)))
		case 1: // padded with NULs
			fkey = append(append([]byte(nil), key...), make([]byte, 1+tp.Draw(16))...)
		case 2: // one byte shorter (still >= 16) or, for a 16-byte key, one longer
			if len(key) > 16 {
				fkey = append([]byte(nil), key[:len(key)-1]...)
			} else {
				fkey = append(append([]byte(nil), key...), 'z')
			}
		case 3: // one bit of the last byte flipped
			fkey = append([]byte(nil), key...)
			fkey[len(fkey)-1] ^= 1
		}
		e.Knob("key_bytes", len(key))
		e.Knob("foreign_key_bytes", len(fkey))
		foreign := httpw.NewCluster(httpw.Config{Key: fkey, CacheSizes: []int{-1}, BatchLimit: 1, NoTwin: true, WithAuth: true})
		idents := []httpw.Ident{{}, {Auth: true, Domain: "bearer", Principal: "alice"}}
		var sigBodies [][]byte
		var sigFrom []string
		nontrivial := 0
		start := func(c *httpw.Cluster, method, kind string, nonce int64, id httpw.Ident) (*httpw.Turn, *pipew.Op) {
			sc := &hx.Script{Nonce: nonce, Outcome: "ok", Mode: kind}
			for k := 0; k < 8; k++ {
				sc.Turns = append(sc.Turns, hx.Step{Act: "emit"})
			}
			op := &pipew.Op{Kind: "stream", Method: method, Script: sc, StreamKind: kind, CancelAt: -1}
			return httpw.Decode(httpw.Post(c.Inst[0], "/"+method+"/init", pipew.RequestBytes(op), id, nil)), op
		}
		probe := func(nonce int64) int {
			r := hx.Rec.Get(nonce)
			return r.ProduceCalls + r.ExchangeCalls + r.CancelCalls
		}
		// present sends a continuation with the given tokens and judges the refusal.
		// needNotConsult: the next presentation carries an altered CALL token to
		// an instance that may still hold the call in its cache — the server
		// then has no need to consult the call token, and serving the turn from
		// the genuine cursor is within the property; a refusal is judged as ever
		needNotConsult := false
		present := func(site, what string, sig bool, method, kind string, nonce int64, id httpw.Ident, inst *httpw.Instance, cursor, call string, cancel bool) {
			var in []int64
			if kind == "exchange" && !cancel {
				in = []int64{3}
			}
			hk := hooks[inst.H]
			s0, r0, p0 := hk.starts, rehydrates, probe(nonce)
			resp := httpw.Post(inst, "/"+method+"/exchange", httpw.ContBody(cursor, call, cancel, in, false, hx.Meta{}), id, nil)
			nontrivial++
			if resp.Panicked != nil {
				e.Violate("panic-on-forged-token", site, "%s: panic escaped ServeHTTP: %v", what, resp.Panicked)
				return
			}
			if needNotConsult && resp.Status == 200 {
				sim.Probe("call-token-not-consulted:" + site)
				return
			}
			if resp.Status < 400 || resp.Status >= 500 {
				e.Violate("forged-token-accepted", site, "%s: status %d, expected a client error", what, resp.Status)
				return
			}
			if probe(nonce) != p0 {
				e.Violate("state-ran-on-forged-token", site, "%s: a state method ran although the request was refused", what)
				return
			}
			if rehydrates != r0 {
				e.Violate("rehydrate-ran-on-forged-token", site, "%s: the rehydrate callback ran", what)
				return
			}
			if hk.starts != s0 {
				e.Violate("dispatch-hook-ran-on-forged-token", site, "%s: the dispatch hook ran", what)
				return
			}
			if sig {
				sigBodies = append(sigBodies, resp.Decoded)
				sigFrom = append(sigFrom, what)
			}
			sim.Probe("refused:" + site)
		}
		sim.Spawn("adversary", func() {
			rounds := 3 + tp.Draw(5)
			if sweep {
				rounds = 1
			}
			for r := 0; r < rounds && !e.Violated(); r++ {
				sim.Y("round")
				kind, method := "exchange", "exch2"
				if tp.Bool(1, 2) {
					kind, method = "producer", "prod2"
				}
				id := idents[tp.Draw(len(idents))]
				nonce := int64(12000 + r)
				t, _ := start(cl, method, kind, nonce, id)
				if t.Cursor == "" || t.Call == "" {
					e.Harness("init returned no tokens: %s", t.Resp.ErrText())
					return
				}
				cancel := tp.Bool(1, 5)
				if aged {
					// genuine turns spread over time on the caching instance; each
					// answer carries the next cursor
					inst := cl.Inst[0]
					cur := t.Cursor
					born, minted := time.Now(), time.Now()
					turns := 2 + tp.Draw(3)
					step := ttl * time.Duration(60+tp.Draw(30)) / 100 / time.Duration(turns)
					done := 0
					for k := 0; k < turns && !e.Violated(); k++ {
						time.Sleep(step)
						if time.Since(born) > ttl*95/100-2*time.Second { // token times have one-second resolution: stay clear of the boundary itself
							break
						}
						var in []int64
						if kind == "exchange" {
							in = []int64{int64(k + 1)}
						}
						nt := httpw.Decode(httpw.Post(inst, "/"+method+"/exchange", httpw.ContBody(cur, t.Call, false, in, false, hx.Meta{}), id, nil))
						if nt.Resp.Status != 200 || nt.Cursor == "" {
							e.Violate("genuine-token-refused", "control", "turn %d of a genuine stream, call token aged %v of ttl %v, refused: %v", k+1, time.Since(born), ttl, nt.Err)
							break
						}
						cur, minted = nt.Cursor, time.Now()
						done++
						sim.Probe("aged-genuine-turn")
					}
					if done == 0 || e.Violated() {
						continue
					}
					// now on one side or the other of call-token-age == TTL, the
					// cursor still young
					past := tp.Bool(2, 3)
					if past {
						if age := time.Since(born); age <= ttl {
							time.Sleep(ttl - age + ttl/20 + 2*time.Second)
						}
						sim.Fault("call-token-ages-past-ttl")
					}
					if time.Since(minted) > ttl*9/10 {
						continue // the cursor is (nearly) out of date itself: another class of refusal
					}
					bad := tokMuts[tp.Draw(2)].fn(t.Call, tp)
					fc := tokMuts[tp.Draw(2)].fn(cur, tp)
					sim.Fault("call-flip-after-history")
					n := 1 + tp.Draw(2)
					for k := 0; k < n && !e.Violated(); k++ {
						needNotConsult = !past
						present("call/altered-after-history", fmt.Sprintf("genuine young cursor with an altered call token, caching instance, presentation %d after a %d-turn history", k+1, turns), true, method, kind, nonce, id, inst, cur, bad, cancel)
						needNotConsult = false
					}
					if !e.Violated() {
						present("cursor/altered-after-history", "altered cursor after the same history", true, method, kind, nonce, id, inst, fc, t.Call, cancel)
					}
					continue
				}
				if sweep {
					// complete sweep: every byte position of the cursor (on the main
					// instance) and of the call token (on the cache-less instance)
					raw := rawOf(t.Cursor)
					for i := 0; i < len(raw) && !e.Violated(); i++ {
						m := append([]byte(nil), raw...)
						m[i] ^= 0x01
						present("cursor/byte-sweep", fmt.Sprintf("cursor byte %d flipped", i), i >= 1, method, kind, nonce, id, cl.Inst[0], enc(m), t.Call, false)
					}
					raw = rawOf(t.Call)
					for i := 0; i < len(raw) && !e.Violated(); i++ {
						m := append([]byte(nil), raw...)
						m[i] ^= 0x01
						present("call/byte-sweep", fmt.Sprintf("call-token byte %d flipped", i), i >= 1, method, kind, nonce, id, cl.Inst[1], t.Cursor, enc(m), false)
					}
					sim.Fault("byte-sweep")
					continue
				}
				switch tp.Draw(4) {
				case 0: // mutate the cursor
					mu := tokMuts[tp.Draw(len(tokMuts))]
					bad := mu.fn(t.Cursor, tp)
					if bad == t.Cursor {
						continue // the variant is textually identical: not an alteration
					}
					sim.Fault("cursor-" + mu.name)
					present("cursor/"+mu.name, "cursor "+mu.name, mu.sig, method, kind, nonce, id, cl.Inst[tp.Draw(2)], bad, t.Call, cancel)
				case 1: // mutate the call token where the server must consult it (cache off)
					mu := tokMuts[tp.Draw(len(tokMuts))]
					bad := mu.fn(t.Call, tp)
					if bad == t.Call {
						continue
					}
					sim.Fault("call-" + mu.name)
					present("call/"+mu.name, "call token "+mu.name+" (cache-less instance)", mu.sig, method, kind, nonce, id, cl.Inst[1], t.Cursor, bad, cancel)
				case 2: // tokens minted by a deployment holding another key
					ft, _ := start(foreign, method, kind, nonce+500, id)
					if ft.Cursor == "" {
						e.Harness("foreign init failed")
						return
					}
					sim.Fault("foreign-key")
					present("cursor/foreign-key", fmt.Sprintf("cursor minted under a %d-byte foreign key", len(fkey)), true, method, kind, nonce, id, cl.Inst[tp.Draw(2)], ft.Cursor, ft.Call, cancel)
					if !e.Violated() {
						present("call/foreign-key", "own cursor with a foreign-key call token (cache-less instance)", true, method, kind, nonce, id, cl.Inst[1], t.Cursor, ft.Call, cancel)
					}
				case 3: // swap the two tokens
					sim.Fault("swap-kinds")
					present("cursor/is-call-token", "call token presented as cursor", false, method, kind, nonce, id, cl.Inst[tp.Draw(2)], t.Call, t.Call, cancel)
					if !e.Violated() {
						present("call/is-cursor", "cursor presented as call token (cache-less instance)", false, method, kind, nonce, id, cl.Inst[1], t.Cursor, t.Cursor, cancel)
					}
				}
				// the genuine tokens still work afterwards (the refusals consumed nothing)
				if !e.Violated() && tp.Bool(1, 2) {
					var in []int64
					if kind == "exchange" {
						in = []int64{1}
					}
					ok := httpw.Post(cl.Inst[tp.Draw(2)], "/"+method+"/exchange", httpw.ContBody(t.Cursor, t.Call, false, in, false, hx.Meta{}), id, nil)
					if ok.Status != 200 {
						e.Violate("genuine-token-refused", "control", "unaltered tokens refused after a forged presentation: %s", ok.ErrText())
					}
				}
			}
		})
		reason, _ := sim.Run(simkern.RunOpts{MaxSteps: 400000, Done: sim.RootsDone, IdleStepMax: ttl / 100})
		if !e.Violated() {
			for i := 1; i < len(sigBodies); i++ {
				if !bytes.Equal(sigBodies[i], sigBodies[0]) {
					e.Violate("signature-failures-distinguishable", "response-body", "the refusal for %q differs from the refusal for %q", sigFrom[i], sigFrom[0])
					break
				}
			}
		}
		e.Conclude(sim, reason, false)
		e.Res.Nontrivial = nontrivial > 0
		e.Res.Sample = map[string]any{"sweep": sweep, "presentations": nontrivial, "signature_class_refusals": len(sigBodies), "first": firstN(sigFrom, 4)}
	})
	if left != "" && !e.Violated() {
		e.Harness("bubble: %s", left)
	}
}

func firstN(s []string, n int) []string {
	if len(s) > n {
		return s[:n]
	}
	return s
}

func init() {
	var kinds []string
	for _, m := range tokMuts {
		kinds = append(kinds, "cursor-"+m.name, "call-"+m.name)
	}
	kinds = append(kinds, "foreign-key", "swap-kinds", "byte-sweep", "call-token-ages-past-ttl", "call-flip-after-history")
	Registry["C12"] = &Info{
		Run:   C12,
		Level: "fault_enumeration",
		Rule:  "the network/adversary alters tokens in flight: each run starts 3-7 real streams (producer/exchange, anonymous or authenticated) and presents altered cursors (to a cached and to a cache-less instance) and altered call tokens (to the cache-less instance, where the server must consult them): single-bit flips, multi-byte overwrites, extension, truncation above and below the minimum length, version byte, base64 alphabet/padding/newline/garbage variants, tokens minted by a second real deployment under a foreign key of 16..64 bytes, and the two token kinds swapped; as tick, exchange input and cancel. One run in four gives the tokens a history instead: a short TTL (20 s..10 min), 2-4 genuine turns spread over simulated time on the caching instance (the cursor is re-minted each turn, the call token ages), then an altered call token with the young genuine cursor, and an altered cursor, presented just before or just after the call token's age crosses the TTL. One quick run in eight is a complete sweep of every byte position of one cursor and one call token. distinct = schedule fingerprint (includes the mutation choices); the deployment key has 16-64 bytes and the foreign key is a random one or a near miss of it (same leading bytes with another tail, NUL-padded, one byte shorter/longer, last bit flipped)",
		Real:  []string{"vgirpc.HttpServer.handleStreamExchange, openToken / sealToken (XChaCha20-Poly1305), resolveCall, call-state cache", "a second real HttpServer with another key as the foreign minter"},
		Stub:  []string{"HTTP transport", "adversary", "scripted states with call counters", "counting rehydrate callback and dispatch hook"},
		Quick: 480, Thorough: 60000,
		Warm: warmHTTP, FaultKinds: kinds,
		Assumptions: []string{"a base64 variant that yields the identical string is not an alteration and is skipped", "uniform-failure clause is checked among refusals whose cause is the signature (sealed bytes changed, foreign key, wrong kind); malformed-encoding and wrong-version refusals may use their own wording"},
	}
}

// retag returns tok with its leading (unsealed) version byte replaced by
// like's.
func retag(tok, like string) string {
	a, b := rawOf(tok), rawOf(like)
	if len(a) == 0 || len(b) == 0 {
		return tok
	}
	a[0] = b[0]
	return enc(a)
}
