package checks

import (
	"bytes"
	"compress/gzip"
	"context"
	"encoding/base64"
	"encoding/json"
	"fmt"
	"io"
	"net/http"
	"sort"
	"strings"
	"time"

	"verifsim/hx"
	"verifsim/simkern"
	"verifsim/worlds/alogw"
	"verifsim/worlds/httpw"

	"github.com/Query-farm/vgi-rpc-go/vgirpc"
	"github.com/apache/arrow-go/v18/arrow"
	"github.com/apache/arrow-go/v18/arrow/ipc"
	"github.com/klauspost/compress/zstd"
)

// c38Zstd compresses request bodies (created outside any bubble; EncodeAll is
// synchronous with concurrency 1).
var c38Zstd, _ = zstd.NewWriter(nil, zstd.WithEncoderConcurrency(1))

// Claim names the repository documents as redacted by the default policy
// (credentials and OIDC personal data), in the spellings tokens actually use.
var c38SensitiveNames = []string{
	"password", "token", "secret", "key", "authorization",
	"email", "phone", "address", "birthdate", "gender",
	"name", "given_name", "family_name", "middle_name", "nickname",
	"preferred_username", "picture", "profile", "website",
	"access_token", "refresh_token", "id_token", "api_key", "client_secret", "phone_number",
}

// Claim names no policy in this world treats as sensitive by default.
var c38PlainNames = []string{"sub", "iss", "aud", "scope", "roles", "tenant", "badge", "org"}

// What the harness's custom redactors treat as sensitive.
var c38CustomSensitive = map[string]bool{"tenant": true, "sub": true, "badge": true}

const (
	c38RedactDefault = iota
	c38RedactCustomReplace
	c38RedactCustomDrop
	c38RedactNone
	c38RedactPanic
	c38RedactPanicOnTrip
)

var c38RedactNames = []string{"default", "custom-replace", "custom-drop", "none", "panicking", "panics-on-trip-claim"}

type c38Ident struct {
	idx     int
	auth    bool
	claims  map[string]any
	markers map[string][]string // claim name -> marker strings inside its value
}

func (id *c38Ident) header() map[string]string {
	if !id.auth {
		return nil
	}
	return map[string]string{httpw.IdentHeader: fmt.Sprintf("c:%d", id.idx)}
}

func c38DeepCopy(v any) any {
	switch x := v.(type) {
	case map[string]any:
		out := make(map[string]any, len(x))
		for k, vv := range x {
			out[k] = c38DeepCopy(vv)
		}
		return out
	case []any:
		out := make([]any, len(x))
		for i, vv := range x {
			out[i] = c38DeepCopy(vv)
		}
		return out
	}
	return v
}

// forbidden returns the markers that must not appear in a record of this
// identity under the given redaction policy, and whether the policy panics
// for this identity (then no claims at all may appear).
func (id *c38Ident) forbidden(mode int) (markers []string, panics bool) {
	if !id.auth || len(id.claims) == 0 {
		return nil, false
	}
	_, trip := id.claims["trip"]
	panics = mode == c38RedactPanic || (mode == c38RedactPanicOnTrip && trip)
	names := make([]string, 0, len(id.markers))
	for k := range id.markers {
		names = append(names, k)
	}
	sort.Strings(names)
	for _, k := range names {
		sensitive := false
		switch mode {
		case c38RedactDefault, c38RedactPanicOnTrip:
			for _, s := range c38SensitiveNames {
				if s == k {
					sensitive = true
				}
			}
		case c38RedactCustomReplace, c38RedactCustomDrop:
			sensitive = c38CustomSensitive[k]
		}
		if sensitive || panics {
			markers = append(markers, id.markers[k]...)
		}
	}
	return markers, panics
}

type c38Stream struct {
	id      int
	method  string
	kind    string // producer | exchange
	script  *hx.Script
	ident   *c38Ident
	cursor  string
	call    string
	dead    bool
	nextIn  int64
	sid     string // stream id seen on the first record of this stream
	sidFrom string
	records int
	reqs    int
}

// c38Req is one request the harness issued; lines are the access-log lines
// written while it was the request in flight of its task.
type c38Req struct {
	n         int
	transport string // http | pipe
	kind      string // unary | init | cont | stream (pipe: whole stream call)
	method    string
	mtype     string // unary | stream
	stream    *c38Stream
	ident     *c38Ident
	script    *hx.Script // nil when the parameters were deliberately malformed
	sent      int        // request body bytes put on the wire (HTTP)
	resp      *hx.Resp
	lines     []*alogw.Line
}

func (r *c38Req) site() string { return r.transport + "-" + r.kind }

var c38TraceVariants = []string{"valid", "valid", "uppercase", "dashed-uuid", "short-trace", "long-span", "only-trace", "only-span", "empty", "non-hex", "panic"}

// c38AsyncLines is the "one JSON line per record" clause under asynchronous
// emission: several dispatches end concurrently on one hook whose records go
// through the real async emitter, a closer retires the emitter while they do
// (from then on records are written synchronously), and the log file takes
// every write in two pieces. Whoever writes, no line may be torn.
func c38AsyncLines(e *simkern.Env) {
	tp := e.Tape
	nEmit := 2 + tp.Draw(2)
	nRec := 4 + tp.Draw(10)
	queue := 1 + tp.Draw(4)
	closeAfter := tp.Draw(nRec)
	e.Knob("mode", "async-lines")
	e.Knob("emitters", nEmit)
	e.Knob("records", nRec)
	e.Knob("queue", queue)
	left := e.Bubble(func() {
		sim := simkern.NewSim(tp, e.Trace)
		defer sim.Close()
		var lines []*alogw.Line
		w := alogw.NewWriter(sim, "async", &lines)
		w.Pieces = true
		hook := vgirpc.NewAccessLogHook(w, "")
		if err := hook.SetAsync(queue); err != nil {
			e.Harness("SetAsync(%d): %v", queue, err)
			return
		}
		done := 0
		for i := 0; i < nEmit; i++ {
			i := i
			sim.Spawn(fmt.Sprintf("emitter%d", i), func() {
				for r := i; r < nRec; r += nEmit {
					info := vgirpc.DispatchInfo{Method: fmt.Sprintf("m%d", r), MethodType: vgirpc.DispatchMethodUnary, ServerID: "a",
						Protocol: "A", ProtocolHash: strings.Repeat("cd", 32), RequestID: fmt.Sprintf("rid-%d", r)}
					sim.Y("emit.before")
					ctx, tok := hook.OnDispatchStart(context.Background(), info)
					hook.OnDispatchEnd(ctx, tok, info, nil, nil)
					done++
				}
			})
		}
		sim.Spawn("closer", func() {
			sim.Yield("closer.wait", func() bool { return done >= closeAfter })
			sim.Fault("emitter-retired-under-traffic")
			_ = hook.Close()
		})
		reason, _ := sim.Run(simkern.RunOpts{
			MaxSteps: 4000 + 400*nRec,
			Done:     sim.RootsDone,
			Extra: func() []simkern.Action {
				if w.Stalled {
					return []simkern.Action{{Name: "unstall log", Weight: 4, Do: func() { w.Stalled = false }}}
				}
				return []simkern.Action{{Name: "stall log", Weight: 1, Do: func() { sim.Fault("writer-stall"); w.Stalled = true }}}
			},
		})
		w.Stalled = false
		e.Conclude(sim, reason, false)
		for _, l := range lines {
			if l.Bad != "" {
				e.Violate("not-one-json-object", "async-lines", "with asynchronous emission and a Close under traffic, line %d of the log is not exactly one JSON object (%s): %s", l.Seq, l.Bad, alogw.Short(l.Raw, 200))
				break
			}
		}
		if p := w.Pending(); p != "" && !e.Violated() {
			e.Violate("not-one-json-object", "async-lines", "the log ends in an unterminated fragment: %s", alogw.Short(p, 200))
		}
		e.Res.Nontrivial = len(lines) > 0
		e.Res.Sample = []string{fmt.Sprintf("async lines: %d emitters, %d records, queue %d, close after %d -> %d lines", nEmit, nRec, queue, closeAfter, len(lines))}
	})
	if left != "" && !e.Violated() {
		e.Harness("bubble: %s", left)
	}
}

// C38 — access-log records are schema-valid and describe the call.
func C38(e *simkern.Env) {
	tp := e.Tape
	if tp.Bool(1, 6) {
		c38AsyncLines(e)
		return
	}
	debug := tp.Bool(1, 2)
	nInst := 1 + tp.Draw(2)
	hooklessNode := false
	if tp.Bool(1, 4) {
		nInst, hooklessNode = 2+tp.Draw(2), true // worker 0 shares the key but has no access log
	}
	caches := make([]int, nInst)
	for i := range caches {
		caches[i] = tp.Pick(-1, 0, 1)
	}
	batchLimit := 1 + tp.Draw(2)
	srvCompressionOff := tp.Bool(1, 5)
	traceMode := tp.Draw(4) // 0 none, 1 valid, 2 per-call plan, 3 always panics
	tracePlan := make([]int, 12)
	if traceMode == 2 {
		for i := range tracePlan {
			tracePlan[i] = tp.Draw(len(c38TraceVariants))
		}
	}
	redactMode := tp.Draw(len(c38RedactNames))
	serverVersion := ""
	if tp.Bool(1, 2) {
		serverVersion = "1.2.3"
	}
	nClients := 1 + tp.Draw(2)
	opsPerClient := 3 + tp.Draw(6)
	withPipe := tp.Bool(1, 2)
	pipeOps := 2 + tp.Draw(3)
	if e.Tier == "thorough" {
		opsPerClient = 3 + tp.Draw(14)
		pipeOps = 2 + tp.Draw(6)
	}
	// identities: 0 = anonymous, 1..n authenticated with claim sets
	idents := []*c38Ident{{idx: 0}}
	nAuth := 1 + tp.Draw(3)
	for a := 1; a <= nAuth; a++ {
		id := &c38Ident{idx: a, auth: true, claims: map[string]any{}, markers: map[string][]string{}}
		mk := func(name string, j int) string { return fmt.Sprintf("CV-%d-%s-%d-END", a, name, j) }
		add := func(name string) {
			if _, dup := id.claims[name]; dup {
				return
			}
			switch tp.Draw(3) {
			case 0:
				id.claims[name] = mk(name, 0)
				id.markers[name] = []string{mk(name, 0)}
			case 1:
				id.claims[name] = map[string]any{"value": mk(name, 0), "alt": mk(name, 1)}
				id.markers[name] = []string{mk(name, 0), mk(name, 1)}
			default:
				id.claims[name] = []any{mk(name, 0), mk(name, 1)}
				id.markers[name] = []string{mk(name, 0), mk(name, 1)}
			}
		}
		for k, n := 0, tp.Draw(5); k < n; k++ {
			add(c38SensitiveNames[tp.Draw(len(c38SensitiveNames))])
		}
		for k, n := 0, tp.Draw(4); k < n; k++ {
			add(c38PlainNames[tp.Draw(len(c38PlainNames))])
		}
		if tp.Bool(1, 3) {
			id.claims["exp"] = 1700000000 + a
		}
		if redactMode == c38RedactPanicOnTrip && tp.Bool(1, 2) {
			id.claims["trip"] = true
		}
		idents = append(idents, id)
	}
	e.Knob("debug", debug)
	e.Knob("caches", caches)
	e.Knob("worker0_without_access_log", hooklessNode)
	e.Knob("batch_limit", batchLimit)
	e.Knob("server_compression_off", srvCompressionOff)
	e.Knob("trace_provider", []string{"none", "valid", "per-call plan", "panicking"}[traceMode])
	e.Knob("redactor", c38RedactNames[redactMode])
	e.Knob("clients", nClients)
	e.Knob("pipe_session", withPipe)

	var sample []string
	left := e.Bubble(func() {
		sim := simkern.NewSim(tp, e.Trace)
		defer sim.Close()
		hx.Rec.Reset()
		defer vgirpc.SetClaimRedactor(nil)
		defer vgirpc.SetTraceContextProvider(nil)

		// ---- seams: trace provider, claim redactor ----
		traceCalls := 0
		switch traceMode {
		case 0:
			vgirpc.SetTraceContextProvider(nil)
		default:
			vgirpc.SetTraceContextProvider(func(ctx context.Context) (string, string) {
				i := traceCalls
				traceCalls++
				v := "valid"
				switch traceMode {
				case 2:
					v = c38TraceVariants[tracePlan[i%len(tracePlan)]]
				case 3:
					v = "panic"
				}
				sim.Y("trace.provider")
				tr := fmt.Sprintf("%032x", 0xabc000+i)
				sp := fmt.Sprintf("%016x", 0xdef000+i)
				switch v {
				case "valid":
					return tr, sp
				case "uppercase":
					sim.Fault("trace-malformed")
					return strings.ToUpper(tr), sp
				case "dashed-uuid":
					sim.Fault("trace-malformed")
					return tr[:8] + "-" + tr[8:12] + "-" + tr[12:16] + "-" + tr[16:20] + "-" + tr[20:], sp
				case "short-trace":
					sim.Fault("trace-malformed")
					return tr[:31], sp
				case "long-span":
					sim.Fault("trace-malformed")
					return tr, sp + "0"
				case "only-trace":
					sim.Fault("trace-malformed")
					return tr, ""
				case "only-span":
					sim.Fault("trace-malformed")
					return "", sp
				case "non-hex":
					sim.Fault("trace-malformed")
					return tr, "zzzzzzzzzzzzzzzz"
				case "panic":
					sim.Fault("trace-provider-panic")
					panic("scripted trace provider panic")
				}
				return "", ""
			})
		}
		switch redactMode {
		case c38RedactDefault:
			vgirpc.SetClaimRedactor(nil)
		case c38RedactCustomReplace:
			vgirpc.SetClaimRedactor(func(c map[string]any) map[string]any {
				sim.Y("redactor")
				out := map[string]any{}
				for k, v := range c {
					if c38CustomSensitive[k] {
						out[k] = "***"
					} else {
						out[k] = v
					}
				}
				return out
			})
		case c38RedactCustomDrop:
			vgirpc.SetClaimRedactor(func(c map[string]any) map[string]any {
				sim.Y("redactor")
				out := map[string]any{}
				for k, v := range c {
					if !c38CustomSensitive[k] {
						out[k] = v
					}
				}
				return out
			})
		case c38RedactNone:
			vgirpc.SetClaimRedactor(vgirpc.NoClaimRedaction)
		case c38RedactPanic:
			vgirpc.SetClaimRedactor(func(c map[string]any) map[string]any {
				sim.Y("redactor")
				sim.Fault("redactor-panic")
				panic("scripted redactor panic")
			})
		case c38RedactPanicOnTrip:
			vgirpc.SetClaimRedactor(func(c map[string]any) map[string]any {
				sim.Y("redactor")
				out := vgirpc.RedactClaims(c)
				if _, trip := c["trip"]; trip {
					sim.Fault("redactor-panic")
					panic(fmt.Errorf("scripted redactor panic after %d claims", len(out)))
				}
				return out
			})
		}

		// ---- the log files and attribution of lines to requests ----
		var lines []*alogw.Line
		cur := map[string]*c38Req{} // task name -> request in flight
		onLine := func(l *alogw.Line) {
			rq := cur[l.Task]
			if rq == nil {
				e.Harness("C38: log line written by task %q with no request in flight: %s", l.Task, alogw.Short(l.Raw, 200))
				return
			}
			rq.lines = append(rq.lines, l)
		}
		newHook := func(tag string) *vgirpc.AccessLogHook {
			w := alogw.NewWriter(sim, tag, &lines)
			w.OnLine = onLine
			h := vgirpc.NewAccessLogHook(w, serverVersion)
			h.SetDebug(debug)
			return h
		}

		// ---- world H with claims-bearing identities ----
		cfg := httpw.Config{
			Key: []byte("0123456789abcdef0123456789abcdef"), CacheSizes: caches, BatchLimit: batchLimit,
			WithAuth: true, NoTwin: true,
			Setup: func(i int, srv *vgirpc.Server, h *vgirpc.HttpServer) {
				srv.SetServiceName("SimService")
				if hooklessNode && i == 0 {
					// a fleet in which access logging is on for some nodes only:
					// this worker shares the token key but writes no log
					return
				}
				srv.SetDispatchHook(newHook(fmt.Sprintf("w%d", i)))
			},
			AuthHook: func(r *http.Request) (*vgirpc.AuthContext, error, bool) {
				v := r.Header.Get(httpw.IdentHeader)
				if !strings.HasPrefix(v, "c:") {
					return nil, nil, false
				}
				var idx int
				fmt.Sscanf(v[2:], "%d", &idx)
				if idx <= 0 || idx >= len(idents) {
					return nil, &vgirpc.RpcError{Type: "ValueError", Message: "bad ident"}, true
				}
				id := idents[idx]
				return &vgirpc.AuthContext{Domain: "bearer", Principal: fmt.Sprintf("user%d", idx), Authenticated: true,
					Claims: c38DeepCopy(id.claims).(map[string]any)}, nil, true
			},
		}
		if srvCompressionOff {
			cfg.Compression = -1
		}
		cl := httpw.NewCluster(cfg)

		// ---- the per-line oracle ----
		nReq := 0
		judged := 0
		judge := func(rq *c38Req) {
			for _, l := range rq.lines {
				if e.Violated() {
					return
				}
				judged++
				c38JudgeLine(e, sim, rq, l, redactMode)
			}
			if len(rq.lines) > 0 {
				sim.Probe("requests-with-record:" + rq.site())
			} else {
				sim.Probe("requests-without-record:" + rq.site())
			}
		}

		// ---- HTTP clients ----
		var streams []*c38Stream
		nextNonce := int64(1000)
		paired := 0
		httpDo := func(task string, inst *httpw.Instance, rq *c38Req, path string, body []byte) *httpw.Turn {
			hdr := map[string]string{}
			for k, v := range rq.ident.header() {
				hdr[k] = v
			}
			switch tp.Draw(4) {
			case 1:
				hdr["X-Request-ID"] = fmt.Sprintf("rid-%d", rq.n)
			case 2:
				hdr["X-Request-ID"] = strings.Repeat("x", 200) // longer than the echo bound
			}
			req := hx.Req{Path: path, Header: hdr}
			switch tp.Draw(5) {
			case 1:
				req.Accept = "zstd"
			case 2:
				req.XAccept = "zstd"
			case 3:
				req.Accept = "gzip"
			case 4:
				req.Accept = "gzip, zstd"
				req.XAccept = "zstd"
			}
			if tp.Bool(1, 4) {
				body = c38Zstd.EncodeAll(body, nil)
				hdr["Content-Encoding"] = "zstd"
				sim.Probe("request-compressed")
			}
			if rq.kind == "unary" && tp.Bool(1, 6) {
				// the peer goes away while the response body is being written:
				// what the record must report is what did cross the wire
				req.HangUpAfter = 1 + tp.Draw(700)
				sim.Fault("peer-hangup-mid-response")
			}
			req.Body = body
			rq.sent = len(body)
			cur[task] = rq
			paired++
			resp := hx.Do(inst.H, req)
			paired--
			delete(cur, task)
			rq.resp = resp
			if resp.Header.Get("Content-Encoding") == "gzip" {
				if zr, err := gzip.NewReader(bytes.NewReader(resp.Body)); err == nil {
					if out, err := io.ReadAll(zr); err == nil {
						resp.Decoded = out
					}
				}
			}
			if enc := resp.Header.Get("Content-Encoding") + resp.Header.Get("X-VGI-Content-Encoding"); enc != "" {
				sim.Probe("response-compressed:" + enc)
			}
			if resp.Panicked != nil {
				e.Harness("C38: ServeHTTP panicked on %s: %v\n%s", path, resp.Panicked, resp.Stack)
			}
			return httpw.Decode(resp)
		}
		client := func(ci int) func() {
			task := fmt.Sprintf("client%d", ci)
			return func() {
				for op := 0; op < opsPerClient && !e.Violated() && e.Res.HarnessError == ""; op++ {
					sim.Y("client.idle")
					var own []*c38Stream
					for _, s := range streams {
						if s.id%nClients == ci && !s.dead {
							own = append(own, s)
						}
					}
					inst := cl.Inst[tp.Draw(len(cl.Inst))]
					wts := []int{3, 2, 0, 0, 1}
					if len(own) > 0 {
						wts[2], wts[3] = 5, 1
					}
					nReq++
					choice := tp.Weighted(wts)
					switch choice {
					case 0: // unary
						nextNonce++
						sc := hx.GenUnaryScript(tp, nextNonce)
						m := hx.UnaryMethods[tp.Draw(len(hx.UnaryMethods))]
						rq := &c38Req{n: nReq, transport: "http", kind: "unary", method: m, mtype: "unary", ident: idents[tp.Draw(len(idents))], script: sc}
						var extra hx.Meta
						if tp.Bool(1, 3) {
							extra = hx.M(hx.KReqID, fmt.Sprintf("batch-rid-%d", rq.n))
						}
						httpDo(task, inst, rq, "/"+m, httpw.InitBody(m, sc, extra))
						judge(rq)
					case 1: // stream init
						nextNonce++
						sm := hx.StreamMethods[tp.Draw(len(hx.StreamMethods))]
						kind := sm.Kind
						if kind == "dynamic" {
							kind = []string{"producer", "exchange"}[tp.Draw(2)]
						}
						sc := hx.GenStreamScript(tp, nextNonce, kind, hx.GenOpts{MaxTurns: 6, FailBias: 3, Pad: tp.Pick(0, 0, 600)})
						if kind == "producer" && len(sc.Turns) < 3 {
							for len(sc.Turns) < 3+tp.Draw(3) {
								sc.Turns = append([]hx.Step{{Act: "emit"}}, sc.Turns...)
							}
						}
						if tp.Bool(1, 6) {
							hx.GenInitFailure(tp, sc)
						}
						st := &c38Stream{id: len(streams)*nClients + ci, method: sm.Name, kind: kind, script: sc, ident: idents[tp.Draw(len(idents))]}
						// keep ownership stable: id % nClients == ci
						streams = append(streams, st)
						rq := &c38Req{n: nReq, transport: "http", kind: "init", method: sm.Name, mtype: "stream", stream: st, ident: st.ident, script: sc}
						var extra hx.Meta
						if tp.Bool(1, 3) {
							extra = hx.M(hx.KReqID, fmt.Sprintf("batch-rid-%d", rq.n))
						}
						st.reqs++
						turn := httpDo(task, inst, rq, "/"+sm.Name+"/init", httpw.InitBody(sm.Name, sc, extra))
						judge(rq)
						if turn.Resp.Status != 200 || turn.Err != nil || turn.Cursor == "" {
							st.dead = true
						} else {
							st.cursor, st.call = turn.Cursor, turn.Call
						}
					case 2, 3: // continuation / cancel
						st := own[tp.Draw(len(own))]
						cancel := choice == 3
						var input []int64
						if st.kind == "exchange" && !cancel {
							st.nextIn++
							input = []int64{st.nextIn}
						}
						rq := &c38Req{n: nReq, transport: "http", kind: "cont", method: st.method, mtype: "stream", stream: st, ident: st.ident}
						st.reqs++
						turn := httpDo(task, inst, rq, "/"+st.method+"/exchange", httpw.ContBody(st.cursor, st.call, cancel, input, false, hx.Meta{}))
						judge(rq)
						if cancel {
							sim.Probe("stream-cancelled")
						}
						if turn.Resp.Status != 200 || turn.Err != nil || turn.Cursor == "" || cancel {
							st.dead = true
						} else {
							st.cursor = turn.Cursor
							if turn.Call != "" {
								st.call = turn.Call
							}
						}
					case 4: // parameters of the wrong type (dispatch starts, then fails)
						m := hx.UnaryMethods[tp.Draw(len(hx.UnaryMethods))]
						rq := &c38Req{n: nReq, transport: "http", kind: "unary", method: m, mtype: "unary", ident: idents[tp.Draw(len(idents))]}
						body := hx.RawRequestBytes(hx.Int64Batch("script", []int64{int64(rq.n)}, false), hx.M(hx.KMethod, m, hx.KReqVersion, "1"))
						httpDo(task, inst, rq, "/"+m, body)
						judge(rq)
						sim.Probe("bad-params-request")
					}
				}
			}
		}
		for ci := 0; ci < nClients; ci++ {
			sim.Spawn(fmt.Sprintf("client%d", ci), client(ci))
		}

		// ---- pipe session ----
		if withPipe {
			psrv := vgirpc.NewServer()
			psrv.SetServerID("pipe0")
			psrv.SetServiceName("SimService")
			hx.Register(psrv)
			psrv.SetDispatchHook(newHook("pipe"))
			cconn, sconn := hx.NewConnPair("p")
			if tp.Bool(1, 2) {
				cconn.R.Frag = 1 + tp.Draw(64)
				sconn.R.Frag = 1 + tp.Draw(64)
			}
			server := sim.Spawn("pipe-server", func() {
				psrv.ServeWithContext(context.Background(), sconn, sconn)
			})
			idle := func() bool {
				if server.Done() {
					return true
				}
				p, site := server.Parked()
				return p && strings.HasPrefix(site, "pipe.read:") && cconn.W.Buffered() == 0
			}
			sim.Spawn("pipe-client", func() {
				defer cconn.Close()
				for op := 0; op < pipeOps && !e.Violated() && e.Res.HarnessError == ""; op++ {
					sim.Y("pipe-client.idle")
					nReq++
					nextNonce++
					var extra hx.Meta
					if tp.Bool(1, 2) {
						extra = hx.M(hx.KReqID, fmt.Sprintf("pipe-rid-%d", nReq))
					}
					if tp.Bool(1, 2) {
						sc := hx.GenUnaryScript(tp, nextNonce)
						m := hx.UnaryMethods[tp.Draw(len(hx.UnaryMethods))]
						rq := &c38Req{n: nReq, transport: "pipe", kind: "unary", method: m, mtype: "unary", ident: idents[0], script: sc}
						cur["pipe-server"] = rq
						if _, err := cconn.Write(hx.RequestBytes(m, sc, extra)); err != nil {
							e.Harness("C38 pipe: write: %v", err)
							return
						}
						if _, err := hx.ReadStream(cconn); err != nil {
							e.Harness("C38 pipe: reading unary response: %v", err)
							return
						}
						sim.Yield("pipe-client.await-server-idle", idle)
						judge(rq)
						continue
					}
					kind := []string{"producer", "exchange"}[tp.Draw(2)]
					m := map[string]string{"producer": "prod2", "exchange": "exch2"}[kind]
					sc := hx.GenStreamScript(tp, nextNonce, kind, hx.GenOpts{MaxTurns: 4, FailBias: 3})
					if tp.Bool(1, 6) {
						hx.GenInitFailure(tp, sc)
					}
					st := &c38Stream{id: -1, method: m, kind: kind, script: sc, ident: idents[0]}
					rq := &c38Req{n: nReq, transport: "pipe", kind: "stream", method: m, mtype: "stream", stream: st, ident: idents[0], script: sc}
					cur["pipe-server"] = rq
					if _, err := cconn.Write(hx.RequestBytes(m, sc, extra)); err != nil {
						e.Harness("C38 pipe: write: %v", err)
						return
					}
					if err := c38PipeStream(cconn, kind, 1+tp.Draw(4)); err != nil {
						e.Harness("C38 pipe: stream %s: %v", m, err)
						return
					}
					sim.Yield("pipe-client.await-server-idle", idle)
					judge(rq)
				}
			})
		}

		reason, _ := sim.Run(simkern.RunOpts{
			MaxSteps: 30000,
			Done:     sim.RootsDone,
			Extra: func() []simkern.Action {
				var acts []simkern.Action
				acts = append(acts, simkern.Action{Name: "advance clock", Weight: 1, Do: func() {
					d := []time.Duration{time.Millisecond, 37 * time.Millisecond, 2 * time.Second}[tp.Draw(3)]
					sim.Fault("clock-advance")
					sim.Logf("advance %v", d)
					sim.Advance(d)
				}})
				if paired == 0 {
					for i := range cl.Inst {
						i := i
						acts = append(acts, simkern.Action{Name: fmt.Sprintf("restart w%d", i), Weight: 1, Do: func() {
							sim.Fault("instance-restart")
							cl.Restart(i)
						}})
					}
				}
				return acts
			},
		})
		e.Conclude(sim, reason, false)
		e.Res.Nontrivial = judged > 0
		nStreamRecs := 0
		for _, s := range streams {
			nStreamRecs += s.records
		}
		sample = append(sample, fmt.Sprintf("%d requests, %d log lines judged, %d http streams with %d records, trace provider calls %d", nReq, judged, len(streams), nStreamRecs, traceCalls))
	})
	if left != "" && !e.Violated() {
		e.Harness("bubble: %s", left)
	}
	e.Res.Sample = sample
}

// c38PipeStream runs the client side of one stream call on a pipe after the
// request was written: open the input stream and write the first input before
// reading anything, then one input per data batch, input EOS on an error batch
// or when the output ends.
func c38PipeStream(conn *hx.Conn, kind string, exchangeTurns int) error {
	var first arrow.RecordBatch
	mkInput := func(i int64) arrow.RecordBatch {
		if kind == "exchange" {
			return hx.Int64Batch("x", []int64{i}, false)
		}
		return hx.EmptyBatch()
	}
	first = mkInput(1)
	iw := ipc.NewWriter(conn, ipc.WithSchema(first.Schema()))
	closed := false
	closeInput := func() error {
		if closed {
			return nil
		}
		closed = true
		return iw.Close()
	}
	if err := iw.Write(first); err != nil {
		return fmt.Errorf("first input: %w", err)
	}
	first.Release()
	rd, err := ipc.NewReader(conn)
	if err != nil {
		_ = closeInput()
		return fmt.Errorf("opening output stream: %w", err)
	}
	defer rd.Release()
	sentInputs := int64(1)
	for rd.Next() {
		b := hx.DecodeBatch(rd.RecordBatch())
		switch b.Kind {
		case "error":
			if err := closeInput(); err != nil {
				return err
			}
		case "data":
			if closed {
				continue
			}
			if kind == "exchange" && int(sentInputs) >= exchangeTurns {
				if err := closeInput(); err != nil {
					return err
				}
				continue
			}
			sentInputs++
			in := mkInput(sentInputs)
			err := iw.Write(in)
			in.Release()
			if err != nil {
				return fmt.Errorf("input %d: %w", sentInputs, err)
			}
		}
	}
	if err := rd.Err(); err != nil && err != io.EOF {
		_ = closeInput()
		return fmt.Errorf("output stream: %w", err)
	}
	return closeInput()
}

// c38JudgeLine is the oracle for one access-log line attributed to rq.
func c38JudgeLine(e *simkern.Env, sim *simkern.Sim, rq *c38Req, l *alogw.Line, redactMode int) {
	site := rq.site()
	short := alogw.Short(l.Raw, 700)
	if l.Bad != "" {
		e.Violate("not-one-json-object", site, "log line for %s %s is not exactly one JSON object (%s): %s", rq.kind, rq.method, l.Bad, short)
		return
	}
	o := l.Obj
	// -- required fields and types --
	ts, ok := alogw.Str(o, "timestamp")
	if !ok {
		e.Violate("bad-field:timestamp", site, "timestamp missing or not a string: %s", short)
		return
	}
	if _, err := time.Parse(time.RFC3339Nano, ts); err != nil {
		e.Violate("bad-field:timestamp", site, "timestamp %q is not an ISO-8601 instant: %s", ts, short)
		return
	}
	if m, ok := alogw.Str(o, "method"); !ok || m != rq.method {
		e.Violate("bad-field:method", site, "method is %v, the call was to %q: %s", o["method"], rq.method, short)
		return
	}
	if mt, ok := alogw.Str(o, "method_type"); !ok || (mt != "unary" && mt != "stream") || mt != rq.mtype {
		e.Violate("bad-field:method_type", site, "method_type is %v, the call was a %s call: %s", o["method_type"], rq.mtype, short)
		return
	}
	if st, ok := alogw.Str(o, "status"); !ok || (st != "ok" && st != "error") {
		e.Violate("bad-field:status", site, "status is %v, want \"ok\" or \"error\": %s", o["status"], short)
		return
	}
	if ph, ok := alogw.Str(o, "protocol_hash"); !ok || !alogw.IsLowerHex(ph, 64) {
		e.Violate("bad-field:protocol_hash", site, "protocol_hash is %v, want 64 lowercase hex characters: %s", o["protocol_hash"], short)
		return
	}
	if d, ok := alogw.Num(o, "duration_ms"); !ok || d < 0 {
		e.Violate("bad-field:duration_ms", site, "duration_ms is %v, want a non-negative number: %s", o["duration_ms"], short)
		return
	} else if d > 0 {
		sim.Probe("duration-positive")
	}
	if _, ok := alogw.Str(o, "server_id"); !ok {
		e.Violate("bad-field:server_id", site, "server_id missing or not a string: %s", short)
		return
	}
	if _, ok := o["authenticated"].(bool); !ok {
		e.Violate("bad-field:authenticated", site, "authenticated is %v, want a boolean: %s", o["authenticated"], short)
		return
	}
	if rq.transport == "http" {
		if rid, ok := alogw.Str(o, "request_id"); !ok || rid == "" {
			e.Violate("bad-field:request_id", site, "HTTP record without a request_id string: %s", short)
			return
		}
	}
	// -- stream id --
	if rq.mtype == "stream" {
		sid, ok := alogw.Str(o, "stream_id")
		if !ok || !alogw.IsLowerHex(sid, 32) {
			e.Violate("bad-stream-id", site, "stream record with stream_id %v, want 32 lowercase hex characters: %s", o["stream_id"], short)
			return
		}
		st := rq.stream
		st.records++
		if st.sid == "" {
			st.sid, st.sidFrom = sid, fmt.Sprintf("%s request #%d on %s", rq.kind, rq.n, l.Tag)
		} else if st.sid != sid {
			e.Violate("stream-id-changes", site, "stream %s (%s): the record of %s request #%d on %s carries stream_id %s, the record of its %s carried %s", st.method, st.kind, rq.kind, rq.n, l.Tag, sid, st.sidFrom, st.sid)
			return
		} else {
			sim.Probe("stream-id-stable-across-records")
		}
	}
	// -- trace correlation: both or neither, well-formed --
	tr, hasT := o["trace_id"]
	sp, hasS := o["span_id"]
	if hasT != hasS {
		e.Violate("trace-half-pair", site, "trace_id present=%v, span_id present=%v: %s", hasT, hasS, short)
		return
	}
	if hasT {
		ts, _ := tr.(string)
		ss, _ := sp.(string)
		if !alogw.IsLowerHex(ts, 32) || !alogw.IsLowerHex(ss, 16) {
			e.Violate("trace-malformed", site, "trace_id %v / span_id %v are not 32 / 16 lowercase hex characters: %s", tr, sp, short)
			return
		}
		sim.Probe("trace-ids-present")
	} else {
		sim.Probe("trace-ids-absent")
	}
	// -- payload or the omitted marker on unary and stream-init records --
	if rq.kind != "cont" {
		rd, hasRD := o["request_data"]
		tm, _ := alogw.Str(o, "truncated")
		switch {
		case hasRD:
			s, ok := rd.(string)
			raw, err := base64.StdEncoding.DecodeString(s)
			if !ok || s == "" || err != nil {
				e.Violate("payload-not-base64", site, "request_data is not a non-empty base64 string: %s", short)
				return
			}
			sts, perr := hx.ParseStreams(raw)
			if perr != nil || len(sts) != 1 || len(sts[0].Batches) != 1 {
				e.Violate("payload-not-the-request", site, "request_data does not decode to one IPC stream with one batch (%v): %s", perr, short)
				return
			}
			if rq.script != nil {
				var rows []map[string]any
				_ = json.Unmarshal([]byte(sts[0].Batches[0].JSON), &rows)
				if len(rows) != 1 || rows[0]["script"] != rq.script.Encode() {
					e.Violate("payload-not-the-request", site, "request_data decodes to %s, the request's parameters were script=%s", alogw.Short(sts[0].Batches[0].JSON, 300), alogw.Short(rq.script.Encode(), 300))
					return
				}
			}
			sim.Probe("payload-present")
		case tm == "payload_omitted":
			sim.Probe("payload-omitted-marker")
		default:
			e.Violate("payload-and-marker-missing", site, "%s record carries neither request_data nor truncated=\"payload_omitted\": %s", rq.kind, short)
			return
		}
	}
	// -- claims --
	forbidden, panics := rq.ident.forbidden(redactMode)
	if panics {
		if _, has := o["claims"]; has {
			e.Violate("claims-after-redactor-panic", site, "the claim redactor panicked for this identity, yet the record carries claims: %s", short)
			return
		}
		sim.Probe("claims-dropped-after-redactor-panic")
	}
	for _, mk := range forbidden {
		if strings.Contains(l.Raw, mk) {
			e.Violate("sensitive-claim-verbatim", site, "redactor %s: claim value %s appears verbatim in the record: %s", c38RedactNames[redactMode], mk, short)
			return
		}
	}
	if len(forbidden) > 0 && !panics {
		sim.Probe("sensitive-claims-checked")
	}
	if _, has := o["claims"]; has {
		sim.Probe("claims-present")
	}
	// -- HTTP byte counts --
	if rq.transport == "http" && rq.resp != nil && rq.resp.Panicked == nil {
		rb, ok := alogw.Int(o, "request_bytes")
		if !ok || rb != int64(rq.sent) {
			e.Violate("request-bytes-mismatch", site, "request_bytes is %v, the request body on the wire was %d bytes: %s", o["request_bytes"], rq.sent, short)
			return
		}
		wb, ok := alogw.Int(o, "response_bytes")
		if !ok || wb != int64(len(rq.resp.Body)) {
			e.Violate("response-bytes-mismatch", site, "response_bytes is %v, the response body on the wire was %d bytes (Content-Encoding %q, status %d): %s", o["response_bytes"], len(rq.resp.Body), rq.resp.Header.Get("Content-Encoding")+rq.resp.Header.Get("X-VGI-Content-Encoding"), rq.resp.Status, short)
			return
		}
		sim.Probe("byte-counts-checked")
	}
}

// warmAlog creates the process-wide codecs (token zstd codec, response
// encoders, request decoders) outside any bubble.
func warmAlog() {
	warmHTTP()
	var sink []*alogw.Line
	cl := httpw.NewCluster(httpw.Config{Key: []byte("0123456789abcdef0123456789abcdef"), CacheSizes: []int{-1}, BatchLimit: 1, NoTwin: true,
		Setup: func(i int, srv *vgirpc.Server, h *vgirpc.HttpServer) {
			srv.SetDispatchHook(vgirpc.NewAccessLogHook(alogw.NewWriter(nil, "warm", &sink), ""))
		}})
	sc := &hx.Script{Nonce: 3, Outcome: "ok", Pad: 3000}
	body := httpw.InitBody("u_str", sc, hx.Meta{})
	for _, acc := range []string{"zstd", "gzip"} {
		hx.Do(cl.Inst[0].H, hx.Req{Path: "/u_str", Body: body, Accept: acc})
		hx.Do(cl.Inst[0].H, hx.Req{Path: "/u_str", Body: c38Zstd.EncodeAll(body, nil), Header: map[string]string{"Content-Encoding": "zstd"}, XAccept: acc})
	}
	hx.Rec.Reset()
}

func init() {
	Registry["C38"] = &Info{
		Run:   C38,
		Level: "exploration",
		Rule:  "each run draws debug on/off, 1-2 HTTP instances (call-cache default/0/1) sharing a token key, producer batch limit 1-2, response compression on/off, a trace provider (none / valid / per-call plan of valid, uppercase, dashed, wrong-length, half-pair, non-hex, panicking / always panicking), a claim redactor (default / custom replace / custom drop / none / panicking / panicking for identities with a trip claim), 1-3 authenticated identities with generated claim sets (documented sensitive names and plain names; string, object and list values carrying unique markers), 1-2 HTTP client tasks and optionally a pipe session; clients issue unary calls (ok/error/panic/malformed parameters), stream inits (5 methods incl. dynamic and header-bearing, some failing) and continuations/cancels routed to any instance, with per-request choice of X-Request-ID, batch request id, Accept-Encoding / X-VGI-Accept-Encoding (zstd, gzip) and request compression; the scheduler interleaves the clients at woven points, advances the clock and restarts instances; every log line is attributed to the request in flight of the task that wrote it and judged; distinct = distinct schedule fingerprint; non-trivial = at least one line judged; one unary request in six is cut by the peer hanging up mid-body (response_bytes must equal what did cross the wire); one run in six is the async-lines mode instead: 2-3 tasks end dispatches concurrently on one hook with the real async emitter (queue 1-4) while a closer retires the emitter, the log file takes every write in two pieces and stalls at times, and every line must still be exactly one JSON object",
		Real:  []string{"vgirpc.AccessLogHook (record assembly, redaction, trace correlation, egress recorder flush)", "vgirpc.HttpServer.ServeHTTP incl. response compression and request decompression", "vgirpc.Server.ServeWithContext on a simulated pipe", "stream tokens / call-state cache"},
		Stub:  []string{"HTTP transport (direct ServeHTTP call, httptest recorder)", "protocol client (arrow-go IPC)", "scripted handlers and stream states", "authenticator, trace provider, claim redactor (harness callbacks)", "log files (harness io.Writer)"},
		Quick: 1000, Thorough: 40000,
		Warm:       warmAlog,
		FaultKinds: []string{"clock-advance", "instance-restart", "trace-malformed", "trace-provider-panic", "redactor-panic", "peer-hangup-mid-response", "emitter-retired-under-traffic", "writer-stall"},
		Assumptions: []string{
			"the access-log JSON schema lives in the Python repository; 'required fields' is limited to timestamp (ISO-8601 string), method, method_type, status, 64-hex protocol_hash, non-negative duration_ms, server_id (string), authenticated (boolean) and, over HTTP, a non-empty request_id string",
			"method and method_type are compared with the call the harness issued (needed to know which records are stream records); status is only checked to be ok|error, not compared with the outcome",
			"request_data, when present, must be base64 of one IPC stream with one batch whose script parameter is the one sent; the omitted marker is truncated=\"payload_omitted\" as this repository documents",
			"'sensitive' under the default policy = the claim names the repository documents (credential names, OIDC personal-data names, *_token, api_key, client_secret, phone_number) at the top level of the claim set; under a custom redactor = the names that redactor treats as sensitive; verbatim = the unique marker string inside the value occurs anywhere in the line",
			"a call need not produce a record (requests refused before dispatch produce none); only records that exist are judged",
			"over HTTP the wire sizes are the request body handed to ServeHTTP (after the harness compressed it) and the body the response recorder received (after the server compressed it)",
		},
	}
}
