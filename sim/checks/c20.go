package checks

import (
	"fmt"
	"net/http"
	"sort"
	"strings"
	"time"

	"verifsim/hx"
	"verifsim/simkern"
	"verifsim/worlds/httpw"
	"verifsim/worlds/lazyw"
)

// Header names restated from the wire documentation (docs/ and the Python
// reference), not imported from the code under test.
const (
	c20ReqID      = "X-Request-ID"
	c20Encodings  = "VGI-Supported-Encodings"
	c20ExtEnabled = "VGI-Externalization-Enabled"
	c20MaxReq     = "VGI-Max-Request-Bytes"
	c20MaxResp    = "VGI-Max-Response-Bytes"
	c20MaxExt     = "VGI-Max-Externalized-Response-Bytes"
	c20UploadSup  = "VGI-Upload-URL-Support"
	c20MaxUpload  = "VGI-Max-Upload-Bytes"
	c20Expose     = "Access-Control-Expose-Headers"
)

var c20Kinds = []string{
	"unary-ok", "stream-init-ok", "describe", "health", "landing", "describe-page", "options", "unknown-path",
	"unknown-method", "auth-reject", "auth-unavailable", "auth-error", "oversize", "wrong-content-type",
	"bad-content-encoding", "introspect", "introspect-forbidden", "upload-url", "sticky-open", "sticky-resume",
	"sticky-close", "session-delete", "sticky-bogus", "malformed-body", "exchange-bogus-token", "well-known",
	"handler-error", "method-not-allowed", "unary-big", "options-bare",
}
var c20KindWeights = []int{
	4, 2, 1, 2, 1, 1, 3, 2,
	2, 4, 2, 1, 3, 2,
	2, 4, 1, 2, 3, 3,
	2, 1, 1, 1, 1, 1,
	2, 1, 2, 1,
}

// c20IDVariants: how the caller's X-Request-ID is chosen. 0 = none.
const c20IDVariantCount = 13

func c20CallerID(variant int, n int64) (raw string, present bool) {
	rep := func(s string, k int) string { return strings.Repeat(s, k) }
	switch variant {
	case 0:
		return "", false
	case 1:
		return fmt.Sprintf("req-%d", n), true
	case 2:
		return fmt.Sprintf("  padded-%d\t ", n), true
	case 3:
		return "", true
	case 4:
		return " \t  ", true
	case 5:
		s := fmt.Sprintf("b128-%d-", n)
		return s + rep("k", 128-len(s)), true
	case 6:
		s := fmt.Sprintf("b129-%d-", n)
		return s + rep("k", 129-len(s)), true
	case 7:
		s := fmt.Sprintf("w128-%d-", n)
		return " \t" + s + rep("w", 128-len(s)) + "  ", true
	case 8:
		return rep("L", 300), true
	case 9:
		return rep("€", 42) + "ab", true // 128 bytes, 44 runes
	case 10:
		return rep("€", 43), true // 129 bytes, 43 runes
	case 11:
		return "0123456789abcdef", true
	}
	return "x", true
}

func isHex16(s string) bool {
	if len(s) != 16 {
		return false
	}
	for _, c := range s {
		if !(c >= '0' && c <= '9' || c >= 'a' && c <= 'f') {
			return false
		}
	}
	return true
}

// c20Family reports whether a response header is a capability / rejection /
// correlation header a cross-origin client has to be able to read.
func c20Family(name string) bool {
	l := strings.ToLower(name)
	return strings.HasPrefix(l, "vgi-") || strings.HasPrefix(l, "x-vgi-") || l == "x-request-id" || l == "www-authenticate"
}

func c20ExposeSet(v string) map[string]bool {
	out := map[string]bool{}
	for _, p := range strings.Split(v, ",") {
		p = strings.ToLower(strings.TrimSpace(p))
		if p != "" {
			out[p] = true
		}
	}
	return out
}

func c20DrawConfig(tp *simkern.Tape) lazyw.Config {
	c := lazyw.Config{}
	c.HookFailures = tp.Draw(3)
	c.NoHook = tp.Bool(1, 8)
	c.Prefix = []string{"", "/vgi"}[tp.Draw(2)]
	c.Cors = []string{"", "*", "https://app.example"}[tp.Draw(3)]
	c.Compression = []int{-1, 0, 2}[tp.Draw(3)]
	c.MaxRequestBytes = []int64{0, 700, 5000}[tp.Draw(3)]
	c.MaxResponseBytes = []int64{0, 100000, 2000}[tp.Draw(3)]
	c.CapsInHook = !c.NoHook && tp.Bool(1, 3)
	c.MaxExternalizedBytes = []int64{0, 1 << 20}[tp.Draw(2)]
	c.UploadProvider = tp.Bool(1, 2)
	if c.UploadProvider {
		c.MaxUploadBytes = []int64{0, 1 << 22}[tp.Draw(2)]
	}
	c.ProofRequired = tp.Bool(1, 3)
	if tp.Bool(1, 3) {
		c.ProxyAuthHeaders = []string{"X-Proxy-User"}
	}
	c.Introspection = tp.Bool(1, 2)
	c.IntrospectRate = []int{1, 2, 0}[tp.Draw(3)]
	c.Sticky = tp.Bool(1, 2)
	c.StickyTTL = []time.Duration{0, 20 * time.Second}[tp.Draw(2)]
	switch tp.Draw(3) {
	case 1:
		c.EchoHeaders = map[string]string{"fly-force-instance-id": "i-1"}
	case 2:
		c.EchoHeaders = map[string]string{"fly-force-instance-id": "i-1", "X-Route-Hint": "blue"}
	}
	c.ExternalStorage = tp.Bool(1, 2)
	if !c.ExternalStorage {
		c.ExternalFetchOnly = tp.Bool(1, 3) // cannot externalize: the header still has to be there, saying false
	}
	c.ExternalThreshold = 600
	c.OAuthMetadata = tp.Bool(1, 2)
	c.WithAuth = !tp.Bool(1, 6)
	c.AccessLog = tp.Bool(1, 2)
	c.DispatchHook = tp.Bool(1, 2)
	c.NoLanding = tp.Bool(1, 6)
	c.NoDescribePage = tp.Bool(1, 6)
	c.NoNotFoundPage = tp.Bool(1, 6)
	c.BatchLimit = tp.Draw(2)
	return c
}

type c20Plan struct {
	kind    int
	id      int
	accept  int
	variant int
}

// C20 — correlation and capability headers on every response (monitor over
// world L with swarm configuration).
func C20(e *simkern.Env) {
	tp := e.Tape
	cfg := c20DrawConfig(tp)
	nTasks := 1 + tp.Draw(3)
	perTask := 4 + tp.Draw(6)
	if e.Tier == "thorough" {
		perTask = 4 + tp.Draw(14)
	}
	plan := make([][]c20Plan, nTasks)
	for t := range plan {
		plan[t] = make([]c20Plan, perTask)
		for i := range plan[t] {
			plan[t][i] = c20Plan{kind: tp.Weighted(c20KindWeights), id: tp.Draw(c20IDVariantCount), accept: tp.Draw(5), variant: tp.Draw(4)}
		}
	}
	e.Knob("config", fmt.Sprintf("%+v", cfg))
	e.Knob("tasks", nTasks)
	e.Knob("requests_per_task", perTask)

	var sample []string
	left := e.Bubble(func() {
		sim := simkern.NewSim(tp, e.Trace)
		defer sim.Close()
		hx.Rec.Reset()
		w, err := lazyw.New(sim, cfg)
		if err != nil {
			e.Harness("world L: %v", err)
			return
		}
		defer w.Close()

		minted := map[string]int{}
		family := map[string]string{} // lower-case header name -> where first seen
		type exposeObs struct {
			set  map[string]bool
			raw  string
			site string
			seq  int
		}
		var exposes []exposeObs
		seenExpose := map[string]bool{}
		nonOK := 0
		lastSession := ""

		monitor := func(x *lazyw.Exchange) {
			r := x.Resp
			if r.Panicked != nil {
				// no response exists (net/http would abort the connection);
				// escaped panics are other properties' business
				sim.Probe("panicked-no-response")
				return
			}
			site := fmt.Sprintf("status-%d", r.Status)
			sim.Probe(fmt.Sprintf("status-%d", r.Status))
			if r.Status >= 400 {
				nonOK++
			}
			desc := fmt.Sprintf("response #%d to %s %s %s (task %s): status %d", x.Seq, x.Kind, reqMethod(x.Req), x.Req.Path, x.Task, r.Status)
			h := r.Header

			// 1. correlation id
			raw, present := "", false
			for k, v := range x.Req.Header {
				if strings.EqualFold(k, c20ReqID) {
					raw, present = v, true
				}
			}
			trimmed := strings.Trim(raw, " \t")
			vals := h.Values(c20ReqID)
			if len(vals) != 1 {
				e.Violate("request-id-missing", site, "%s: carries %d X-Request-ID values %q (caller sent %q, present=%v)", desc, len(vals), vals, raw, present)
				return
			}
			got := vals[0]
			if len(trimmed) >= 1 && len(trimmed) <= 128 {
				sim.Probe("request-id-echo-expected")
				if got != trimmed {
					e.Violate("request-id-not-echoed", "request-id", "%s: caller id %q (trimmed %q, %d bytes) must be echoed, response has %q", desc, raw, trimmed, len(trimmed), got)
					return
				}
			} else {
				sim.Probe("request-id-mint-expected")
				if !isHex16(got) {
					e.Violate("request-id-not-minted", "request-id", "%s: caller id %q (trimmed length %d bytes, present=%v) is unusable, so the id must be 16 lowercase hex characters; response has %q", desc, head(raw, 140), len(trimmed), present, got)
					return
				}
				if prev, dup := minted[got]; dup {
					e.Violate("request-id-not-fresh", "minted-id", "%s: minted id %q was already used on response #%d of this run", desc, got, prev)
					return
				}
				minted[got] = x.Seq
			}

			// 2. capability headers after the serve-start hook has succeeded
			hookDone := cfg.NoHook || w.Succ >= 1
			if hookDone && !x.SawHookFailure() {
				sim.Probe("capability-headers-required")
				must := func(name, want string) bool {
					vs, ok := h[http.CanonicalHeaderKey(name)]
					if !ok || len(vs) == 0 {
						e.Violate("capability-header-missing", site, "%s: produced after the serve-start hook succeeded but lacks %s (configuration wants %q)", desc, name, want)
						return false
					}
					if vs[0] != want {
						e.Violate("capability-header-inconsistent", site, "%s: %s is %q, configuration wants %q", desc, name, vs[0], want)
						return false
					}
					return true
				}
				mustNot := func(name string) bool {
					if vs, ok := h[http.CanonicalHeaderKey(name)]; ok {
						e.Violate("capability-header-inconsistent", site, "%s: %s is advertised (%q) although the configuration does not enable it", desc, name, vs)
						return false
					}
					return true
				}
				encVals, ok := h[http.CanonicalHeaderKey(c20Encodings)]
				if !ok || len(encVals) == 0 {
					e.Violate("capability-header-missing", site, "%s: produced after the serve-start hook succeeded but lacks %s", desc, c20Encodings)
					return
				}
				adv := c20ExposeSet(encVals[0])
				if cfg.Compression == 0 && len(adv) != 0 {
					e.Violate("capability-header-inconsistent", site, "%s: compression is off but %s advertises %q", desc, c20Encodings, encVals[0])
					return
				}
				if cfg.Compression != 0 && len(adv) == 0 {
					e.Violate("capability-header-inconsistent", site, "%s: compression is on but %s is empty", desc, c20Encodings)
					return
				}
				for _, eh := range []string{"Content-Encoding", "X-VGI-Content-Encoding"} {
					if v := h.Get(eh); v != "" && !adv[strings.ToLower(v)] {
						e.Violate("capability-header-inconsistent", site, "%s: body is coded %s=%q which %s=%q does not advertise", desc, eh, v, c20Encodings, encVals[0])
						return
					}
				}
				extWant := "false"
				if cfg.ExternalStorage {
					extWant = "true"
				}
				if !must(c20ExtEnabled, extWant) {
					return
				}
				num := func(name string, n int64) bool {
					if n > 0 {
						return must(name, fmt.Sprint(n))
					}
					return mustNot(name)
				}
				if !num(c20MaxReq, cfg.MaxRequestBytes) || !num(c20MaxResp, cfg.MaxResponseBytes) || !num(c20MaxExt, cfg.MaxExternalizedBytes) {
					return
				}
				if cfg.UploadProvider {
					if !must(c20UploadSup, "true") || !num(c20MaxUpload, cfg.MaxUploadBytes) {
						return
					}
				} else if !mustNot(c20UploadSup) || !mustNot(c20MaxUpload) {
					return
				}
			} else {
				sim.Probe("response-before-hook-success")
			}

			// 3. CORS exposure
			if cfg.Cors != "" {
				for name := range h {
					if c20Family(name) {
						l := strings.ToLower(name)
						if _, ok := family[l]; !ok {
							family[l] = fmt.Sprintf("the %s answer to %s (response #%d)", site, x.Kind, x.Seq)
						}
					}
				}
				if ev, ok := h[http.CanonicalHeaderKey(c20Expose)]; ok && len(ev) > 0 {
					sim.Probe("cors-expose-list-seen")
					set := c20ExposeSet(strings.Join(ev, ","))
					names := make([]string, 0, len(h))
					for name := range h {
						names = append(names, name)
					}
					sort.Strings(names)
					for _, name := range names {
						if c20Family(name) && !set[strings.ToLower(name)] {
							e.Violate("header-not-exposed", strings.ToLower(name), "%s: carries %s but Access-Control-Expose-Headers (%q) does not list it", desc, name, ev[0])
							return
						}
					}
					if !seenExpose[ev[0]] {
						seenExpose[ev[0]] = true
						exposes = append(exposes, exposeObs{set, ev[0], site, x.Seq})
					}
				}
			}
			if v := h.Get("VGI-Session"); v != "" {
				lastSession = v
				sim.Probe("sticky-token-minted")
			}
			if h.Get("VGI-Session-Close") != "" {
				sim.Probe("sticky-close-header")
			}
			if h.Get("WWW-Authenticate") != "" {
				sim.Probe("www-authenticate-seen")
			}
			if h.Get("X-VGI-Content-Encoding") != "" {
				sim.Probe("custom-content-encoding-seen")
			}
			if h.Get("X-VGI-RPC-Error") != "" {
				sim.Probe("rpc-error-header-seen")
			}
		}

		nonce := int64(5000)
		build := func(p c20Plan) (string, hx.Req, int64) {
			nonce++
			n := nonce
			kind := c20Kinds[p.kind]
			hdr := map[string]string{}
			rq := hx.Req{Header: hdr}
			switch p.accept {
			case 1:
				rq.Accept = "zstd"
			case 2:
				rq.Accept = "gzip"
			case 3:
				rq.XAccept = "zstd"
			case 4:
				rq.XAccept = "gzip"
				rq.Accept = "br"
			}
			okScript := &hx.Script{Nonce: n, Outcome: "ok"}
			unary := func(m string, sc *hx.Script) {
				rq.Path = w.P("/" + m)
				rq.Body = hx.RequestBytes(m, sc, hx.Meta{})
			}
			switch kind {
			case "unary-ok":
				unary(hx.UnaryMethods[int(n)%len(hx.UnaryMethods)], okScript)
			case "unary-big":
				unary("u_str", &hx.Script{Nonce: n, Outcome: "ok", Pad: 3000})
			case "handler-error":
				unary("u_int", &hx.Script{Nonce: n, Outcome: "error", Err: &hx.ErrSpec{Shape: "rpc", Type: "ValueError", Msg: "scripted"}})
			case "stream-init-ok":
				m, mode := "prod2", "producer"
				if p.variant%2 == 1 {
					m, mode = "exch2", "exchange"
				}
				rq.Path = w.P("/" + m + "/init")
				rq.Body = hx.RequestBytes(m, &hx.Script{Nonce: n, Outcome: "ok", Mode: mode, Turns: []hx.Step{{Act: "emit"}, {Act: "emit"}, {Act: "emit"}}}, hx.Meta{})
			case "describe":
				rq.Path = w.P("/__describe__")
				rq.Body = hx.RawRequestBytes(hx.EmptyBatch(), hx.M(hx.KMethod, "__describe__", hx.KReqVersion, "1"))
			case "health":
				rq.Method, rq.Path = "GET", "/health"
				if p.variant%2 == 1 {
					rq.Path = w.P("/health")
				}
			case "landing":
				rq.Method, rq.Path = "GET", w.P("")
				if rq.Path == "" {
					rq.Path = "/"
				}
			case "describe-page":
				rq.Method, rq.Path = "GET", w.P("/describe")
			case "options":
				rq.Method = "OPTIONS"
				rq.Path = []string{w.P("/u_int"), "/health", w.P("/prod2/init"), "/elsewhere"}[p.variant]
				hdr["Origin"] = "https://app.example"
				hdr["Access-Control-Request-Method"] = "POST"
				hdr["Access-Control-Request-Headers"] = "content-type, vgi-session"
			case "options-bare":
				rq.Method, rq.Path = "OPTIONS", w.P("/u_int")
			case "unknown-path":
				rq.Method = "GET"
				rq.Path = []string{"/no/such/page", w.P("/a/b/c/d"), "/favicon.ico", w.P("/x/y")}[p.variant]
			case "unknown-method":
				unary("no_such_method", okScript)
			case "auth-reject":
				hdr[lazyw.AuthHeader] = []string{"reject", "missing", "perm", "value"}[p.variant]
				unary("u_int", okScript)
				if n%3 == 0 {
					rq.Path = w.P("/prod2/init")
					rq.Body = hx.RequestBytes("prod2", &hx.Script{Nonce: n, Outcome: "ok", Mode: "producer"}, hx.Meta{})
				}
			case "auth-unavailable":
				hdr[lazyw.AuthHeader] = "unavail"
				unary("u_str", okScript)
			case "auth-error":
				hdr[lazyw.AuthHeader] = "error"
				unary("u_str", okScript)
			case "oversize":
				unary("u_str", &hx.Script{Nonce: n, Outcome: "ok", Logs: []hx.LogSpec{{Level: "INFO", Msg: strings.Repeat("o", 6000)}}})
				if p.variant == 3 {
					rq.Path = w.P("/__upload_url__/init")
				}
			case "wrong-content-type":
				unary("u_int", okScript)
				if p.variant%2 == 0 {
					rq.NoCT = true
				} else {
					hdr["Content-Type"] = "application/json"
				}
				if p.variant >= 2 {
					rq.Path = w.P("/prod2/init")
				}
			case "bad-content-encoding":
				unary("u_int", okScript)
				hdr["Content-Encoding"] = []string{"br", "deflate", "zstd", "gzip"}[p.variant]
			case "introspect", "introspect-forbidden":
				rq.Path = w.P("/__introspect_token__")
				rq.NoCT = true
				hdr["Content-Type"] = "application/json"
				rq.Body = []byte(fmt.Sprintf(`{"token":"tok-%d"}`, n%7))
				hdr[lazyw.AuthHeader] = "id:proxy"
				if kind == "introspect-forbidden" {
					hdr[lazyw.AuthHeader] = []string{"id:mallory", "", "reject", "unavail"}[p.variant]
				} else {
					w.ResolverMode = []string{"ok", "ok", "unresolved", "unavail"}[p.variant]
				}
			case "upload-url":
				rq.Path = w.P("/__upload_url__/init")
				rq.Body = hx.RawRequestBytes(hx.Int64Batch("count", []int64{int64(1 + p.variant)}, false), hx.M(hx.KMethod, "__upload_url__", hx.KReqVersion, "1"))
			case "sticky-open":
				w.SessionAct[n] = "open"
				hdr["VGI-Session-Accept"] = "true"
				unary("u_int", okScript)
			case "sticky-resume", "sticky-close":
				if kind == "sticky-close" {
					w.SessionAct[n] = "close"
				}
				if lastSession != "" {
					hdr["VGI-Session"] = lastSession
				}
				hdr["VGI-Session-Accept"] = "true"
				unary("u_int", okScript)
			case "sticky-bogus":
				hdr["VGI-Session"] = "AQID-not-a-token"
				unary("u_int", okScript)
			case "session-delete":
				rq.Method, rq.Path = "DELETE", w.P("/__session__")
				if lastSession != "" && p.variant%2 == 0 {
					hdr["VGI-Session"] = lastSession
				} else if p.variant == 1 {
					hdr["VGI-Session"] = "garbage"
				}
			case "malformed-body":
				rq.Path = w.P("/u_int")
				// (bodies whose first word is a huge length make the IPC reader
				// allocate that much; they only cost time and are left to C03)
				valid := hx.RequestBytes("u_int", okScript, hx.Meta{})
				rq.Body = [][]byte{
					{0xff, 0xff, 0xff, 0xff, 0x10, 0, 0, 0, 1, 2, 3, 4, 5, 6, 7, 8, 9, 10, 11, 12, 13, 14, 15, 16},
					nil,
					{0xff, 0xff, 0xff, 0xff, 0, 0, 0, 0},
					valid[:len(valid)/2],
				}[p.variant]
			case "exchange-bogus-token":
				rq.Path = w.P("/exch2/exchange")
				rq.Body = hx.RawRequestBytes(hx.Int64Batch("x", []int64{1}, false), hx.M(hx.KState, "AAAAbogus", hx.KCallState, "BBBBbogus"))
			case "well-known":
				rq.Method, rq.Path = "GET", "/.well-known/oauth-protected-resource"+cfg.Prefix
			case "method-not-allowed":
				rq.Method, rq.Path = []string{"PUT", "PATCH", "HEAD", "GET"}[p.variant], w.P("/u_int")
			}
			if raw, present := c20CallerID(p.id, n); present {
				hdr[c20ReqID] = raw
			}
			return kind, rq, n
		}

		inFlight := 0
		for ti := 0; ti < nTasks; ti++ {
			ti := ti
			name := fmt.Sprintf("cl%d", ti)
			sim.Spawn(name, func() {
				for i := 0; i < perTask && !e.Violated(); i++ {
					kind, rq, n := build(plan[ti][i])
					sim.Logf("%s issues %s %s %s id-variant %d", name, kind, reqMethod(rq), rq.Path, plan[ti][i].id)
					inFlight++
					x := w.Do(kind, rq, n)
					inFlight--
					sim.Logf("%s got %d for %s", name, x.Resp.Status, kind)
					monitor(x)
					switch {
					case kind == "introspect" && plan[ti][i].variant == 1:
						// a burst inside one rate-limit window
						for k := 0; k < 2 && !e.Violated(); k++ {
							x = w.Do(kind, rq, n)
							sim.Logf("%s got %d for %s (burst)", name, x.Resp.Status, kind)
							monitor(x)
						}
					case kind == "stream-init-ok" && x.Resp.Panicked == nil && x.Resp.Status == 200:
						// continue the stream once with the tokens the server handed out
						turn := httpw.Decode(x.Resp)
						if turn.Cursor != "" && !e.Violated() {
							var input []int64
							if strings.Contains(rq.Path, "exch2") {
								input = []int64{7}
							}
							cont := hx.Req{Path: strings.TrimSuffix(rq.Path, "/init") + "/exchange", Header: map[string]string{},
								Body: httpw.ContBody(turn.Cursor, turn.Call, false, input, false, hx.Meta{}), Accept: rq.Accept, XAccept: rq.XAccept}
							if raw, present := c20CallerID(plan[ti][i].id, n); present {
								cont.Header[c20ReqID] = raw
							}
							x = w.Do("stream-continuation", cont, n)
							sim.Logf("%s got %d for stream-continuation", name, x.Resp.Status)
							if x.Resp.Status == 200 {
								sim.Probe("stream-continuation-accepted")
							}
							monitor(x)
						}
					}
					sim.Y("client.between")
				}
			})
		}
		reason, _ := sim.Run(simkern.RunOpts{
			MaxSteps: 60000,
			Done:     sim.RootsDone,
			Extra: func() []simkern.Action {
				if sim.Steps%8 != 0 {
					return nil
				}
				return []simkern.Action{{Name: "advance 1s", Weight: 2, Do: func() {
					sim.Fault("clock-advance")
					sim.Advance(time.Second)
				}}}
			},
			Check: func() error {
				if e.Violated() {
					return fmt.Errorf("stop")
				}
				return nil
			},
		})
		if !e.Violated() && cfg.Cors != "" {
			// every header of the family observed anywhere in the run must be
			// in every expose list the server sent
			for _, ex := range exposes {
				for _, name := range simkern.SortedKeys(family) {
					if !ex.set[name] {
						e.Violate("header-not-exposed", name, "header %s was emitted on %s, but the Access-Control-Expose-Headers list sent on %s (response #%d) does not name it: %q", name, family[name], ex.site, ex.seq, ex.raw)
					}
				}
			}
			if len(exposes) > 0 {
				sim.Probe("cors-run-wide-exposure-checked")
			}
		}
		if reason == simkern.StopCheck {
			reason = simkern.StopDone
		}
		for _, t := range sim.Panicked() {
			e.Harness("task %s panicked: %v\n%s", t.Name, t.Panic, trimStack(t.PanicStack))
		}
		sim.Spawn("shutdown", w.Shutdown)
		e.Conclude(sim, reason, true)
		hookFailed := false
		for _, inv := range w.Invs {
			if inv.Done && !inv.OK {
				hookFailed = true
			}
		}
		e.Res.Nontrivial = hookFailed || e.Res.Interleavings > 0 || nonOK > 0
		sample = append(sample, fmt.Sprintf("hook invocations=%d successes=%d; %d minted ids; family headers seen: %s", len(w.Invs), w.Succ, len(minted), strings.Join(simkern.SortedKeys(family), ",")))
		for _, x := range w.Exchanges {
			if len(sample) > 16 {
				break
			}
			st := -1
			if x.Resp != nil {
				st = x.Resp.Status
			}
			sample = append(sample, fmt.Sprintf("#%d %s %s %s -> %d", x.Seq, x.Task, x.Kind, x.Req.Path, st))
		}
	})
	if left != "" {
		e.Harness("bubble: %s", left)
	}
	e.Res.Sample = sample
}

func init() {
	Registry["C20"] = &Info{
		Run:   C20,
		Level: "exploration",
		Rule:  "each run draws a server configuration (prefix, CORS off/*/origin, compression default/off/level 2, max request/response/externalized caps (response cap sometimes below the big result), upload provider and upload cap, proof-required advertisement, declared proxy auth headers, token introspection with rate 1/2/default, sticky with 0-2 echo headers, external storage or a fetch-only external-location configuration, OAuth resource metadata, authenticator, access log / dispatch hook, page switches, serve-start hook failing its first 0-2 invocations or absent; in a third of the runs the caps are applied by that hook when it succeeds rather than before serving) and 1-3 client tasks issuing 4-9 (thorough 4-17) requests from 30 kinds covering 200/204/400/401/403/404/405/413/415/429/500/503 exits, preflights, health, pages, sticky open/resume/close/delete, upload-URL, introspection; each request carries one of 13 X-Request-ID shapes (absent, empty, blank, plain, padded, 128/129 bytes, 128 bytes padded, 300 bytes, multi-byte at the 128/129-byte boundary, caller-chosen hex); the monitor judges every response; requests of different tasks interleave at woven and harness yields, the clock advances by tape; distinct = distinct schedule fingerprint; non-trivial = a hook failure fired, a non-2xx exit was produced or tasks interleaved",
		Real:  []string{"vgirpc.HttpServer.ServeHTTP and every route handler (unary, stream init/exchange, __describe__, __upload_url__, __introspect_token__, DELETE __session__, health, pages, well-known, preflight)", "resolveRequestID / addCapabilityHeaders / addCorsHeaders / writeUnauthorized", "Server.notifyTransport with the serve-start hook", "sticky registry and response-header shim", "compressing and counting response writers", "introspection rate limiter on the simulated clock"},
		Stub:  []string{"HTTP transport (direct ServeHTTP call, httptest recorder)", "serve-start hook, authenticator, token resolver, upload-URL provider, object store, access-log writer (harness callbacks that yield)", "scripted handlers"},
		Quick: 720, Thorough: 200000,
		Warm:       warmLazy,
		FaultKinds: []string{"serve-start-hook-failure", "authenticator-reject", "authenticator-unavailable", "authenticator-error", "resolver-unavailable", "clock-advance"},
		Assumptions: []string{
			"session-oracle check: the simulator contributes history (hook failures then success), concurrency and fault context; the header rules themselves ride along",
			"'trimmed' is taken as HTTP optional whitespace (space, tab); ids are generated with printable ASCII or UTF-8 text only, one X-Request-ID field per request",
			"'fresh' is judged as: 16 lowercase hex characters, distinct from every other minted id of the run",
			"capability headers are demanded on every response completed after a serve-start hook success (or when no hook is configured) except the 500 of a request whose own hook invocation failed; 'externalization capability headers' is read as VGI-Externalization-Enabled plus, when configured, the upload-URL / max-request / max-upload / max-response / max-externalized advertisements, which must be absent when not configured",
			"CORS clause: the family is VGI-*, X-VGI-*, X-Request-ID and WWW-Authenticate (Retry-After and other generic HTTP fields are outside it); every family header on a response that carries an expose list must be in that list, and every family header observed anywhere in the run must be in every expose list the run produced; the check does not demand that a response carries an expose list (the startup-hook 500 has no CORS headers at all)",
			"a request whose ServeHTTP panics produces no response and is skipped (escaped panics belong to C03/C14); the generator avoids inputs known to panic",
			"OAuth PKCE routes (their own CORS handling) are not configured",
		},
	}
}
