package checks

import (
	"fmt"

	vgirpc "github.com/Query-farm/vgi-rpc-go/vgirpc"

	"verifsim/hx"
	"verifsim/simkern"
	"verifsim/worlds/httpw"
	"verifsim/worlds/pipew"
)

type c14Method struct {
	name string
	kind string // producer | exchange
}

var c14Methods = []c14Method{
	{"prod", "producer"}, {"prod2", "producer"}, {"exch", "exchange"}, {"exch2", "exchange"}, {"dyn", "producer"}, {"dyn", "exchange"},
}

// C14 — a continuation token only resumes the stream method that minted it.
//
// Fault kind "misroute": tokens minted by method X are posted to method Y's
// /exchange route (all ordered pairs over producer / exchange / dynamic
// methods), as a tick, as an exchange input and as a cancel. Oracle: a complete
// client-error HTTP response; no state method runs during the misrouted
// request; no panic reaches the net/http boundary.
func C14(e *simkern.Env) {
	tp := e.Tape
	nInst := 1 + tp.Draw(2)
	caches := make([]int, nInst)
	for i := range caches {
		caches[i] = tp.Pick(-1, 0)
	}
	batchLimit := 1 + tp.Draw(2)
	nPairs := 2 + tp.Draw(4)
	e.Knob("caches", caches)
	e.Knob("batch_limit", batchLimit)
	var sample []string
	left := e.Bubble(func() {
		sim := simkern.NewSim(tp, e.Trace)
		defer sim.Close()
		hx.Rec.Reset()
		// the operator's rehydrate callback is "the other method's code" too: it
		// is handed (state, method) for every continuation the server accepts.
		// It records the call against the state's stream, and in half of the runs
		// it refuses a state whose stream was opened by another method (what a
		// real rehydrator that re-attaches method-specific resources does).
		strictRehydrate := tp.Bool(1, 2)
		e.Knob("rehydrate_strict", strictRehydrate)
		openedBy := map[int64]string{}
		setup := func(i int, srv *vgirpc.Server, h *vgirpc.HttpServer) {
			h.SetRehydrateFunc(func(state interface{}, method string) error {
				n := hx.StateNonce(state)
				hx.Rec.With(n, func(c *hx.CallRec) { c.Rehydrates++ })
				if strictRehydrate && openedBy[n] != "" && openedBy[n] != method {
					return fmt.Errorf("rehydrate: state of %s handed to %s", openedBy[n], method)
				}
				return nil
			})
		}
		cl := httpw.NewCluster(httpw.Config{Key: []byte("0123456789abcdef0123456789abcdef"), CacheSizes: caches, BatchLimit: batchLimit, NoTwin: true, Setup: setup})
		clients := 1 + tp.Draw(2)
		for c := 0; c < clients; c++ {
			c := c
			sim.Spawn(fmt.Sprintf("client%d", c), func() {
				prevCall := ""
				for p := 0; p < nPairs && !e.Violated(); p++ {
					sim.Y("client.pair")
					x := c14Methods[tp.Draw(len(c14Methods))]
					y := c14Methods[tp.Draw(len(c14Methods))]
					if x.name == y.name {
						y = c14Methods[(tp.Draw(len(c14Methods)-1)+1+indexOf(x))%len(c14Methods)]
						if x.name == y.name {
							continue
						}
					}
					nonce := int64(14000 + c*100 + p)
					sc := &hx.Script{Nonce: nonce, Outcome: "ok", Mode: x.kind}
					for k := 0; k < 6; k++ {
						sc.Turns = append(sc.Turns, hx.Step{Act: "emit"})
					}
					op := &pipew.Op{Kind: "stream", Method: x.name, Script: sc, StreamKind: x.kind, CancelAt: -1}
					openedBy[nonce] = x.name
					inst := cl.Inst[tp.Draw(len(cl.Inst))]
					t := httpw.Decode(httpw.Post(inst, "/"+x.name+"/init", pipew.RequestBytes(op), httpw.Ident{}, nil))
					if t.Cursor == "" || t.Call == "" {
						e.Harness("init of %s returned no tokens: %s", x.name, t.Resp.ErrText())
						return
					}
					// optionally advance X legitimately first
					if tp.Bool(1, 3) {
						var in []int64
						if x.kind == "exchange" {
							in = []int64{1}
						}
						t2 := httpw.Decode(httpw.Post(inst, "/"+x.name+"/exchange", httpw.ContBody(t.Cursor, t.Call, false, in, false, hx.Meta{}), httpw.Ident{}, nil))
						if t2.Cursor != "" {
							t.Cursor = t2.Cursor
						}
					}
					shape := tp.Draw(3) // 0 tick, 1 exchange input, 2 cancel
					var in []int64
					if shape == 1 {
						in = []int64{5}
					}
					before := hx.Rec.Get(nonce)
					target := cl.Inst[tp.Draw(len(cl.Inst))]
					sim.Fault("misroute")
					callTok := t.Call
					switch tp.Draw(5) {
					case 0: // the misrouted request lost its call token on the way
						callTok = ""
						sim.Fault("misroute-without-call-token")
					case 1: // ... or carries the call token of an earlier stream
						if prevCall != "" {
							callTok = prevCall
							sim.Fault("misroute-with-other-call-token")
						}
					}
					prevCall = t.Call
					resp := httpw.Post(target, "/"+y.name+"/exchange", httpw.ContBody(t.Cursor, callTok, shape == 2, in, false, hx.Meta{}), httpw.Ident{}, nil)
					after := hx.Rec.Get(nonce)
					site := fmt.Sprintf("%s(%s)->%s(%s)", x.name, x.kind, y.name, y.kind)
					sample = append(sample, fmt.Sprintf("%s shape=%d status=%d", site, shape, resp.Status))
					if resp.Panicked != nil {
						e.Violate("panic-aborts-connection", site, "tokens of %s posted to %s/exchange: panic escaped ServeHTTP: %v", x.name, y.name, resp.Panicked)
						return
					}
					ran := (after.ProduceCalls + after.ExchangeCalls + after.CancelCalls) - (before.ProduceCalls + before.ExchangeCalls + before.CancelCalls)
					if after.Rehydrates != before.Rehydrates {
						e.Violate("foreign-state-rehydrated", site, "tokens of %s posted to %s/exchange: the rehydrate callback ran %d time(s) for %s on the foreign state (status %d)", x.name, y.name, after.Rehydrates-before.Rehydrates, y.name, resp.Status)
						return
					}
					if ran != 0 {
						e.Violate("foreign-state-executed", site, "tokens of %s posted to %s/exchange: %d state method calls ran on the foreign state (status %d)", x.name, y.name, ran, resp.Status)
						return
					}
					if resp.Status < 400 || resp.Status >= 500 {
						e.Violate("misrouted-token-not-refused", site, "tokens of %s posted to %s/exchange: status %d, expected a client error", x.name, y.name, resp.Status)
						return
					}
					sim.Probe("misroute-refused")
				}
			})
		}
		reason, _ := sim.Run(simkern.RunOpts{MaxSteps: 80000, Done: sim.RootsDone})
		e.Conclude(sim, reason, false)
		e.Res.Nontrivial = len(sample) > 0
	})
	if left != "" && !e.Violated() {
		e.Harness("bubble: %s", left)
	}
	e.Res.Sample = sample
}

func indexOf(m c14Method) int {
	for i, x := range c14Methods {
		if x == m {
			return i
		}
	}
	return 0
}

func init() {
	Registry["C14"] = &Info{
		Run:   C14,
		Level: "exploration",
		Rule:  "each run draws 1-2 instances (cache default/0), batch limit, 1-2 concurrent client tasks and 2-5 ordered method pairs (X,Y) over {prod, prod2, exch, exch2, dyn-as-producer, dyn-as-exchange}; X is initialised (and sometimes advanced one turn) legitimately, then its tokens are posted to Y's /exchange route as a tick, an exchange input or a cancel, on a tape-chosen instance; distinct = schedule fingerprint; non-trivial = at least one misroute was sent",
		Real:  []string{"vgirpc.HttpServer.handleStreamExchange, token open/resolve, producer/exchange/cancel continuation paths"},
		Stub:  []string{"HTTP transport (direct ServeHTTP with net/http-style panic capture)", "scripted states"},
		Quick: 800, Thorough: 60000,
		Warm: warmHTTP, FaultKinds: []string{"misroute", "misroute-without-call-token", "misroute-with-other-call-token"},
	}
}
