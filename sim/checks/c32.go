package checks

import (
	"bytes"
	"errors"
	"fmt"
	"net/http"
	"strings"
	"time"

	"verifsim/simkern"
	"verifsim/worlds/fetchw"

	"github.com/Query-farm/vgi-rpc-go/vgirpc"
)

// C32 — parallel range fetches terminate with the exact resource or an error.
func C32(e *simkern.Env) {
	tp := e.Tape
	size := 6 + tp.Draw(55)
	want := 2 + tp.Draw(5) // aimed number of chunks (2..6)
	chunk := (size + want - 1) / want
	nChunks := (size + chunk - 1) / chunk
	parallel := tp.Pick(8, 1, 2, 3)
	mult := []float64{2.0, 0, 1.0, 0.5}[tp.Draw(4)]
	maxHedges := tp.Pick(4, 1, 0, 2)
	headMode := []string{"ranges", "no-ranges", "head-error"}[tp.Weighted([]int{10, 1, 1})]
	faultsOn := tp.Bool(3, 4)
	stalls := faultsOn && tp.Bool(1, 4)
	maxFetch := int64(1 << 20)
	if tp.Bool(1, 16) {
		maxFetch = int64(size - 1)
	}
	e.Knob("size", size)
	e.Knob("chunk_size", chunk)
	e.Knob("chunks", nChunks)
	e.Knob("max_parallel", parallel)
	e.Knob("hedge_multiplier", mult)
	e.Knob("max_hedges", maxHedges)
	e.Knob("head", headMode)
	e.Knob("faults_enabled", faultsOn)
	e.Knob("origin_may_stall_requests_forever", stalls)
	e.Knob("max_fetch_bytes", maxFetch)

	resource := make([]byte, size)
	salt := tp.Draw(200)
	for i := range resource {
		resource[i] = byte(33 + (salt+i*7)%90)
	}
	const rawURL = "https://ok1.sim/big/object?X-Sig=s1g"

	var sample []string
	violatedHang, callReturned, leftTasks := false, false, ""
	left := e.Bubble(func() {
		sim := simkern.NewSim(tp, e.Trace)
		defer sim.Close()
		var parked []*fetchw.Parked
		var history []string
		seenRange := map[string]int{}
		nonOK := 0
		stalled := 0           // requests the origin will never answer
		var lastAnswerAt time.Duration
		stalledTooLong := false
		firstNonOK := 0 // ranges whose first request is answered with something else than the data
		planned := map[*fetchw.Parked]string{}
		anomalies := map[string]int{}
		origin := &fetchw.Origin{Sim: sim}
		origin.Serve = func(x *fetchw.Exchange, req *http.Request) (*http.Response, error) {
			if req.Method == http.MethodHead {
				x.Answered = true
				switch headMode {
				case "head-error":
					sim.Fault("head-error")
					x.Outcome = "error"
					return nil, errors.New("sim: HEAD refused")
				case "no-ranges":
					sim.Fault("no-range-support")
					x.Outcome = "no-ranges"
					return fetchw.Response(req, 200, nil, fetchw.Exact(resource)), nil
				}
				h := http.Header{}
				h.Set("Accept-Ranges", "bytes")
				x.Outcome = "ranges"
				return fetchw.Response(req, 200, h, fetchw.Exact(resource)), nil
			}
			seenRange[x.Range]++
			attempt := seenRange[x.Range]
			if x.Range != "" {
				if attempt > 1 {
					sim.Probe("hedge-request")
				}
			} else {
				sim.Probe("plain-get")
			}
			p := &fetchw.Parked{X: x, Req: req, IssuedAt: sim.Steps}
			parked = append(parked, p)
			// What this request will be answered with is fixed when it arrives
			// (the scheduler still decides when, and in which order): the k-th
			// request for a range gets the k-th planned answer for that range,
			// so "what the fetch would have seen without hedged duplicates" is
			// well defined — the first planned answer of every range.
			kind := "ok"
			if faultsOn {
				kinds := []string{"ok", "chunk-error", "wrong-status", "body-cut"}
				wts := []int{12, 1, 1, 1}
				if x.Range != "" {
					kinds = append(kinds, "short-body", "whole-body-200")
					wts = append(wts, 1, 1)
				}
				if attempt > 1 {
					wts[0] = 5 // duplicates fail more often than first requests
				}
				if stalls {
					// the origin accepts the request and never answers it
					kinds = append(kinds, "stall")
					wts = append(wts, 2)
				}
				kind = kinds[tp.Weighted(wts)]
				if kind == "stall" {
					sim.Fault("request-stalled-forever")
					stalled++
					nonOK++
				}
			}
			planned[p] = kind
			if attempt == 1 && kind != "ok" {
				firstNonOK++
			}
			return fetchw.Await(sim, p)
		}

		var got []byte
		var gotErr error
		returned := false
		var took time.Duration
		sim.Spawn("fetch", func() {
			cfg := &vgirpc.FetchConfig{
				ParallelThresholdBytes: 1, ChunkSizeBytes: int64(chunk), MaxParallelRequests: parallel,
				TimeoutSeconds: 60, MaxFetchBytes: maxFetch, SpeculativeRetryMultiplier: mult, MaxSpeculativeHedges: maxHedges,
			}
			t0 := sim.Now()
			got, gotErr = vgirpc.FetchWithParallelRangeRequests(origin.Client(), rawURL, cfg)
			took = sim.Now() - t0
			returned = true
		})

		undecided := func() []*fetchw.Parked {
			var out []*fetchw.Parked
			for _, p := range parked {
				if !p.Decided && p.Req.Context().Err() == nil {
					out = append(out, p)
				}
			}
			return out
		}
		answer := func(p *fetchw.Parked, kind string) {
			lastAnswerAt = sim.Now()
			req, x := p.Req, p.X
			lo, hi, isRange := fetchw.ParseRange(x.Range)
			if !isRange || hi >= int64(size) || lo > hi {
				lo, hi = 0, int64(size)-1
			}
			part := resource[lo : hi+1]
			cr := func(a, b int64) http.Header {
				h := http.Header{}
				h.Set("Content-Range", fmt.Sprintf("bytes %d-%d/%d", a, b, size))
				return h
			}
			p.Decided = true
			x.Answered, x.Outcome = true, kind
			switch kind {
			case "ok":
				if isRange {
					body := fetchw.Exact(part)
					if tp.Bool(1, 4) {
						body = fetchw.Chunked(part) // no Content-Length (streamed by the origin)
						x.Outcome = "ok(chunked)"
					}
					p.Answer = func() (*http.Response, error) { return fetchw.Response(req, 206, cr(lo, hi), body), nil }
				} else {
					p.Answer = func() (*http.Response, error) { return fetchw.Response(req, 200, nil, fetchw.Exact(resource)), nil }
				}
			case "chunk-error":
				p.Answer = func() (*http.Response, error) { return nil, errors.New("sim: connection reset") }
			case "short-body":
				k := tp.Draw(len(part)) // 0 .. len-1 bytes
				hdr, body, how := cr(lo, lo+int64(k)-1), fetchw.Exact(part[:k]), "announced honestly"
				switch tp.Draw(3) {
				case 1:
					// streamed without a Content-Length, Content-Range promising
					// the whole chunk, body ending early but cleanly
					hdr, body, how = cr(lo, hi), fetchw.Chunked(part[:k]), "chunked, full Content-Range"
				case 2:
					body, how = fetchw.Chunked(part[:k]), "chunked, honest Content-Range"
				}
				p.Answer = func() (*http.Response, error) { return fetchw.Response(req, 206, hdr, body), nil }
				x.Outcome = fmt.Sprintf("short-body(%d of %d, %s)", k, len(part), how)
			case "whole-body-200":
				p.Answer = func() (*http.Response, error) { return fetchw.Response(req, 200, nil, fetchw.Exact(resource)), nil }
			case "wrong-status":
				st := tp.Pick(500, 416, 404, 503)
				p.Answer = func() (*http.Response, error) { return fetchw.Response(req, st, nil, fetchw.Exact([]byte("no"))), nil }
				x.Outcome = fmt.Sprintf("status-%d", st)
			case "body-cut":
				k := tp.Draw(len(part))
				body := fetchw.Exact(part)
				if !isRange {
					body = fetchw.Exact(resource)
				}
				body.CutAfter = k
				status, hdr := 206, cr(lo, hi)
				if !isRange {
					status, hdr = 200, nil
				}
				p.Answer = func() (*http.Response, error) { return fetchw.Response(req, status, hdr, body), nil }
				x.Outcome = fmt.Sprintf("body-cut(after %d)", k)
			}
			if kind != "ok" {
				sim.Fault(kind)
				nonOK++
				anomalies[kind]++
			}
			history = append(history, fmt.Sprintf("r%d[%s]=%s@%v", x.N, strings.TrimPrefix(x.Range, "bytes="), x.Outcome, sim.Now()))
			sim.Logf("answer r%d range=%q %s", x.N, x.Range, x.Outcome)
		}

		reason, _ := sim.Run(simkern.RunOpts{
			MaxSteps:  8000,
			Done:      sim.RootsDone,
			IdleLimit: 10 * time.Minute,
			Check: func() error {
				// bounded time under a stalled origin: the per-request timeout
				// (TimeoutSeconds, 60 s here) bounds every request, so once the
				// other requests are answered the call returns within one timeout
				// per request it ever issued (a generous bound)
				if stalled > 0 && !returned && sim.Now()-lastAnswerAt > time.Duration(len(parked)+2)*60*time.Second {
					stalledTooLong = true
					return errors.New("stalled")
				}
				return nil
			},
			Extra: func() []simkern.Action {
				var acts []simkern.Action
				und := undecided()
				for _, p := range und {
					p := p
					k := planned[p]
					if k == "stall" {
						continue // never answered: only the clock moves
					}
					acts = append(acts, simkern.Action{Name: fmt.Sprintf("answer r%d %s", p.X.N, k), Weight: 12, Do: func() { answer(p, k) }})
				}
				if len(und) > 0 {
					// latency: time passes while requests are in flight
					for _, d := range []time.Duration{5 * time.Millisecond, 200 * time.Millisecond, 3 * time.Second} {
						d := d
						acts = append(acts, simkern.Action{Name: fmt.Sprintf("latency %v", d), Weight: 1, Do: func() {
							sim.Fault("latency")
							sim.Advance(d)
						}})
					}
				}
				return acts
			},
		})
		desc := fmt.Sprintf("resource %d bytes, %d chunks of %d, parallel %d, hedge x%v max %d, head %s; answers: %s",
			size, nChunks, chunk, parallel, mult, maxHedges, headMode, strings.Join(history, " "))
		site := "FetchWithParallelRangeRequests"
		if ps := sim.Panicked(); len(ps) > 0 {
			e.Violate("fetch-panicked", site, "%s: task %s panicked: %v", desc, ps[0].Name, ps[0].Panic)
		}
		switch {
		case returned && gotErr == nil:
			sim.Probe("returned-bytes")
			if !bytes.Equal(got, resource) {
				// name the anomaly that was swallowed, so that the two known
				// ways of getting wrong bytes are minimised and reported apart
				class := "wrong-bytes-returned"
				if anomalies["whole-body-200"] > 0 {
					class = "whole-body-200-spliced-in"
				} else if anomalies["short-body"] > 0 {
					class = "short-chunk-accepted"
				}
				e.Violate(class, site, "%s: returned %d bytes %q and no error, the resource is %q", desc, len(got), clip(got), clip(resource))
			}
		case returned:
			sim.Probe("returned-error")
			if nonOK == 0 && headMode != "head-error" && int64(size) <= maxFetch {
				// nothing failed: without hedging this fetch succeeds, so with
				// hedged duplicates (all answered correctly too) it must as well
				e.Violate("error-although-every-answer-was-correct", site, "%s: returned error %q", desc, gotErr.Error())
			} else if firstNonOK == 0 && headMode != "head-error" && int64(size) <= maxFetch {
				// every range's first request was (or was going to be) answered
				// with its data: without hedged duplicates this fetch succeeds. Only
				// answers to duplicates went wrong — they must not change the result.
				e.Violate("failed-duplicate-changed-the-result", site, "%s: returned error %q although the first request of every range is answered correctly (only hedged duplicates failed)", desc, gotErr.Error())
			}
		case stalledTooLong:
			violatedHang = true
			e.Violate("fetch-never-returns", "stalled-request", "%s: %d request(s) were accepted by the origin and never answered; every other request was answered by t=%v, the configured per-request timeout is 60 s, and at t=%v the call still has not returned", desc, stalled, lastAnswerAt, sim.Now())
		case reason == simkern.StopDeadlock:
			// every issued request has been answered (or cancelled), no task is
			// runnable, no timer is pending, simulated time has been advanced by
			// ten minutes: the call will never return
			if n := len(undecided()); n > 0 {
				e.Harness("C32: %d requests were never answered although the run idled", n)
			} else {
				violatedHang = true
				e.Violate("fetch-never-returns", site, "%s: every issued request has been answered, nothing is runnable and no timer is pending, yet the call has not returned (%s)", desc, sim.Stuck())
			}
		}
		e.Conclude(sim, reason, true)
		callReturned = returned
		if !sim.AllDone() {
			leftTasks = sim.Stuck()
			if e.Res.Probes != nil {
				e.Res.Probes["goroutines-left-blocked"]++
			}
		}
		e.Res.Nontrivial = nonOK > 0 || sim.Interleavings > 0
		out := "hung"
		if returned && gotErr == nil {
			out = fmt.Sprintf("%d bytes after %v", len(got), took)
		} else if returned {
			out = fmt.Sprintf("error %q after %v", gotErr.Error(), took)
		}
		sample = append(sample, desc+" -> "+out)
	})
	if left != "" && !violatedHang {
		if callReturned && leftTasks != "" {
			// the call came back, but goroutines it started are blocked for good
			// inside the code under test (a leak, which is not this property's
			// subject): no verdict from this run, and not harness trouble either
			e.Inconclusive("the call returned but goroutines it started never finished: %s", leftTasks)
		} else {
			e.Harness("bubble: %s", left)
		}
	}
	e.Res.Sample = sample
}

func clip(b []byte) string {
	if len(b) > 80 {
		return string(b[:80]) + "..."
	}
	return string(b)
}

func init() {
	Registry["C32"] = &Info{
		Run:   C32,
		Level: "exploration",
		Rule:  "each run draws a resource of 6-60 distinct bytes, a chunk size giving 2-6 chunks, the parallelism limit {1,2,3,8}, the hedge multiplier {off,0.5,1,2} and hedge budget, the HEAD behaviour (ranges / no ranges / error) and whether faults are enabled; every chunk request and every hedge is a task parked inside the RoundTripper until the scheduler answers it, in any order, with the answer that was planned for it when it arrived (the k-th request for a range gets that range's k-th planned answer: ok / connection error / short body announced honestly, or streamed without Content-Length under an honest or a full Content-Range / whole body with 200 / wrong status / body cut mid-way; duplicates fail more often than first requests; in a quarter of the fault-injecting runs a request may also be accepted and never answered — the client has no timeout of its own, so only the configured per-request timeout of 60 s bounds it), so that what the fetch would have seen without hedged duplicates is well defined, with simulated latency (5 ms - 3 s clock advances) between answers so that hedges fire; the run ends when the call returns, or when every request is answered, nothing is runnable and ten simulated minutes pass; distinct = distinct schedule+answer fingerprint; non-trivial = a non-ok answer was given or two tasks were runnable at once",
		Real:  []string{"vgirpc.FetchWithParallelRangeRequests (receive loop, hedging, semaphore, cancellation, reassembly), fetchSimple", "net/http.Client", "testing/synctest clock (hedge thresholds)"},
		Stub:  []string{"origin behind http.RoundTripper with scheduler-completed requests (fetchw.Origin/Parked)"},
		Quick: 4000, Thorough: 600000,
		FaultKinds: []string{"chunk-error", "short-body", "whole-body-200", "wrong-status", "body-cut", "latency", "head-error", "no-range-support", "request-stalled-forever"},
		Assumptions: []string{
			"latency is finite: the scheduler eventually answers every issued request; 'bounded time' is decided as: once all issued requests are answered and nothing is runnable the call must have returned (ten further simulated minutes are allowed to pass)",
			"a short body is announced honestly (Content-Length and Content-Range match the bytes sent); a body cut mid-way is delivered as a read error, as net/http's transport would",
			"range answers carry the right bytes for the range they claim; a server lying about which bytes it sends is outside the quantifier",
			"MaxParallelRequests >= 1 and ChunkSizeBytes >= 1; identity content encoding",
			"an error return is acceptable whenever at least one request was answered with a failure, a short / whole / cut body or a wrong status, when HEAD failed, or when the resource exceeds MaxFetchBytes; when every request was answered correctly the call must return the bytes (hedged duplicates never change the result)",
		},
	}
}
