package checks

import (
	"fmt"
	"os"

	"verifsim/hx"
	"verifsim/simkern"
	"verifsim/worlds/pipew"
	"verifsim/worlds/shmw"

	"github.com/Query-farm/vgi-rpc-go/vgirpc"
)

func c36Warm() {
	// ship every non-trivial batch through shared memory when it fits
	// (process-wide, read once by the code under test)
	_ = os.Setenv("VGI_RPC_SHM_MIN_BATCH_BYTES", "8")
}

// C36 — shared-memory pipe sessions match plain pipe sessions and leak no slots.
func C36(e *simkern.Env) {
	tp := e.Tape
	pad := tp.Pick(0, 200, 3000)
	ops := pipew.GenOps(tp, pipew.GenCfg{MinOps: 2, MaxOps: 7, FailBias: 3, InitFail: true, Cancel: true, Cast: true, WriteAhead: true,
		MaxTurns: 5, NonceBase: 36000, EmitMeta: true, Pad: pad})
	shmSend := tp.Bool(1, 2)
	lazyClient := tp.Bool(1, 2)
	rotate := tp.Bool(1, 3)
	if lazyClient {
		// a lazy client is interesting when several results are outstanding:
		// add a run of unary calls whose results are large enough for the segment
		for k, n := 0, 3+tp.Draw(5); k < n; k++ {
			nonce := int64(36500 + k)
			m := []string{"u_str", "u_str", "u_list", "u_rich", "u_int"}[tp.Draw(5)]
			op := &pipew.Op{Kind: "unary", Method: m, Script: &hx.Script{Nonce: nonce, Outcome: "ok", Pad: tp.Pick(0, 40, 300)}, CancelAt: -1, ReqID: fmt.Sprintf("rq-%d", nonce)}
			at := tp.Draw(len(ops) + 1)
			ops = append(ops[:at:at], append([]*pipew.Op{op}, ops[at:]...)...)
		}
	}
	kn := pipew.DrawKnobs(tp)
	dataSize := tp.Pick(64*1024, 600, 4096, 1)
	if lazyClient && tp.Bool(1, 2) {
		dataSize = 64 * 1024
	}
	advertise := tp.Pick(0, 1, 2) // 0 all requests, 1 only the first, 2 a drawn subset
	adv := make([]bool, len(ops))
	for i := range adv {
		adv[i] = advertise == 0 || (advertise == 1 && i == 0) || (advertise == 2 && tp.Bool(1, 2))
	}
	e.Knob("pad", pad)
	e.Knob("segment_data_bytes", dataSize)
	e.Knob("advertise", []string{"all", "first-only", "subset"}[advertise])
	e.Knob("client_sends_via_shm", shmSend)
	e.Knob("client_holds_unary_pointers", lazyClient)
	e.Knob("failed_segment_rotations", rotate)
	e.Res.Sample = pipew.Describe(ops)
	left := e.Bubble(func() {
		sim := simkern.NewSim(tp, e.Trace)
		defer sim.Close()
		hx.Rec.Reset()
		plain := &pipew.Session{Srv: pipew.NewServer(nil), Ops: ops}
		reason := pipew.RunSession(sim, plain, kn, 80000)
		if reason == simkern.StopDeadlock {
			e.Harness("plain session deadlocked: %s", plain.StuckDetail())
		}
		if reason != simkern.StopDone {
			e.Conclude(sim, reason, false)
			return
		}
		seg, err := vgirpc.ShmCreate(vgirpc.ShmHeaderSize + dataSize)
		if err != nil {
			e.Harness("ShmCreate: %v", err)
			e.Conclude(sim, reason, false)
			return
		}
		name := seg.Name()
		defer func() {
			_ = seg.Close()
			shmw.Remove(name)
		}()
		hx.Rec.Reset()
		idx := map[*pipew.Op]int{}
		for i, op := range ops {
			idx[op] = i
		}
		shm := &pipew.Session{Srv: pipew.NewServer(nil), Ops: ops, Shm: seg, ShmSend: shmSend,
			Advertise: func(op *pipew.Op) bool { return adv[idx[op]] }}
		if rotate {
			// segment rotation that fails on the server side, on calls that do
			// not advertise the real segment
			shm.AdvertiseBogus = func(op *pipew.Op) bool { return op.Kind == "unary" && tp.Bool(1, 3) }
		}
		if lazyClient {
			// a client that consumes unary results lazily: it keeps their pointer
			// batches and resolves+frees them later, between calls, in any order
			shm.Hold = func() bool { return tp.Bool(2, 3) }
			shm.ReleaseNow = func(n int, final bool) int {
				if !final && tp.Bool(1, 2) {
					return -1
				}
				return tp.Draw(n)
			}
		}
		reason = pipew.RunSession(sim, shm, kn, 80000)
		sim.Fault("shm-advertised")
		if reason == simkern.StopDeadlock {
			e.Violate("shm-session-deadlock", "shm:"+nextSig(shm), "the same history completes without a segment but hangs with one: %s", shm.StuckDetail())
		}
		if reason == simkern.StopDone {
			sim.ProbeN("pointer-batches-resolved-by-client", shm.ShmResolved)
			sim.ProbeN("batches-sent-through-shm-by-client", shm.ShmSentCount)
			sim.ProbeN("pointer-batches-held-until-end-of-stream", shm.ShmDeferred)
			sim.ProbeN("most-unary-pointers-held-at-once", shm.HeldMax)
			sim.ProbeN("calls-advertising-an-unopenable-segment", shm.BogusSent)
			if shm.ShmErr != nil {
				e.Violate("pointer-not-resolvable", "shm-session", "%v", shm.ShmErr)
			}
			for i := range ops {
				if e.Violated() {
					break
				}
				if i >= len(shm.Results) || i >= len(plain.Results) {
					e.Violate("shm-session-ended-early", "shm:"+ops[i].Sig(), "plain session completed %d calls, shm session %d", len(plain.Results), len(shm.Results))
					break
				}
				p, s := plain.Results[i], shm.Results[i]
				site := ops[i].Kind
				if p.ClientErr != nil {
					break
				}
				if s.ClientErr != nil {
					e.Violate("shm-response-not-readable", site, "call %d (%s): %v", i, ops[i].Sig(), s.ClientErr)
					break
				}
				if ops[i].Kind == "stream" {
					if cat, d := compareTranscripts(p, s); cat != "" {
						e.Violate("shm-differs-"+cat, site, "call %d (%s), segment data %d bytes, advertise=%v, client sends via shm=%v: plain vs shm: %s", i, ops[i].Sig(), dataSize, adv[i], shmSend, d)
					}
				} else if a, b := batchesSig(p.AllBatch), batchesSig(s.AllBatch); a != b {
					e.Violate("shm-differs-unary", site, "call %d (%s): plain %s, shm %s", i, ops[i].Sig(), a, b)
				}
			}
			// every pointer received was released: the table must be empty again
			if !e.Violated() {
				raw, rerr := shmw.OpenRaw(name)
				if rerr != nil {
					e.Harness("open raw segment: %v", rerr)
				} else {
					hd, perr := shmw.Parse(raw.Bytes)
					if perr != nil {
						e.Violate("segment-header-corrupt", "shm-session", "after the session the header does not parse: %v", perr)
					} else if len(hd.Regions) != 0 {
						e.Violate("slots-leaked", "shm-session", "%d allocation(s) still in the table after the client released every pointer it received: %s", len(hd.Regions), shmw.Brief(hd.Regions))
					}
					raw.Close()
				}
			}
		}
		// a bad pointer on a connection that did advertise the segment: answered
		// with an error, and the calls after it — which use the segment again —
		// are served
		if reason == simkern.StopDone && !e.Violated() {
			off := []string{fmt.Sprint(vgirpc.ShmHeaderSize + dataSize + 64), "18446744073709551615", "0", "24", fmt.Sprint(vgirpc.ShmHeaderSize + dataSize - 1), "-1", "abc"}[tp.Draw(7)]
			ln := []string{"64", "2147483648", "0", "-5", fmt.Sprint(dataSize + 1), "18446744073709551615"}[tp.Draw(6)]
			bad := hx.RawRequestBytes(hx.StringBatchN([]string{"script"}, nil),
				hx.M(hx.KMethod, "u_str", hx.KReqVersion, "1", hx.KReqID, "rq-badptr", hx.KShmName, name, hx.KShmSize, fmt.Sprint(seg.Size()), hx.KShmOffset, off, hx.KShmLength, ln))
			mk := func(n int64, pad int) *pipew.Op {
				return &pipew.Op{Kind: "unary", Method: "u_str", Script: &hx.Script{Nonce: n, Outcome: "ok", Pad: pad}, CancelAt: -1, ReqID: fmt.Sprintf("rq-%d", n)}
			}
			ops4 := []*pipew.Op{mk(36801, 300), {Kind: "raw", Raw: bad, CancelAt: -1, Script: &hx.Script{}, ReqID: "rq-badptr"}, mk(36802, 0), mk(36803, 300), mk(36804, 300)}
			s4 := &pipew.Session{Srv: pipew.NewServer(nil), Ops: ops4, Shm: seg, ShmSend: shmSend, Advertise: func(*pipew.Op) bool { return true }}
			r4 := pipew.RunSession(sim, s4, kn, 40000)
			sim.Fault("bad-pointer-with-advertised-segment")
			site := "bad-pointer/off=" + off + ",len=" + ln
			switch {
			case r4 == simkern.StopDeadlock || len(s4.Results) != len(ops4):
				e.Violate("session-broken-by-bad-pointer", "bad-pointer", "after a pointer batch with offset %s length %s on a connection that advertised the segment, the session stopped answering after %d of %d calls: %s", off, ln, len(s4.Results), len(ops4), s4.StuckDetail())
			case s4.Results[1].ClientErr != nil || lastErr(s4.Results[1].AllBatch) == nil:
				e.Violate("bad-pointer-not-refused", site, "the bad pointer batch was not answered with an error (client error: %v)", s4.Results[1].ClientErr)
			default:
				for _, i := range []int{0, 2, 3, 4} {
					r := s4.Results[i]
					if r.ClientErr != nil || len(r.AllBatch) != 1 || r.AllBatch[0].Result != hx.WantResult("u_str", ops4[i].Script.Nonce, ops4[i].Script.Pad) {
						e.Violate("call-around-bad-pointer-not-served", "bad-pointer", "call %d of the session with a bad pointer at call 1 returned %s (client error %v)", i, batchesSig(r.AllBatch), r.ClientErr)
						break
					}
				}
			}
		}
		// a pointer batch on a connection that never advertised a segment
		if reason == simkern.StopDone && !e.Violated() {
			ptr := hx.RawRequestBytes(hx.StringBatchN([]string{"script"}, nil),
				hx.M(hx.KMethod, "u_int", hx.KReqVersion, "1", hx.KReqID, "rq-ptr", hx.KShmOffset, "0", hx.KShmLength, fmt.Sprint(tp.Pick(64, 0, 1<<20))))
			follow := &pipew.Op{Kind: "unary", Method: "u_int", Script: &hx.Script{Nonce: 36900, Outcome: "ok"}, CancelAt: -1, ReqID: "rq-follow"}
			s3 := &pipew.Session{Srv: pipew.NewServer(nil), Ops: []*pipew.Op{{Kind: "raw", Raw: ptr, CancelAt: -1, Script: &hx.Script{}, ReqID: "rq-ptr"}, follow}}
			r3 := pipew.RunSession(sim, s3, kn, 40000)
			sim.Fault("pointer-without-advertisement")
			if r3 == simkern.StopDeadlock || len(s3.Results) != 2 || s3.Results[0].ClientErr != nil || s3.Results[1].ClientErr != nil {
				e.Violate("session-broken-by-unadvertised-pointer", "unadvertised-pointer", "a pointer batch on a connection without a segment broke the session: %s", s3.StuckDetail())
			} else {
				if lastErr(s3.Results[0].AllBatch) == nil {
					e.Violate("unadvertised-pointer-not-refused", "unadvertised-pointer", "a pointer batch on a connection that never advertised a segment was not answered with an error")
				} else if want := hx.WantResult("u_int", 36900, 0); len(s3.Results[1].AllBatch) != 1 || s3.Results[1].AllBatch[0].Result != want {
					e.Violate("call-after-unadvertised-pointer-not-served", "unadvertised-pointer", "the call after the refused pointer batch returned %s", batchesSig(s3.Results[1].AllBatch))
				}
			}
			if r3 != simkern.StopDone && !e.Violated() {
				reason = r3
			}
		}
		e.Conclude(sim, reason, false)
		e.Res.Nontrivial = true
	})
	if left != "" && !e.Violated() {
		e.Harness("bubble: %s", left)
	}
}

func init() {
	Registry["C36"] = &Info{
		Run:   C36,
		Level: "exploration",
		Rule:  "each run draws a call history (2-7 unary and stream calls with failing turns, init failures, cancel, abandon, write-ahead, castable inputs; payload pad 0/200/3000 bytes) and runs it twice on a simulated pipe: plain, and with a client-owned real POSIX segment whose data area (1 B, 600 B, 4 KiB, 64 KiB) fits none, some or all batches, advertised on every request, only the first, or a drawn subset, with the client optionally shipping its own request and input batches through the segment (VGI_RPC_SHM_MIN_BATCH_BYTES=8); then a pointer batch is sent on a connection that never advertised a segment, followed by an ordinary call; distinct = schedule fingerprint",
		Real:  []string{"vgirpc serveOne shm attach/resolve, serveUnary/serveStream shm write paths, ShmSegment allocator, ResolveShmBatch/MaybeWriteToShm (also used by the stub client, as a real client would)"},
		Stub:  []string{"duplex byte stream", "protocol client (resolves and frees every pointer it receives)", "independent parser of the documented segment header (worlds/shmw)"},
		Quick: 500, Thorough: 40000,
		Warm: c36Warm,
		FaultKinds: []string{"shm-advertised", "bad-pointer-with-advertised-segment", "pointer-without-advertisement", "read-fragmentation", "write-delay", "client-cancel", "client-write-ahead"},
		Assumptions: []string{"the client keeps the segment's documented one-party-at-a-time (lockstep) contract: on a stream with write-ahead inputs it resolves and frees the pointer batches it received only after the end-of-stream marker, and ships its own batches through the segment only on lockstep turns", "comparison is semantic (values, schema, user metadata, logs, terminating error) and ignores vgi_rpc.* bookkeeping keys such as shm_source"},
	}
}
