package checks

import (
	"bytes"
	"context"
	"errors"
	"fmt"
	"io"
	"net/http"
	"strconv"
	"strings"

	"verifsim/hx"
	"verifsim/simkern"
	"verifsim/worlds/httpw"
	"verifsim/worlds/pipew"

	"github.com/Query-farm/vgi-rpc-go/vgirpc"
	"github.com/apache/arrow-go/v18/arrow"
)

// outstanding reads the checked allocator's balance through the package's own
// LeakCheckSummary (only meaningful in a -tags leakcheck build).
func outstanding() (int64, bool) {
	s := vgirpc.LeakCheckSummary()
	i := strings.Index(s, "outstanding=")
	if i < 0 {
		return 0, false
	}
	rest := s[i+len("outstanding="):]
	j := strings.IndexByte(rest, ' ')
	if j < 0 {
		j = len(rest)
	}
	n, err := strconv.ParseInt(rest[:j], 10, 64)
	return n, err == nil
}

// faultyStore is the object store of C41: uploads fail when the plan says so;
// stored objects are served back through the RoundTripper, where fetches may
// fail too.
type faultyStore struct {
	sim       *simkern.Sim
	objects   map[string][]byte
	encoding  map[string]string
	n         int
	failUp    func() bool
	failFetch func() string // "" | "error" | "status" | "truncate"
	// failURL fixes the fetch outcome of single objects (same keys as failFetch)
	failURL map[string]string
}

func (s *faultyStore) put(data []byte, enc string) string {
	s.n++
	url := fmt.Sprintf("https://store.sim/o/%d", s.n)
	s.objects[url] = append([]byte(nil), data...)
	s.encoding[url] = enc
	return url
}

func (s *faultyStore) Upload(data []byte, schema *arrow.Schema, contentEncoding string) (string, error) {
	s.sim.Y("store.upload")
	if s.failUp != nil && s.failUp() {
		s.sim.Fault("upload-failure")
		return "", errors.New("simulated upload failure")
	}
	return s.put(data, contentEncoding), nil
}

func (s *faultyStore) RoundTrip(r *http.Request) (*http.Response, error) {
	s.sim.Y("store.fetch")
	url := r.URL.String()
	data, ok := s.objects[url]
	mode := ""
	if m, fixed := s.failURL[url]; fixed {
		mode = m
	} else if s.failFetch != nil {
		mode = s.failFetch()
	}
	switch {
	case mode == "error":
		s.sim.Fault("fetch-error")
		return nil, errors.New("simulated connection reset")
	case mode == "status" || !ok:
		s.sim.Fault("fetch-status")
		return &http.Response{StatusCode: 500, Status: "500", Body: io.NopCloser(bytes.NewReader(nil)), Header: http.Header{}, Request: r}, nil
	case mode == "truncate" && len(data) > 8:
		s.sim.Fault("fetch-truncated")
		if url[len(url)-1]%2 == 1 {
			// cut inside the closing end-of-stream marker: everything before
			// it, the data batch included, decodes
			data = data[:len(data)-1-int(url[len(url)-1]%7)]
			s.sim.Fault("fetch-truncated-in-trailer")
		} else {
			data = data[:len(data)/2]
		}
	}
	h := http.Header{}
	if enc := s.encoding[url]; enc != "" {
		h.Set("Content-Encoding", enc)
	}
	return &http.Response{StatusCode: 200, Status: "200 OK", Body: io.NopCloser(bytes.NewReader(data)), Header: h, ContentLength: int64(len(data)), Request: r}, nil
}

// C41 — every dispatch path releases all Arrow memory it allocates.
func C41(e *simkern.Env) {
	tp := e.Tape
	if _, ok := outstanding(); !ok {
		e.Harness("C41 worker was built without -tags leakcheck")
		return
	}
	ops := pipew.GenOps(tp, pipew.GenCfg{MinOps: 2, MaxOps: 8, Bad: true, BadStream: true, FailBias: 5, InitFail: true,
		Cancel: true, Cast: true, BadCast: true, WriteAhead: true, Levels: true, MaxTurns: 5, NonceBase: 41000, EmitMeta: true, Pad: tp.Pick(0, 300, 1500)})
	kn := pipew.DrawKnobs(tp)
	upFail := tp.Pick(0, 3)    // out of 10
	fetchFail := tp.Pick(0, 4) // out of 10
	storage := tp.Bool(2, 3)
	threshold := int64(tp.Pick(64, 400, 100000))
	wireCap := int64(tp.Pick(0, 200, 1200))
	extCap := int64(tp.Pick(0, 256, 4000))
	batchLimit := tp.Draw(3)
	hangups := tp.Bool(1, 3)
	e.Knob("client_hangups_during_turns", hangups)
	e.Knob("storage", storage)
	e.Knob("threshold", threshold)
	e.Knob("max_response_bytes", wireCap)
	e.Knob("max_externalized_response_bytes", extCap)
	e.Knob("upload_fail_per_10", upFail)
	e.Knob("fetch_fail_per_10", fetchFail)
	e.Res.Sample = pipew.Describe(ops)
	left := e.Bubble(func() {
		sim := simkern.NewSim(tp, e.Trace)
		defer sim.Close()
		hx.Rec.Reset()
		store := &faultyStore{sim: sim, objects: map[string][]byte{}, encoding: map[string]string{}}
		store.failUp = func() bool { return upFail > 0 && tp.Draw(10) < upFail }
		store.failFetch = func() string {
			if fetchFail > 0 && tp.Draw(10) < fetchFail {
				return []string{"error", "status", "truncate"}[tp.Draw(3)]
			}
			return ""
		}
		extCfg := func() *vgirpc.ExternalLocationConfig {
			cfg := vgirpc.DefaultExternalLocationConfig(store)
			cfg.ExternalizeThresholdBytes = threshold
			cfg.HTTPClient = &http.Client{Transport: store}
			cfg.RetryDelay = 1
			if tp.Bool(1, 2) {
				cfg.Compression = &vgirpc.Compression{Algorithm: "zstd", Level: 3}
			}
			return cfg
		}
		// stream inputs as external pointers: the client stores the input's IPC
		// stream and sends the zero-row pointer batch; the server has to fetch,
		// resolve (and, for int32 inputs, cast) it on that turn
		extInputs := storage && tp.Bool(1, 2)
		extIn := func(_ *pipew.Op, _ int, b arrow.RecordBatch) arrow.RecordBatch {
			if !extInputs || b.NumRows() == 0 || b.NumCols() == 0 || !tp.Bool(2, 3) {
				return b
			}
			sim.Fault("external-input-pointer")
			url := store.put(hx.EncodeStream(b.Schema(), b), "")
			ptr := hx.PointerLike(b, hx.M(hx.KLocation, url))
			b.Release()
			return ptr
		}
		base, _ := outstanding()
		judged := 0
		leak := func(site, what string) bool {
			now, _ := outstanding()
			judged++
			if now != base {
				e.Violate("arrow-memory-not-released", site, "%s: outstanding Arrow allocation is %d bytes, baseline %d", what, now, base)
				return true
			}
			return false
		}
		// ---- pipe: judged once the session is over (server returned)
		sess := &pipew.Session{Srv: pipew.NewServer(func(s *vgirpc.Server) {
			if storage {
				s.SetExternalLocation(extCfg())
			}
		}), Ops: ops, ExtInput: extIn}
		reason := pipew.RunSession(sim, sess, kn, 80000)
		if reason == simkern.StopDeadlock {
			e.Harness("pipe session deadlocked: %s", sess.StuckDetail())
		}
		if reason == simkern.StopDone {
			last := "empty"
			if n := len(sess.Results); n > 0 {
				last = sess.Results[n-1].Op.Sig()
			}
			sigs := map[string]bool{}
			for _, r := range sess.Results {
				sigs[r.Op.Sig()] = true
			}
			_ = last
			if leak("pipe-session", fmt.Sprintf("after a pipe session of %d calls %v", len(sess.Results), pipew.Describe(ops))) {
				// refine the site to the single call when the history has one call
				if len(ops) == 1 {
					e.Res.Violation.Site = "pipe:" + ops[0].Sig()
				}
			}
		}
		// ---- the same pipe history once more; the peer hangs up at a drawn byte
		// of the server's output (the server's next write fails, possibly in the
		// middle of a turn's flush); judged once Serve has returned
		if reason == simkern.StopDone && !e.Violated() && len(sess.WireS2C) > 1 && tp.Bool(1, 2) {
			cut := 1 + tp.Draw(len(sess.WireS2C)-1)
			e.Knob("peer_hangup_after_bytes", cut)
			sim.Fault("peer-hangup-mid-response")
			sessC := &pipew.Session{Srv: pipew.NewServer(func(s *vgirpc.Server) {
				if storage {
					s.SetExternalLocation(extCfg())
				}
			}), Ops: ops, ExtInput: extIn, S2CCutAt: cut}
			rC := pipew.RunSession(sim, sessC, kn, 80000)
			if rC == simkern.StopDone && sessC.ServerReturned {
				leak("pipe-session-peer-hangup", fmt.Sprintf("after a pipe session of %v in which the peer hung up after %d bytes of the server's output", pipew.Describe(ops), cut))
			} else if rC != simkern.StopDone && rC != simkern.StopDeadlock {
				reason = rC
			}
		}
		// ---- HTTP: one client, judged after every request
		if reason == simkern.StopDone && !e.Violated() {
			cl := httpw.NewCluster(httpw.Config{Key: []byte("0123456789abcdef0123456789abcdef"), CacheSizes: []int{-1}, NoTwin: true, BatchLimit: batchLimit,
				Setup: func(i int, s *vgirpc.Server, h *vgirpc.HttpServer) {
					if storage {
						s.SetExternalLocation(extCfg())
						if extCap > 0 {
							h.SetMaxExternalizedResponseBytes(extCap)
						}
					}
					if wireCap > 0 {
						h.SetMaxResponseBytes(wireCap)
					}
				}})
			base, _ = outstanding()
			// fault: the caller hangs up (its request context is cancelled) while a
			// stream turn is running, right after the state has emitted
			var hangUp context.CancelFunc
			if hangups {
				hx.RequestContext = func(r *http.Request) context.Context {
					ctx, cancel := context.WithCancel(r.Context())
					hangUp = cancel
					return ctx
				}
				hx.TurnDone = func(int64) {
					if hangUp != nil && tp.Bool(1, 5) {
						sim.Fault("client-hangup-during-turn")
						hangUp()
					}
				}
				defer func() { hx.RequestContext, hx.TurnDone = nil, nil }()
			}
			sim.Spawn("http-client", func() {
				for _, op := range ops {
					if e.Violated() {
						return
					}
					if op.Bad != "" && op.Bad != "unknown" && op.Bad[:3] != "par" {
						continue
					}
					if op.Kind == "stream" && op.Bad == "" {
						httpw.RunStream(op, httpw.StreamOpts{
							Pick:          func() *httpw.Instance { return cl.Inst[0] },
							BeforeRequest: func(string) { sim.Y("client.request") },
							ExtBody: func(k int, in arrow.RecordBatch, m hx.Meta) []byte {
								if !extInputs || in.NumRows() == 0 || !tp.Bool(2, 3) {
									return nil
								}
								sim.Fault("external-input-pointer")
								url := store.put(hx.EncodeStream(in.Schema(), in), "")
								return hx.RawRequestBytes(hx.PointerLike(in, hx.Meta{}), m.Add(hx.KLocation, url))
							},
							OnResponse: func(kind string, _ *httpw.Instance, resp *hx.Resp, _ []byte) {
								if !e.Violated() {
									leak("http:stream-"+kind+"/"+sigTail(op), fmt.Sprintf("after HTTP %s of %s (status %d)", kind, op.Sig(), resp.Status))
								}
							},
						})
						continue
					}
					sim.Y("client.op")
					path := "/" + op.Method
					if op.Bad == "unknown" {
						path = "/no_such_method_" + op.Method
					}
					if op.Kind == "stream" {
						path += "/init"
					}
					body := pipew.RequestBytes(op)
					// sometimes send the parameters as an external pointer the server must fetch
					if storage && op.Bad == "" && op.Kind == "unary" && tp.Bool(1, 3) {
						url := store.put(body, "")
						ptr := hx.RawRequestBytes(hx.StringBatchN([]string{"script"}, nil), hx.M(hx.KMethod, op.Method, hx.KReqVersion, "1", hx.KLocation, url))
						body = ptr
						sim.Fault("external-request-pointer")
					}
					resp := httpw.Post(cl.Inst[0], path, body, httpw.Ident{}, nil)
					if resp.Panicked != nil {
						continue // C03's business
					}
					leak("http:"+op.Kind+"/"+sigTail(op), fmt.Sprintf("after HTTP %s (status %d)", op.Sig(), resp.Status))
				}
			})
			r2, _ := sim.Run(simkern.RunOpts{MaxSteps: 200000, Done: sim.RootsDone})
			if r2 != simkern.StopDone {
				reason = r2
			}
		}
		e.Conclude(sim, reason, true)
		e.Res.Nontrivial = judged > 0
	})
	if left != "" && !e.Violated() {
		e.Harness("bubble: %s", left)
	}
}

func sigTail(op *pipew.Op) string {
	s := op.Sig()
	if i := strings.LastIndex(s, "/"); i >= 0 {
		return op.Method + s[i:]
	}
	return s
}

func init() {
	Registry["C41"] = &Info{
		Run:   C41,
		Level: "exploration",
		Rule:  "built with -tags verif,leakcheck: each run draws a call history (2-8 calls: success, handler error, panic, init failure, failing turns, cancel, abandon, castable and non-castable inputs, malformed and unknown-method requests), external storage on/off with threshold and upload compression, response caps, and fault rates for uploads and fetches; the history runs on a simulated pipe (outstanding allocation judged when the session is over; in half of the runs once more with the peer hanging up at a drawn byte of the server's output) and over HTTP (judged after every request: unary, stream init, exchange, producer continuation, cancel; some unary requests, and in half of the runs with storage two thirds of the stream inputs — including castable int32 ones — sent as external pointers the server must fetch through a failing RoundTripper); distinct = schedule fingerprint",
		Real:  []string{"vgirpc dispatch paths on pipe and HTTP with the checked allocator (alloc_leakcheck.go), external upload/resolve, cast, caps"},
		Stub:  []string{"transports", "protocol client", "object store / origin with injected upload and fetch failures", "scripted handlers (allocate with their own allocator)"},
		Quick: 600, Thorough: 60000,
		FaultKinds: []string{"upload-failure", "fetch-error", "fetch-status", "fetch-truncated", "fetch-truncated-in-trailer", "external-request-pointer", "external-input-pointer", "client-hangup-during-turn", "client-cancel", "malformed-request", "peer-hangup-mid-response"},
		Assumptions: []string{"the balance is read through the package's own LeakCheckSummary", "on a pipe the balance is judged at the end of the session (while a call is in flight the server may still hold batches); shared-memory resolution is exercised under C36"},
	}
}
