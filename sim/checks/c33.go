//go:build c33

// This file is compiled only into the C33 worker (driver: PROP_CFG["C33"] =
// {"weave_s3": True, "tags": "verif,c33"}): it needs the overlay-added
// verif_export_gen.go of package vgis3, which exists only in that build, and
// it keeps the AWS SDK out of every other check's binary.

package checks

import (
	"fmt"
	"io"
	"net"
	"net/http"
	"os"
	"sort"
	"strings"
	"sync"
	"time"

	"verifsim/simkern"

	vgis3 "github.com/Query-farm/vgi-rpc-go/vgirpc/s3"
)

// ---- world K: object keys ----
//
// Parties: 1-3 "processes" (independent S3Storage values built by the real
// NewS3Storage, same bucket, same prefix, same endpoint), each with 1-8
// uploader tasks, all on the one simulated clock. The scheduler decides which
// uploader moves next and whether, and by how little, the clock moves between
// two moves.
//
// Two ways a key is obtained, chosen per run:
//
//   - "upload": the real S3Storage.Upload (real aws-sdk-go-v2 client: signing,
//     PutObject, presign) against a stub S3 endpoint. S3Storage has no seam
//     for an injected client or http.Client (S3Config carries only Region and
//     EndpointURL; the default AWS HTTP client dials with its own net.Dialer),
//     so the stub endpoint is an in-process net/http server on a loopback
//     listener created outside the bubble. Loopback I/O is not "durably
//     blocking" for synctest, so every quiescence point waits for the PUT to
//     complete: what the endpoint has seen is a deterministic function of the
//     schedule. The key is observed where it matters: in the PUT request line
//     at the object store, together with the payload that would overwrite.
//   - "generator": the unexported generator through the verif-tagged export
//     (no network; an order of magnitude more keys per second).
//
// Oracle (both): no two uploads of the run use the same object key.

type k33Put struct {
	Path string // /<bucket>/<key>
	Body string
}

type k33Endpoint struct {
	once sync.Once
	addr string
	err  error

	mu   sync.Mutex
	puts []k33Put
	bad  []string
}

var k33EP k33Endpoint

func (ep *k33Endpoint) ServeHTTP(w http.ResponseWriter, r *http.Request) {
	body, err := io.ReadAll(r.Body)
	ep.mu.Lock()
	switch {
	case err != nil:
		ep.bad = append(ep.bad, "reading body: "+err.Error())
	case r.Method == http.MethodPut:
		ep.puts = append(ep.puts, k33Put{Path: r.URL.Path, Body: string(body)})
	default:
		ep.bad = append(ep.bad, r.Method+" "+r.URL.String())
	}
	ep.mu.Unlock()
	// One connection per request: the client transport (inside the bubble)
	// then has no idle-connection goroutines left when the bubble ends.
	w.Header().Set("Connection", "close")
	w.Header().Set("ETag", `"d41d8cd98f00b204e9800998ecf8427e"`)
	w.WriteHeader(http.StatusOK)
}

func (ep *k33Endpoint) start() {
	ep.once.Do(func() {
		ln, err := net.Listen("tcp", "127.0.0.1:0")
		if err != nil {
			ep.err = err
			return
		}
		ep.addr = ln.Addr().String()
		srv := &http.Server{Handler: ep}
		go func() { _ = srv.Serve(ln) }()
	})
}

func (ep *k33Endpoint) reset() {
	ep.mu.Lock()
	ep.puts, ep.bad = nil, nil
	ep.mu.Unlock()
}

// since returns the PUTs recorded from index n on, and the unexpected requests.
func (ep *k33Endpoint) since(n int) ([]k33Put, []string) {
	ep.mu.Lock()
	defer ep.mu.Unlock()
	if n > len(ep.puts) {
		n = len(ep.puts)
	}
	return append([]k33Put(nil), ep.puts[n:]...), append([]string(nil), ep.bad...)
}

const k33Bucket = "verif-bucket"

func k33NewStorage(prefix string) (*vgis3.S3Storage, error) {
	return vgis3.NewS3Storage(k33Bucket, vgis3.S3Config{Prefix: prefix, Region: "us-east-1", EndpointURL: "http://" + k33EP.addr})
}

// warmK fixes the deployment environment of the simulated processes (static
// credentials, no instance-metadata lookups, no shared config files, no SDK
// retries), starts the stub endpoint and performs one upload outside any
// bubble so that the SDK's process-wide lazies are created bubble-free.
func warmK() {
	for k, v := range map[string]string{
		"AWS_ACCESS_KEY_ID":           "AKIDVERIFEXAMPLE",
		"AWS_SECRET_ACCESS_KEY":       "verif-secret",
		"AWS_EC2_METADATA_DISABLED":   "true",
		"AWS_CONFIG_FILE":             os.DevNull,
		"AWS_SHARED_CREDENTIALS_FILE": os.DevNull,
		"AWS_MAX_ATTEMPTS":            "1",
	} {
		_ = os.Setenv(k, v)
	}
	for _, k := range []string{"AWS_PROFILE", "AWS_SESSION_TOKEN", "AWS_ENDPOINT_URL", "AWS_ENDPOINT_URL_S3", "AWS_CA_BUNDLE", "AWS_WEB_IDENTITY_TOKEN_FILE", "AWS_ROLE_ARN", "AWS_CONTAINER_CREDENTIALS_FULL_URI", "AWS_CONTAINER_CREDENTIALS_RELATIVE_URI"} {
		_ = os.Unsetenv(k)
	}
	k33EP.start()
	if k33EP.err != nil {
		return
	}
	st, err := k33NewStorage("")
	if err != nil {
		k33EP.err = err
		return
	}
	if _, err := st.Upload([]byte("warm"), nil, "zstd"); err != nil {
		k33EP.err = err
	}
	_ = vgis3.VerifGenerateObjectID()
	k33EP.reset()
}

type k33Acq struct {
	proc, up, seq int
	at            time.Duration
	key           string
}

func (a k33Acq) who() string {
	return fmt.Sprintf("process %d uploader %d upload #%d", a.proc, a.up, a.seq)
}

// C33 — storage backends never reuse an object key (S3 backend; see
// Info.Assumptions for GCS).
func C33(e *simkern.Env) {
	tp := e.Tape
	genNum, genDen := 1, 2
	if e.Tier == "thorough" {
		genNum, genDen = 3, 4 // bounds the number of loopback connections per second
	}
	generator := tp.Bool(genNum, genDen)
	nProc := 1 + tp.Draw(3)
	nUp := make([]int, nProc)
	for i := range nUp {
		nUp[i] = 1 + tp.Draw(8)
	}
	maxPer := 2
	if e.Tier == "thorough" {
		maxPer = 4
	}
	if generator {
		maxPer *= 2
	}
	// "any number of uploads": one generator run in five is a long one — a few
	// uploaders drawing hundreds of keys each (a pool, counter or buffer that
	// wraps or refills wrongly only shows after many keys)
	long := generator && tp.Bool(1, 5)
	if long {
		maxPer = 100 + tp.Draw(500)
		for i := range nUp {
			nUp[i] = 1 + tp.Draw(2)
		}
	}
	perUp := make([][]int, nProc)
	for p := range perUp {
		for u := 0; u < nUp[p]; u++ {
			perUp[p] = append(perUp[p], 1+tp.Draw(maxPer))
		}
	}
	prefixes := []string{"", "ext/", "a/b/"}
	prefix := prefixes[tp.Draw(len(prefixes))]
	enc := []string{"", "zstd"}[tp.Draw(2)]
	mode := "upload"
	if generator {
		mode = "generator"
	}
	if !generator && k33EP.err != nil {
		e.Harness("world K: stub S3 endpoint unavailable: %v", k33EP.err)
		return
	}
	e.Knob("mode", mode)
	e.Knob("processes", nProc)
	e.Knob("uploaders", nUp)
	e.Knob("prefix", prefix)
	e.Knob("long_run", long)
	site := "s3-" + mode

	var sample []string
	left := e.Bubble(func() {
		sim := simkern.NewSim(tp, e.Trace)
		defer sim.Close()
		k33EP.reset()

		var acqs []k33Acq
		byKey := map[string]k33Acq{}
		seenPuts := 0
		advancedSinceLast := true
		record := func(a k33Acq) {
			if n := len(acqs); n > 0 && acqs[n-1].at == a.at {
				sim.Probe("two-keys-at-one-instant")
				if acqs[n-1].proc != a.proc {
					sim.Probe("two-keys-at-one-instant-across-processes")
				}
			} else if n > 0 && a.at-acqs[n-1].at < time.Microsecond {
				sim.Probe("two-keys-less-than-1us-apart")
			}
			acqs = append(acqs, a)
			advancedSinceLast = false
			if prev, dup := byKey[a.key]; dup {
				e.Violate("object-key-reused", site,
					"%s at t=%v wrote to object key %q, which %s had already written at t=%v (%d keys handed out so far; %d process(es))",
					a.who(), a.at, a.key, prev.who(), prev.at, len(acqs), nProc)
				return
			}
			byKey[a.key] = a
		}

		var stores []*vgis3.S3Storage
		if !generator {
			for p := 0; p < nProc; p++ {
				st, err := k33NewStorage(prefix)
				if err != nil {
					e.Harness("NewS3Storage: %v", err)
					return
				}
				stores = append(stores, st)
			}
		}

		uploader := func(p, u, n int) func() {
			return func() {
				for k := 0; k < n; k++ {
					sim.Y("uploader.idle")
					if e.Violated() || e.Res.HarnessError != "" {
						return
					}
					at := sim.Now()
					a := k33Acq{proc: p, up: u, seq: k, at: at}
					if generator {
						a.key = vgis3.VerifGenerateObjectID()
						sim.Probe("generator-calls")
						sim.Logf("p%d/u%d #%d generated", p, u, k)
						record(a)
						continue
					}
					body := fmt.Sprintf("payload of p%d/u%d #%d", p, u, k)
					url, err := stores[p].Upload([]byte(body), nil, enc)
					if err != nil {
						e.Harness("Upload against the stub endpoint failed: %v", err)
						return
					}
					puts, bad := k33EP.since(seenPuts)
					seenPuts += len(puts)
					if len(bad) > 0 {
						e.Harness("stub S3 endpoint saw unexpected requests: %v", bad)
						return
					}
					if len(puts) != 1 || puts[0].Body != body {
						e.Harness("one Upload produced %d PUTs at the stub endpoint (%v)", len(puts), puts)
						return
					}
					wantPfx := "/" + k33Bucket + "/"
					if !strings.HasPrefix(puts[0].Path, wantPfx) || !strings.Contains(url, puts[0].Path) {
						e.Harness("PUT path %q / returned URL %q do not name the bucket object", puts[0].Path, url)
						return
					}
					a.key = strings.TrimPrefix(puts[0].Path, wantPfx)
					sim.Probe("uploads-observed-at-endpoint")
					sim.Logf("p%d/u%d #%d uploaded", p, u, k)
					record(a)
				}
			}
		}
		for p := 0; p < nProc; p++ {
			for u := 0; u < nUp[p]; u++ {
				sim.Spawn(fmt.Sprintf("p%d.u%d", p, u), uploader(p, u, perUp[p][u]))
			}
		}

		type step struct {
			d      time.Duration
			kind   string
			weight int
		}
		menu := []step{
			{1 * time.Nanosecond, "clock-advance-sub-us", 2},
			{10 * time.Nanosecond, "clock-advance-sub-us", 1},
			{100 * time.Nanosecond, "clock-advance-sub-us", 1},
			{999 * time.Nanosecond, "clock-advance-sub-us", 1},
			{time.Microsecond, "clock-advance-us", 2},
			{10 * time.Microsecond, "clock-advance-us", 1},
			{time.Millisecond, "clock-advance-coarse", 1},
			{time.Second, "clock-advance-coarse", 1},
		}
		reason, _ := sim.Run(simkern.RunOpts{
			MaxSteps: map[bool]int{false: 4000, true: 40000}[long],
			Done:     func() bool { return sim.RootsDone() || e.Violated() || e.Res.HarnessError != "" },
			Extra: func() []simkern.Action {
				// "no advance" is every step at which none of these is chosen:
				// two uploaders then move at one simulated instant.
				var acts []simkern.Action
				for _, m := range menu {
					m := m
					acts = append(acts, simkern.Action{Name: fmt.Sprintf("advance %v", m.d), Weight: m.weight, Do: func() {
						sim.Fault(m.kind)
						if !advancedSinceLast {
							sim.Probe("advance-between-two-keys")
						}
						advancedSinceLast = true
						sim.Advance(m.d)
					}})
				}
				return acts
			},
		})
		e.Conclude(sim, reason, false)
		e.Res.Nontrivial = len(acqs) >= 2
		sort.SliceStable(acqs, func(i, j int) bool { return acqs[i].at < acqs[j].at })
		for i, a := range acqs {
			if i >= 12 {
				sample = append(sample, fmt.Sprintf("... %d more", len(acqs)-i))
				break
			}
			sample = append(sample, fmt.Sprintf("t=%v p%d/u%d #%d", a.at, a.proc, a.up, a.seq))
		}
	})
	if left != "" {
		e.Harness("bubble: %s", left)
	}
	e.Res.Sample = map[string]any{"mode": mode, "order": sample}
}

func init() {
	Registry["C33"] = &Info{
		Run:   C33,
		Level: "exploration",
		Rule: "each run draws the mode (real S3Storage.Upload against a stub S3 endpoint | exported key generator), 1-3 processes (independent NewS3Storage values, one bucket and prefix), 1-8 uploader tasks per process, 1-2 (thorough 1-4, generator mode x2) uploads per uploader — one generator run in five is a long one with 1-2 uploaders per process drawing up to 100-600 keys each — prefix and content encoding from the tape; " +
			"the scheduler picks which uploader obtains its next key and, between any two of them, whether the clock stays where it is or moves by 1 ns, 10 ns, 100 ns, 999 ns, 1 us, 10 us, 1 ms or 1 s; oracle: no object key is used twice in the run; " +
			"distinct = distinct schedule fingerprint (sequence of uploader moves and clock advances); non-trivial = at least two keys were obtained",
		Real:  []string{"vgis3.NewS3Storage + S3Storage.Upload (key construction, aws-sdk-go-v2 PutObject and presign) in upload mode", "vgis3.generateUUID through the verif-tagged export in generator mode", "testing/synctest clock (time.Now inside the key generator)"},
		Stub:  []string{"S3 service: in-process net/http server on a loopback listener (records PUT path + body, answers 200)", "AWS environment (static credentials, IMDS and shared config disabled)", "uploader tasks (harness payloads, no RPC server in front)"},
		Quick: 480, Thorough: 24000,
		Warm:       warmK,
		FaultKinds: []string{"clock-advance-sub-us", "clock-advance-us", "clock-advance-coarse"},
		Assumptions: []string{
			"GCS backend not simulated: GCSStorage has no seam for an injected client; with STORAGE_EMULATOR_HOST the real NewGCSStorage+Upload do reach a stub endpoint (the object write and its uuid key are observable there), but the client is then credential-less and Upload's SignedURL step calls the IAM signBlob API at iamcredentials.googleapis.com with unbounded retries, so Upload never returns offline (tried: it spins in the retry loop on the fake clock). Its key is uuid.New() (122 random bits, no clock or schedule in it); only the S3 backend is decided here.",
			"simulated processes share one OS process, hence package-level variables of vgis3: a key scheme that relied on a per-process package-level counter would look unique across simulated processes although real processes could collide",
			"upload mode uses real loopback TCP between the SDK client (inside the bubble) and the stub endpoint (outside): the simulator does not schedule inside one Upload call; the key is fixed at the call's first statement, so scheduling between calls is where the property lives",
			"keys are compared as observed in this run only (uniqueness against objects written by earlier runs of the same deployment is the same question at a larger clock distance, covered by the 1 ms / 1 s steps only)",
		},
	}
}
