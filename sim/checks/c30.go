package checks

import (
	"fmt"
	"net/http"
	"strings"
	"time"

	"verifsim/simkern"
	"verifsim/worlds/fetchw"

	"github.com/Query-farm/vgi-rpc-go/vgirpc"
	"github.com/apache/arrow-go/v18/arrow"
	"github.com/apache/arrow-go/v18/arrow/array"
)

// c30Case is one externalize/resolve history.
type c30Case struct {
	id     int
	kind   string // own | peer
	schema *arrow.Schema
	spec   fetchw.BatchSpec
	orig   arrow.RecordBatch // own: the batch handed to externalize
	comp   string
	level  int
	thr    int64
	// peer: the composed stream
	peerKinds []string
	peerData  []arrow.RecordBatch
	// pointer
	ptrStyle string // real | no-sha | peer-sha | peer-no-sha
	sha      string
	obj      *fetchw.Object
	// progress
	stage string // new | stored | resolving | done
	out   string
}

func (c *c30Case) describe() string {
	s := fmt.Sprintf("case%d %s %s comp=%s/%d thr=%d ptr=%s", c.id, c.kind, c.spec, c.comp, c.level, c.thr, c.ptrStyle)
	if c.kind == "peer" {
		s += fmt.Sprintf(" stream=%v", c.peerKinds)
	}
	if c.obj != nil && len(c.obj.Faults) > 0 {
		s += fmt.Sprintf(" faults=%v", c.obj.Faults)
	}
	return s + " -> " + c.out
}

// c30Compose draws a stream of 1..max batches out of data / log / pointer
// batches in any order. It returns the kinds, the batches and the data
// batches among them.
func c30Compose(tp *simkern.Tape, schema *arrow.Schema, max, salt int) (kinds []string, all, data []arrow.RecordBatch) {
	n := 1 + tp.Draw(max)
	for i := 0; i < n; i++ {
		switch tp.Weighted([]int{5, 3, 2}) {
		case 0:
			cm := arrow.Metadata{}
			if tp.Bool(1, 3) {
				cm = arrow.NewMetadata([]string{"app.tag"}, []string{fmt.Sprintf("t%d", salt+i)})
			}
			b := fetchw.GenData(schema, 1+tp.Draw(4), tp.Draw(40), salt+i, tp.Bool(1, 3), cm)
			kinds, all, data = append(kinds, "data"), append(all, b), append(data, b)
		case 1:
			lvl := []string{"INFO", "DEBUG", "EXCEPTION"}[tp.Draw(3)]
			kinds, all = append(kinds, "log"), append(all, fetchw.LogBatch(schema, lvl, fmt.Sprintf("message %d", i)))
		case 2:
			kinds, all = append(kinds, "pointer"), append(all, fetchw.PointerBatch(schema, fmt.Sprintf("https://store.sim/o/9%d?X-Sig=nested", i), ""))
		}
	}
	return
}

// C30 — externalized batches resolve to exactly the uploaded data.
func C30(e *simkern.Env) {
	tp := e.Tape
	faulty := tp.Bool(1, 2)
	nCases := 1 + tp.Draw(2)
	if e.Tier == "thorough" {
		nCases = 1 + tp.Draw(3)
	}
	retries := tp.Pick(1, 2, 0)
	e.Knob("fault_injecting", faulty)
	e.Knob("cases", nCases)
	e.Knob("max_retries", retries)

	var sample []string
	left := e.Bubble(func() {
		sim := simkern.NewSim(tp, e.Trace)
		defer sim.Close()
		store := fetchw.NewStore(sim, "store.sim")
		origin := &fetchw.Origin{Sim: sim}
		origin.Serve = func(x *fetchw.Exchange, req *http.Request) (*http.Response, error) {
			return store.ServeGet(x, req)
		}
		if faulty {
			sim.Probe("config-fault-injecting")
		} else {
			sim.Probe("config-fault-free")
		}
		cases := make([]*c30Case, nCases)
		resolved := 0

		runCase := func(c *c30Case) func() {
			return func() {
				c.schema, c.spec = fetchw.GenSchema(tp)
				cfg := &vgirpc.ExternalLocationConfig{
					Storage: store, URLValidator: vgirpc.HTTPSOnlyValidator, MaxRetries: retries,
					RetryDelay: 100 * time.Millisecond, HTTPClient: origin.Client(),
				}
				var ptr arrow.RecordBatch
				if tp.Bool(1, 3) {
					// a peer implementation uploaded a whole output cycle (logs and
					// data) and sent a pointer to it
					c.kind = "peer"
					kinds, all, data := c30Compose(tp, c.schema, 4, 10*(c.id+1))
					c.peerKinds, c.peerData = kinds, data
					stream := fetchw.Compose(c.schema, all...)
					c.sha = fetchw.SHA(stream)
					enc := ""
					if tp.Bool(1, 3) {
						stream, enc, c.comp = fetchw.Zstd(stream), "zstd", "zstd"
					}
					c.obj = store.Put(stream, enc)
					c.ptrStyle = "peer-sha"
					if tp.Bool(1, 2) {
						c.ptrStyle, c.sha = "peer-no-sha", ""
					}
					ptr = fetchw.PointerBatch(c.schema, c.obj.URL, c.sha)
					sim.Probe("peer-stream")
					for i, k := range kinds {
						if k == "pointer" {
							sim.Probe("peer-stream-with-pointer")
						}
						if k == "log" && i > 0 && len(data) > 0 {
							sim.Probe("peer-stream-log-after-first")
						}
					}
				} else {
					c.kind = "own"
					rows := 1 + tp.Draw(6)
					c.spec.Rows = rows
					c.spec.Pad = tp.Pick(0, 30, 200, 1500, -1500, -20000) // negative: incompressible noise of that size
					cm := arrow.Metadata{}
					switch tp.Draw(3) {
					case 1:
						cm = arrow.NewMetadata([]string{"app.trace"}, []string{"abc123"})
						c.spec.BatchMeta = []string{"app.trace"}
					case 2:
						cm = arrow.NewMetadata([]string{fetchw.KState, "app.trace"}, []string{"dG9rZW4=", ""})
						c.spec.BatchMeta = []string{fetchw.KState, "app.trace"}
					}
					c.orig = fetchw.GenData(c.schema, rows, c.spec.Pad, c.id+1, tp.Bool(1, 2), cm)
					size := fetchw.BufSize(c.orig)
					c.thr = []int64{1, size, size / 2, size + 1, 4 * size}[tp.Weighted([]int{4, 3, 1, 1, 1})]
					if c.thr < 1 {
						c.thr = 1
					}
					cfg.ExternalizeThresholdBytes = c.thr
					// (every compressed externalize builds a fresh encoder in the code
					// under test, which dominates the cost of a run: keep it a minority)
					switch tp.Weighted([]int{12, 2, 1, 1}) {
					case 1:
						c.comp, c.level = "zstd", 0
					case 2:
						c.comp, c.level = "zstd", tp.Pick(1, 3, 2, 4)
					case 3:
						c.comp, c.level = "zstd", tp.Pick(5, 9, 19, 22)
					}
					if c.comp == "zstd" {
						cfg.Compression = &vgirpc.Compression{Algorithm: "zstd", Level: c.level}
					}
					metaArg := arrow.Metadata{}
					if tp.Bool(1, 2) {
						metaArg = cm
					}
					out, outMeta, err := vgirpc.MaybeExternalizeBatch(c.orig, metaArg, cfg)
					if err != nil {
						c.out, c.stage = "externalize error: "+err.Error(), "done"
						sim.Probe("externalize-error")
						e.Violate("externalize-failed", "externalize compression="+c.comp, "%s: healthy store, batch of %d buffer bytes at threshold %d: %v", c.describe(), size, c.thr, err)
						return
					}
					if out == c.orig {
						// travelled inline: nothing to resolve
						c.out, c.stage = "inline", "done"
						sim.Probe("inline-not-externalized")
						return
					}
					sim.Probe("externalized")
					if c.comp == "zstd" {
						sim.Probe("externalized-zstd")
					}
					loc, sha := "", ""
					for i, k := range outMeta.Keys() {
						switch k {
						case fetchw.KLocation:
							loc = outMeta.Values()[i]
						case fetchw.KSHA256:
							sha = outMeta.Values()[i]
						}
					}
					c.obj = store.ByURL(loc)
					if out.NumRows() != 0 || c.obj == nil {
						c.stage = "done"
						e.Violate("pointer-malformed", "externalize", "%s: externalize returned a batch of %d rows with location %q, which names no uploaded object", c.describe(), out.NumRows(), loc)
						return
					}
					c.sha, c.ptrStyle = sha, "real"
					if sha == "" || tp.Bool(1, 4) {
						// an old-style pointer (no checksum) to the same object
						c.sha, c.ptrStyle = "", "no-sha"
					}
					keys, vals := []string{fetchw.KLocation}, []string{loc}
					if c.sha != "" {
						keys, vals = append(keys, fetchw.KSHA256), append(vals, c.sha)
					}
					ptr = array.NewRecordBatchWithMetadata(out.Schema(), out.Columns(), 0, arrow.NewMetadata(keys, vals))
				}
				c.stage = "stored"
				// the pointer crosses the wire
				wire := fetchw.Compose(ptr.Schema(), ptr)
				got, ok := fetchw.ParseTolerant(wire)
				if !ok || len(got) != 1 {
					e.Harness("pointer did not survive the harness wire")
					return
				}
				ptr = got[0]
				var ptrMeta arrow.Metadata
				if rm, ok := ptr.(arrow.RecordBatchWithMetadata); ok {
					ptrMeta = rm.Metadata()
				}
				sim.Y("case.before-resolve")
				c.stage = "resolving"
				var res arrow.RecordBatch
				var err error
				func() {
					defer func() {
						if r := recover(); r != nil {
							err = fmt.Errorf("panic: %v", r)
							sim.Probe("resolve-panicked")
						}
					}()
					res, _, err = vgirpc.ResolveExternalLocation(ptr, ptrMeta, cfg)
				}()
				c.stage = "done"
				resolved++
				c30Judge(e, sim, c, res, err)
			}
		}
		for i := range cases {
			cases[i] = &c30Case{id: i, stage: "new"}
			sim.Spawn(fmt.Sprintf("case%d", i), runCase(cases[i]))
		}
		reason, _ := sim.Run(simkern.RunOpts{
			MaxSteps: 4000,
			Done:     sim.RootsDone,
			Extra: func() []simkern.Action {
				if !faulty {
					return nil
				}
				var acts []simkern.Action
				for _, c := range cases {
					c := c
					if c.obj == nil || (c.stage != "stored" && c.stage != "resolving") || len(c.obj.Faults) >= 2 {
						continue
					}
					o := c.obj
					add := func(kind string, w int, do func()) {
						acts = append(acts, simkern.Action{Name: fmt.Sprintf("fault %s case%d", kind, c.id), Weight: w, Do: func() {
							do()
							sim.Fault(kind)
							sim.Logf("object %s: %v", o.Key, o.Faults)
						}})
					}
					add("substitution", 3, func() {
						kinds, all, _ := c30Compose(tp, c.schema, 3, 50*(c.id+1))
						stream := fetchw.Compose(c.schema, all...)
						enc := ""
						if tp.Bool(1, 3) {
							stream, enc = fetchw.Zstd(stream), "zstd"
						}
						o.Substitute(stream, enc, strings.Join(kinds, "+"))
					})
					add("loss", 1, func() { o.Lose() })
					if len(o.Data) > 1 {
						add("transient-body-cut", 3, func() { o.TransientCut = 1 + tp.Draw(len(o.Data)) })
					}
					if c.sha != "" {
						// in-place corruption is only decidable against a checksum
						if len(o.Data) > 0 {
							add("bit-rot", 3, func() { o.BitRot(tp.Draw(len(o.Data)), tp.Draw(8)) })
						}
						if len(o.Data) > 1 {
							add("truncation", 2, func() { o.Truncate(tp.Draw(len(o.Data))) })
						}
						add("encoding-header", 1, func() { o.FlipEncoding() })
					}
				}
				return acts
			},
		})
		e.Conclude(sim, reason, false)
		e.Res.Nontrivial = resolved > 0
		for _, c := range cases {
			sample = append(sample, c.describe())
		}
	})
	if left != "" {
		e.Harness("bubble: %s", left)
	}
	e.Res.Sample = sample
}

// c30Judge is the oracle for one resolve outcome.
func c30Judge(e *simkern.Env, sim *simkern.Sim, c *c30Case, res arrow.RecordBatch, err error) {
	o := c.obj
	relaxed := o.FaultsAtLastServe > 0 || (o.Gets == 0 && len(o.Faults) > 0)
	site := "resolve"
	if err != nil {
		c.out = "error: " + err.Error()
		sim.Probe("resolved-error")
		if relaxed {
			sim.Probe("error-after-storage-fault")
			return
		}
		switch c.kind {
		case "own":
			e.Violate("roundtrip-failed", site, "%s: no storage fault fired, yet resolving the pointer failed", c.describe())
		case "peer":
			hasPtr := false
			for _, k := range c.peerKinds {
				hasPtr = hasPtr || k == "pointer"
			}
			if hasPtr || len(c.peerData) == 0 {
				sim.Probe("malformed-stream-refused")
				return
			}
			if len(c.peerData) == 1 {
				e.Violate("peer-stream-refused", site, "%s: the stream holds exactly one data batch and no pointer, no storage fault fired, yet it was refused", c.describe())
			}
		}
		return
	}
	sim.Probe("resolved-ok")
	c.out = "ok: " + fetchw.Describe(res)
	payload, pok := o.ServedPayload()
	if c.sha != "" && (!pok || fetchw.SHA(payload) != c.sha) {
		e.Violate("checksum-mismatch-accepted", site, "%s: the pointer names sha256 %s, the download does not hash to it, and a batch was returned", c.describe(), c.sha)
		return
	}
	if !pok {
		e.Violate("resolved-without-download", site, "%s: a batch was returned although the last answer of the store was status %d / undecodable", c.describe(), o.LastStatus)
		return
	}
	fetched, ok := fetchw.ParseTolerant(payload)
	if !ok {
		e.Violate("resolved-from-unreadable-stream", site, "%s: the download is not an IPC stream, yet a batch was returned", c.describe())
		return
	}
	var kinds []string
	var data []arrow.RecordBatch
	hasPtr := false
	for _, b := range fetched {
		k := fetchw.Kind(b)
		kinds = append(kinds, k)
		if k == "data" {
			data = append(data, b)
		}
		hasPtr = hasPtr || k == "pointer"
	}
	detail := fmt.Sprintf("%s: fetched stream %v, returned %s", c.describe(), kinds, fetchw.Describe(res))
	switch fetchw.Kind(res) {
	case "log":
		e.Violate("log-batch-returned-as-data", site, "%s", detail)
		return
	case "pointer":
		e.Violate("nested-pointer-not-refused", site, "%s", detail)
		return
	}
	if hasPtr {
		e.Violate("nested-pointer-not-refused", site, "%s", detail)
		return
	}
	if len(data) == 0 {
		e.Violate("stream-without-data-not-refused", site, "%s", detail)
		return
	}
	member := false
	for _, d := range data {
		if fetchw.Diff(d, res) == "" {
			member = true
		}
	}
	if !member {
		e.Violate("resolved-batch-not-in-stream", site, "%s: the returned batch equals none of the stream's data batches (%s)", detail, fetchw.Diff(data[len(data)-1], res))
		return
	}
	if relaxed {
		sim.Probe("ok-after-storage-fault")
		return
	}
	switch c.kind {
	case "own":
		if d := fetchw.Diff(c.orig, res); d != "" {
			e.Violate("roundtrip-mismatch", site, "%s: %s", detail, d)
		}
	case "peer":
		if len(c.peerData) == 1 {
			if d := fetchw.Diff(c.peerData[0], res); d != "" {
				e.Violate("roundtrip-mismatch", site, "%s: %s", detail, d)
			}
		}
	}
}

func warmFetch() {
	// one compressed round trip outside any bubble: arrow, zstd and net/http
	// singletons are then created bubble-free
	store := fetchw.NewStore(nil, "store.sim")
	origin := &fetchw.Origin{}
	origin.Serve = func(x *fetchw.Exchange, req *http.Request) (*http.Response, error) { return store.ServeGet(x, req) }
	tp := simkern.NewReplayTape(nil)
	schema, _ := fetchw.GenSchema(tp)
	b := fetchw.GenData(schema, 3, 100, 1, true, arrow.Metadata{})
	cfg := &vgirpc.ExternalLocationConfig{Storage: store, URLValidator: vgirpc.HTTPSOnlyValidator, MaxRetries: 1,
		RetryDelay: time.Millisecond, HTTPClient: origin.Client(), ExternalizeThresholdBytes: 1,
		Compression: &vgirpc.Compression{Algorithm: "zstd"}}
	p, pm, err := vgirpc.MaybeExternalizeBatch(b, arrow.Metadata{}, cfg)
	if err == nil {
		_, _, _ = vgirpc.ResolveExternalLocation(p, pm, cfg)
	}
	_, _ = fetchw.Unzstd(fetchw.Zstd([]byte("warm")))
}

func init() {
	Registry["C30"] = &Info{
		Run:   C30,
		Level: "exploration",
		Rule:  "each run draws fault-free or fault-injecting, 1-3 concurrent cases and the retry budget; a case draws a schema (1-3 typed columns + pad, optional schema metadata), then either (own) a data batch with optional nulls / custom metadata and a compressible or incompressible (pseudo-random, 1.5 or 20 kB) pad column, a threshold around its buffer size and a compression setting, runs the real externalize against the simulated store and resolves the real pointer (or an old-style pointer without checksum), or (peer) stores a stream composed of data / log / pointer batches in any order, raw or zstd, and resolves a pointer to it with or without checksum; in fault-injecting runs the scheduler may hit the stored object between upload and any fetch attempt with bit rot, truncation, loss, a wrong Content-Encoding header, substitution by another composed stream, or a transient delivery fault (one answer breaks off mid-body; the next attempt gets the intact object); distinct = distinct schedule+fault fingerprint; non-trivial = at least one pointer was resolved",
		Real:  []string{"vgirpc.MaybeExternalizeBatch/externalizeBatchCtx", "vgirpc.ResolveExternalLocation, fetchExternalData, decompressZstdCapped, batchMetadata", "net/http.Client (redirect/response handling)", "arrow-go IPC, klauspost zstd", "testing/synctest clock (retry delays)"},
		Stub:  []string{"object store behind ExternalStorage (fetchw.Store)", "origin behind http.RoundTripper (fetchw.Origin)", "peer uploader / pointer wire (arrow-go IPC in the harness)"},
		Quick: 800, Thorough: 40000,
		Warm:       warmFetch,
		FaultKinds: []string{"bit-rot", "truncation", "loss", "substitution", "encoding-header", "transient-body-cut"},
		Assumptions: []string{
			"custom metadata = the batch's own IPC custom metadata (arrow.RecordBatchWithMetadata); the second return value of ResolveExternalLocation (fetch_ms/source) is not compared",
			"whether a batch near the threshold is externalized at all is not asserted; only externalized batches are judged",
			"'may fail, never wrong' (error allowed) applies only when a storage fault hit the object before the last answer of the store; otherwise the result must equal the uploaded data batch",
			"a stream with several data batches and no pointer may resolve to any one of them or fail; a peer stream with exactly one data batch, no pointer and any number of log batches must resolve to that batch",
			"in-place corruption (bit rot, truncation, wrong encoding header) is injected only under pointers that carry a checksum: without one no implementation can tell",
			"data batches never carry the reserved keys vgi_rpc.log_level / vgi_rpc.location; log and pointer batches have zero rows",
			"a panic inside resolve counts as failure here (crash-freedom is another property)",
		},
	}
}
