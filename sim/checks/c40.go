package checks

import (
	"bytes"
	"compress/gzip"
	"encoding/json"
	"fmt"
	"io"
	"strings"
	"time"

	"verifsim/hx"
	"verifsim/simkern"
	"verifsim/worlds/lazyw"
)

// c40Kinds are the route kinds world L issues. Index 0 is the simplest.
var c40Kinds = []string{"unary", "stream-init", "describe", "health", "landing", "describe-page", "options", "unknown-path", "unknown-method", "unary-big", "session-delete"}
var c40KindWeights = []int{5, 3, 2, 2, 3, 3, 1, 2, 1, 2, 1}

// lazyFreeze is the schedule bias shared by the world-L checks: one victim
// task runs almost alone for `depth` of its own steps, is then held back (it is
// parked somewhere inside the lazy set-up path) while the other tasks run, and
// is let go again when they have finished `hold` requests or cannot move.
type lazyFreeze struct {
	on      bool
	victim  string
	depth   int
	hold    int
	frozen  bool
	thawed  bool
	doneAt0 int
}

func gunzip(b []byte) []byte {
	r, err := gzip.NewReader(bytes.NewReader(b))
	if err != nil {
		return nil
	}
	out, err := io.ReadAll(r)
	if err != nil {
		return nil
	}
	return out
}

// lazyDecoded returns the response body with its content coding undone (nil
// when it cannot be decoded).
func lazyDecoded(r *hx.Resp) []byte {
	enc := r.Header.Get("Content-Encoding")
	if enc == "" {
		enc = r.Header.Get("X-VGI-Content-Encoding")
	}
	if enc == "gzip" {
		return gunzip(r.Body)
	}
	return r.Decoded
}

// C40 — lazy set-up runs once under concurrency (world L).
func C40(e *simkern.Env) {
	tp := e.Tape
	nTasks := 2 + tp.Draw(4)
	hookFailures := tp.Draw(3)
	hookPanics := 0
	if hookFailures > 0 && tp.Bool(1, 3) {
		hookPanics = 1 // the first failing invocation fails by panicking
	}
	perTask := 2 + tp.Draw(3)
	if e.Tier == "thorough" {
		perTask = 2 + tp.Draw(5)
	}
	prefix := []string{"", "/vgi"}[tp.Draw(2)]
	level := []int{-1, 2}[tp.Draw(2)]
	plan := make([][]int, nTasks)
	for t := range plan {
		plan[t] = make([]int, perTask)
		for i := range plan[t] {
			plan[t][i] = tp.Weighted(c40KindWeights)
		}
	}
	fr := &lazyFreeze{}
	mode := tp.Draw(3) // 0 uniform, 1/2 freeze
	if mode > 0 {
		fr.on = true
		fr.victim = fmt.Sprintf("req%d", tp.Draw(nTasks))
		// most lazy set-up sits in the first ~45 scheduling points of the
		// first request; some is first touched by a later request (health
		// body, reaper)
		switch tp.Draw(4) {
		case 0, 1:
			fr.depth = tp.Draw(45)
		case 2:
			fr.depth = tp.Draw(90)
		default:
			fr.depth = tp.Draw(260)
		}
		fr.hold = 1 + tp.Draw(2)
	}
	e.Knob("tasks", nTasks)
	e.Knob("hook_failures", hookFailures)
	e.Knob("requests_per_task", perTask)
	e.Knob("prefix", prefix)
	e.Knob("compression", level)
	e.Knob("schedule", map[string]any{"freeze": fr.on, "victim": fr.victim, "depth": fr.depth, "hold": fr.hold})

	var sample []string
	left := e.Bubble(func() {
		sim := simkern.NewSim(tp, e.Trace)
		defer sim.Close()
		hx.Rec.Reset()
		w, err := lazyw.New(sim, lazyw.Config{
			Prefix: prefix, Compression: level, Sticky: true, StickyTTL: 30 * time.Second,
			EchoHeaders:     map[string]string{"fly-force-instance-id": "i-1"},
			ExternalStorage: true, ExternalThreshold: 600, AccessLog: true, DispatchHook: true,
			HookFailures: hookFailures, HookPanics: hookPanics, WithAuth: true,
		})
		if err != nil {
			e.Harness("world L: %v", err)
			return
		}
		defer w.Close()

		hashes := map[string]string{} // hash value -> first source
		noteHash := func(src, h string) {
			if _, ok := hashes[h]; !ok {
				hashes[h] = src
			}
			if h == "" {
				e.Violate("protocol-hash-empty", src, "an empty protocol hash was observed through %s", src)
			} else if len(hashes) > 1 {
				var parts []string
				for _, k := range simkern.SortedKeys(hashes) {
					parts = append(parts, fmt.Sprintf("%q via %s", k, hashes[k]))
				}
				e.Violate("protocol-hash-differs", src, "requests of one server observed different protocol hashes: %s", strings.Join(parts, "; "))
			}
		}
		type pageObs struct {
			status int
			body   string
			seq    int
		}
		pages := map[string]pageObs{}
		reqDone := map[string]int{}
		alogSeen := 0

		judge := func(x *lazyw.Exchange) {
			desc := fmt.Sprintf("request #%d %s %s %s by %s: status %d, own hook invocations %d, hook successes at start/end %d/%d, handler runs %d",
				x.Seq, x.Kind, reqMethod(x.Req), x.Req.Path, x.Task, x.Resp.Status, len(x.Invs), x.SuccAtStart, x.SuccAtEnd, x.HandlerRuns)
			if x.Resp.Panicked != nil && x.SawHookPanic() {
				// its own serve-start hook invocation panicked: net/http recovers
				// that and drops the connection; nothing of the request may have run
				sim.Probe("request-saw-hook-panic")
				if x.HandlerRuns > 0 || len(x.Dispatches) > 0 {
					e.Violate("hook-failure-not-refused", "serve-start", "%s: its serve-start hook invocation panicked, yet the request was dispatched", desc)
				}
				return
			}
			if x.Resp.Panicked != nil {
				e.Violate("panic-escaped-servehttp", x.Kind, "%s: panic %v\n%s", desc, x.Resp.Panicked, trimStack(x.Resp.Stack))
				return
			}
			refused := x.SawHookFailure()
			if refused {
				sim.Probe("request-saw-hook-failure")
				if x.Resp.Status != 500 || x.HandlerRuns > 0 || len(x.Dispatches) > 0 {
					e.Violate("hook-failure-not-refused", "serve-start", "%s: its serve-start hook invocation failed, so it must be refused with 500 before dispatch", desc)
					return
				}
				if w.Succ == 0 {
					if k := string(w.Srv.TransportKind()); k != "" && w.Succ == 0 {
						e.Violate("binding-committed-despite-failure", "serve-start", "%s: no serve-start hook invocation has succeeded, yet Server.TransportKind()=%q", desc, k)
						return
					}
				}
			}
			for _, inv := range x.Invs {
				if inv.Index > 0 && !w.Invs[inv.Index-1].OK {
					sim.Probe("hook-reinvoked-after-failure")
				}
			}
			if len(x.Invs) == 0 && x.SuccAtEnd == 0 {
				e.Violate("hook-skipped", "serve-start", "%s: the request completed although no serve-start hook invocation has succeeded and it did not run the hook itself", desc)
				return
			}
			if len(x.Invs) == 0 && x.SuccAtStart == 0 {
				sim.Probe("request-waited-for-foreign-hook")
			}
			for i, s := range x.HandlerSucc {
				if s == 0 {
					e.Violate("dispatch-before-hook-success", "serve-start", "%s: handler entry %d ran before any serve-start hook invocation had succeeded", desc, i)
					return
				}
			}
			for _, d := range x.Dispatches {
				if d.SuccAt == 0 {
					e.Violate("dispatch-before-hook-success", "serve-start", "%s: dispatch of %s started before any serve-start hook invocation had succeeded", desc, d.Method)
					return
				}
				noteHash("DispatchInfo.ProtocolHash", d.Hash)
			}
			for i := range x.Kinds {
				if x.Kinds[i] != "http" || x.CtxKinds[i] != "http" {
					e.Violate("transport-kind-mismatch", x.Kind, "%s: handler observed Server.TransportKind()=%q CallContext.Kind=%q", desc, x.Kinds[i], x.CtxKinds[i])
					return
				}
			}
			for _, h := range x.Hashes {
				noteHash("Server.ProtocolHash() in handler", h)
			}
			if refused {
				return
			}
			body := lazyDecoded(x.Resp)
			if body == nil && len(x.Resp.Body) > 0 {
				e.Violate("response-body-undecodable", x.Kind, "%s: body does not decode with its stated content coding %q", desc, x.Resp.Header.Get("Content-Encoding"))
				return
			}
			if x.Resp.Header.Get("Content-Encoding") != "" || x.Resp.Header.Get("X-VGI-Content-Encoding") != "" {
				sim.Probe("compressed-response")
			}
			if x.Resp.Header.Get("Content-Type") == hx.ArrowCT {
				sts, perr := hx.ParseStreams(body)
				if perr != nil {
					e.Violate("response-body-undecodable", x.Kind, "%s: Arrow body does not parse: %v", desc, perr)
					return
				}
				for _, st := range sts {
					for _, b := range st.Batches {
						for _, n := range b.Nonce {
							if n != x.Nonce {
								e.Violate("response-crosstalk", x.Kind, "%s: response carries nonce %d of another call (own %d)", desc, n, x.Nonce)
								return
							}
						}
						if x.Kind == "describe" {
							if h, ok := b.Meta["vgi_rpc.protocol_hash"]; ok {
								noteHash("__describe__ response", h)
							}
						}
						if b.Kind == "pointer" {
							sim.Probe("externalized-response")
						}
					}
				}
			}
			if reqMethod(x.Req) == "GET" {
				key := x.Req.Path
				ob := pageObs{x.Resp.Status, string(body), x.Seq}
				if prev, ok := pages[key]; ok {
					if prev.status != ob.status || prev.body != ob.body {
						e.Violate("page-differs", x.Kind, "%s: GET %s answered %d (%d bytes, %q...) but request #%d got %d (%d bytes, %q...)",
							desc, key, ob.status, len(ob.body), head(ob.body, 60), prev.seq, prev.status, len(prev.body), head(prev.body, 60))
						return
					}
					sim.Probe("page-served-again")
				} else {
					pages[key] = ob
				}
			}
			// access-log records carry the hash too
			for ; alogSeen < len(w.AccessLines); alogSeen++ {
				var rec map[string]any
				if json.Unmarshal([]byte(w.AccessLines[alogSeen]), &rec) == nil {
					if h, ok := rec["protocol_hash"].(string); ok {
						noteHash("access-log record", h)
						sim.Probe("access-log-record")
					}
				}
			}
		}

		nonce := int64(1000)
		mkReq := func(kind string, ti int) (hx.Req, int64) {
			nonce++
			n := nonce
			acc := []string{"", "zstd", "gzip", "gzip, zstd"}[int(n)%4]
			switch kind {
			case "unary":
				m := hx.UnaryMethods[int(n)%3]
				return hx.Req{Path: w.P("/" + m), Body: hx.RequestBytes(m, &hx.Script{Nonce: n, Outcome: "ok"}, hx.Meta{}), Accept: acc}, n
			case "unary-big":
				return hx.Req{Path: w.P("/u_str"), Body: hx.RequestBytes("u_str", &hx.Script{Nonce: n, Outcome: "ok", Pad: 3000}, hx.Meta{}), Accept: acc}, n
			case "stream-init":
				m, mode := "prod2", "producer"
				if n%2 == 0 {
					m, mode = "exch2", "exchange"
				}
				sc := &hx.Script{Nonce: n, Outcome: "ok", Mode: mode, Turns: []hx.Step{{Act: "emit"}, {Act: "emit"}}}
				return hx.Req{Path: w.P("/" + m + "/init"), Body: hx.RequestBytes(m, sc, hx.Meta{}), XAccept: acc}, n
			case "describe":
				return hx.Req{Path: w.P("/__describe__"), Body: hx.RawRequestBytes(hx.EmptyBatch(), hx.M(hx.KMethod, "__describe__", hx.KReqVersion, "1")), Accept: acc}, n
			case "health":
				if prefix != "" && n%2 == 0 {
					return hx.Req{Method: "GET", Path: w.P("/health")}, n
				}
				return hx.Req{Method: "GET", Path: "/health"}, n
			case "landing":
				p := w.P("")
				if p == "" {
					p = "/"
				}
				return hx.Req{Method: "GET", Path: p}, n
			case "describe-page":
				return hx.Req{Method: "GET", Path: w.P("/describe")}, n
			case "options":
				return hx.Req{Method: "OPTIONS", Path: w.P("/u_int")}, n
			case "unknown-path":
				return hx.Req{Method: "GET", Path: "/no/such/page"}, n
			case "unknown-method":
				return hx.Req{Path: w.P("/no_such_method"), Body: hx.RequestBytes("no_such_method", &hx.Script{Nonce: n, Outcome: "ok"}, hx.Meta{})}, n
			case "session-delete":
				return hx.Req{Method: "DELETE", Path: w.P("/__session__"), Header: map[string]string{"VGI-Session": "bogus"}}, n
			}
			return hx.Req{Method: "GET", Path: "/health"}, n
		}

		for ti := 0; ti < nTasks; ti++ {
			ti := ti
			name := fmt.Sprintf("req%d", ti)
			sim.Spawn(name, func() {
				for i := 0; i < perTask && !e.Violated(); i++ {
					kind := c40Kinds[plan[ti][i]]
					rq, n := mkReq(kind, ti)
					if i == 0 {
						sim.Probe("first-request-" + kind)
					}
					sim.Logf("%s issues %s %s", name, kind, rq.Path)
					hungUp := false
					if i > 0 && tp.Bool(1, 8) {
						// the peer goes away while the (possibly compressed) body is
						// being written; that request's answer is not judged, but what
						// it leaves behind must not damage anybody else's
						rq.HangUpAfter = 1 + tp.Draw(200)
						if tp.Bool(1, 2) {
							// inside the first few bytes: already the codec's stream
							// header does not get through
							rq.HangUpAfter = 1 + tp.Draw(9)
						}
						hungUp = true
						sim.Fault("peer-hangup-mid-response")
					}
					if tp.Bool(1, 3) {
						// a peer that drains its response slowly: other requests
						// are served while this body is half written
						rq.SlowPeer = true
						sim.Probe("slow-peer")
					}
					x := w.Do(kind, rq, n)
					sim.Logf("%s got %d for %s", name, x.Resp.Status, kind)
					if hungUp && x.Resp.HungUp {
						reqDone[name]++
						sim.Y("client.between")
						continue
					}
					judge(x)
					reqDone[name]++
					sim.Y("client.between")
				}
			})
		}

		taskByName := map[string]*simkern.Task{}
		for _, t := range sim.Tasks() {
			taskByName[t.Name] = t
		}
		othersDone := func() int {
			n := 0
			for k, v := range reqDone {
				if k != fr.victim {
					n += v
				}
			}
			return n
		}
		if fr.on {
			sim.WeightFn = func(tname, site string) int {
				if fr.thawed {
					return 10
				}
				v := taskByName[fr.victim]
				t := taskByName[tname]
				if !fr.frozen {
					if v.Releases > fr.depth {
						fr.frozen = true
						fr.doneAt0 = othersDone()
						sim.Probe("victim-frozen")
					} else if t == v {
						return 1000
					} else {
						return 1
					}
				}
				if othersDone()-fr.doneAt0 >= fr.hold*(nTasks-1) || v.Done() {
					fr.thawed = true
					return 10
				}
				if t == v {
					return 1
				}
				return 200
			}
		}
		reason, _ := sim.Run(simkern.RunOpts{
			MaxSteps: 40000,
			Done:     sim.RootsDone,
			Extra: func() []simkern.Action {
				if sim.Steps%8 != 0 {
					return nil
				}
				return []simkern.Action{{Name: "advance 1s", Weight: 2, Do: func() {
					sim.Fault("clock-advance")
					sim.Advance(time.Second)
				}}}
			},
			Check: func() error {
				if w.Succ > 1 {
					var who []string
					for _, inv := range w.Invs {
						if inv.OK && inv.Ex != nil {
							who = append(who, fmt.Sprintf("invocation %d on request #%d (%s)", inv.Index, inv.Ex.Seq, inv.Ex.Kind))
						}
					}
					e.Violate("hook-committed-twice", "serve-start", "the serve-start hook succeeded %d times on one server: %s", w.Succ, strings.Join(who, ", "))
					return fmt.Errorf("stop")
				}
				if n := w.ReaperTasks(); n > 1 {
					e.Violate("reaper-started-twice", "sticky-reaper", "%d reaper goroutines were started for one registry", n)
					return fmt.Errorf("stop")
				}
				if e.Violated() {
					return fmt.Errorf("stop")
				}
				return nil
			},
		})
		if w.MaxInflight > 1 {
			sim.Probe("hook-invocations-overlapped")
		}
		if !e.Violated() && reason == simkern.StopDone && w.Succ == 1 {
			noteHash("Server.ProtocolHash() after the run", w.Srv.ProtocolHash())
			if k := string(w.Srv.TransportKind()); k != "http" {
				e.Violate("transport-kind-mismatch", "after-run", "Server.TransportKind()=%q after a successful serve-start hook", k)
			}
		}
		for _, t := range sim.Panicked() {
			e.Violate("task-panicked", stableTaskName(t.Name), "task %s panicked: %v\n%s", t.Name, t.Panic, trimStack(t.PanicStack))
		}
		if w.ReaperTasks() == 1 {
			sim.Probe("reaper-started")
		}
		if reason == simkern.StopCheck {
			reason = simkern.StopDone
		}
		sim.WeightFn = nil
		sim.Spawn("shutdown", w.Shutdown)
		if reason == simkern.StopDeadlock && !e.Violated() {
			// every request that is still running waits, with nothing left that
			// could move, inside the server: requests of a live server hang for good
			inServer := false
			for _, t := range sim.Tasks() {
				if parked, site := t.Parked(); t.Root && !t.Done() && parked && (strings.Contains(site, "server.go") || strings.Contains(site, "http")) {
					inServer = true
				}
			}
			if inServer {
				e.Violate("requests-hang-forever", "serve-start", "no task can move and requests are parked inside the server for good: %s", sim.Stuck())
			}
		}
		e.Conclude(sim, reason, true)
		e.Res.Nontrivial = e.Res.Interleavings > 0
		sample = append(sample, fmt.Sprintf("hook invocations=%d successes=%d max-overlap=%d reaper-tasks=%d uploads=%d access-log-lines=%d",
			len(w.Invs), w.Succ, w.MaxInflight, w.ReaperTasks(), w.Uploads, len(w.AccessLines)))
		for _, x := range w.Exchanges {
			if len(sample) > 14 {
				break
			}
			st := -1
			if x.Resp != nil {
				st = x.Resp.Status
			}
			sample = append(sample, fmt.Sprintf("#%d %s %s -> %d (own hook invocations %d)", x.Seq, x.Task, x.Kind, st, len(x.Invs)))
		}
	})
	if left != "" {
		e.Harness("bubble: %s", left)
	}
	e.Res.Sample = sample
}

func reqMethod(r hx.Req) string {
	if r.Method == "" {
		return "POST"
	}
	return r.Method
}

func head(s string, n int) string {
	if len(s) > n {
		return s[:n]
	}
	return s
}

func trimStack(s string) string {
	if len(s) > 1800 {
		return s[:1800]
	}
	return s
}

// stableTaskName strips per-site counters from an implicit task name.
func stableTaskName(n string) string {
	if i := strings.Index(n, "#"); i >= 0 {
		n = n[:i]
	}
	if i := strings.LastIndex(n, ">"); i >= 0 {
		n = n[i+1:]
	}
	if i := strings.Index(n, ":"); i >= 0 {
		n = n[:i]
	}
	return n
}

// warmLazy exercises, outside any bubble, every process-wide singleton world L
// touches: token codec, pooled response encoders (zstd and gzip at the levels
// the worlds use), Arrow allocators.
func warmLazy() {
	warmHTTP()
	for _, lvl := range []int{-1, 2} {
		srvWarm(lvl)
	}
	hx.Rec.Reset()
}

func srvWarm(level int) {
	// A Sim is needed because world L's callbacks call sim.Y; outside a
	// bubble and outside a task those are no-ops.
	sim := simkern.NewSim(simkern.NewSeedTape(1), false)
	defer sim.Close()
	w, err := lazyw.New(sim, lazyw.Config{Compression: level, Sticky: false, ExternalStorage: true, ExternalThreshold: 600, AccessLog: true, WithAuth: true})
	if err != nil {
		return
	}
	defer w.Close()
	for _, acc := range []string{"zstd", "gzip"} {
		w.Do("warm", hx.Req{Path: "/u_str", Body: hx.RequestBytes("u_str", &hx.Script{Nonce: 1, Outcome: "ok", Pad: 3000}, hx.Meta{}), Accept: acc}, 1)
		w.Do("warm", hx.Req{Path: "/u_int", Body: hx.RequestBytes("u_int", &hx.Script{Nonce: 1, Outcome: "ok"}, hx.Meta{}), XAccept: acc}, 1)
		sc := &hx.Script{Nonce: 2, Outcome: "ok", Mode: "producer", Turns: []hx.Step{{Act: "emit"}}}
		w.Do("warm", hx.Req{Path: "/prod2/init", Body: hx.RequestBytes("prod2", sc, hx.Meta{}), Accept: acc}, 2)
	}
	w.Do("warm", hx.Req{Method: "GET", Path: "/"}, 0)
}

func init() {
	Registry["C40"] = &Info{
		Run:   C40,
		Level: "exploration",
		Rule: "each run builds one fresh HttpServer (serve-start hook that yields and fails its first k=0..2 invocations, dispatch hook + real access-log hook, sticky, compression, external storage) and 2-5 tasks that each issue 2-4 (thorough 2-6) requests drawn from {unary, big unary (externalised), stream init, __describe__, health, landing page, describe page, OPTIONS, unknown path, unknown method, DELETE __session__}; " +
			"all first requests are concurrent; the scheduler interleaves at woven Lock/Once.Do/once-body/method-entry yields and harness yields, either uniformly or (2 runs in 3) with one victim task run ahead d of its own steps (d in 0..44 half of the time, else 0..89 or 0..259) and then held inside whatever it is executing while the others complete 1-2 requests each; distinct = distinct schedule fingerprint; non-trivial = at least one step had more than one runnable task",
		Real:  []string{"vgirpc.HttpServer.ServeHTTP (lazy notifyTransport, InitPages, health body, capability/CORS headers, compression writer with pooled codecs)", "vgirpc.Server.notifyTransport / ProtocolHash / TransportKind", "unary, stream-init and __describe__ dispatch", "sticky registry + lazily started reaper goroutine on the simulated ticker", "AccessLogHook + egress recorder", "externalizeBatch (upload path)"},
		Stub:  []string{"HTTP transport (direct ServeHTTP call, httptest recorder)", "serve-start hook, dispatch-hook multiplexer, authenticator (harness callbacks that yield)", "object store (ExternalStorage that yields)", "access-log writer", "scripted handlers"},
		Quick: 800, Thorough: 300000,
		Warm:       warmLazy,
		FaultKinds: []string{"serve-start-hook-failure", "clock-advance", "serve-start-hook-panic", "peer-hangup-mid-response"},
		Assumptions: []string{
			"the 'no data races' clause of C40 is NOT decided: under a cooperative scheduler every access is ordered by the hand-off, so a race detector sees nothing (DESIGN §10); only the consequence clauses are checked (hook committed once, failure refused with 500 and re-run, no dispatch before a hook success, one transport kind, one protocol hash, identical page/health bodies, no escaped panic, one reaper goroutine, response bodies decode and belong to their own call)",
			"'computed once' for pages, health body and protocol hash is judged through observable consequences only (identical answers to identical GETs, one hash value through DispatchInfo, Server.ProtocolHash(), __describe__ and access-log records, no duplicate-route panic), not by counting executions",
			"a lock or Once removed around code that contains no synchronisation operation and no woven method-entry yield is invisible to this technique",
			"'no request completes dispatch before a hook success' is applied to handler entry and OnDispatchStart; for non-dispatch routes (health, pages, OPTIONS, 404) the check demands only that the request either ran the hook itself or completed after a success",
		},
	}
}
