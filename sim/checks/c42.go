package checks

import (
	"bytes"
	"context"
	"encoding/json"
	"errors"
	"fmt"
	"io"
	"log/slog"
	"net"
	"os"
	"strings"
	"time"

	"verifsim/hx"
	"verifsim/simkern"
	"verifsim/worlds/listenw"

	"github.com/Query-farm/vgi-rpc-go/vgirpc"
	"github.com/apache/arrow-go/v18/arrow"
	"github.com/apache/arrow-go/v18/arrow/array"
	"github.com/apache/arrow-go/v18/arrow/ipc"
	"github.com/apache/arrow-go/v18/arrow/memory"
)

// c42Grace is the start-up grace the documented contract of RunUnix / RunTcp
// promises ("a startup grace of max(idleTimeout, 60s) applies so a client
// always has time to connect").
func c42Grace(t time.Duration) time.Duration {
	if t < 60*time.Second {
		return 60 * time.Second
	}
	return t
}

// c42Call is one request a client issued, for attributing responses.
type c42Call struct {
	nonce int64
	conn  string
}

// C42 — socket listeners serve connections independently and shut down only
// when idle.
func C42(e *simkern.Env) {
	tp := e.Tape
	transport := "unix"
	if tp.Bool(1, 3) {
		transport = "tcp"
	}
	// serve-start hook: none | slow (parks a few times) | slow and failing for
	// its first one or two invocations (those connections are refused)
	hookMode := tp.Weighted([]int{5, 2, 2})
	hookYields := 1 + tp.Draw(4)
	hookFailFirst := 0
	if hookMode == 2 {
		hookFailFirst = 1 + tp.Draw(2)
	}
	staleFile := tp.Bool(1, 4) // a predecessor crashed and left its socket file behind (unix only)
	T := time.Duration(tp.Pick(10, 0, 1, 90, 60)) * time.Second
	nClients := 1 + tp.Draw(4)
	maxRounds := 2
	if e.Tier == "thorough" {
		maxRounds = 3
	}
	rounds := make([]int, nClients)
	for i := range rounds {
		rounds[i] = 1 + tp.Draw(maxRounds)
	}
	// Scheduling bias: in some runs one class of server task is starved (runs
	// with a twentieth of the usual weight), which stretches the windows in
	// which an expired timer's callback, the accept loop's bookkeeping or a
	// connection goroutine lag behind everything else.
	slow := []string{"none", "timer-callback", "accept-loop", "connection-goroutine"}[tp.Weighted([]int{5, 3, 1, 1})]
	e.Knob("starved", slow)
	// Some clients own a shared-memory segment (one per client process, as the
	// protocol intends): the first call of each of their connections advertises
	// it, later calls send their parameters through it as pointer batches, so
	// the server's per-connection segment attachment is exercised too.
	shmClient := make([]bool, nClients)
	for i := range shmClient {
		shmClient[i] = tp.Bool(1, 4)
	}
	e.Knob("shm_clients", shmClient)
	e.Knob("transport", transport)
	e.Knob("stale_socket_file", staleFile)
	e.Knob("serve_start_hook", []string{"none", "slow", "slow+failing"}[hookMode])
	e.Knob("idle_timeout_s", int(T/time.Second))
	e.Knob("clients", nClients)
	e.Knob("rounds", rounds)

	base := T // the period the clock menus are built around
	if base == 0 {
		base = 10 * time.Second
	}
	grace := c42Grace(base)
	const eps = time.Millisecond
	advMenu := []time.Duration{eps, 100 * time.Millisecond, base / 2, base - eps, base, base + eps, grace - eps, grace, grace + eps}
	advWeight := []int{2, 2, 1, 1, 2, 1, 1, 1, 1}
	thinkMenu := []time.Duration{0, eps, base / 2, base - eps, base, base + eps, grace - eps, grace + eps}
	thinkWeight := []int{10, 2, 1, 1, 3, 1, 1, 1}

	var sample []string
	left := e.Bubble(func() {
		sim := simkern.NewSim(tp, e.Trace)
		defer sim.Close()
		sim.TaskWeight = 40 // clock advances (total weight 12) stay around one step in ten
		sim.WeightFn = func(task, site string) int {
			isTimer := strings.HasSuffix(task, "@timer")
			switch slow {
			case "timer-callback":
				if isTimer {
					return 2
				}
			case "accept-loop":
				if task == "server" {
					return 2
				}
			case "connection-goroutine":
				if !isTimer && strings.HasPrefix(task, "server>") {
					return 2
				}
			}
			return 0
		}
		// the library logs through slog; a sink that can be slow (it parks the
		// logging goroutine) puts scheduling points wherever the code logs
		prevLog := slog.Default()
		slog.SetDefault(slog.New(c42LogSink{sim}))
		defer slog.SetDefault(prevLog)
		hx.Rec.Reset()
		w, err := listenw.New(sim)
		if err != nil {
			e.Harness("listenw: %v", err)
			return
		}
		defer w.Close()
		srv := vgirpc.NewServer()
		srv.SetServerID("u0")
		hx.Register(srv)
		// The serve-start hook runs in the goroutine of an accepted connection,
		// before anything is read from it. While it runs for this listener's
		// transport, an accepted connection is being handled.
		inHook, hookCalls, hookRefusals := 0, 0, 0
		flips := 0
		if hookMode > 0 {
			srv.SetServeStartHook(func(kind vgirpc.TransportKind, _ map[string]bool) error {
				mine := string(kind) == transport
				if mine {
					inHook++
					defer func() { inHook-- }()
				}
				hookCalls++
				sim.Probe("serve-start-hook-ran")
				for i := 0; i < hookYields; i++ {
					sim.Y("serve-start-hook")
				}
				if mine && hookCalls <= hookFailFirst {
					sim.Fault("serve-start-hook-fails")
					hookRefusals++
					return errors.New("scripted serve-start failure")
				}
				return nil
			})
		}

		var (
			issued       = map[int64]c42Call{} // nonce -> call
			nextNonce    = int64(1000)
			thinking     = 0 // clients waiting for the clock
			awaiting     = 0 // clients waiting for a response
			clientsDone  = 0
			advances     = 0
			sessions     = 0
			callsOK      = 0
			returned     = false
			retAt        time.Duration
			boundSeen    = false
			lastTaskStep = -1
			advStreak    = 0
			judging      = true // false once the world is being torn down
		)
		siteOf := func(what string) string { return transport + ":" + what }
		violate := func(class, site, format string, a ...any) {
			if judging {
				e.Violate(class, site, format, a...)
			}
		}

		// ---- oracle: the instant the listener stops listening ----
		w.OnStop = func(l *listenw.Listener, by string) {
			now := sim.Now()
			if by == "operator" || !judging {
				return
			}
			sim.Probe("self-stop")
			if l.Backlog() > 0 {
				sim.Probe("self-stop-with-backlog")
			}
			for _, c := range w.Conns {
				if c.Accepted && !c.SrvRead && c.ClosedAt < 0 {
					sim.Probe("self-stop-raced-with-accept")
				}
			}
			if T == 0 {
				violate("stopped-with-timeout-zero", siteOf("self-stop"), "idle timeout 0 (never self-terminate) but the listener closed itself at t=%v", now)
				return
			}
			if inHook > 0 {
				violate("stopped-while-connection-open", siteOf("self-stop"), "listener closed itself at t=%v while %d accepted connection(s) were inside the serve-start hook (handled, not yet closed); idle timeout %v", now, inHook, T)
				return
			}
			if open := w.OpenConns(); len(open) > 0 {
				violate("stopped-while-connection-open", siteOf("self-stop"), "listener closed itself at t=%v while %d connection(s) were being served (first: %s, served since t=%v, not closed by either side); idle timeout %v",
					now, len(open), open[0].Name, open[0].SrvReadAt, T)
				return
			}
			idleStart := l.BoundAt
			last := "bind"
			for _, c := range w.Conns {
				if c.WasOpen && c.ClosedAt > idleStart {
					idleStart = c.ClosedAt
					last = "close of " + c.Name + " by " + c.ClosedBy
				}
			}
			need, kind := T, "idle-timeout"
			if l.Accepts == 0 {
				need, kind = c42Grace(T), "startup-grace"
				sim.Probe("self-stop-in-startup-grace")
			}
			if now-idleStart < need {
				violate("stopped-before-idle-timeout", siteOf(kind), "listener closed itself at t=%v, only %v after the last moment a connection was open (%s at t=%v); required %s %v",
					now, now-idleStart, last, idleStart, kind, need)
			}
		}

		// ---- server ----
		checkMode := func(where string) {
			fi, err := os.Lstat(w.SocketPath())
			if err != nil {
				violate("socket-file-missing-while-serving", siteOf(where), "stand-in socket file: %v", errNoPath(err))
				return
			}
			if fi.Mode().Perm() != 0o600 {
				violate("socket-file-not-owner-only", siteOf(where), "socket file mode is %#o, want 0600", fi.Mode().Perm())
			}
		}
		if transport == "unix" && staleFile {
			// a socket file left behind by a predecessor that crashed
			sim.Fault("stale-socket-file")
			if err := os.WriteFile(w.SocketPath(), nil, 0o755); err != nil {
				e.Harness("world U: cannot plant the stale socket file: %v", err)
				return
			}
			_ = os.Chmod(w.SocketPath(), 0o755)
		}
		sim.Spawn("server", func() {
			var err error
			if transport == "unix" {
				err = srv.RunUnix(w.SocketPath(), T, func(p string) {
					boundSeen = true
					sim.Logf("onBound unix")
					checkMode("onBound")
				})
			} else {
				err = srv.RunTcp("127.0.0.1", 0, T, func(h string, p int) {
					boundSeen = true
					sim.Logf("onBound tcp %s:%d", h, p)
				})
			}
			returned, retAt = true, sim.Now()
			sim.Logf("server returned err=%v", err != nil)
			if !judging {
				return
			}
			if err != nil {
				e.Harness("Run%s returned an error: %v", transport, errNoPath(err))
				return
			}
			l := w.L
			if T == 0 && (l == nil || l.ClosedBy != "operator") {
				violate("stopped-with-timeout-zero", siteOf("return"), "idle timeout 0 but the listener returned at t=%v without an operator shutdown", retAt)
			}
			if open := w.OpenConns(); len(open) > 0 {
				violate("returned-while-connection-open", siteOf("return"), "listener returned at t=%v while %d connection(s) were still being served (first: %s)", retAt, len(open), open[0].Name)
			}
			for _, c := range w.Conns {
				if c.Accepted && c.ClosedAt < 0 {
					violate("returned-while-connection-open", siteOf("return"), "listener returned at t=%v and accepted connection %s (dialled at t=%v, served=%v) was never closed by the server", retAt, c.Name, c.DialAt, c.WasOpen)
					break
				}
			}
			if transport == "unix" {
				if _, err := os.Lstat(w.SocketPath()); err == nil {
					violate("socket-file-left-behind", siteOf("return"), "RunUnix returned at t=%v and the socket file still exists", retAt)
				}
			}
		})

		// ---- clients ----
		think := func(site string) {
			d := thinkMenu[tp.Weighted(thinkWeight)]
			if d == 0 {
				sim.Y(site)
				return
			}
			until := sim.Now() + d
			thinking++
			sim.Yield(site, func() bool { return sim.Now() >= until || !judging })
			thinking--
		}
		foreign := func(rec *listenw.ConnRec, site, what string, otherNonce int64, st *hx.Stream) {
			if o, ok := issued[otherNonce]; ok && o.conn != rec.Name {
				violate("foreign-response", site, "connection %s received %s of call %d issued on connection %s", rec.Name, what, otherNonce, o.conn)
				return
			}
			violate("response-mismatch", site, "connection %s received a wrong %s (%s)", rec.Name, what, descStream(st))
		}
		broken := func(rec *listenw.ConnRec, site string, err error) bool {
			if !judging {
				return true
			}
			if rec.Refused {
				sim.Probe("backlog-connection-reset")
				return true
			}
			if hookRefusals > 0 && rec.Accepted && !rec.WasOpen && rec.ClosedBy == "server" {
				// the serve-start hook failed for this connection: the server
				// closed it without serving it
				hookRefusals--
				sim.Probe("connection-refused-by-serve-start-hook")
				return true
			}
			violate("session-broken", site, "accepted connection %s (closed by %q) failed mid-session: %v", rec.Name, rec.ClosedBy, err)
			return true
		}
		// unary call; returns false when the session cannot continue
		unary := func(rec *listenw.ConnRec, seg *vgirpc.ShmSegment, k int) bool {
			nonce := nextNonce
			nextNonce++
			issued[nonce] = c42Call{nonce, rec.Name}
			rid := fmt.Sprintf("rq-%d", nonce)
			msg := fmt.Sprintf("log-%d", nonce)
			sc := &hx.Script{Nonce: nonce, Outcome: "ok", Logs: []hx.LogSpec{{Level: "INFO", Msg: msg}}}
			site := siteOf("unary")
			req := hx.RequestBytes("u_int", sc, hx.M(hx.KReqID, rid))
			switch {
			case seg != nil && k == 0:
				req = hx.RequestBytes("u_int", sc, hx.M(hx.KReqID, rid, hx.KShmName, seg.Name(), hx.KShmSize, fmt.Sprint(seg.Size())))
				sim.Probe("shm-segment-advertised")
			case seg != nil:
				pr, perr := c42PointerRequest(seg, "u_int", sc, rid)
				if perr != nil {
					e.Harness("shm pointer request: %v", perr)
					return false
				}
				req = pr
				site = siteOf("unary-shm-pointer")
			}
			awaiting++
			_, werr := rec.Client.Write(req)
			var st *hx.Stream
			var rerr error
			if werr == nil {
				st, rerr = hx.ReadStream(rec.Client)
			}
			awaiting--
			if werr != nil {
				return !broken(rec, site, werr)
			}
			if rerr != nil {
				return !broken(rec, site, rerr)
			}
			nlog, ndata := 0, 0
			for _, b := range st.Batches {
				switch b.Kind {
				case "log":
					nlog++
					if b.Meta[hx.KReqID] != rid || b.Message != msg {
						var other int64
						fmt.Sscanf(b.Meta[hx.KReqID], "rq-%d", &other)
						foreign(rec, site, "a log batch", other, st)
						return false
					}
				case "data":
					ndata++
					v, ok := singleInt(b.JSON)
					if !ok || v != hx.UnaryIntValue(nonce) {
						foreign(rec, site, "the result", (v-1)/7, st)
						return false
					}
				default:
					violate("response-mismatch", site, "connection %s: unexpected %s batch in a unary response (%s)", rec.Name, b.Kind, descStream(st))
					return false
				}
			}
			if nlog != 1 || ndata != 1 {
				violate("response-mismatch", site, "connection %s: response has %d log and %d result batches, want 1 and 1 (%s)", rec.Name, nlog, ndata, descStream(st))
				return false
			}
			callsOK++
			if seg != nil && k > 0 {
				sim.Probe("shm-pointer-request-served")
			}
			return true
		}
		// producer stream in lockstep (tick per output batch)
		producer := func(rec *listenw.ConnRec, emits int) bool {
			nonce := nextNonce
			nextNonce++
			issued[nonce] = c42Call{nonce, rec.Name}
			sc := &hx.Script{Nonce: nonce, Outcome: "ok", Mode: "producer"}
			for k := 0; k < emits; k++ {
				sc.Turns = append(sc.Turns, hx.Step{Act: "emit"})
			}
			site := siteOf("producer")
			awaiting++
			defer func() { awaiting-- }()
			conn := rec.Client
			if _, err := conn.Write(hx.RequestBytes("prod2", sc, hx.M(hx.KReqID, fmt.Sprintf("rq-%d", nonce)))); err != nil {
				return !broken(rec, site, err)
			}
			tick := hx.EmptyBatch()
			defer tick.Release()
			iw := ipc.NewWriter(conn, ipc.WithSchema(arrow.NewSchema(nil, nil)))
			if err := iw.Write(tick); err != nil {
				return !broken(rec, site, err)
			}
			rd, err := ipc.NewReader(conn)
			if err != nil {
				return !broken(rec, site, err)
			}
			defer rd.Release()
			got := 0
			for rd.Next() {
				b := hx.DecodeBatch(rd.RecordBatch())
				if b.Kind != "data" {
					violate("response-mismatch", site, "connection %s: unexpected %s batch in producer output: %s", rec.Name, b.Kind, b.Message)
					return false
				}
				if len(b.Nonce) != 1 || b.Nonce[0] != nonce || len(b.Turn) != 1 || b.Turn[0] != int64(got) {
					var other int64 = -1
					if len(b.Nonce) > 0 {
						other = b.Nonce[0]
					}
					if o, ok := issued[other]; ok && o.conn != rec.Name {
						violate("foreign-response", site, "connection %s received a stream batch of call %d issued on connection %s", rec.Name, other, o.conn)
					} else {
						violate("response-mismatch", site, "connection %s: stream batch nonce %v turn %v, want nonce %d turn %d", rec.Name, b.Nonce, b.Turn, nonce, got)
					}
					return false
				}
				got++
				if err := iw.Write(tick); err != nil {
					return !broken(rec, site, err)
				}
			}
			if err := rd.Err(); err != nil {
				return !broken(rec, site, err)
			}
			if err := iw.Close(); err != nil {
				return !broken(rec, site, err)
			}
			if got != emits {
				violate("response-mismatch", site, "connection %s: producer delivered %d batches, want %d", rec.Name, got, emits)
				return false
			}
			callsOK++
			sim.Probe("producer-stream-completed")
			return true
		}
		client := func(ci int) func() {
			return func() {
				defer func() { clientsDone++ }()
				var seg *vgirpc.ShmSegment
				if shmClient[ci] {
					if sg, err := vgirpc.ShmCreate(vgirpc.ShmHeaderSize + 256<<10); err != nil {
						sim.Probe("shm-unavailable")
					} else {
						seg = sg
						defer func() { _ = seg.Close() }()
					}
				}
				sim.Yield("client.await-bound", func() bool { return boundSeen || returned })
				for r := 0; r < rounds[ci] && !e.Violated() && judging; r++ {
					think("client.think")
					opts := listenw.DialOpts{YieldOnWrite: tp.Bool(1, 3)}
					if tp.Bool(1, 3) {
						opts.Frag = 1 + tp.Draw(64)
					}
					nCalls := tp.Draw(4)
					emits := 0
					if tp.Bool(1, 3) {
						emits = 1 + tp.Draw(3)
					}
					rec, err := w.Dial(fmt.Sprintf("k%d.%d", ci, r), opts)
					if err != nil {
						sim.Probe("dial-refused-listener-gone")
						return
					}
					sessions++
					if transport == "unix" && !w.L.Closed {
						checkMode("connect")
					}
					ok := true
					for k := 0; k < nCalls && ok && !e.Violated(); k++ {
						ok = unary(rec, seg, k)
						sim.Y("client.between-calls")
					}
					if ok && emits > 0 && !e.Violated() {
						ok = producer(rec, emits)
					}
					if ok && !e.Violated() && tp.Bool(1, 6) {
						// the client gives up mid-call: it sends one more request and hangs
						// up without reading the answer (the server's write of that answer
						// fails; nothing of it may surface on any other connection)
						nonce := nextNonce
						nextNonce++
						issued[nonce] = c42Call{nonce, rec.Name}
						sc := &hx.Script{Nonce: nonce, Outcome: "ok", Logs: []hx.LogSpec{{Level: "INFO", Msg: fmt.Sprintf("log-%d", nonce)}}}
						sim.Fault("client-abandons-call")
						_, _ = rec.Client.Write(hx.RequestBytes("u_int", sc, hx.M(hx.KReqID, fmt.Sprintf("rq-%d", nonce))))
						ok = false
					}
					if ok && tp.Bool(1, 2) {
						think("client.linger") // hold the connection open while the clock moves
					}
					_ = rec.Client.Close()
					if nCalls == 0 && emits == 0 {
						sim.Probe("connect-and-close-session")
					}
				}
			}
		}
		for ci := 0; ci < nClients; ci++ {
			sim.Spawn(fmt.Sprintf("client%d", ci), client(ci))
		}

		// ---- phase 1: clients against the idle timer ----
		extra := func() []simkern.Action {
			taskSteps := sim.Steps - advances
			if taskSteps != lastTaskStep {
				lastTaskStep, advStreak = taskSteps, 0
			}
			// A client waiting for a response while nobody waits for the clock:
			// stop moving the clock after a few idle advances so that a
			// starved connection shows up as a deadlock instead of an endless
			// walk through time.
			if awaiting > 0 && thinking == 0 && advStreak >= 3 {
				return nil
			}
			acts := make([]simkern.Action, 0, len(advMenu)+1)
			if hookMode > 0 && flips < 2 && !returned {
				// the same Server also serves a (short-lived) pipe: its transport
				// binding flips, so the next connection re-runs the serve-start hook
				acts = append(acts, simkern.Action{Name: "serve a pipe on the same server", Weight: 2, Do: func() {
					flips++
					sim.Fault("transport-binding-flipped")
					sim.Spawn(fmt.Sprintf("side-pipe%d", flips), func() {
						srv.ServeWithContext(context.Background(), bytes.NewReader(nil), io.Discard)
					})
				}})
			}
			for i, d := range advMenu {
				d := d
				acts = append(acts, simkern.Action{Name: fmt.Sprintf("advance %v", d), Weight: advWeight[i], Do: func() {
					sim.Fault("clock-advance")
					if len(w.OpenConns()) > 0 {
						sim.Probe("clock-advance-with-open-connection")
					}
					advances++
					advStreak++
					sim.Advance(d)
				}})
			}
			return acts
		}
		// A panic in the accept loop, a connection goroutine or the timer
		// callback has no recover above it in RunUnix/RunTcp: for real it takes
		// the process, and with it every other connection, down. The workload
		// only sends well-formed requests, so any such panic is one connection's
		// service breaking the others'.
		panicked := func() error {
			for _, t := range sim.Panicked() {
				if t.Name == "server" || strings.HasPrefix(t.Name, "server>") {
					kind := "accept-loop"
					if strings.HasSuffix(t.Name, "@timer") {
						kind = "timer-callback"
					} else if t.Name != "server" {
						kind = "connection-goroutine"
					}
					violate("server-task-panicked", siteOf(kind), "%s task %s panicked (this would crash the worker and every open connection): %v", kind, t.Name, t.Panic)
					return fmt.Errorf("panic")
				}
			}
			return nil
		}
		budget := 6000
		if e.Tier == "thorough" {
			budget = 12000
		}
		reason, _ := sim.Run(simkern.RunOpts{MaxSteps: budget, Done: func() bool { return clientsDone == nClients }, Extra: extra, Check: panicked})
		if reason == simkern.StopDeadlock && awaiting > 0 && !e.Violated() {
			violate("connection-starved", siteOf("session"), "%d client(s) wait forever for a response on an accepted connection; stuck: %s", awaiting, sim.Stuck())
		}

		// ---- phase 2: the end of the listener's life ----
		if reason == simkern.StopDone && !returned && !e.Violated() {
			// let the server finish processing the closes (no clock menu; the
			// kernel passes 1 ms when nothing is runnable)
			reason, _ = sim.Run(simkern.RunOpts{MaxSteps: sim.Steps + 400, Done: func() bool { return returned }, IdleLimit: time.Nanosecond, Check: panicked})
			if reason == simkern.StopDeadlock {
				reason = simkern.StopDone // settled, nothing runnable
			}
		}
		if reason == simkern.StopDone && !returned && !e.Violated() {
			if T > 0 {
				// Liveness: every connection is closed and processed; the clock
				// now runs freely past any timeout. The listener must return
				// within 100 scheduler steps.
				r2, _ := sim.Run(simkern.RunOpts{MaxSteps: sim.Steps + 100, Done: func() bool { return returned }, Check: panicked})
				if !returned {
					violate("listener-never-stops", siteOf("liveness"), "all %d connections closed, clock advanced to t=%v (idle timeout %v), listener still serving after 100 steps (%s); stuck: %s",
						len(w.Conns), sim.Now(), T, r2, sim.Stuck())
					reason = simkern.StopDone
				} else {
					sim.Probe("idle-shutdown-after-last-close")
				}
			} else {
				// Timeout 0: ten idle minutes must not stop it; then the operator does.
				r2, _ := sim.Run(simkern.RunOpts{MaxSteps: sim.Steps + 100, Done: func() bool { return returned }, IdleLimit: 10 * time.Minute, Check: panicked})
				if r2 == simkern.StopDeadlock && !returned {
					sim.Probe("timeout-zero-survived-idle")
				}
				if !returned {
					sim.Fault("operator-shutdown")
					w.OperatorClose()
					reason, _ = sim.Run(simkern.RunOpts{MaxSteps: sim.Steps + 200, Done: func() bool { return returned }, Check: panicked})
				}
			}
		}
		// Tear the world down so that every task can finish: nothing is judged
		// from here on.
		judging = false
		if !returned || clientsDone < nClients {
			w.OperatorClose()
			for _, c := range w.Conns {
				_ = c.Client.Close()
			}
		}
		for _, t := range sim.Panicked() {
			if t.Name != "server" && !strings.HasPrefix(t.Name, "server>") {
				e.Harness("task %s panicked: %v\n%s", t.Name, t.Panic, t.PanicStack)
			}
		}
		e.Conclude(sim, reason, true)
		e.Res.Nontrivial = advances > 0 || sim.Interleavings > 0
		sample = append(sample, fmt.Sprintf("%s idle_timeout=%v clients=%d sessions=%d calls_ok=%d advances=%d returned=%v at %v", transport, T, nClients, sessions, callsOK, advances, returned, retAt))
		for _, c := range w.Conns {
			sample = append(sample, fmt.Sprintf("%s dial=%v accepted=%v refused=%v served=%v closed=%v by %s", c.Name, c.DialAt, c.Accepted, c.Refused, c.WasOpen, c.ClosedAt, c.ClosedBy))
		}
		if w.L != nil {
			sample = append(sample, fmt.Sprintf("listener closed=%v by %q at %v", w.L.Closed, w.L.ClosedBy, w.L.ClosedAt))
		}
	})
	if left != "" {
		e.Harness("bubble: %s", left)
	}
	e.Res.Sample = sample
}

// c42LogSink is a slog handler that may be slow: every record is a scheduling
// point of the goroutine that logs it.
type c42LogSink struct{ sim *simkern.Sim }

func (c42LogSink) Enabled(context.Context, slog.Level) bool { return true }
func (h c42LogSink) Handle(context.Context, slog.Record) error {
	if h.sim.Current() != nil {
		h.sim.Y("slog")
	}
	return nil
}
func (h c42LogSink) WithAttrs([]slog.Attr) slog.Handler { return h }
func (h c42LogSink) WithGroup(string) slog.Handler      { return h }

// c42PointerRequest writes the one-row parameter batch into the client's
// segment and frames the zero-row pointer batch that stands in for it.
func c42PointerRequest(seg *vgirpc.ShmSegment, method string, sc *hx.Script, rid string) ([]byte, error) {
	full := hx.StringBatch([]string{"script"}, []string{sc.Encode()})
	defer full.Release()
	off, n, ok, err := seg.AllocateAndWrite(full)
	if err != nil {
		return nil, err
	}
	if !ok {
		return nil, fmt.Errorf("segment full")
	}
	sb := array.NewStringBuilder(memory.NewGoAllocator())
	col := sb.NewArray()
	sb.Release()
	defer col.Release()
	zero := array.NewRecordBatch(full.Schema(), []arrow.Array{col}, 0)
	m := hx.M(hx.KMethod, method, hx.KReqVersion, "1", hx.KReqID, rid, hx.KShmOffset, fmt.Sprint(off), hx.KShmLength, fmt.Sprint(n))
	return hx.RawRequestBytes(zero, m), nil
}

// errNoPath renders an error without the per-run scratch path.
func errNoPath(err error) string {
	if pe, ok := err.(*os.PathError); ok {
		return pe.Op + ": " + pe.Err.Error()
	}
	if oe, ok := err.(*net.OpError); ok {
		return oe.Op + ": " + oe.Err.Error()
	}
	return "error"
}

// singleInt extracts the only value of a one-row, one-column JSON rendering.
func singleInt(js string) (int64, bool) {
	var rows []map[string]any
	dec := json.NewDecoder(bytes.NewReader([]byte(js)))
	dec.UseNumber()
	if err := dec.Decode(&rows); err != nil || len(rows) != 1 || len(rows[0]) != 1 {
		return 0, false
	}
	for _, v := range rows[0] {
		if n, ok := v.(json.Number); ok {
			i, err := n.Int64()
			return i, err == nil
		}
	}
	return 0, false
}

func descStream(st *hx.Stream) string {
	if st == nil {
		return "no stream"
	}
	s := ""
	for _, b := range st.Batches {
		s += fmt.Sprintf("[%s rows=%d %s %s]", b.Kind, b.Rows, b.Message, b.JSON)
	}
	return s
}

// warmPipe runs one unary call and one producer stream over an in-memory pipe
// outside any bubble so that lazily created process-wide objects are
// bubble-free.
func warmPipe() {
	srv := vgirpc.NewServer()
	hx.Register(srv)
	var in bytes.Buffer
	in.Write(hx.RequestBytes("u_int", &hx.Script{Nonce: 1, Outcome: "ok", Logs: []hx.LogSpec{{Level: "INFO", Msg: "w"}}}, hx.M(hx.KReqID, "w1")))
	in.Write(hx.RequestBytes("prod2", &hx.Script{Nonce: 2, Outcome: "ok", Mode: "producer", Turns: []hx.Step{{Act: "emit"}}}, hx.Meta{}))
	tick := hx.EmptyBatch()
	in.Write(hx.EncodeStream(tick.Schema(), tick, tick, tick))
	var out bytes.Buffer
	srv.Serve(&in, &out)
	_, _ = hx.ParseStreams(out.Bytes())
	hx.Rec.Reset()
}

func init() {
	Registry["C42"] = &Info{
		Run:   C42,
		Level: "exploration",
		Rule: "each run draws the transport (RunUnix / RunTcp), the idle timeout {10s, 0, 1s, 90s, 60s}, 1-4 client tasks with 1-2 (thorough: 1-3) connection rounds each, per connection 0-3 unary calls (nonce-checked result and request-id-checked log), an optional lockstep producer stream, fragmentation and write-yield settings, think / linger delays from a menu around the idle timeout and the start-up grace, which clients own a shared-memory segment (advertised on the first call of a connection, later parameters sent as pointer batches), and which class of server task (none / timer callback / accept loop / connection goroutine) is starved by the scheduler; " +
			"the real accept loop, per-connection goroutines and idle-timer callback run as simulator tasks over a simulated listener; the scheduler interleaves them at woven lock sites and injects clock advances {1ms, 100ms, T/2, T-1ms, T, T+1ms, grace-1ms, grace, grace+1ms} between any two steps, so timer expiry races with accept, registration and connection close; with timeout 0 the run ends with ten idle minutes and an operator shutdown; " +
			"distinct = distinct schedule fingerprint; non-trivial = a clock advance was injected or two tasks were runnable at once",
		Real:  []string{"vgirpc.Server.RunUnix / RunTcp (accept loop, active counter, idle timer arm/disarm, timer callback, WaitGroup, socket file chmod/remove)", "vgirpc.Server.serveUnixConn / serveTcpConn / serveOne / serveUnary / serveStream, per-connection shm attachment (shmConnState, ShmAttach, ResolveShmBatch)", "vgirpc.ShmCreate / AllocateAndWrite on a real POSIX segment (client side)", "testing/synctest clock and timers", "os.Chmod / os.Remove on a real file"},
		Stub:  []string{"listening socket and connections (listenw.Listener, hx.Pipe) behind the woven net.Listen seam", "socket file (regular stand-in file in a per-run scratch directory; created by bind, unlinked by the first Close like a net.Listen unix listener)", "protocol client (arrow-go IPC)", "scripted handlers and producer state"},
		Quick: 640, Thorough: 32000,
		Warm:       warmPipe,
		FaultKinds: []string{"clock-advance", "operator-shutdown", "stale-socket-file", "serve-start-hook-fails", "transport-binding-flipped", "client-abandons-call"},
		Assumptions: []string{
			"a connection counts as open from the server's first Read on it until the first Close on either end; a connection the listener has handed out (or that sits in the backlog) but that the server has not begun to serve when the idle shutdown is decided races with the shutdown and may be served to completion or reset — no accept-based server can exclude that",
			"idleness before a self-initiated stop is measured from the client-side close of the last served connection (never later than the server's own bookkeeping) or from bind; the instant judged is the listener's own Close, the return instant is only required to have no open connection",
			"the start-up grace max(idleTimeout, 60s) is taken from the documented contract of RunUnix/RunTcp and applies until the first connection is accepted",
			"operator shutdown (harness closes the listener after all clients finished) is the only stop allowed with idle timeout 0 and is not judged",
			"the simulated unix listener unlinks its file on the first Close as net.UnixListener does, so 'removed on return' is judged on the combined effect of Close and os.Remove",
			"liveness bound: after every connection is closed and processed and the clock runs past the timeout, the listener must return within 100 scheduler steps",
			"clients are well-formed (lockstep discipline, one segment per client process); a panic of the accept loop, a connection goroutine or the timer callback is reported because nothing in RunUnix/RunTcp recovers it and it would take every other connection down; a client left without a response on an accepted connection while nothing can run is reported as starvation",
		},
	}
}
