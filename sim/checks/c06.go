package checks

import (
	"fmt"

	"verifsim/hx"
	"verifsim/simkern"
	"verifsim/worlds/pipew"
)

// C06 — pipe streams obey the lockstep contract.
func C06(e *simkern.Env) {
	tp := e.Tape
	maxOps := 4
	if e.Tier == "thorough" {
		maxOps = 10
	}
	ops := pipew.GenOps(tp, pipew.GenCfg{MinOps: 1, MaxOps: maxOps, OnlyStream: true, FailBias: 5, InitFail: true,
		Cancel: true, Cast: true, BadCast: true, WriteAhead: true, Levels: true, MaxTurns: 7, NonceBase: 2000, EmitMeta: true, InputMeta: true, AfterCancel: true, ZeroRows: true, NoHook: true})
	kn := pipew.DrawKnobs(tp)
	e.Knob("frag", kn.Frag)
	e.Knob("yield_on_write", kn.YieldOnWrite)
	e.Res.Sample = pipew.Describe(ops)
	left := e.Bubble(func() {
		sim := simkern.NewSim(tp, e.Trace)
		defer sim.Close()
		hx.Rec.Reset()
		sess := &pipew.Session{Srv: pipew.NewServer(nil), Ops: ops}
		reason := pipew.RunSession(sim, sess, kn, 60000)
		if reason == simkern.StopDeadlock {
			e.Violate("stream-deadlock", nextSig(sess), "%s", sess.StuckDetail())
		}
		if reason != simkern.StopBudget {
			for i, r := range sess.Results {
				if c06Judge(e, i, r) {
					break
				}
			}
		}
		e.Conclude(sim, reason, false)
		nt := false
		for _, op := range ops {
			if len(op.Script.Turns) > 0 || op.CancelAt >= 0 {
				nt = true
			}
		}
		e.Res.Nontrivial = nt
	})
	if left != "" && !e.Violated() {
		e.Harness("bubble: %s", left)
	}
}

func logsEqual(got []hx.Batch, want []hx.LogSpec) string {
	if len(got) != len(want) {
		return fmt.Sprintf("%d log batches, expected %d", len(got), len(want))
	}
	for i := range got {
		if got[i].Level != want[i].Level || got[i].Message != want[i].Msg {
			return fmt.Sprintf("log %d is %s %q, expected %s %q", i, got[i].Level, got[i].Message, want[i].Level, want[i].Msg)
		}
		if len(want[i].Extras) > 0 {
			for k, v := range want[i].Extras {
				if gv, _ := got[i].Extra[k].(string); gv != v {
					return fmt.Sprintf("log %d extra %q is %q, expected %q", i, k, gv, v)
				}
			}
		}
	}
	return ""
}

// c06Judge compares one stream transcript with the prediction. It returns true
// when it recorded a violation.
func c06Judge(e *simkern.Env, i int, r *pipew.OpResult) bool { return streamJudge(e, "", i, r, true) }

// streamJudge compares a stream transcript (from any transport) with the
// prediction; withRec also checks the state's own call counters (pipe only:
// over HTTP a producer legitimately runs ahead of the client).
func streamJudge(e *simkern.Env, prefix string, i int, r *pipew.OpResult, withRec bool) bool {
	op := r.Op
	site := prefix + op.Sig()
	bad := func(class, f string, a ...any) bool {
		e.Violate(class, site, "call %d: "+f, append([]any{i}, a...)...)
		return true
	}
	if r.ClientErr != nil {
		return bad("stream-not-readable", "%v", r.ClientErr)
	}
	ex := pipew.Predict(op)
	rec := hx.Rec.Get(op.Script.Nonce)
	if ex.InitErr != nil {
		n := 0
		for _, b := range r.AllBatch {
			switch b.Kind {
			case "error":
				n++
			case "data":
				return bad("data-after-init-failure", "a data batch arrived although the init handler failed")
			}
		}
		if n != 1 {
			return bad("init-failure-exception-count", "%d exception batches, expected exactly 1", n)
		}
		if withRec && rec.ProduceCalls+rec.ExchangeCalls != 0 {
			return bad("turn-after-init-failure", "state ran %d turns after a failed init", rec.ProduceCalls+rec.ExchangeCalls)
		}
		return false
	}
	// header: its own stream, before any data
	if ex.Header {
		if r.Header == nil {
			return bad("header-missing", "the init handler returned a header but none arrived before the data stream")
		}
		if len(r.Header.Nonce) != 1 || r.Header.Nonce[0] != op.Script.Nonce {
			return bad("header-wrong", "header nonce %v, expected %d", r.Header.Nonce, op.Script.Nonce)
		}
		if msg := logsEqual(r.InitLogs, ex.InitLogs); msg != "" {
			return bad("init-logs-wrong", "header stream: %s", msg)
		}
	} else if r.Header != nil {
		return bad("unexpected-header", "a header stream arrived but the handler returned none")
	}
	// turns
	got := r.Turns
	// drop the bookkeeping EOS entry that follows an exception
	if n := len(got); n >= 2 && got[n-1].EOS && got[n-1].Data == nil && got[n-1].Err == nil && got[n-2].Err != nil {
		if len(got[n-1].Logs) != 0 {
			return bad("batches-after-exception", "%d log batches after the exception batch", len(got[n-1].Logs))
		}
		got = got[:n-1]
	}
	if len(got) != len(ex.Turns) {
		return bad("turn-count", "client observed %d turn outcomes, expected %d (ended %q)", len(got), len(ex.Turns), r.Ended)
	}
	for k, want := range ex.Turns {
		g := got[k]
		wantLogs := want.Logs
		if k == 0 && !ex.Header {
			wantLogs = append(append([]hx.LogSpec(nil), ex.InitLogs...), want.Logs...)
		}
		switch want.Kind {
		case "data":
			if g.Data == nil {
				return bad("missing-data-batch", "input %d: no data batch (err=%v eos=%v)", k, g.Err != nil, g.EOS)
			}
			if msg := logsEqual(g.Logs, wantLogs); msg != "" {
				return bad("turn-logs-wrong", "input %d: %s", k, msg)
			}
			d := g.Data
			if int(d.Rows) != want.Rows || len(d.Turn) != want.Rows {
				return bad("data-rows-wrong", "input %d: %d rows, expected %d", k, d.Rows, want.Rows)
			}
			if d.Turn[0] != int64(want.Turn) {
				return bad("data-out-of-order", "input %d: data batch of turn %d, expected %d", k, d.Turn[0], want.Turn)
			}
			if d.Echo[0] != want.Echo {
				return bad("data-not-for-this-input", "input %d: echo %d, expected %d", k, d.Echo[0], want.Echo)
			}
			for mk, mv := range want.Meta {
				if d.Meta[mk] != mv {
					return bad("emit-metadata-lost", "input %d: metadata %q=%q, expected %q", k, mk, d.Meta[mk], mv)
				}
			}
		case "error":
			if g.Err == nil {
				return bad("missing-exception", "input %d: expected the stream to end with an exception (data=%v eos=%v)", k, g.Data != nil, g.EOS)
			}
			if g.Data != nil {
				return bad("data-with-exception", "input %d: data batch delivered for a failed turn", k)
			}
		case "eos":
			if !g.EOS || g.Data != nil || g.Err != nil {
				return bad("stream-did-not-end", "input %d: expected end of stream (data=%v err=%v)", k, g.Data != nil, g.Err != nil)
			}
			if msg := logsEqual(g.Logs, wantLogs); msg != "" && len(want.Logs) > 0 {
				return bad("turn-logs-wrong", "input %d (finishing turn): %s", k, msg)
			}
		}
	}
	nerr := 0
	for _, b := range r.AllBatch {
		if b.Kind == "error" {
			nerr++
		}
	}
	wantErr := 0
	if len(ex.Turns) > 0 && ex.Turns[len(ex.Turns)-1].Kind == "error" {
		wantErr = 1
	}
	if nerr != wantErr {
		return bad("exception-count", "%d exception batches, expected %d", nerr, wantErr)
	}
	// state call counters: no turn after the stream ended, cancel hook once
	if !withRec {
		return false
	}
	if rec.TurnsAfterEnd != 0 {
		return bad("turn-after-end", "%d turns ran on the state after the stream had ended", rec.TurnsAfterEnd)
	}
	if rec.ProduceCalls+rec.ExchangeCalls != ex.Processed {
		return bad("turn-count-on-state", "state ran %d turns, expected %d", rec.ProduceCalls+rec.ExchangeCalls, ex.Processed)
	}
	wantCancel := 0
	if ex.Cancel && !op.Script.NoHook {
		wantCancel = 1
	}
	if rec.CancelCalls != wantCancel {
		return bad("cancel-hook-count", "cancel hook ran %d times, expected %d", rec.CancelCalls, wantCancel)
	}
	if op.StreamKind == "exchange" {
		for k, ty := range rec.InputTypes {
			if ty != "int64" {
				return bad("input-not-cast-to-declared-schema", "exchange %d: the state received a column of type %s, the declared input schema says int64", k, ty)
			}
		}
		for k, s := range rec.InputSums {
			if s != op.SumOf(k) {
				return bad("input-out-of-order", "exchange %d saw input sum %d, expected %d", k, s, op.SumOf(k))
			}
		}
	}
	return false
}

func init() {
	Registry["C06"] = &Info{
		Run:   C06,
		Level: "exploration",
		Rule:  "each run draws 1-4 (thorough 1-10) stream calls over producer/exchange/dynamic methods with and without header: 0-7 scripted turns with per-turn logs, user metadata, one failing turn (error, panic, no-emit, double-emit, finish-on-exchange) in half of the streams, init failures, castable int32 inputs, cancel at a drawn input, client abandon, write-ahead of 0-2 inputs, fragmentation and write delay; server and client tasks interleaved by the scheduler; distinct = schedule fingerprint; non-trivial = at least one stream has scripted turns or a cancel",
		Real:  []string{"vgirpc.Server.serveStream lockstep loop, OutputCollector, writeStreamHeader, castRecordBatch", "arrow-go IPC"},
		Stub:  []string{"duplex byte stream", "protocol client", "scripted stream states (record their own call counters)"},
		Quick: 1000, Thorough: 100000,
		FaultKinds: []string{"read-fragmentation", "write-delay", "client-write-ahead", "client-cancel"},
		Assumptions: []string{"logs of a failing turn may or may not be delivered (the statement speaks only of data batches being preceded by their logs)"},
	}
}
