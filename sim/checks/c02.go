package checks

import (
	"context"
	"fmt"

	"verifsim/hx"
	"verifsim/simkern"
	"verifsim/worlds/listenw"
	"verifsim/worlds/pipew"

	"github.com/Query-farm/vgi-rpc-go/vgirpc"
)

// C02 — a pipe/socket session stays in frame after every request, good or bad.
//
// Framing oracle only: every request gets exactly one complete response (an
// optional header stream + one data stream), in request order, attributable to
// its own request (nonce in values, request id echoed on log/error batches),
// of the class (result / exception) the script predicts; after the client
// closes, Serve returns; a session in which both sides are parked with the
// history unfinished is a violation. Log contents, error type strings and
// per-turn detail belong to C04/C05/C06.
func C02(e *simkern.Env) {
	tp := e.Tape
	maxOps := 8
	if e.Tier == "thorough" {
		maxOps = 24
	}
	serverVersion := tp.Pick(0, 1)
	sv := ""
	if serverVersion == 1 {
		sv = "3.4.5"
	}
	ops := pipew.GenOps(tp, pipew.GenCfg{MinOps: 1, MaxOps: maxOps, Bad: true, BadStream: true, FailBias: 5, InitFail: true,
		Cancel: true, Cast: true, BadCast: true, WriteAhead: true, Levels: true, MaxTurns: 5, NonceBase: 1000, ServerVersion: sv, AfterCancel: true, ZeroRows: true, NoHook: true})
	// a dispatch hook that hands stream calls a context of its own and cancels
	// it after a drawn number of turns (a per-call deadline): the stream then
	// ends early, and whatever the client still has in flight must not be read
	// as part of the next request
	hookCancel := map[int64]int{} // nonce -> cancel once that many turns have run
	if tp.Bool(1, 3) {
		for _, op := range ops {
			if op.Kind == "stream" && op.Bad == "" && op.Script.Outcome == "ok" && tp.Bool(1, 2) {
				hookCancel[op.Script.Nonce] = 1 + tp.Draw(3)
			}
		}
	}
	e.Knob("calls_with_a_per_call_deadline", len(hookCancel))
	e.Knob("server_protocol_version", sv)
	kn := pipew.DrawKnobs(tp)
	transport := tp.Pick(0, 0, 1, 2) // pipe, pipe, unix listener, tcp listener
	pipeline := tp.Pick(0, 0, 1, 2)  // unary requests written ahead of the response being read
	e.Knob("transport", []string{"pipe", "unix", "tcp"}[transport])
	e.Knob("pipeline", pipeline)
	e.Knob("frag", kn.Frag)
	e.Knob("yield_on_write", kn.YieldOnWrite)
	e.Knob("ops", len(ops))
	e.Res.Sample = pipew.Describe(ops)
	left := e.Bubble(func() {
		sim := simkern.NewSim(tp, e.Trace)
		defer sim.Close()
		hx.Rec.Reset()
		cancels := map[int64]context.CancelFunc{}
		turnsRun := map[int64]int{}
		fired := map[int64]bool{}
		srv := pipew.NewServer(func(s *vgirpc.Server) {
			if sv != "" {
				s.SetProtocolVersion(sv)
			}
			if len(hookCancel) > 0 {
				s.SetDispatchHook(c02DeadlineHook{byReq: func(reqID string) (context.CancelFunc, func(context.CancelFunc)) {
					for _, op := range ops {
						if op.ReqID == reqID {
							if _, ok := hookCancel[op.Script.Nonce]; ok {
								n := op.Script.Nonce
								return nil, func(c context.CancelFunc) { cancels[n] = c }
							}
						}
					}
					return nil, nil
				}})
			}
		})
		if len(hookCancel) > 0 {
			hx.TurnDone = func(nonce int64) {
				turnsRun[nonce]++
				if k, ok := hookCancel[nonce]; ok && turnsRun[nonce] == k {
					if c := cancels[nonce]; c != nil {
						sim.Fault("per-call-context-cancelled-mid-stream")
						fired[nonce] = true
						c()
					}
				}
			}
			defer func() { hx.TurnDone = nil }()
		}
		sess := &pipew.Session{Srv: srv, Ops: ops, Pipeline: pipeline}
		var reason simkern.StopReason
		if transport == 0 {
			reason = pipew.RunSession(sim, sess, kn, 40000)
		} else {
			// the same history over the real RunUnix / RunTcp accept loop and
			// per-connection serve loop, on a simulated listener
			w, werr := listenw.New(sim)
			if werr != nil {
				e.Harness("listen world: %v", werr)
				return
			}
			defer w.Close()
			lt := sim.Spawn("listener", func() {
				if transport == 1 {
					_ = srv.RunUnix(w.SocketPath(), 0, nil)
				} else {
					_ = srv.RunTcp("127.0.0.1", 0, 0, nil)
				}
			})
			sess.Sim = sim
			sess.CanConnect = func() bool { return w.L != nil && !w.L.Closed }
			sess.Connect = func() (*hx.Conn, error) {
				rec, derr := w.Dial("c0", listenw.DialOpts{Frag: kn.Frag, YieldOnWrite: kn.YieldOnWrite})
				if derr != nil {
					return nil, derr
				}
				return rec.Client.(*hx.Conn), nil
			}
			sess.Start("c0")
			reason, _ = sim.Run(simkern.RunOpts{MaxSteps: 60000, Done: sess.Done})
			sim.Fault([]string{"", "transport-unix", "transport-tcp"}[transport])
			// operator shutdown: the listener must come back once its connections are done
			w.OperatorClose()
			if r2, _ := sim.Run(simkern.RunOpts{MaxSteps: 20000, Done: lt.Done}); r2 == simkern.StopDone {
				sess.ServerReturned = true
			} else if reason == simkern.StopDone {
				reason = r2
			}
		}
		if pipeline > 0 {
			sim.Fault("request-pipelining")
		}
		sess.EarlyEnd = fired
		c02Judge(e, sess, reason)
		e.Conclude(sim, reason, false)
		e.Res.Nontrivial = len(ops) > 1 || kn.Frag > 0
	})
	if left != "" && !e.Violated() {
		e.Harness("bubble: %s", left)
	}
}

// c02DeadlineHook gives the calls the plan names a cancellable context.
type c02DeadlineHook struct {
	byReq func(reqID string) (context.CancelFunc, func(context.CancelFunc))
}

func (h c02DeadlineHook) OnDispatchStart(ctx context.Context, info vgirpc.DispatchInfo) (context.Context, vgirpc.HookToken) {
	if _, reg := h.byReq(info.RequestID); reg != nil {
		c2, cancel := context.WithCancel(ctx)
		reg(cancel)
		return c2, cancel
	}
	return ctx, nil
}

func (h c02DeadlineHook) OnDispatchEnd(_ context.Context, tok vgirpc.HookToken, _ vgirpc.DispatchInfo, _ *vgirpc.CallStatistics, _ error) {
	if c, ok := tok.(context.CancelFunc); ok && c != nil {
		c()
	}
}

func c02Judge(e *simkern.Env, sess *pipew.Session, reason simkern.StopReason) {
	// per-call checks, in request order
	for i, r := range sess.Results {
		op := r.Op
		site := op.Sig()
		if r.ClientErr != nil {
			prev := "first call"
			if i > 0 {
				prev = "after " + sess.Ops[i-1].Sig()
			}
			e.Violate("response-not-a-complete-stream", site, "call %d (%s): the client could not read a complete response: %v", i, prev, r.ClientErr)
			return
		}
		ex := pipew.Predict(op)
		wantErr := ex.Refused || ex.InitErr != nil
		if op.Kind != "stream" || wantErr {
			gotErr := r.Ended == "error"
			if gotErr != wantErr {
				e.Violate("wrong-response-class", site, "call %d: expected exception=%v, got ended=%q (%d batches)", i, wantErr, r.Ended, len(r.AllBatch))
				return
			}
		}
		// attribution: request id echo on every log / error batch of a dispatched call
		for _, b := range r.AllBatch {
			if b.Kind == "log" || b.Kind == "error" {
				if id, ok := b.Meta[hx.KReqID]; ok && id != op.ReqID {
					e.Violate("response-of-another-request", site, "call %d: a %s batch echoes request id %q, expected %q", i, b.Kind, id, op.ReqID)
					return
				}
			}
			for _, n := range b.Nonce {
				if n != op.Script.Nonce {
					e.Violate("response-of-another-request", site, "call %d: data batch carries nonce %d, expected %d", i, n, op.Script.Nonce)
					return
				}
			}
		}
		if op.Kind != "stream" {
			if !wantErr {
				var res *hx.Batch
				n := 0
				for k := range r.AllBatch {
					if r.AllBatch[k].Kind == "data" {
						res = &r.AllBatch[k]
						n++
					}
				}
				if n != 1 {
					e.Violate("wrong-response-class", site, "call %d: expected exactly one result batch, got %d", i, n)
					return
				}
				if want := hx.WantResult(op.Method, op.Script.Nonce, op.Script.Pad); want != "" && res.Result != want {
					e.Violate("response-of-another-request", site, "call %d: result %q, expected %q", i, res.Result, want)
					return
				}
			}
			continue
		}
		if wantErr {
			continue
		}
		if sess.EarlyEnd != nil && sess.EarlyEnd[op.Script.Nonce] {
			// its per-call context was cancelled mid-stream: how far it got is
			// not this property's business, only that the connection stays in frame
			continue
		}
		// stream: header stream present iff predicted; data turns count
		if (r.Header != nil) != ex.Header {
			e.Violate("header-stream-mismatch", site, "call %d: header received=%v, expected=%v", i, r.Header != nil, ex.Header)
			return
		}
		wantData, wantFinalErr := 0, false
		for _, t := range ex.Turns {
			switch t.Kind {
			case "data":
				wantData++
			case "error":
				wantFinalErr = true
			}
		}
		gotData := 0
		for _, t := range r.Turns {
			if t.Data != nil {
				gotData++
			}
		}
		if gotData != wantData {
			e.Violate("wrong-number-of-data-batches", site, "call %d: %d data batches, expected %d (ended %q)", i, gotData, wantData, r.Ended)
			return
		}
		if (r.Ended == "error") != wantFinalErr {
			e.Violate("wrong-response-class", site, "call %d: stream ended %q, expected error=%v", i, r.Ended, wantFinalErr)
			return
		}
	}
	switch reason {
	case simkern.StopDeadlock:
		e.Violate("session-deadlock", nextSig(sess), "both sides are parked with the history unfinished: %s", sess.StuckDetail())
		return
	case simkern.StopBudget:
		return
	}
	if len(sess.Results) != len(sess.Ops) {
		e.Violate("session-ended-early", nextSig(sess), "client finished %d of %d calls", len(sess.Results), len(sess.Ops))
		return
	}
	if !sess.ServerReturned {
		e.Violate("serve-did-not-return", "after-client-close", "the client closed the connection but Serve did not return")
	}
	for _, t := range sess.Sim.Panicked() {
		e.Violate("panic-escaped-serve", nextSig(sess), "task %s: %v", t.Name, t.Panic)
	}
}

func nextSig(sess *pipew.Session) string {
	if n := len(sess.Results); n < len(sess.Ops) {
		return sess.Ops[n].Sig()
	}
	return "end-of-session"
}

func init() {
	Registry["C02"] = &Info{
		Run:   C02,
		Level: "exploration",
		Rule:  "each run draws a call history (1-8 calls quick, 1-24 thorough) mixing unary and stream calls with every failure the statement lists (missing method key, wrong/missing request version, 0/2 rows, unknown unary method, parameter mismatch on unary and stream methods, handler error/panic, stream-init failure incl. nil result, mid-stream error/panic/no-emit/double-emit/finish-on-exchange, client cancel, client abandon) plus transport faults (read fragmentation 1..64 bytes, write-side delay, client write-ahead of stream inputs, inputs after a cancel batch, zero-row and non-castable inputs, unary requests pipelined 1-2 ahead); half of the runs use a simulated pipe, the others the real RunUnix / RunTcp accept loop on a simulated listener; the scheduler interleaves the server and client tasks at every pipe read/write and woven yield; distinct = schedule fingerprint; non-trivial = more than one call or fragmentation on",
		Real:  []string{"vgirpc.Server.ServeWithContext / serveOne / serveUnary / serveStream / ReadRequest / wire writers", "arrow-go IPC"},
		Stub:  []string{"duplex byte stream (hx.Pipe)", "protocol client written on arrow-go IPC", "scripted handlers and stream states"},
		Quick: 1200, Thorough: 150000,
		FaultKinds: []string{"read-fragmentation", "write-delay", "client-write-ahead", "client-cancel", "malformed-request", "request-pipelining", "transport-unix", "transport-tcp", "per-call-context-cancelled-mid-stream"},
		Assumptions: []string{
			"the client follows the documented discipline (writes the first input before reading; writes input EOS after an exception, EOS, cancel or when abandoning)",
			"protocol-version-gate refusals are exercised under C10, not here",
		},
	}
}

var _ = fmt.Sprintf
