package checks

import (
	"errors"
	"fmt"
	"net/http"
	"net/url"
	"strings"
	"time"

	"verifsim/simkern"
	"verifsim/worlds/fetchw"

	"github.com/Query-farm/vgi-rpc-go/vgirpc"
	"github.com/apache/arrow-go/v18/arrow"
)

// c31Fetch is one external fetch (one pointer resolved by one task) and what
// the simulated origin saw of it.
type c31Fetch struct {
	id       int
	prefix   string // path prefix naming this fetch on every host
	initial  string
	rejected bool // the validator rejects the initial URL
	secrets  []string
	nsec     int

	raw      []byte // decoded payload (an IPC stream)
	body     []byte // encoded body
	enc      string
	chunked  bool
	maxFetch int64
	maxDecmp int64

	attempts  int
	depth     int // redirects followed so far in the current attempt
	chainLen  int
	terminal  string
	redirects []int // per attempt
	// the last terminal answer of the current attempt
	lastTerminal string
	lastSent     int

	done   bool
	out    string
	shapes []string
}

var c31Allowed = map[string]bool{"ok1.sim": true, "ok2.sim": true, "cdn.ok1.sim": true}

// c31Policy is the harness URL validator's decision (pure).
func c31Policy(raw string) (string, bool) {
	u, err := url.Parse(raw)
	if err != nil {
		return "unparseable", false
	}
	if u.Scheme != "https" {
		return "scheme", false
	}
	if !c31Allowed[u.Hostname()] {
		return "host", false
	}
	return "", true
}

func (f *c31Fetch) secret(kind string) string {
	f.nsec++
	s := fmt.Sprintf("%s%dq%dz", kind, f.id, f.nsec)
	f.secrets = append(f.secrets, s)
	return s
}

// hopURL builds a URL of this fetch on host, carrying fresh secrets.
func (f *c31Fetch) hopURL(tp *simkern.Tape, scheme, host, leaf string) string {
	path := f.prefix + leaf
	switch tp.Draw(6) {
	case 1:
		return fmt.Sprintf("%s://%s:%s@%s%s?token=%s", scheme, f.secret("usr"), f.secret("pw"), host, path, f.secret("qs"))
	case 2:
		return fmt.Sprintf("%s://%s@%s:443%s?token=%s&sig=%s#frag", scheme, f.secret("usr"), host, path, f.secret("qs"), f.secret("qs"))
	case 3:
		return fmt.Sprintf("%s://%s%s?%s", scheme, host, path, f.secret("qs"))
	case 4:
		return fmt.Sprintf("%s://%s%s%%20x?a=b%%2Fc&token=%s", scheme, host, path, f.secret("qs"))
	case 5:
		return fmt.Sprintf("%s://%s:%s@%s%s?token=%s", strings.ToUpper(scheme), f.secret("usr"), f.secret("pw"), host, path, f.secret("qs"))
	}
	return fmt.Sprintf("%s://%s%s?token=%s", scheme, host, path, f.secret("qs"))
}

// C31 — external fetches obey the URL validator and size limits on every hop.
func C31(e *simkern.Env) {
	tp := e.Tape
	maxRedirects := tp.Pick(2, 1, 3, 5)
	maxRetries := tp.Pick(2, 1, 0, 3, 5, 10)
	retryDelay := time.Duration(tp.Pick(50, 500, 0)) * time.Millisecond
	echoURL := tp.Bool(1, 2)
	clientPolicy := tp.Bool(1, 3)
	nFetch := 1 + tp.Draw(2)
	if e.Tier == "thorough" {
		nFetch = 1 + tp.Draw(3)
	}
	attemptBound := 3
	if maxRetries >= 1 && maxRetries+1 < 3 {
		attemptBound = maxRetries + 1
	}
	e.Knob("max_redirects", maxRedirects)
	e.Knob("max_retries", maxRetries)
	e.Knob("retry_delay_ms", int(retryDelay/time.Millisecond))
	e.Knob("validator_echoes_url", echoURL)
	e.Knob("fetches", nFetch)
	e.Knob("client_has_own_redirect_policy", clientPolicy)

	var sample []string
	left := e.Bubble(func() {
		sim := simkern.NewSim(tp, e.Trace)
		defer sim.Close()
		fetches := make([]*c31Fetch, nFetch)
		validatorCalls := 0
		validator := func(raw string) error {
			validatorCalls++
			why, ok := c31Policy(raw)
			if ok {
				return nil
			}
			if echoURL {
				return fmt.Errorf("%s of %s is not on the allow list", why, raw)
			}
			return fmt.Errorf("%s is not on the allow list", why)
		}
		origin := &fetchw.Origin{Sim: sim}
		origin.Serve = func(x *fetchw.Exchange, req *http.Request) (*http.Response, error) {
			var f *c31Fetch
			for _, c := range fetches {
				if c != nil && strings.HasPrefix(req.URL.Path, c.prefix) {
					f = c
				}
			}
			if f == nil {
				return fetchw.Response(req, 404, nil, fetchw.Exact(nil)), nil
			}
			// --- invariants at the origin ---
			if why, ok := c31Policy(req.URL.String()); !ok {
				e.Violate("request-to-rejected-url", "external-fetch", "fetch %d: request %s %s reached the origin although the validator rejects it (%s); initial=%v, hop %d of attempt %d",
					f.id, req.Method, req.URL.Redacted(), why, x.Initial, f.depth+1, f.attempts)
			}
			if x.Initial {
				f.attempts++
				f.depth = 0
				f.redirects = append(f.redirects, 0)
				f.lastTerminal = ""
				f.chainLen = []int{0, 1, 2, 3, 4, 6, 8}[tp.Weighted([]int{6, 3, 2, 1, 1, 1, 1})]
				f.terminal = []string{"ok", "503", "connect-error", "404", "body-cut"}[tp.Weighted([]int{6, 2, 2, 1, 1})]
				if f.attempts > 1 {
					sim.Probe("retried")
				}
				if f.attempts > attemptBound {
					e.Violate("too-many-attempts", "external-fetch", "fetch %d: attempt %d started; max_retries=%d allows %d", f.id, f.attempts, maxRetries, attemptBound)
				}
			} else {
				f.depth++
				if len(f.redirects) > 0 {
					f.redirects[len(f.redirects)-1] = f.depth
				}
				sim.Probe("redirect-followed")
				if f.depth > maxRedirects {
					e.Violate("redirect-limit-exceeded", "external-fetch", "fetch %d: redirect number %d of attempt %d was followed; max_redirects=%d", f.id, f.depth, f.attempts, maxRedirects)
				}
			}
			// --- answer ---
			if f.depth < f.chainLen {
				scheme, host := "https", []string{"ok1.sim", "ok2.sim", "cdn.ok1.sim"}[tp.Draw(3)]
				switch tp.Weighted([]int{7, 1, 1}) {
				case 1:
					host = []string{"evil.sim", "169.254.169.254", "ok1.sim.evil.sim"}[tp.Draw(3)]
				case 2:
					scheme = "http"
				}
				target := f.hopURL(tp, scheme, host, fmt.Sprintf("h%d-%d", f.attempts, f.depth+1))
				loc := target
				if _, ok := c31Policy(target); !ok {
					sim.Fault("forbidden-redirect")
					if scheme == "https" && tp.Bool(1, 2) {
						loc = target[len("https:"):] // scheme-relative
					}
				} else if host == req.URL.Hostname() && tp.Bool(1, 3) {
					if u, err := url.Parse(target); err == nil {
						loc = u.RequestURI() // path-relative
					}
				} else if tp.Bool(1, 8) {
					// an origin that forwards the caller's query string into a
					// Location it builds badly (an unescaped '%'): the client cannot
					// parse it, the hop fails — and the failure must not quote it
					sim.Fault("malformed-redirect-location")
					loc = f.prefix + "archive/100%/blob?" + req.URL.RawQuery
				}
				if f.depth >= maxRedirects {
					sim.Fault("redirect-beyond-limit")
				}
				status := tp.Pick(302, 301, 303, 307, 308)
				x.Answered, x.Outcome, x.Status = true, "redirect", status
				f.shapes = append(f.shapes, fmt.Sprintf("a%d:%d->%s", f.attempts, status, host))
				return fetchw.Redirect(req, status, loc), nil
			}
			f.lastTerminal = f.terminal
			f.shapes = append(f.shapes, fmt.Sprintf("a%d:%s", f.attempts, f.terminal))
			switch f.terminal {
			case "503":
				sim.Fault("http-5xx")
				x.Answered, x.Outcome, x.Status = true, "503", 503
				return fetchw.Response(req, 503, nil, fetchw.Exact([]byte("busy"))), nil
			case "404":
				sim.Fault("not-found")
				x.Answered, x.Outcome, x.Status = true, "404", 404
				return fetchw.Response(req, 404, nil, fetchw.Exact([]byte("gone"))), nil
			case "connect-error":
				sim.Fault("connect-error")
				x.Answered, x.Outcome = true, "connect-error"
				return nil, errors.New("dial tcp: connection refused")
			}
			h := http.Header{}
			if f.enc != "" {
				h.Set("Content-Encoding", f.enc)
			}
			b := fetchw.Exact(f.body)
			if f.chunked {
				b = fetchw.Chunked(f.body)
			}
			f.lastSent = len(f.body)
			if f.terminal == "body-cut" {
				sim.Fault("body-cut")
				b.CutAfter = tp.Draw(len(f.body))
				f.lastSent = b.CutAfter
			}
			if int64(len(f.body)) > f.maxFetch {
				sim.Fault("oversize-body")
			}
			if f.enc == "zstd" && int64(len(f.raw)) > f.maxDecmp {
				sim.Fault("oversize-decoded")
			}
			x.Answered, x.Outcome, x.Status, x.Sent = true, f.terminal, 200, f.lastSent
			return fetchw.Response(req, 200, h, b), nil
		}

		runFetch := func(f *c31Fetch) func() {
			return func() {
				host := []string{"ok1.sim", "ok2.sim"}[tp.Draw(2)]
				scheme := "https"
				switch tp.Weighted([]int{10, 1, 1}) {
				case 1:
					host, f.rejected = "evil.sim", true
				case 2:
					scheme, f.rejected = "http", true
				}
				f.initial = f.hopURL(tp, scheme, host, "data")
				if f.rejected {
					sim.Fault("forbidden-initial-url")
				}
				// payload: a real IPC stream whose size is steered by the pad
				schema := arrow.NewSchema([]arrow.Field{{Name: "v", Type: arrow.PrimitiveTypes.Int64, Nullable: true}, {Name: "pad", Type: arrow.BinaryTypes.String}}, nil)
				data := fetchw.GenData(schema, 1+tp.Draw(3), tp.Pick(10, 300, 3000), f.id+1, false, arrow.Metadata{})
				f.raw = fetchw.Compose(schema, data)
				f.body = f.raw
				if tp.Bool(1, 2) {
					f.body, f.enc = fetchw.Zstd(f.raw), "zstd"
					if tp.Bool(1, 3) {
						// a legal zstd stream of two or three concatenated frames
						// (what a chunk-wise compressing uploader or CDN produces);
						// it decodes to the same payload
						sim.Fault("multi-frame-zstd")
						k := 1 + tp.Draw(len(f.raw)-1)
						f.body = append(fetchw.Zstd(f.raw[:k]), fetchw.Zstd(f.raw[k:])...)
						if k > 2 && tp.Bool(1, 2) {
							j := 1 + tp.Draw(k-1)
							f.body = append(append(fetchw.Zstd(f.raw[:j]), fetchw.Zstd(f.raw[j:k])...), fetchw.Zstd(f.raw[k:])...)
						}
					}
				}
				f.chunked = tp.Bool(1, 3)
				n := int64(len(f.body))
				f.maxFetch = []int64{1 << 20, n, n + 1, n - 1, n / 2}[tp.Weighted([]int{5, 2, 1, 2, 1})]
				m := int64(len(f.raw))
				f.maxDecmp = []int64{1 << 20, m, m + 1, m - 1, m / 2}[tp.Weighted([]int{5, 2, 1, 2, 1})]
				hc := origin.Client()
				if clientPolicy {
					// the operator's client has a redirect policy of its own (a
					// harmless one: it tags the hop); the validator and the limit
					// must hold regardless
					own := *hc
					own.CheckRedirect = func(req *http.Request, via []*http.Request) error {
						req.Header.Set("X-Sim-Hop", fmt.Sprint(len(via)))
						return nil
					}
					hc = &own
				}
				cfg := &vgirpc.ExternalLocationConfig{
					URLValidator: validator, MaxRetries: maxRetries, RetryDelay: retryDelay, HTTPClient: hc,
					MaxFetchBytes: f.maxFetch, MaxDecompressedBytes: f.maxDecmp, MaxRedirects: maxRedirects,
				}
				sha := ""
				if tp.Bool(1, 3) {
					sha = fetchw.SHA(f.raw)
				}
				ptr := fetchw.PointerBatch(schema, f.initial, sha)
				ptrMeta := ptr.(arrow.RecordBatchWithMetadata).Metadata()
				sim.Y("fetch.start")
				t0 := sim.Now()
				res, _, err := vgirpc.ResolveExternalLocation(ptr, ptrMeta, cfg)
				f.done = true
				took := sim.Now() - t0
				if err != nil {
					f.out = "error: " + err.Error()
					sim.Probe("fetch-error")
					txt := err.Error()
					for _, s := range f.secrets {
						if strings.Contains(txt, s) {
							kind := "query string"
							if strings.HasPrefix(s, "usr") || strings.HasPrefix(s, "pw") {
								kind = "user info"
							}
							e.Violate("secret-in-error", "external-fetch error text", "fetch %d of %s: the reported error contains %s secret %q: %s", f.id, redactForReport(f.initial), kind, s, txt)
							break
						}
					}
				} else {
					f.out = fmt.Sprintf("ok rows=%d", res.NumRows())
					sim.Probe("fetch-ok")
					if f.lastTerminal == "ok" {
						if int64(f.lastSent) > f.maxFetch {
							e.Violate("oversize-body-accepted", "external-fetch", "fetch %d: a body of %d encoded bytes was accepted with max_fetch_bytes=%d (content-length declared: %v)", f.id, f.lastSent, f.maxFetch, !f.chunked)
						}
						if f.enc == "zstd" && int64(len(f.raw)) > f.maxDecmp {
							e.Violate("oversize-decoded-accepted", "external-fetch", "fetch %d: a zstd body decoding to %d bytes was accepted with max_decompressed_bytes=%d", f.id, len(f.raw), f.maxDecmp)
						}
					}
				}
				if f.rejected && f.attempts > 0 {
					e.Violate("request-to-rejected-url", "external-fetch", "fetch %d: %d attempt(s) were made for an initial URL the validator rejects", f.id, f.attempts)
				}
				f.out += fmt.Sprintf(" attempts=%d redirects=%v took=%v", f.attempts, f.redirects, took)
			}
		}
		for i := range fetches {
			fetches[i] = &c31Fetch{id: i, prefix: fmt.Sprintf("/f%d/", i)}
			sim.Spawn(fmt.Sprintf("fetch%d", i), runFetch(fetches[i]))
		}
		reason, _ := sim.Run(simkern.RunOpts{MaxSteps: 6000, Done: sim.RootsDone})
		e.Conclude(sim, reason, false)
		requests := len(origin.Log)
		e.Res.Nontrivial = requests > nFetch || sim.Interleavings > 0
		for _, f := range fetches {
			sample = append(sample, fmt.Sprintf("fetch%d %s enc=%q chunked=%v body=%d raw=%d max_fetch=%d max_decomp=%d rejected_initial=%v hops=%v -> %s",
				f.id, redactForReport(f.initial), f.enc, f.chunked, len(f.body), len(f.raw), f.maxFetch, f.maxDecmp, f.rejected, f.shapes, f.out))
		}
		_ = validatorCalls
	})
	if left != "" {
		e.Harness("bubble: %s", left)
	}
	e.Res.Sample = sample
}

// redactForReport shortens a URL for the sample/diagnostics (host and path).
func redactForReport(raw string) string {
	u, err := url.Parse(raw)
	if err != nil {
		return "<unparseable>"
	}
	ui := ""
	if u.User != nil {
		ui = "<userinfo>@"
	}
	return u.Scheme + "://" + ui + u.Host + u.Path + "?<query>"
}

func init() {
	Registry["C31"] = &Info{
		Run:   C31,
		Level: "exploration",
		Rule:  "each run draws max_redirects {1,2,3,5}, max_retries {0,1,2,3,5,10}, the retry delay, whether the harness validator echoes the URL in its error, and 1-3 concurrent fetches; every fetch draws a URL shape (userinfo, port, fragment, bare query, escapes, upper-case scheme) with unique secrets in query and userinfo, an IPC payload raw or zstd (one, two or three concatenated frames) with or without Content-Length, an HTTP client with or without a redirect policy of its own, and fetch / decompression caps at, just under, just over or far from the actual sizes; the origin draws per attempt a redirect chain of 0-8 hops (allowed hosts, forbidden hosts, http scheme, absolute / scheme-relative / path-relative / unparseable Location that repeats the query string of the request, statuses 301-308) ending in 200 / 503 / 404 / connect error / body cut; retry delays elapse on the simulated clock; distinct = distinct schedule fingerprint (every origin request is a scheduling point); non-trivial = a redirect or retry happened or two fetches interleaved",
		Real:  []string{"vgirpc.ResolveExternalLocation, fetchExternalData (CheckRedirect, caps), decompressZstdCapped, redactExternalURL", "net/http.Client redirect machinery", "klauspost zstd decoder", "testing/synctest clock (retry delays)"},
		Stub:  []string{"origin behind http.RoundTripper (fetchw.Origin)", "URL validator (allow list of hosts + https)"},
		Quick: 2400, Thorough: 400000,
		Warm:       warmFetch,
		FaultKinds: []string{"connect-error", "http-5xx", "not-found", "body-cut", "forbidden-redirect", "forbidden-initial-url", "redirect-beyond-limit", "oversize-body", "oversize-decoded", "multi-frame-zstd", "malformed-redirect-location"},
		Assumptions: []string{
			"attempt bound = min(max_retries+1, 3) for max_retries >= 1 and 3 (the stated cap) for max_retries = 0 (library default)",
			"an attempt = a request not caused by a redirect (http.Request.Response == nil); redirects followed are counted per attempt",
			"the harness validator's own message contains either no URL or the URL exactly as it was handed to it; a validator that leaks a re-serialised URL is outside the clause",
			"max_redirects = 0 (library default) is not drawn",
			"only over-cap acceptance is a violation: refusing an under-cap body is not judged by this property",
		},
	}
}
