package checks

import (
	"verifsim/hx"
	"verifsim/worlds/httpw"
)

// warmHTTP runs one producer stream with a batch limit over HTTP outside any
// bubble, so the process-wide token codec (zstd encoder/decoder) and Arrow
// singletons are created bubble-free.
func warmHTTP() {
	cl := httpw.NewCluster(httpw.Config{Key: []byte("0123456789abcdef0123456789abcdef"), CacheSizes: []int{-1}, BatchLimit: 1})
	sc := &hx.Script{Nonce: 1, Outcome: "ok", Mode: "producer", Turns: []hx.Step{{Act: "emit"}, {Act: "emit"}, {Act: "emit"}}, Pad: 2000}
	t := httpw.Decode(httpw.Post(cl.Inst[0], "/prod2/init", httpw.InitBody("prod2", sc, hx.Meta{}), httpw.Ident{}, nil))
	if t.Cursor != "" {
		httpw.Decode(httpw.Post(cl.Inst[0], "/prod2/exchange", httpw.ContBody(t.Cursor, t.Call, false, nil, false, hx.Meta{}), httpw.Ident{}, nil))
		httpw.Decode(httpw.Post(cl.Twin, "/prod2/exchange", httpw.ContBody(t.Cursor, t.Call, false, nil, false, hx.Meta{}), httpw.Ident{}, nil))
	}
	ex := &hx.Script{Nonce: 2, Outcome: "ok", Mode: "exchange", Pad: 2000}
	t = httpw.Decode(httpw.Post(cl.Inst[0], "/exch2/init", httpw.InitBody("exch2", ex, hx.Meta{}), httpw.Ident{}, nil))
	if t.Cursor != "" {
		httpw.Decode(httpw.Post(cl.Inst[0], "/exch2/exchange", httpw.ContBody(t.Cursor, t.Call, false, []int64{1}, false, hx.Meta{}), httpw.Ident{}, nil))
	}
	hx.Rec.Reset()
}

var warmed bool

// DefaultWarm runs the HTTP warm-up once per process.
func DefaultWarm() {
	if !warmed {
		warmed = true
		warmHTTP()
	}
}
