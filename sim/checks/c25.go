package checks

import (
	"bytes"
	"crypto/hmac"
	"crypto/sha256"
	"encoding/base64"
	"fmt"
	"net/http"
	"net/http/httptest"
	"strconv"
	"strings"
	"time"

	"verifsim/simkern"
	"verifsim/worlds/gatesw"

	"github.com/Query-farm/vgi-rpc-go/vgirpc"
)

// ---- world A(a): proxy-proof gates ----

// c25Gate is one worker: a real ProofAuthenticate gate (require mode) in front
// of a counting inner authenticator, plus a stateless twin of the same
// configuration (replay cache disabled) that answers "would this worker still
// accept this proof's MAC and timestamp right now".
type c25Gate struct {
	idx      int
	origin   string
	secrets  map[string][]byte
	fn       vgirpc.AuthenticateFunc
	twin     vgirpc.AuthenticateFunc
	capacity int
	pres     []*c25Pres
}

// c25Pres is one presentation of a header set to a gate.
type c25Pres struct {
	id          int
	gate        *c25Gate
	kind        string
	who         string
	hdrs        []string
	ident       string // canonical identity of the single proof presented ("" if not exactly one parseable proof)
	startSeq    int
	endSeq      int // 0 while in flight
	startT      time.Time
	endT        time.Time
	twinS       bool
	twinE       bool
	innerCalled bool
	passed      bool
	// accSeq: the instant the gate let this presentation through, when the
	// harness can see it exactly (the inner authenticator was entered); 0
	// otherwise (no inner authenticator: the instant lies in [startSeq, endSeq]).
	accSeq int
}

// c25Proof is a proof string seen on the wire.
type c25Proof struct {
	s    string
	gate int // gate it was minted for
}

const c25Domain = "vgi.proxy.proof.v1"

// c25Mint builds a proof from the documented format without any of the
// minting helper's field validation (sloppy / hostile proxies).
func c25Mint(secret []byte, version, kid, ts, nonce, origin string) string {
	m := hmac.New(sha256.New, secret)
	m.Write([]byte(c25Domain + "\x00" + kid + "\x00" + ts + "\x00" + nonce + "\x00" + origin))
	return strings.Join([]string{version, kid, ts, nonce, base64.RawURLEncoding.EncodeToString(m.Sum(nil))}, ".")
}

// c25Authentic is the independent authenticity oracle: the MAC field verifies
// under a key id configured at this gate for this gate's origin.
func c25Authentic(g *c25Gate, s string) (ok bool, ts string) {
	parts := strings.Split(s, ".")
	if len(parts) != 5 {
		return false, ""
	}
	secret, have := g.secrets[parts[1]]
	if !have {
		return false, ""
	}
	got, err := base64.RawURLEncoding.DecodeString(parts[4])
	if err != nil {
		return false, ""
	}
	m := hmac.New(sha256.New, secret)
	m.Write([]byte(c25Domain + "\x00" + parts[1] + "\x00" + parts[2] + "\x00" + parts[3] + "\x00" + g.origin))
	return hmac.Equal(got, m.Sum(nil)), parts[2]
}

// c25Ident canonicalises a proof string: two strings that carry the same
// fields and the same MAC bytes are the same proof (base64 has spare bits in
// the last character of a 32-byte value).
func c25Ident(s string) string {
	parts := strings.Split(s, ".")
	if len(parts) != 5 {
		return "raw:" + s
	}
	mac, err := base64.RawURLEncoding.DecodeString(parts[4])
	if err != nil {
		return "raw:" + s
	}
	return strings.Join(parts[:4], ".") + "." + base64.RawURLEncoding.EncodeToString(mac)
}

// C25 — proxy proofs verify only for their worker and can never be replayed.
func C25(e *simkern.Env) {
	tp := e.Tape
	skew := tp.Pick(2, 3, 5, 10, 30)
	capKnob := tp.Pick(0, 1, 2, 3, 5) // 0 = library default
	disableCache := tp.Bool(1, 10)
	nGates := 1 + tp.Draw(2)
	shareSecret := tp.Bool(1, 2)
	nowSeam := tp.Pick(0, 1, 2) // 0 = nil (time.Now), 1/2 = injected clock with a constant offset
	innerNil := tp.Bool(1, 10)
	innerFaults := tp.Bool(1, 3)
	nProxies := 1 + tp.Draw(2)
	nAttackers := 1 + tp.Draw(3)
	ops := 5 + tp.Draw(8)
	if e.Tier == "thorough" {
		ops = 6 + tp.Draw(14)
	}
	recycle := tp.Bool(1, 4)
	if recycle && !disableCache && tp.Bool(2, 3) {
		capKnob = 2 + tp.Draw(2) // a small cache, so that it fills while the recycled nonce is live
	}
	e.Knob("skew_s", skew)
	e.Knob("capacity", capKnob)
	e.Knob("replay_cache", !disableCache)
	e.Knob("gates", nGates)
	e.Knob("shared_secret", shareSecret)
	e.Knob("now_seam", nowSeam)
	e.Knob("inner_nil", innerNil)
	e.Knob("proxies", nProxies)
	e.Knob("attackers", nAttackers)

	var sample []string
	left := e.Bubble(func() {
		sim := simkern.NewSim(tp, e.Trace)
		defer sim.Close()
		clk := gatesw.NewClock(sim)
		clk.Jitter = []time.Duration{300 * time.Millisecond, time.Second}
		S := time.Duration(skew) * time.Second

		var offset time.Duration
		switch nowSeam {
		case 1:
			offset = 3 * time.Hour
		case 2:
			offset = -47 * time.Minute
		}
		workerNow := func() time.Time { return time.Now().Add(offset) }

		seq := 0
		presN := 0
		byID := map[int]*c25Pres{}
		firstRefusal := ""
		replaysJudged := 0

		inner := func(r *http.Request) (*vgirpc.AuthContext, error) {
			id, _ := strconv.Atoi(r.Header.Get("X-Sim-Pres"))
			if p := byID[id]; p != nil && !p.innerCalled {
				p.innerCalled = true
				seq++
				p.accSeq = seq
			}
			sim.Probe("inner-called")
			sim.Y("inner.authenticate")
			if innerFaults && tp.Bool(1, 6) {
				sim.Fault("inner-reject")
				return nil, vgirpc.NewAuthFailure(vgirpc.AuthReasonInvalidCredential, "bad bearer")
			}
			return &vgirpc.AuthContext{Domain: "bearer", Authenticated: true, Principal: "alice"}, nil
		}

		kids := []string{"px1", "px2"}
		mkSecret := func(tag string) []byte {
			sum := sha256.Sum256([]byte("c25-secret-" + tag))
			return sum[:]
		}
		gates := make([]*c25Gate, nGates)
		for i := range gates {
			g := &c25Gate{idx: i, origin: fmt.Sprintf("worker-%c", 'a'+i), secrets: map[string][]byte{}}
			cfgSecrets := map[string]vgirpc.ProofSecret{}
			for _, k := range kids {
				tag := k
				if !shareSecret {
					tag = k + "@" + g.origin
				}
				g.secrets[k] = mkSecret(tag)
				cfgSecrets[k] = vgirpc.ProofSecret{Secret: g.secrets[k], Label: k}
			}
			cfg := vgirpc.ProofConfig{Mode: vgirpc.ProofModeRequire, OriginID: g.origin, Secrets: cfgSecrets,
				SkewSeconds: skew, ReplayCapacity: capKnob, DisableReplayCache: disableCache}
			if nowSeam != 0 {
				cfg.Now = workerNow
			}
			var in vgirpc.AuthenticateFunc
			if !innerNil {
				in = inner
			}
			fn, err := vgirpc.ProofAuthenticate(cfg, in)
			if err != nil {
				e.Harness("ProofAuthenticate: %v", err)
				return
			}
			tcfg := cfg
			tcfg.DisableReplayCache = true
			tw, err := vgirpc.ProofAuthenticate(tcfg, nil)
			if err != nil {
				e.Harness("ProofAuthenticate twin: %v", err)
				return
			}
			g.fn, g.twin = fn, tw
			g.capacity = capKnob
			gates[i] = g
		}

		mkReq := func(hdrs []string, id int) *http.Request {
			r := httptest.NewRequest(http.MethodPost, "/u_void", bytes.NewReader(nil))
			for _, h := range hdrs {
				r.Header.Add(vgirpc.ProofHeader, h)
			}
			r.Header.Set("X-Sim-Pres", strconv.Itoa(id))
			return r
		}
		twinOK := func(g *c25Gate, hdrs []string) bool {
			_, err := g.twin(mkReq(hdrs, -1))
			return err == nil
		}

		// Admission instants. A presentation that passed did so at one instant
		// (its checkAndAdd); the harness knows it exactly when an inner
		// authenticator was entered right after (accSeq), and otherwise only that
		// it lies inside the presentation's interval. An operation that is still
		// in flight and has not reached the inner authenticator may or may not
		// have been admitted yet.
		const c25Inf = int(^uint(0) >> 1)
		admBounds := func(q *c25Pres) (lo, hi int) {
			if q.accSeq != 0 {
				return q.accSeq, q.accSeq
			}
			if q.endSeq == 0 {
				return q.startSeq, c25Inf
			}
			return q.startSeq, q.endSeq
		}
		acceptedSoFar := func(q *c25Pres) bool { return q.accSeq != 0 || (q.endSeq != 0 && q.passed) }
		// othersWithin: upper bound on the number of distinct proofs other than
		// ident that this gate's cache may have admitted at an instant in [lo, hi].
		othersWithin := func(g *c25Gate, ident string, lo, hi int) int {
			set := map[string]bool{}
			for _, q := range g.pres {
				if q.ident == "" || q.ident == ident {
					continue
				}
				if !acceptedSoFar(q) && q.endSeq != 0 {
					continue // completed and refused: never admitted
				}
				qlo, qhi := admBounds(q)
				if qhi >= lo && qlo <= hi {
					set[q.ident] = true
				}
			}
			return len(set)
		}

		endOrInFlight := func(q *c25Pres) string {
			if q.endSeq == 0 {
				return "(past the gate, still in flight)"
			}
			return q.endT.UTC().Format("15:04:05.000")
		}
		judge := func(p *c25Pres, err error) {
			g := p.gate
			desc := fmt.Sprintf("gate %s skew=%ds capacity=%d cache=%v: %s by %s, %d proof header(s) %q, worker clock %s..%s",
				g.origin, skew, g.capacity, !disableCache, p.kind, p.who, len(p.hdrs), c25Short(p.hdrs),
				p.startT.UTC().Format("15:04:05.000"), p.endT.UTC().Format("15:04:05.000"))
			if innerNil {
				p.passed = err == nil
			} else {
				p.passed = p.innerCalled || err == nil
			}
			if !p.passed {
				sim.Probe("refused")
				af, ok := err.(*vgirpc.AuthFailure)
				if !ok || af.Reason != vgirpc.AuthReasonProxyRequired {
					e.Violate("refusal-not-proxy-required", p.kind, "%s: refused with %T %v", desc, err, err)
					return
				}
				ans := string(af.Reason) + "|" + af.Detail
				if firstRefusal == "" {
					firstRefusal = ans
				} else if ans != firstRefusal {
					e.Violate("refusals-differ", p.kind, "%s: refusal %q differs from an earlier refusal %q", desc, ans, firstRefusal)
				}
				return
			}
			sim.Probe("accepted")
			if len(p.hdrs) != 1 {
				e.Violate("accepted-without-exactly-one-proof-header", p.kind, "%s: passed the gate (inner called=%v)", desc, p.innerCalled)
				return
			}
			auth, tsRaw := c25Authentic(g, p.hdrs[0])
			if !auth {
				e.Violate("accepted-proof-not-authentic-for-worker", p.kind, "%s: passed the gate but its MAC does not verify under any key id configured for origin %s", desc, g.origin)
				return
			}
			ts, perr := strconv.ParseInt(tsRaw, 10, 64)
			if perr != nil {
				e.Violate("accepted-timestamp-outside-window", p.kind, "%s: timestamp %q is not a number", desc, tsRaw)
				return
			}
			tsT := time.Unix(ts, 0)
			// Timestamps are whole seconds: the second just past either edge
			// is undecided. Flag only when the proof was beyond skew+1s on the
			// same side during the whole presentation.
			if tsT.Sub(p.endT) >= S+time.Second || p.startT.Sub(tsT) >= S+time.Second {
				e.Violate("accepted-timestamp-outside-window", p.kind, "%s: timestamp %s is more than skew+1s away from the worker clock", desc, tsT.UTC().Format("15:04:05"))
				return
			}
			d := p.startT.Sub(tsT)
			if d < 0 {
				d = -d
			}
			if d >= S-time.Second {
				sim.Probe("accepted-near-window-edge")
			}
			if disableCache {
				return
			}
			// Replay clause, judged pairwise: for every other acceptance q of the
			// same proof, one of the two was the later one, i.e. a replay. Which
			// one is decided by the admission instants (exact when an inner
			// authenticator is configured); when the two overlap and the instants
			// are not known, the clause is applied only if it is violated whichever
			// came first. "In between" is an upper bound over the hull of both
			// admission instants.
			judgedAny := false
			for _, q := range g.pres {
				if q == p || q.ident != p.ident || !acceptedSoFar(q) {
					continue
				}
				plo, phi := admBounds(p)
				qlo, qhi := admBounds(q)
				var later *c25Pres
				switch {
				case qhi < plo:
					later = p
				case phi < qlo:
					if q.endSeq == 0 {
						continue // q is the later one and still in flight: judged when it completes
					}
					later = q
				default:
					if q.endSeq == 0 {
						continue
					}
				}
				judgedAny = true
				stillValid := p.twinS && p.twinE && q.twinS && q.twinE
				if later != nil {
					stillValid = later.twinS && later.twinE
				}
				if !stillValid {
					sim.Probe("reaccepted-after-timestamp-left-window")
					continue
				}
				lo, hi := plo, phi
				if qlo < lo {
					lo = qlo
				}
				if qhi > hi {
					hi = qhi
				}
				others := othersWithin(g, p.ident, lo, hi)
				if g.capacity > 0 && others >= g.capacity {
					sim.Probe("reaccepted-after-capacity-eviction")
					continue
				}
				first := q
				if later == q {
					first = p
				}
				e.Violate("replayed-proof-accepted", p.kind,
					"%s: this proof was also accepted by presentation %d (%s by %s) at worker clock %s..%s; the later of the two carries a timestamp (%s) this worker still accepts (stateless twin accepts it) and at most %d other distinct proof(s) were admitted in between",
					desc, first.id, first.kind, first.who, first.startT.UTC().Format("15:04:05.000"), endOrInFlight(first), tsT.UTC().Format("15:04:05"), others)
				return
			}
			if judgedAny {
				replaysJudged++
			}
		}

		present := func(who, kind string, g *c25Gate, hdrs []string) *c25Pres {
			presN++
			p := &c25Pres{id: presN, gate: g, kind: kind, who: who, hdrs: hdrs}
			if len(hdrs) == 1 {
				p.ident = c25Ident(hdrs[0])
			}
			byID[p.id] = p
			seq++
			p.startSeq = seq
			p.startT = workerNow()
			p.twinS = twinOK(g, hdrs)
			for _, q := range g.pres {
				if q.endSeq == 0 && q.ident != "" && q.ident == p.ident {
					sim.Probe("same-proof-presented-concurrently")
				}
			}
			g.pres = append(g.pres, p)
			_, err := g.fn(mkReq(hdrs, p.id))
			p.twinE = twinOK(g, hdrs)
			seq++
			p.endSeq = seq
			p.endT = workerNow()
			if p.twinS && len(hdrs) == 1 {
				for _, q := range g.pres {
					if q != p && q.endSeq != 0 && q.passed && q.ident == p.ident {
						if p.endT.Sub(q.endT) >= S {
							sim.Probe("replay-at-or-after-one-skew-while-still-in-window")
						} else {
							sim.Probe("replay-within-one-skew")
						}
						break
					}
				}
			}
			judge(p, err)
			sim.Logf("pres %d %s/%s gate=%s passed=%v twin=%v/%v ident=%s", p.id, who, kind, g.origin, p.passed, p.twinS, p.twinE, c25Short([]string{p.ident}))
			return p
		}

		var pool []*c25Proof     // every legitimately minted proof
		var accepted []*c25Proof // proofs that passed a gate at least once
		var hot *c25Proof        // most recently minted
		nonceN := 0
		// one run in four: proxies that recycle nonces from a small ring (a
		// counter that wraps, a restart that re-seeds) and pause for longer than
		// a cache entry lives, so that the same nonce is admitted again, under a
		// new timestamp, after its first entry has expired
		e.Knob("nonce_recycling", recycle)
		nonce := func() string {
			if recycle && tp.Bool(1, 2) {
				sim.Fault("nonce-recycled")
				return fmt.Sprintf("n%021d", 900000+tp.Draw(2))
			}
			nonceN++
			return fmt.Sprintf("n%021d", nonceN)
		}
		offsets := []int{0, skew, -skew, 1, -1, skew - 1, -(skew - 1), skew + 1, -(skew + 1), skew + 2, -(skew + 2)}
		waits := []time.Duration{0, 0, 0, time.Second, S - time.Second, S, S + time.Second, 2*S - time.Second, 2 * S, 2*S + time.Second,
			S + 500*time.Millisecond, 2*S + 500*time.Millisecond, 700 * time.Millisecond}

		proxy := func(pi int) func() {
			name := fmt.Sprintf("proxy%d", pi)
			kid := kids[pi%len(kids)]
			return func() {
				for op := 0; op < ops && !e.Violated(); op++ {
					if recycle && tp.Bool(1, 3) {
						clk.WaitFor(name, 2*S+time.Duration(2+tp.Draw(3))*time.Second)
					} else {
						clk.WaitFor(name, []time.Duration{0, 0, 200 * time.Millisecond, time.Second, S}[tp.Draw(5)])
					}
					g := gates[tp.Draw(len(gates))]
					ts := workerNow().Unix() + int64(offsets[tp.Draw(len(offsets))])
					var s string
					switch tp.Weighted([]int{12, 1, 1, 1}) {
					case 0:
						var err error
						s, err = vgirpc.MintProof(g.secrets[kid], kid, g.origin, ts, nonce())
						if err != nil {
							e.Harness("MintProof: %v", err)
							return
						}
					case 1: // sloppy proxy: zero-padded timestamp
						s = c25Mint(g.secrets[kid], "v1", kid, "00"+strconv.FormatInt(ts, 10), nonce(), g.origin)
					case 2: // sloppy proxy: nonce of the wrong length
						s = c25Mint(g.secrets[kid], "v1", kid, strconv.FormatInt(ts, 10), nonce()+"x", g.origin)
					case 3: // reuses its previous nonce on a new timestamp
						nonceN--
						s = c25Mint(g.secrets[kid], "v1", kid, strconv.FormatInt(ts, 10), nonce(), g.origin)
						nonceN++
					}
					pr := &c25Proof{s: s, gate: g.idx}
					pool = append(pool, pr)
					hot = pr
					sim.Y("proxy.send")
					p := present(name, "fresh", g, []string{s})
					if p.passed {
						accepted = append(accepted, pr)
					}
				}
			}
		}

		flip := func(s string, i int) string {
			b := []byte(s)
			if b[i] == 'A' {
				b[i] = 'B'
			} else {
				b[i] = 'A'
			}
			return string(b)
		}

		attacker := func(ai int) func() {
			name := fmt.Sprintf("attacker%d", ai)
			evil := mkSecret("attacker")
			return func() {
				for op := 0; op < ops && !e.Violated(); op++ {
					if recycle && tp.Bool(2, 3) {
						// a network that duplicates recent requests shortly after
						clk.WaitFor(name, []time.Duration{0, 200 * time.Millisecond, time.Second}[tp.Draw(3)])
					} else {
						clk.WaitFor(name, waits[tp.Draw(len(waits))])
					}
					// choose a victim proof
					var v *c25Proof
					switch {
					case len(accepted) > 0 && tp.Bool(2, 3):
						// favour recent acceptances
						n := len(accepted)
						k := tp.Draw(n)
						if tp.Bool(1, 2) {
							k = n - 1 - tp.Draw(min(n, 2))
						}
						v = accepted[k]
					case hot != nil:
						v = hot
					}
					if v == nil {
						g := gates[tp.Draw(len(gates))]
						present(name, "no-header", g, nil)
						continue
					}
					g := gates[v.gate]
					parts := strings.Split(v.s, ".")
					kindW := []int{14, 3, 3, 2, 2, 2, 2, 2, 3, 2, 2, 2, 2, 2, 1}
					if recycle {
						kindW[0] = 40
					}
					kind := tp.Weighted(kindW)
					switch kind {
					case 0:
						p := present(name, "replay", g, []string{v.s})
						if p.passed {
							accepted = append(accepted, v)
						}
					case 1:
						og := gates[(v.gate+1)%len(gates)]
						if og == g {
							// a sibling's proof: right secret, another origin
							s := c25Mint(g.secrets[parts[1]], "v1", parts[1], strconv.FormatInt(workerNow().Unix(), 10), nonce(), "worker-z")
							present(name, "other-origin", g, []string{s})
						} else {
							present(name, "other-origin", og, []string{v.s})
						}
					case 2:
						ts := []int64{workerNow().Unix(), workerNow().Unix() + int64(skew), 0}[tp.Draw(3)]
						parts2 := append([]string(nil), parts...)
						parts2[2] = strconv.FormatInt(ts, 10)
						if parts2[2] == parts[2] {
							parts2[2] = strconv.FormatInt(ts+1, 10)
						}
						present(name, "mutated-timestamp", g, []string{strings.Join(parts2, ".")})
					case 3:
						parts2 := append([]string(nil), parts...)
						parts2[1] = []string{"px2", "px1", "px9", "PX1"}[tp.Draw(4)]
						if parts2[1] == parts[1] {
							parts2[1] = "px9"
						}
						present(name, "mutated-kid", g, []string{strings.Join(parts2, ".")})
					case 4:
						parts2 := append([]string(nil), parts...)
						parts2[3] = flip(parts[3], len(parts[3])-1)
						present(name, "mutated-nonce", g, []string{strings.Join(parts2, ".")})
					case 5:
						parts2 := append([]string(nil), parts...)
						parts2[4] = flip(parts[4], tp.Draw(len(parts[4])-1))
						present(name, "mutated-mac", g, []string{strings.Join(parts2, ".")})
					case 6:
						// same MAC bytes, different spare bits in the last base64 character
						const alpha = "ABCDEFGHIJKLMNOPQRSTUVWXYZabcdefghijklmnopqrstuvwxyz0123456789-_"
						last := parts[4][len(parts[4])-1]
						idx := strings.IndexByte(alpha, last)
						parts2 := append([]string(nil), parts...)
						if idx >= 0 {
							parts2[4] = parts[4][:len(parts[4])-1] + string(alpha[idx^(1+tp.Draw(3))])
						}
						p := present(name, "replay-respelled-mac", g, []string{strings.Join(parts2, ".")})
						if p.passed {
							accepted = append(accepted, &c25Proof{s: p.hdrs[0], gate: g.idx})
						}
					case 7:
						parts2 := append([]string(nil), parts...)
						parts2[0] = []string{"v2", "V1", "", "v1 "}[tp.Draw(4)]
						present(name, "mutated-version", g, []string{strings.Join(parts2, ".")})
					case 8:
						second := v.s
						if len(pool) > 1 && tp.Bool(1, 2) {
							second = pool[tp.Draw(len(pool))].s
						}
						hd := [][]string{{v.s, second}, {v.s, ""}, {"", v.s}, {v.s, "garbage"}}[tp.Draw(4)]
						// a fresh valid proof sent twice in one request
						if tp.Bool(1, 3) {
							s, _ := vgirpc.MintProof(g.secrets[parts[1]], parts[1], g.origin, workerNow().Unix(), nonce())
							hd = []string{s, s}
						}
						present(name, "two-headers", g, hd)
					case 9:
						s, _ := vgirpc.MintProof(g.secrets[parts[1]], parts[1], g.origin, workerNow().Unix(), nonce())
						hd := []string{s + "," + v.s, s + ", " + s, s + ","}[tp.Draw(3)]
						present(name, "comma-joined", g, []string{hd})
					case 10:
						if tp.Bool(1, 2) {
							present(name, "no-header", g, nil)
						} else {
							present(name, "empty-header", g, []string{""})
						}
					case 11:
						fk := []string{parts[1], "px9"}[tp.Draw(2)]
						s := c25Mint(evil, "v1", fk, strconv.FormatInt(workerNow().Unix(), 10), nonce(), g.origin)
						present(name, "forged", g, []string{s})
					case 12:
						hd := []string{v.s[:len(v.s)-1], v.s + "A", v.s + ".x", v.s + strings.Repeat("A", 600), " " + v.s, v.s + " "}[tp.Draw(6)]
						present(name, "resized", g, []string{hd})
					case 13:
						// fresh, valid MAC, timestamp far outside the window
						far := []int64{int64(skew) + 2, -int64(skew) - 2, 3600, -3600, int64(2*skew) + 1}[tp.Draw(5)]
						s := c25Mint(g.secrets[parts[1]], "v1", parts[1], strconv.FormatInt(workerNow().Unix()+far, 10), nonce(), g.origin)
						pr := &c25Proof{s: s, gate: g.idx}
						pool = append(pool, pr)
						p := present(name, "stale-or-early", g, []string{s})
						if p.passed {
							accepted = append(accepted, pr)
						}
					case 14:
						s := c25Mint(g.secrets[parts[1]], "v1", parts[1], "99999999999999999999999", nonce(), g.origin)
						present(name, "huge-timestamp", g, []string{s})
					}
				}
			}
		}

		for i := 0; i < nProxies; i++ {
			sim.Spawn(fmt.Sprintf("proxy%d", i), proxy(i))
		}
		for i := 0; i < nAttackers; i++ {
			sim.Spawn(fmt.Sprintf("attacker%d", i), attacker(i))
		}
		reason, _ := sim.Run(simkern.RunOpts{
			MaxSteps: 8000,
			Done:     func() bool { return sim.RootsDone() || e.Violated() },
			Extra:    clk.Actions,
		})
		e.Conclude(sim, reason, false)
		e.Res.Nontrivial = (replaysJudged > 0 || sim.Interleavings > 0) && clk.Advances > 0
		acc := 0
		for _, g := range gates {
			n := 0
			for _, p := range g.pres {
				if p.passed {
					n++
				}
			}
			acc += n
			sample = append(sample, fmt.Sprintf("gate %s: %d presentations, %d passed", g.origin, len(g.pres), n))
		}
		sample = append(sample, fmt.Sprintf("proofs minted %d, re-acceptances judged %d, clock advances %d", len(pool), replaysJudged, clk.Advances))
	})
	if left != "" {
		e.Harness("bubble: %s", left)
	}
	e.Res.Sample = sample
}

func c25Short(hdrs []string) []string {
	out := make([]string, len(hdrs))
	for i, h := range hdrs {
		if len(h) > 96 {
			h = h[:96] + "…"
		}
		out[i] = h
	}
	return out
}

func init() {
	Registry["C25"] = &Info{
		Run:   C25,
		Level: "exploration",
		Rule: "each run draws skew (2-30 s), replay capacity {default,1,2,3,5}, cache on/off, 1-2 workers (distinct origins, shared or separate secrets, two key ids), the ProofConfig.Now seam (nil or an offset clock), 1-2 proxy tasks and 1-3 attacker tasks; proxies mint proofs with the repository's MintProof (and a few sloppy variants from the documented format) stamped up to skew+2 s either side of the worker clock and present them (one run in four: proxies recycle nonces from a ring of two and pause longer than a cache entry lives, so a nonce is admitted again under a new timestamp after its first entry expired); attackers wait tape-chosen simulated delays (0 … 2×skew+1 s) and then replay accepted or in-flight proofs, re-spell their MAC, mutate each field, present them to the other worker, send two headers / comma-joined / empty / oversized headers, forge with a foreign key, or mint far-off timestamps; the scheduler interleaves presentations inside the nonce cache and moves the clock between and during them; distinct = distinct schedule fingerprint; non-trivial = the clock moved and (a proof that had already been accepted was accepted again and judged, or two tasks were runnable at once)",
		Real:  []string{"vgirpc.ProofAuthenticate gate (require mode), VerifyProof, nonceCache", "vgirpc.MintProof", "testing/synctest clock (time.Now and ProofConfig.Now)"},
		Stub:  []string{"proxies and attackers (tasks)", "inner authenticator (counting, yields, fault plan)", "independent HMAC verifier from the documented proof format", "http.Request construction (httptest)"},
		Quick: 3200, Thorough: 240000,
		FaultKinds: []string{"clock-advance", "inner-reject", "nonce-recycled"},
		Assumptions: []string{
			"the worker clock is monotone (the simulated clock, optionally shifted by a constant through ProofConfig.Now); proxies' clocks are skewed, the worker's never steps backwards",
			"timestamps are whole seconds: an accepted proof is flagged as outside the window only when it was at least skew+1 s away from the worker clock during the whole presentation",
			"'its timestamp would still be accepted' is decided by a stateless twin of the same gate (same configuration, replay cache disabled) asked at the start and at the end of the re-presentation; both must accept",
			"'the cache has since admitted more distinct proofs than its capacity' counts the replayed proof itself: the replay clause is waived once at least `capacity` other distinct proofs may have been admitted between the two acceptances; the order of two acceptances of one proof is taken from the instant each passed the gate (exact when an inner authenticator is configured: its entry; otherwise the presentation's interval, and overlapping presentations are then judged only if the clause fails for either order)",
			"two proof strings with identical fields and identical MAC bytes (different spare bits in the last base64 character) are the same proof",
			"allow mode is not generated: the property constrains require mode only",
		},
	}
}
