package checks

import (
	"errors"
	"fmt"
	"sort"
	"strings"
	"time"

	"verifsim/simkern"
	"verifsim/worlds/httpw"
	"verifsim/worlds/stickyw"

	"github.com/anishathalye/porcupine"
)

// C29 — sticky sessions are isolated per caller and serialized per session.
//
// World S (worlds/stickyw). Oracles, each exactly one clause of the statement:
//   (1) calls bearing the same session never overlap inside their handlers;
//   (2) a state's Close count is 0 while the session is live, never exceeds 1,
//       and is exactly 1 once the session ended (close, delete, expiry,
//       shutdown) — after Shutdown every state opened before it has count 1;
//   (3) the recorded history of every session is linearizable against a
//       sequential registry model (owner, worker, expiry instant, closed);
//       tokens that are nobody's, another caller's or presented to another
//       worker must be answered session_lost;
//   (4) no session opens while the worker is draining;
//   (5) no request leaves a session locked: nothing stays parked on a session
//       lock, and after faults stop one resume per live session completes
//       within 200 scheduler steps.

type c29Run struct {
	e   *simkern.Env
	tp  *simkern.Tape
	sim *simkern.Sim
	w   *stickyw.World

	nWorkers, nTasks int
	taskCaller       []int
	maxSess          int
	pendingOpens     int
	inflight         map[int]int
	advances         int
	maxAdvances      int
	menu             []time.Duration
	postAdvanceOps   int
	clientOps        int
	totalOps         int

	// stuck detection
	stallSnap  string
	stallCount int
}

const c29ProbeBudget = 200

func (c *c29Run) knownTokens(me int) (mine, others []*stickyw.Sess) {
	for _, s := range c.w.Sess {
		if s.Token == "" {
			continue
		}
		if s.Owner == me {
			mine = append(mine, s)
		} else {
			others = append(others, s)
		}
	}
	return
}

// pick chooses one of the caller's sessions: mostly one the harness believes
// is still live, sometimes any (ended or expired ones must answer session_lost).
func (c *c29Run) pick(mine []*stickyw.Sess) *stickyw.Sess {
	var live []*stickyw.Sess
	for _, s := range mine {
		if s.EndedBy == "" && c.sim.Now() < s.OpenCallNow+s.TTL {
			live = append(live, s)
		}
	}
	if len(live) > 0 && !c.tp.Bool(1, 4) {
		return live[c.tp.Draw(len(live))]
	}
	return mine[c.tp.Draw(len(mine))]
}

// recordResolve files the outcome of a request that presented a session's
// genuine token.
func (c *c29Run) recordResolve(s *stickyw.Sess, caller, worker int, res *stickyw.Result, via string) {
	e, w, sim := c.e, c.w, c.sim
	resolved := false
	switch res.Outcome {
	case "resolved":
		resolved = true
		if res.Req.Saw != s {
			e.Violate("resolved-another-session", via, "request by caller c%d on w%d bearing the token of %s ran bound to %s", caller, worker, s, res.Req.Saw)
			return
		}
	case "deleted":
		resolved = true
	case "lost", "not-deleted":
	default:
		msg := ""
		if res.Turn != nil && res.Turn.Err != nil {
			msg = res.Turn.Err.Message + " " + res.Turn.Err.ExtraS
		}
		e.Harness("C29: %s request (caller c%d, w%d, token of %s) had an unclassifiable outcome: %s %s", via, caller, worker, s, msg, res.Resp.ErrText())
		return
	}
	match := caller == s.Owner && worker == s.Worker
	if !match {
		// any other identity or worker must get session_lost, whatever the
		// state of the session
		if resolved {
			why := "other-caller"
			if caller == s.Owner {
				why = "other-worker"
			}
			e.Violate("resolved-for-"+why, via, "%s request by caller c%d on w%d bearing the token of %s was resolved (expected session_lost)", via, caller, worker, s)
		} else {
			sim.Probe("mismatch-refused")
			sim.Logf("%s s%d by c%d on w%d (not owner/worker) -> refused", via, s.ID, caller, worker)
		}
		return
	}
	end := res.Ret
	if res.Req != nil && res.Req.Entered && res.Req.EntryStep < end {
		end = res.Req.EntryStep // the registry lookup happened before the handler started
	}
	w.Record(stickyw.Op{Kind: "resolve", Sess: s.ID, Caller: caller, Worker: worker, Call: res.Call, Ret: end, Resolved: resolved, Via: via, Client: caller})
	sim.Logf("%s s%d by c%d on w%d -> resolved=%v [%d,%d]", via, s.ID, caller, worker, resolved, res.Call, end)
	if resolved {
		sim.Probe("resolve-ok")
		if res.Req != nil && s.Closes > 0 {
			sim.Probe("handler-ran-after-close")
		}
	} else {
		sim.Probe("resolve-lost")
	}
	if via == "delete" && resolved {
		w.Record(stickyw.Op{Kind: "end", Sess: s.ID, Caller: caller, Worker: worker, Call: res.Call, Ret: res.Ret, Via: "delete", Client: caller})
		if s.EndedBy == "" {
			s.EndedBy = "delete"
		}
		sim.Probe("delete-204")
	}
}

func (c *c29Run) track(s *stickyw.Sess, d int) {
	c.inflight[s.ID] += d
	if d > 0 && c.inflight[s.ID] > 1 {
		c.sim.Probe("same-session-requests-overlap")
	}
}

func (c *c29Run) handlerOpts(rq *stickyw.Req) {
	tp := c.tp
	rq.Yields = tp.Draw(4)
	if tp.Bool(1, 6) {
		// a handler that stays inside the session lock for a long time
		rq.Yields += tp.Range(10, 40)
		c.sim.Probe("long-handler")
	}
	switch tp.Draw(10) {
	case 8:
		rq.Fail = true
	case 9:
		rq.Panic = true
	}
}

func (c *c29Run) sendResume(act string, s *stickyw.Sess, caller, worker int) {
	w := c.w
	rq := w.NewReq(stickyw.Req{Act: act, Caller: caller, Worker: worker, TokSess: s, Cursor: s.Cursor, Call: s.Call})
	c.handlerOpts(rq)
	c.track(s, 1)
	res := w.Send(rq, s.Token)
	c.track(s, -1)
	if rq.Panic && rq.Entered {
		c.sim.Fault("handler-panic-in-session")
	}
	c.recordResolve(s, caller, worker, res, act)
	if act == "sinit" || act == "turn" {
		// the cursor and the call token of a stream are kept as a pair: two
		// concurrent inits create two streams, and a cursor of one must never
		// be combined with the call token of the other
		if res.Outcome == "resolved" && res.Turn != nil && res.Turn.Cursor != "" && caller == s.Owner {
			if act == "sinit" && res.Turn.Call != "" {
				s.Cursor, s.Call = res.Turn.Cursor, res.Turn.Call
			} else if act == "turn" {
				s.Cursor, s.Call = res.Turn.Cursor, rq.Call
			}
		}
	}
}

func (c *c29Run) sendDelete(s *stickyw.Sess, caller, worker int) {
	c.track(s, 1)
	res := c.w.Delete(caller, worker, s.Token, s)
	c.track(s, -1)
	c.recordResolve(s, caller, worker, res, "delete")
}

func mangle(tok string, how int) string {
	switch how {
	case 1:
		if len(tok) > 8 {
			return tok[:len(tok)/2]
		}
	case 2:
		if len(tok) > 8 {
			b := []byte(tok)
			i := len(b) / 2
			if b[i] == 'A' {
				b[i] = 'B'
			} else {
				b[i] = 'A'
			}
			return string(b)
		}
	}
	return "bm90LWEtc2Vzc2lvbi10b2tlbg"
}

// garbage presents a token that is nobody's.
func (c *c29Run) garbage(me int) {
	tp, w, e := c.tp, c.w, c.e
	how := tp.Draw(4)
	tok := ""
	caller := me
	kind := "token-garbage"
	if how == 3 && stickyw.ForeignToken != "" {
		tok, caller, kind = stickyw.ForeignToken, 1, "token-foreign-key" // minted for caller 1 on worker-a under another key
	} else {
		base := ""
		for _, s := range w.Sess {
			if s.Token != "" {
				base = s.Token
				break
			}
		}
		tok = mangle(base, how)
	}
	c.sim.Fault(kind)
	worker := 0
	if kind == "token-garbage" {
		worker = tp.Draw(c.nWorkers)
	}
	if tp.Bool(1, 3) {
		res := w.Delete(caller, worker, tok, nil)
		if res.Outcome != "not-deleted" {
			e.Violate("garbage-token-resolved", "delete", "DELETE bearing a token that is nobody's (%s) answered %d", kind, res.Resp.Status)
		}
		return
	}
	rq := w.NewReq(stickyw.Req{Act: "use", Caller: caller, Worker: worker})
	res := w.Send(rq, tok)
	switch res.Outcome {
	case "lost":
		c.sim.Probe("garbage-refused")
	case "resolved":
		e.Violate("garbage-token-resolved", "use", "a request bearing a token that is nobody's (%s) ran bound to %s", kind, rq.Saw)
	default:
		e.Violate("garbage-token-not-session-lost", "use", "a request bearing a token that is nobody's (%s) was not answered session_lost: %s", kind, res.Resp.ErrText())
	}
}

func (c *c29Run) open(me int) {
	tp, w, e := c.tp, c.w, c.e
	rq := w.NewReq(stickyw.Req{Act: "open", Caller: me, Worker: tp.Draw(c.nWorkers)})
	rq.TTL = time.Duration(tp.Pick(0, 1000, 2000, 4000, 8000)) * time.Millisecond
	rq.Yields = tp.Draw(3)
	if tp.Bool(1, 5) {
		rq.Panic = true
	}
	c.pendingOpens++
	res := w.Send(rq, "")
	c.pendingOpens--
	if rq.Panic && rq.Opened != nil {
		c.sim.Fault("handler-panic-after-open")
	}
	c.sim.Logf("open by c%d on w%d ttl=%v panic=%v -> opened=%v err=%q token=%v", me, rq.Worker, rq.TTL, rq.Panic, rq.Opened != nil, rq.OpenErr, res.NewToken != "")
	switch {
	case rq.Opened != nil:
		c.sim.Probe("open-ok")
		if res.NewToken != "" {
			rq.Opened.Token = res.NewToken
		} else {
			c.sim.Probe("open-without-token-header")
		}
	case rq.OpenErr == "draining":
		c.sim.Probe("open-refused-draining")
	case !rq.Entered:
		e.Harness("C29: open request never reached its handler: %s", res.Resp.ErrText())
	default:
		e.Harness("C29: OpenSession failed unexpectedly: %s", rq.OpenErr)
	}
}

func (c *c29Run) clientOp(ci int) {
	tp := c.tp
	me := c.taskCaller[ci]
	mine, others := c.knownTokens(me)
	const (
		aUse = iota
		aOpen
		aTurn
		aClose
		aDelete
		aIntrude
		aWrongWorker
		aGarbage
		nActs
	)
	wt := make([]int, nActs)
	if len(mine) > 0 {
		wt[aUse], wt[aTurn], wt[aClose], wt[aDelete] = 6, 3, 2, 2
		if c.nWorkers > 1 {
			wt[aWrongWorker] = 2
		}
	}
	if c.w.Phase == 2 {
		wt[aOpen] = 3
	} else if len(c.w.Sess)+c.pendingOpens < c.maxSess {
		wt[aOpen] = 3
		if len(mine) == 0 {
			wt[aOpen] = 8
		}
	}
	if len(others) > 0 {
		wt[aIntrude] = 2
	}
	wt[aGarbage] = 1
	c.clientOps++
	if c.advances > 0 {
		c.postAdvanceOps++
	}
	switch tp.Weighted(wt) {
	case aUse:
		s := c.pick(mine)
		c.sendResume("use", s, me, s.Worker)
	case aOpen:
		c.open(me)
	case aTurn:
		s := c.pick(mine)
		if tp.Bool(1, 3) {
			// a producer stream bound to the session: its first Produce turn runs
			// inside the /init request after the init handler has returned
			c.sendResume("pinit", s, me, s.Worker)
		} else if s.Cursor == "" {
			c.sendResume("sinit", s, me, s.Worker)
		} else {
			c.sendResume("turn", s, me, s.Worker)
		}
	case aClose:
		s := c.pick(mine)
		c.sendResume("close", s, me, s.Worker)
	case aDelete:
		s := c.pick(mine)
		c.sendDelete(s, me, s.Worker)
	case aIntrude:
		s := others[tp.Draw(len(others))]
		c.sim.Fault("token-other-caller")
		if tp.Bool(1, 3) {
			c.sendDelete(s, me, s.Worker)
		} else {
			c.sendResume("use", s, me, s.Worker)
		}
	case aWrongWorker:
		s := c.pick(mine)
		other := (s.Worker + 1) % c.nWorkers
		c.sim.Fault("token-other-worker")
		switch {
		case tp.Bool(1, 3):
			c.sendDelete(s, me, other)
		case s.Cursor != "" && tp.Bool(1, 2):
			c.sendResume("turn", s, me, other)
		default:
			c.sendResume("use", s, me, other)
		}
	default:
		c.garbage(me)
	}
}

// lockWaiters describes the unfinished root tasks when every one of them is
// parked in front of a mutex ("…:Lock" site); "" otherwise.
func (c *c29Run) lockWaiters() string {
	var sb strings.Builder
	n := 0
	for _, t := range c.sim.Tasks() {
		if !t.Root || t.Done() {
			continue
		}
		parked, site := t.Parked()
		if !parked || !strings.HasSuffix(site, ":Lock") {
			return ""
		}
		n++
		fmt.Fprintf(&sb, "%s@%s;", t.Name, site)
	}
	if n == 0 {
		return ""
	}
	return sb.String()
}

// stuck reports that the unfinished root tasks have all been parked in front of
// the same mutexes for so many consecutive quiescent points that none of them
// can be ready: while they wait the world offers no fault action, time does
// not pass as long as anything is runnable, and the only other tasks (the
// reapers) block on their ticker after at most a few steps — so a ready waiter
// would have been a forced move long before the threshold.
func (c *c29Run) stuck() bool {
	snap := c.lockWaiters()
	if snap == "" || snap != c.stallSnap {
		c.stallSnap, c.stallCount = snap, 0
		return false
	}
	c.stallCount++
	return c.stallCount >= 80
}

func (c *c29Run) lockSites() string {
	var sites []string
	for _, t := range c.sim.Tasks() {
		if t.Root && !t.Done() {
			if parked, site := t.Parked(); parked {
				sites = append(sites, site)
			}
		}
	}
	sort.Strings(sites)
	if len(sites) == 0 {
		return "none"
	}
	return sites[0]
}

func (c *c29Run) reapersIdle() bool {
	for _, t := range c.sim.Tasks() {
		if !t.Root && !t.Done() && !t.BlockedElsewhere() {
			return false
		}
	}
	return true
}

func (c *c29Run) extra() []simkern.Action {
	// the clock only matters once a session exists; advances are paced with
	// the clients' progress so that they are spread over the whole phase
	if c.e.Violated() || c.lockWaiters() != "" || len(c.w.Sess) == 0 ||
		c.advances >= c.maxAdvances || c.advances > c.clientOps*c.maxAdvances/c.totalOps {
		return nil
	}
	return []simkern.Action{{Name: "advance", Weight: 1, Do: func() {
		d := c.menu[c.tp.Draw(len(c.menu))]
		c.advances++
		c.sim.Fault("clock-advance")
		if c.sumInflight() > 0 {
			c.sim.Probe("advance-with-request-in-flight")
		}
		c.sim.Logf("advance %v", d)
		c.w.Advance(d)
	}}}
}

func (c *c29Run) sumInflight() int {
	n := 0
	for _, v := range c.inflight {
		n += v
	}
	return n
}

func (c *c29Run) check() error {
	if c.e.Violated() {
		return errors.New("violated")
	}
	return nil
}

func (c *c29Run) runPhase(budget int) simkern.StopReason {
	c.stallSnap, c.stallCount = "", 0
	isStuck := false
	reason, _ := c.sim.Run(simkern.RunOpts{
		MaxSteps: c.sim.Steps + budget,
		Done: func() bool {
			if c.sim.RootsDone() {
				return true
			}
			if c.stuck() {
				isStuck = true
				return true
			}
			return false
		},
		Extra:     c.extra,
		Check:     c.check,
		IdleLimit: 20 * time.Second, // nothing in this world waits for time except the 1 s reaper tick
	})
	if reason == simkern.StopDeadlock && c.lockWaiters() != "" {
		// nothing can move even when time passes, and every unfinished task
		// waits for a session lock
		isStuck = true
		c.stallSnap = c.lockWaiters()
		reason = simkern.StopDone
	}
	if isStuck && !c.e.Violated() {
		c.e.Violate("session-left-locked", c.lockSites(), "every unfinished task is parked for good in front of a session lock that nothing holds any more: %s (step %d, t=%v)", c.stallSnap, c.sim.Steps, c.sim.Now())
	}
	return reason
}

// C29 is the run function.
func C29(e *simkern.Env) {
	tp := e.Tape
	c := &c29Run{e: e, tp: tp, inflight: map[int]int{}, maxSess: 4, maxAdvances: 7}
	c.nWorkers = 1 + tp.Draw(2)
	nCallers := 2 + tp.Draw(2)
	c.nTasks = 2 + tp.Draw(3)
	defTTL := time.Duration(tp.Pick(2, 3, 5)) * time.Second
	ops1 := 3 + tp.Draw(4)
	ops2 := 1 + tp.Draw(3)
	opOps := tp.Draw(3)
	for i := 0; i < c.nTasks; i++ {
		c.taskCaller = append(c.taskCaller, i%nCallers)
	}
	c.totalOps = c.nTasks * ops1
	c.menu = []time.Duration{100 * time.Millisecond, 300 * time.Millisecond, 500 * time.Millisecond, 900 * time.Millisecond, time.Second, 1100 * time.Millisecond, 2100 * time.Millisecond}
	e.Knob("workers", c.nWorkers)
	e.Knob("callers", nCallers)
	e.Knob("tasks", c.nTasks)
	e.Knob("default_ttl_s", int(defTTL/time.Second))
	e.Knob("ops", []int{ops1, ops2, opOps})

	callers := []httpw.Ident{{}, {Auth: true, Domain: "bearer", Principal: "alice"}, {Auth: true, Domain: "bearer", Principal: "bob"}}[:nCallers]
	var hist []stickyw.Op
	var sessions []*stickyw.Sess
	var sample []string
	complete := false

	left := e.Bubble(func() {
		sim := simkern.NewSim(tp, e.Trace)
		defer sim.Close()
		c.sim = sim
		w := stickyw.New(sim, stickyw.Config{Workers: c.nWorkers, DefaultTTL: defTTL, Key: []byte("0123456789abcdef0123456789abcdef")}, callers)
		defer func() { stickyw.Cur = nil }()
		c.w = w
		w.Violate = e.Violate

		// ---- phase 1: free-for-all, no shutdown ----
		for ci := 0; ci < c.nTasks; ci++ {
			ci := ci
			sim.Spawn(fmt.Sprintf("client%d", ci), func() {
				for op := 0; op < ops1 && !e.Violated(); op++ {
					sim.Y("client.idle")
					c.clientOp(ci)
				}
			})
		}
		sim.Spawn("operator", func() {
			for i := 0; i < opOps && !e.Violated(); i++ {
				sim.Y("operator.idle")
				wk := tp.Draw(c.nWorkers)
				until := sim.Steps + tp.Range(20, 250)
				w.SetDrain(wk, true)
				sim.Probe("drain")
				sim.Yield("operator.hold", func() bool { return sim.Steps >= until || c.clientsDone() })
				w.SetDrain(wk, false)
			}
		})
		reason := c.runPhase(9000)

		// clause (2) at a quiet point: a session whose close/delete returned
		if reason == simkern.StopDone && !e.Violated() {
			for _, s := range w.Sess {
				if s.EndedBy != "" && s.Closes != 1 {
					e.Violate("close-count", "after-"+s.EndedBy, "session %s ended by %s but its state's Close ran %d times", s, s.EndedBy, s.Closes)
				}
			}
		}

		// ---- clause (5): faults have stopped; one resume per live session ----
		if reason == simkern.StopDone && !e.Violated() {
			for _, s := range w.Sess {
				if s.Token == "" || s.EndedBy != "" || sim.Now() >= s.OpenCallNow+s.TTL {
					continue
				}
				s := s
				t := sim.Spawn(fmt.Sprintf("probe-s%d", s.ID), func() { c.sendResume("use", s, s.Owner, s.Worker) })
				sim.Probe("liveness-probe")
				start := sim.Steps
				r, _ := sim.Run(simkern.RunOpts{MaxSteps: start + c29ProbeBudget, Done: t.Done, Check: c.check, IdleLimit: 5 * time.Second})
				if !t.Done() && !e.Violated() {
					_, site := t.Parked()
					e.Violate("session-left-locked", site, "after all faults stopped a resume of live session %s did not complete within %d scheduler steps (stop: %v, parked at %s)", s, c29ProbeBudget, r, site)
				}
				if e.Violated() {
					break
				}
			}
		}

		// ---- phase 2: the remaining operations race with drain + Shutdown ----
		// (drain always completes before Shutdown starts: the operator's
		// discipline the drain clause exists for)
		if reason == simkern.StopDone && !e.Violated() {
			w.Phase = 2
			drainDone := -1 // step at which every worker's Drain() had returned
			for ci := 0; ci < c.nTasks; ci++ {
				ci := ci
				sim.Spawn(fmt.Sprintf("client%d.p2", ci), func() {
					for op := 0; op < ops2 && !e.Violated(); op++ {
						sim.Y("client.idle")
						c.clientOp(ci)
					}
				})
			}
			// (see "fault: one slow request" below) the operator of such a run
			// starts its drain while the slow request sits inside the registry
			stalled := tp.Bool(1, 2)
			victim := fmt.Sprintf("client%d.p2", tp.Draw(c.nTasks))
			// the request is let through its first stallFrom-1 stops inside the
			// registry and is starved from then on
			stallFrom := 1 + tp.Draw(6)
			victimParks := 0
			victimInRegistry := func() bool {
				for _, t := range sim.Tasks() {
					if t.Name == victim {
						parked, site := t.Parked()
						return parked && strings.Contains(site, "sticky.go") && victimParks >= stallFrom
					}
				}
				return false
			}
			sim.Spawn("operator.p2", func() {
				drainAt := sim.Steps + tp.Range(0, 120)
				sim.Yield("operator.pre-drain", func() bool {
					if stalled {
						return victimInRegistry() || c.clientsDone() || sim.Steps >= drainAt+300
					}
					return sim.Steps >= drainAt || c.clientsDone()
				})
				for wk := range w.W {
					w.SetDrain(wk, true)
				}
				drainDone = sim.Steps
				shutAt := sim.Steps + tp.Range(0, 300)
				// The reaper's select between its stop channel and a pending
				// tick would be decided by the Go runtime, not by the tape:
				// Shutdown starts only when every reaper is idle in its select.
				sim.Yield("operator.pre-shutdown", func() bool {
					if stalled {
						return c.reapersIdle()
					}
					return (sim.Steps >= shutAt || c.clientsDone()) && c.reapersIdle()
				})
				for wk := range w.W {
					w.Shutdown(wk)
					sim.Probe("shutdown")
					sim.Y("operator.between-shutdowns")
				}
			})
			c.maxAdvances = 0 // no clock advances in phase 2 (see Assumptions)
			// fault: one slow request. In half of the runs one client task is all
			// but starved whenever it is parked inside the session registry, while
			// the operator drains and shuts down (a request descheduled between a
			// check and the action that relies on it).
			if stalled {
				sim.Fault("stalled-request")
				lastSite := ""
				sim.WeightFn = func(task, site string) int {
					if task == victim {
						if site != lastSite {
							lastSite = site
							if strings.Contains(site, "sticky.go") {
								victimParks++
							}
						}
						if strings.Contains(site, "sticky.go") && victimParks >= stallFrom {
							return 1
						}
					}
					return 2000
				}
			}
			reason = c.runPhase(6000)
			sim.WeightFn = nil
			if reason == simkern.StopDone && !e.Violated() {
				for _, s := range w.Sess {
					if s.OpenCallStep >= drainDone {
						// opened although every worker was already draining: the
						// drain clause (checked below) reports it
						continue
					}
					if s.Closes != 1 {
						e.Violate("close-count", fmt.Sprintf("after-shutdown:closes=%d", s.Closes), "after Shutdown of every worker the state of session %s (opened at step %d, drain complete at step %d, ended by %q) has Close count %d", s, s.OpenCallStep, drainDone, s.EndedBy, s.Closes)
						break
					}
				}
			}
		}

		// the history is complete only if every operation returned
		complete = reason == simkern.StopDone && !e.Violated() && sim.RootsDone()

		// ---- teardown: stop the reapers so that the bubble can end ----
		w.Violate = nil
		sim.Spawn("teardown", func() {
			// wait until every other root task has finished or is parked for
			// good in front of a lock
			sim.Yield("teardown.wait", func() bool {
				for _, t := range sim.Tasks() {
					if !t.Root || t.Done() || t.Name == "teardown" {
						continue
					}
					if parked, site := t.Parked(); !parked || !strings.HasSuffix(site, ":Lock") {
						return false
					}
				}
				return true
			})
			w.StopAll()
		})
		if reason == simkern.StopCheck {
			reason = simkern.StopDone
		}
		e.Conclude(sim, reason, false)

		hist = append(hist, w.Hist...)
		sessions = w.Sess
		if !complete && !e.Violated() {
			e.Inconclusive("run did not complete (%v): history not judged", reason)
		}
		for _, s := range w.Sess {
			sample = append(sample, fmt.Sprintf("%s phase=%d token=%v endedBy=%q closes=%d maxInHandler=%d", s, s.Phase, s.Token != "", s.EndedBy, s.Closes, s.MaxIn))
		}
		e.Res.Nontrivial = sim.Interleavings > 0 && (c.advances > 0 || len(w.Sess) > 0)
	})
	if left != "" && !e.Violated() {
		e.Harness("bubble: %s", left)
	}

	// ---- clauses (3) and (4): linearizability, outside the bubble (porcupine
	// uses real goroutines and a real-time timeout) ----
	if complete && !e.Violated() && e.Res.HarnessError == "" {
		c29Linearize(e, hist, sessions, c.nWorkers)
	}
	sample = append(sample, fmt.Sprintf("history: %d operations, %d advances, %d client operations", len(hist), c.advances, c.clientOps))
	if len(hist) > 0 {
		n := len(hist)
		if n > 40 {
			n = 40
		}
		sample = append(sample, "first operations: "+c29Describe(hist[:n]))
	}
	e.Res.Sample = sample
}

func (c *c29Run) clientsDone() bool {
	for _, t := range c.sim.Tasks() {
		if t.Root && !t.Done() && strings.HasPrefix(t.Name, "client") {
			return false
		}
	}
	return true
}

// ---- sequential models ----

type c29In struct {
	Kind   string
	Caller int
	Worker int
	TTL    time.Duration
	D      time.Duration
	Via    string
}

type c29Out struct {
	Resolved bool
	Outcome  string
}

// c29Sess is the sequential registry model of one session.
type c29Sess struct {
	Opened bool
	Owner  int
	Worker int
	Exp    time.Duration // expiry instant
	Now    time.Duration
	Closed bool
}

var c29SessModel = porcupine.Model{
	Init: func() interface{} { return c29Sess{} },
	Step: func(st, in, out interface{}) (bool, interface{}) {
		s := st.(c29Sess)
		i := in.(c29In)
		switch i.Kind {
		case "advance":
			s.Now += i.D
			return true, s
		case "open":
			if s.Opened {
				return false, s
			}
			s.Opened, s.Owner, s.Worker, s.Exp = true, i.Caller, i.Worker, s.Now+i.TTL
			return true, s
		case "resolve":
			o := out.(c29Out)
			match := s.Opened && i.Caller == s.Owner && i.Worker == s.Worker
			if o.Resolved {
				// resolvable: same caller, same worker, not closed, not expired
				// (the expiry instant itself is left undecided)
				return match && !s.Closed && s.Now <= s.Exp, s
			}
			return !match || s.Closed || s.Now >= s.Exp, s
		case "end":
			s.Closed = true
			return true, s
		case "shutdown":
			if s.Opened && i.Worker == s.Worker {
				s.Closed = true
			}
			return true, s
		}
		return false, s
	},
	DescribeOperation: func(in, out interface{}) string {
		i := in.(c29In)
		switch i.Kind {
		case "resolve":
			return fmt.Sprintf("%s(c%d,w%d)->resolved=%v", i.Via, i.Caller, i.Worker, out.(c29Out).Resolved)
		case "advance":
			return fmt.Sprintf("advance(%v)", i.D)
		case "open":
			return fmt.Sprintf("open(c%d,w%d,ttl=%v)", i.Caller, i.Worker, i.TTL)
		}
		return fmt.Sprintf("%s(%s,w%d)", i.Kind, i.Via, i.Worker)
	},
}

// the drain flag of one worker: a session may open only while it is clear
var c29DrainModel = porcupine.Model{
	Init: func() interface{} { return false },
	Step: func(st, in, out interface{}) (bool, interface{}) {
		draining := st.(bool)
		i := in.(c29In)
		switch i.Kind {
		case "drain":
			return true, true
		case "undrain":
			return true, false
		case "tryopen":
			if out.(c29Out).Outcome == "opened" {
				return !draining, draining
			}
			return true, draining // a refusal is never wrong by this clause
		}
		return false, draining
	},
}

func c29Describe(ops []stickyw.Op) string {
	var sb strings.Builder
	for _, op := range ops {
		switch op.Kind {
		case "advance":
			fmt.Fprintf(&sb, "[%d,%d] advance %v; ", op.Call, op.Ret, op.D)
		case "open":
			fmt.Fprintf(&sb, "[%d,%d] open s%d by c%d on w%d ttl %v; ", op.Call, op.Ret, op.Sess, op.Caller, op.Worker, op.TTL)
		case "resolve":
			r := "session_lost"
			if op.Resolved {
				r = "resolved"
			}
			fmt.Fprintf(&sb, "[%d,%d] %s s%d by c%d on w%d -> %s; ", op.Call, op.Ret, op.Via, op.Sess, op.Caller, op.Worker, r)
		case "end":
			fmt.Fprintf(&sb, "[%d,%d] s%d ended by %s; ", op.Call, op.Ret, op.Sess, op.Via)
		case "tryopen":
			fmt.Fprintf(&sb, "[%d,%d] open attempt on w%d -> %s; ", op.Call, op.Ret, op.Worker, op.Outcome)
		default:
			fmt.Fprintf(&sb, "[%d,%d] %s w%d; ", op.Call, op.Ret, op.Kind, op.Worker)
		}
	}
	return sb.String()
}

func c29ToPorcupine(ops []stickyw.Op) []porcupine.Operation {
	out := make([]porcupine.Operation, 0, len(ops))
	for _, op := range ops {
		cl := op.Client
		if cl < 0 {
			cl = 7
		}
		out = append(out, porcupine.Operation{
			ClientId: cl,
			Input:    c29In{Kind: op.Kind, Caller: op.Caller, Worker: op.Worker, TTL: op.TTL, D: op.D, Via: op.Via},
			Call:     int64(op.Call),
			Output:   c29Out{Resolved: op.Resolved, Outcome: op.Outcome},
			Return:   int64(op.Ret),
		})
	}
	return out
}

// c29Culprit names the operation whose return first makes the history
// non-linearizable (only used to give the violation a stable site).
func c29Culprit(model porcupine.Model, ops []stickyw.Op) string {
	sorted := append([]stickyw.Op(nil), ops...)
	sort.SliceStable(sorted, func(i, j int) bool { return sorted[i].Ret < sorted[j].Ret })
	for k := 1; k <= len(sorted); k++ {
		if porcupine.CheckOperationsTimeout(model, c29ToPorcupine(sorted[:k]), 5*time.Second) == porcupine.Illegal {
			op := sorted[k-1]
			switch op.Kind {
			case "resolve":
				r := "lost"
				if op.Resolved {
					r = "resolved"
				}
				return op.Via + ":" + r
			case "tryopen":
				return "open:" + op.Outcome
			}
			return op.Kind
		}
	}
	return "history"
}

func c29Linearize(e *simkern.Env, hist []stickyw.Op, sessions []*stickyw.Sess, nWorkers int) {
	if e.Res.Probes == nil {
		e.Res.Probes = map[string]int{}
	}
	// per-session partitions: the session's own operations plus every global
	// operation that can matter to it
	for _, s := range sessions {
		var ops []stickyw.Op
		openCall := -1
		for _, op := range hist {
			if op.Kind == "open" && op.Sess == s.ID {
				openCall = op.Call
			}
		}
		for _, op := range hist {
			switch {
			case op.Kind == "tryopen" || op.Kind == "drain" || op.Kind == "undrain":
				continue
			case op.Sess == s.ID:
				ops = append(ops, op)
			case op.Kind == "advance" && op.Ret >= openCall:
				ops = append(ops, op)
			case op.Kind == "shutdown" && op.Worker == s.Worker:
				ops = append(ops, op)
			}
		}
		e.Res.Probes["history-partitions"]++
		e.Res.Probes["history-operations"] += len(ops)
		switch porcupine.CheckOperationsTimeout(c29SessModel, c29ToPorcupine(ops), 30*time.Second) {
		case porcupine.Illegal:
			e.Violate("history-not-linearizable", c29Culprit(c29SessModel, ops), "the history of session %s has no sequential explanation (owner-only resolution until close/expiry): %s", s, c29Describe(ops))
			return
		case porcupine.Unknown:
			e.Inconclusive("linearizability check of session s%d timed out (%d operations)", s.ID, len(ops))
		}
	}
	// per-worker drain partitions
	for wk := 0; wk < nWorkers; wk++ {
		var ops []stickyw.Op
		for _, op := range hist {
			if op.Worker == wk && (op.Kind == "tryopen" || op.Kind == "drain" || op.Kind == "undrain") {
				ops = append(ops, op)
			}
		}
		if len(ops) == 0 {
			continue
		}
		switch porcupine.CheckOperationsTimeout(c29DrainModel, c29ToPorcupine(ops), 30*time.Second) {
		case porcupine.Illegal:
			e.Violate("opened-while-draining", c29Culprit(c29DrainModel, ops), "worker w%d let a session open although it was draining for the whole OpenSession call: %s", wk, c29Describe(ops))
			return
		case porcupine.Unknown:
			e.Inconclusive("drain check of worker w%d timed out (%d operations)", wk, len(ops))
		}
	}
}

func warmSticky() {
	warmHTTP()
	stickyw.Warm()
}

func init() {
	Registry["C29"] = &Info{
		Run:   C29,
		Level: "exploration",
		Rule: "each run draws 1-2 workers (distinct server ids, one key), 2-3 caller identities, 2-4 client tasks, a default TTL, per-session TTLs and handler scripts (extra scheduling points inside the session lock, panic/error at the end, panic after opening) from the tape; " +
			"phase 1: clients open / resume / stream-turn / close / DELETE, present other callers' tokens, tokens on the other worker, mangled and foreign-key tokens, while an operator drains/undrains and the scheduler interleaves everything at woven lock sites with the real reaper and clock advances around the TTLs; " +
			"then one resume per live session must complete within 200 steps; phase 2: the remaining operations (including opens) race with the operator's drain of every worker followed by Shutdown; " +
			"per-session histories (step-stamped invoke/return, clock advances as operations) are checked with porcupine against a sequential registry model; distinct = distinct schedule fingerprint; non-trivial = tasks interleaved and a session was opened or the clock advanced",
		Real:  []string{"vgirpc.HttpServer.ServeHTTP (unary, stream init, stream exchange, DELETE /__session__)", "sessionRegistry (open/get/close/drainExpired/shutdown), per-session lock, reaper goroutine on the simulated ticker", "CallContext.OpenSession/Session/CloseSession", "VGI-Session token seal/open", "DrainHandle (Drain, ClearDrain, Shutdown)", "testing/synctest clock"},
		Stub:  []string{"HTTP transport (direct ServeHTTP call, httptest recorder)", "authenticator (identity header)", "handlers, exchange state and session state objects (harness code that parks inside the session lock and counts Close)", "clients and operator (tape-driven)", "linearizability checker (porcupine v1.3.0)"},
		Quick: 1500, Thorough: 240000,
		Warm:       warmSticky,
		FaultKinds: []string{"clock-advance", "token-garbage", "token-foreign-key", "token-other-caller", "token-other-worker", "handler-panic-after-open", "handler-panic-in-session", "stalled-request"},
		Assumptions: []string{
			"a request linearises at its registry lookup: a handler that runs on a state already closed by a concurrent close/expiry/shutdown is not a violation, and Close() running while a handler of that session is inside is not a violation",
			"an expiry decision may use any clock value read inside the operation's interval; at the expiry instant itself both answers are accepted",
			"two DELETEs (or a DELETE and a handler's CloseSession) that both resolved the session before either closed it may both report success; only the Close count must be 1",
			"the return value of CloseSession and the status of a DELETE that finds nothing are not judged beyond session isolation; a refusal to open is never judged wrong by the drain clause",
			"Shutdown always follows a completed drain (the discipline the drain clause exists for); sessions that nevertheless open after the drain completed are reported by the drain clause and excluded from the after-shutdown Close count",
			"Shutdown is started only when every reaper is idle and the clock does not advance in phase 2: Go's select between the closed stop channel and a pending tick is decided by the runtime, which would break replay (reaper-versus-Shutdown overlap is therefore not explored; reaper versus close/delete/inline expiry is)",
			"a leaked session lock is only observable through a later request bearing that session; sessions that have already ended are not probed",
			"identities are anonymous and two bearer principals; identity strings that collide in the token AAD encoding belong to C13",
		},
	}
}
