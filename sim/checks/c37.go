package checks

import (
	"context"
	"fmt"
	"net/http"

	"verifsim/hx"
	"verifsim/simkern"
	"verifsim/worlds/httpw"
	"verifsim/worlds/pipew"

	"github.com/Query-farm/vgi-rpc-go/vgirpc"
	"github.com/apache/arrow-go/v18/arrow"
)

// hookEvent is one observed hook callback.
type hookEvent struct {
	start   bool
	token   int
	method  string
	reqID   string
	mtype   string
	err     bool // end: err != nil
	task    string
	panics  bool // this callback panicked (by plan)
	tokenOK bool // end: the token is one this hook handed out and not yet ended
}

// planHook is a recording DispatchHook that panics in start or end when the
// plan says so. plan is consulted per callback; nil = never panic.
type planHook struct {
	sim    *simkern.Sim
	events []hookEvent
	next   int
	open   map[int]bool
	plan   func(start bool) bool
}

func (h *planHook) taskName() string {
	if t := h.sim.Current(); t != nil {
		return t.Name
	}
	return "?"
}

func (h *planHook) OnDispatchStart(ctx context.Context, info vgirpc.DispatchInfo) (context.Context, vgirpc.HookToken) {
	h.sim.Y("hook.start")
	boom := h.plan != nil && h.plan(true)
	h.next++
	tok := h.next
	h.events = append(h.events, hookEvent{start: true, token: tok, method: info.Method, reqID: info.RequestID, mtype: info.MethodType, task: h.taskName(), panics: boom})
	if boom {
		h.sim.Fault("hook-panic-in-start")
		panic("scripted hook panic in start")
	}
	h.open[tok] = true
	return ctx, tok
}

func (h *planHook) OnDispatchEnd(ctx context.Context, token vgirpc.HookToken, info vgirpc.DispatchInfo, stats *vgirpc.CallStatistics, err error) {
	h.sim.Y("hook.end")
	boom := h.plan != nil && h.plan(false)
	tok, _ := token.(int)
	ok := h.open[tok]
	delete(h.open, tok)
	h.events = append(h.events, hookEvent{start: false, token: tok, method: info.Method, reqID: info.RequestID, mtype: info.MethodType, err: err != nil, task: h.taskName(), panics: boom, tokenOK: ok})
	if boom {
		h.sim.Fault("hook-panic-in-end")
		panic("scripted hook panic in end")
	}
}

// hookWindow returns the events recorded in [from, len) by task.
func (h *planHook) window(from int, task string) []hookEvent {
	var out []hookEvent
	for _, ev := range h.events[from:] {
		if task == "" || ev.task == task {
			out = append(out, ev)
		}
	}
	return out
}

// c37JudgeWindow checks the hook events of one dispatch window (one pipe call
// or one HTTP request): a start that returned is followed by exactly one end
// with its token; end's err matches the response; at most one dispatch.
func c37JudgeWindow(e *simkern.Env, site string, evs []hookEvent, dispatched, respErr bool) bool {
	starts, ends := 0, 0
	var st, en *hookEvent
	for i := range evs {
		if evs[i].start {
			starts++
			st = &evs[i]
		} else {
			ends++
			en = &evs[i]
		}
	}
	if !dispatched {
		// not a dispatched call: the statement makes no demand, except that an
		// end never appears without its start
		if ends > starts {
			e.Violate("end-without-start", site, "%d end callbacks for %d start callbacks", ends, starts)
			return true
		}
		return false
	}
	if starts != 1 {
		e.Violate("start-count", site, "a dispatched call produced %d start callbacks, expected 1", starts)
		return true
	}
	if st.panics {
		if ends > 0 && !en.tokenOK && en.token != 0 {
			e.Violate("end-with-foreign-token", site, "start panicked, yet end ran with token %d", en.token)
			return true
		}
		return false
	}
	if ends != 1 {
		e.Violate("end-count", site, "start returned normally but %d end callbacks ran, expected exactly 1", ends)
		return true
	}
	if en.token != st.token || !en.tokenOK {
		e.Violate("end-token-mismatch", site, "end ran with token %d, start handed out %d", en.token, st.token)
		return true
	}
	if en.err != respErr {
		e.Violate("end-error-mismatch", site, "end received err!=nil: %v, but the response reports an error to the client: %v", en.err, respErr)
		return true
	}
	return false
}

func batchesSig(bs []hx.Batch) string {
	s := ""
	for _, b := range bs {
		switch b.Kind {
		case "log":
			s += fmt.Sprintf("[log %s %s]", b.Level, b.Message)
		case "error":
			s += fmt.Sprintf("[err %s %s]", b.ExcType(), b.Message)
		case "token":
			s += "[token]"
		default:
			s += fmt.Sprintf("[data rows=%d %s %s %s]", b.Rows, b.Result, b.JSON, userMeta(b.Meta))
		}
	}
	return s
}

// C37 — dispatch hooks see exactly one start and one end per dispatched call.
func C37(e *simkern.Env) {
	tp := e.Tape
	ops := pipew.GenOps(tp, pipew.GenCfg{MinOps: 2, MaxOps: 7, Bad: true, BadStream: true, FailBias: 5, InitFail: true, Cancel: true, MaxTurns: 4, NonceBase: 37000, NoHook: true})
	for _, op := range ops {
		if op.StreamKind == "producer" {
			op.CancelAt = -1
			op.Inputs = len(op.Script.Turns) + 2
		}
		op.WriteAhead = 0
	}
	kn := pipew.DrawKnobs(tp)
	panicRate := tp.Pick(0, 3, 6) // out of 10 per callback
	plan := make([]bool, 400)
	for i := range plan {
		plan[i] = panicRate > 0 && tp.Draw(10) < panicRate
	}
	batchLimit := tp.Draw(3)
	extInputs := tp.Bool(1, 3)
	e.Knob("external_inputs_on_pipe", extInputs)
	e.Knob("hook_panic_rate_per_10", panicRate)
	e.Knob("batch_limit", batchLimit)
	e.Res.Sample = pipew.Describe(ops)
	left := e.Bubble(func() {
		sim := simkern.NewSim(tp, e.Trace)
		defer sim.Close()
		judged := 0
		mkHook := func(withPlan bool) *planHook {
			h := &planHook{sim: sim, open: map[int]bool{}}
			if withPlan {
				k := 0
				h.plan = func(bool) bool {
					k++
					return plan[k%len(plan)]
				}
			}
			return h
		}
		// some exchange inputs travel as external-location pointers the server has
		// to fetch; whether a given input does, and whether its fetch fails, is
		// fixed per (call, input) so that every replay of the history sees the same
		store := &faultyStore{sim: sim, objects: map[string][]byte{}, encoding: map[string]string{}, failURL: map[string]string{}}
		type extPlan struct {
			ext  bool
			fail string
		}
		extPlans := map[[2]int64]extPlan{}
		extIn := func(op *pipew.Op, k int, b arrow.RecordBatch) arrow.RecordBatch {
			if !extInputs || b.NumRows() == 0 || b.NumCols() == 0 {
				return b
			}
			key := [2]int64{op.Script.Nonce, int64(k)}
			pl, ok := extPlans[key]
			if !ok {
				pl = extPlan{ext: tp.Bool(1, 2), fail: []string{"", "", "error", "status", "truncate"}[tp.Draw(5)]}
				extPlans[key] = pl
			}
			if !pl.ext {
				return b
			}
			sim.Fault("external-input-pointer")
			// (the URL appears in error texts: the same input gets the same URL
			// in every replay of the history)
			url := fmt.Sprintf("https://store.sim/in/%d/%d", op.Script.Nonce, k)
			store.objects[url] = hx.EncodeStream(b.Schema(), b)
			if pl.fail != "" {
				store.failURL[url] = pl.fail
			}
			ptr := hx.PointerLike(b, hx.M(hx.KLocation, url))
			b.Release()
			return ptr
		}
		// ---- pipe: once with the planned (panicking) hook, once with a silent one
		cut := 0
		pipeline := 0
		runPipe := func(h *planHook) (*pipew.Session, simkern.StopReason, []int) {
			hx.Rec.Reset()
			sess := &pipew.Session{Srv: pipew.NewServer(func(s *vgirpc.Server) {
				s.SetDispatchHook(h)
				if extInputs {
					cfg := vgirpc.DefaultExternalLocationConfig(store)
					cfg.HTTPClient = &http.Client{Transport: store}
					cfg.RetryDelay = 1
					cfg.ExternalizeThresholdBytes = 1 << 30 // inputs only: outputs stay inline
					s.SetExternalLocation(cfg)
				}
			}), Ops: ops, S2CCutAt: cut, ExtInput: extIn, Pipeline: pipeline}
			// record the event index at the start of every call
			marks := []int{}
			_ = marks
			r := pipew.RunSession(sim, sess, kn, 80000)
			return sess, r, nil
		}
		hA := mkHook(true)
		sessA, reason, _ := runPipe(hA)
		if reason == simkern.StopDeadlock {
			e.Violate("session-deadlock", "pipe:"+nextSig(sessA), "%s", sessA.StuckDetail())
		}
		if reason == simkern.StopDone && !e.Violated() {
			hB := mkHook(false)
			sessB, rB, _ := runPipe(hB)
			if rB != simkern.StopDone {
				reason = rB
			} else {
				// per call: group hook events by request id (pipe requests carry unique ids)
				for i, r := range sessA.Results {
					if e.Violated() {
						break
					}
					op := r.Op
					if r.ClientErr != nil {
						e.Violate("response-not-readable", "pipe:"+op.Sig(), "call %d: %v", i, r.ClientErr)
						break
					}
					var evs []hookEvent
					for _, ev := range hA.events {
						if ev.reqID == op.ReqID {
							evs = append(evs, ev)
						}
					}
					dispatched := op.Bad == ""
					judged++
					if c37JudgeWindow(e, "pipe:"+op.Kind, evs, dispatched, r.Ended == "error") {
						break
					}
					// a panicking hook changes neither the response nor later calls
					if i < len(sessB.Results) {
						if a, b := batchesSig(r.AllBatch), batchesSig(sessB.Results[i].AllBatch); a != b {
							e.Violate("hook-panic-changes-response", "pipe:"+op.Kind, "call %d (%s): with the panicking hook %s, with a silent hook %s", i, op.Sig(), a, b)
							break
						}
					}
				}
				if !e.Violated() && len(sessA.Results) != len(sessB.Results) {
					e.Violate("hook-panic-changes-later-calls", "pipe:session", "%d calls completed with the panicking hook, %d with a silent hook", len(sessA.Results), len(sessB.Results))
				}
				// ---- the same history once more; the peer hangs up at a drawn
				// byte of the server's output (the server's next write fails)
				if !e.Violated() && len(sessB.WireS2C) > 1 && tp.Bool(2, 3) {
					cut = 1 + tp.Draw(len(sessB.WireS2C)-1)
					e.Knob("peer_hangup_after_bytes", cut)
					// the client has the following requests on the wire already, so
					// the server could go on reading them after its write failed
					pipeline = tp.Draw(4)
					hC := mkHook(false)
					sessC, rC, _ := runPipe(hC)
					var hD *planHook
					rD := simkern.StopDone
					if rC == simkern.StopDone && sessC.ServerReturned {
						// and once more with the panicking hook: what is dispatched
						// after the failed write must not depend on the hook
						hD = mkHook(true)
						_, rD, _ = runPipe(hD)
					}
					cut, pipeline = 0, 0
					sim.Fault("peer-hangup-mid-response")
					if rC == simkern.StopDeadlock {
						e.Violate("session-deadlock", "pipe-hangup:"+nextSig(sessC), "after the peer hung up at byte %d: %s", cut, sessC.StuckDetail())
					} else if rC == simkern.StopDone && sessC.ServerReturned {
						judged++
						ends := map[int]int{}
						for _, ev := range hC.events {
							if !ev.start {
								ends[ev.token]++
							}
						}
						for _, ev := range hC.events {
							if ev.start && ends[ev.token] != 1 {
								kind := "unary"
								if ev.mtype != "unary" && ev.mtype != "" {
									kind = "stream"
								}
								e.Violate("end-count", "pipe-hangup:"+kind, "the peer hung up after %d bytes of the server's output; Serve returned, start ran for %s (request %s) and its end ran %d times, expected exactly 1", sessC.SConn.W.Written, ev.method, ev.reqID, ends[ev.token])
								break
							}
						}
					} else if rC != simkern.StopDone {
						reason = rC
					}
					if !e.Violated() && hD != nil && rD == simkern.StopDone {
						nC, nD := 0, 0
						for _, ev := range hC.events {
							if ev.start {
								nC++
							}
						}
						for _, ev := range hD.events {
							if ev.start {
								nD++
							}
						}
						if nC != nD {
							e.Violate("hook-panic-changes-later-calls", "pipe-hangup", "the peer hung up after %d bytes of the server's output with %d further request(s) already on the wire: %d calls were dispatched with the panicking hook, %d with a silent hook", sessC.SConn.W.Written, sessC.Pipeline, nD, nC)
						}
					} else if hD != nil && rD == simkern.StopDeadlock && !e.Violated() {
						e.Violate("session-deadlock", "pipe-hangup", "with the panicking hook, after the peer hung up")
					}
				}
			}
		}
		// ---- HTTP: every request is its own dispatch
		if reason == simkern.StopDone && !e.Violated() {
			type reqObs struct {
				site       string
				evs        []hookEvent
				dispatched bool
				respErr    bool
			}
			// fault: the caller goes away (its request context ends) while a turn
			// of its request is running; planned per (call, turn) so that the run
			// with the panicking hook and the run with the silent one see the same
			hangOn := tp.Bool(1, 2)
			hangPlan := map[[2]int64]bool{}
			var hangUp context.CancelFunc
			var turnCount map[int64]int64
			if hangOn {
				hx.RequestContext = func(r *http.Request) context.Context {
					ctx, cancel := context.WithCancel(r.Context())
					hangUp = cancel
					return ctx
				}
				hx.TurnDone = func(nonce int64) {
					k := turnCount[nonce]
					turnCount[nonce]++
					key := [2]int64{nonce, k}
					v, ok := hangPlan[key]
					if !ok {
						v = tp.Bool(1, 6)
						hangPlan[key] = v
					}
					if v && hangUp != nil {
						sim.Fault("caller-gone-during-turn")
						hangUp()
					}
				}
				defer func() { hx.RequestContext, hx.TurnDone = nil, nil }()
			}
			runHTTP := func(h *planHook, name string) ([]*pipew.OpResult, []reqObs) {
				hx.Rec.Reset()
				turnCount = map[int64]int64{}
				cl := httpw.NewCluster(httpw.Config{Key: []byte("0123456789abcdef0123456789abcdef"), CacheSizes: []int{-1}, NoTwin: true, BatchLimit: batchLimit,
					Setup: func(i int, s *vgirpc.Server, hs *vgirpc.HttpServer) { s.SetDispatchHook(h) }})
				results := make([]*pipew.OpResult, len(ops))
				var obs []reqObs
				sim.Spawn(name, func() {
					for i, op := range ops {
						if op.Bad != "" && op.Bad != "unknown" && op.Bad[:3] != "par" {
							continue
						}
						mark := len(h.events)
						if op.Kind == "stream" && op.Bad == "" {
							results[i] = httpw.RunStream(op, httpw.StreamOpts{
								Pick:          func() *httpw.Instance { return cl.Inst[0] },
								BeforeRequest: func(string) { sim.Y("client.request"); mark = len(h.events) },
								OnResponse: func(kind string, _ *httpw.Instance, resp *hx.Resp, _ []byte) {
									t := httpw.Decode(resp)
									isErr := t.Err != nil || resp.Header.Get("X-VGI-RPC-Error") != ""
									// a continuation refused with 4xx (bad token ...) is not a dispatched call
									disp := resp.Status == 200
									obs = append(obs, reqObs{"http:stream-" + kind, h.window(mark, name), disp, isErr})
								},
							})
							continue
						}
						sim.Y("client.op")
						path := "/" + op.Method
						if op.Bad == "unknown" {
							path = "/no_such_method_" + op.Method
						}
						if op.Kind == "stream" {
							path += "/init"
						}
						resp := httpw.Post(cl.Inst[0], path, pipew.RequestBytes(op), httpw.Ident{}, nil)
						t := httpw.Decode(resp)
						r := &pipew.OpResult{Op: op}
						for _, st := range t.Streams {
							r.AllBatch = append(r.AllBatch, st.Batches...)
						}
						results[i] = r
						obs = append(obs, reqObs{"http:" + op.Kind, h.window(mark, name), op.Bad == "", t.Err != nil})
					}
				})
				sim.Run(simkern.RunOpts{MaxSteps: 120000, Done: sim.RootsDone})
				return results, obs
			}
			hA := mkHook(true)
			resA, obsA := runHTTP(hA, "httpA")
			hB := mkHook(false)
			resB, _ := runHTTP(hB, "httpB")
			for _, o := range obsA {
				if e.Violated() {
					break
				}
				judged++
				c37JudgeWindow(e, o.site, o.evs, o.dispatched, o.respErr)
			}
			for i := range ops {
				if e.Violated() || resA[i] == nil || resB[i] == nil {
					continue
				}
				if a, b := batchesSig(resA[i].AllBatch), batchesSig(resB[i].AllBatch); a != b {
					e.Violate("hook-panic-changes-response", "http:"+ops[i].Kind, "call %d (%s): with the panicking hook %s, with a silent hook %s", i, ops[i].Sig(), a, b)
				}
			}
		}
		e.Conclude(sim, reason, false)
		e.Res.Nontrivial = judged > 0
	})
	if left != "" && !e.Violated() {
		e.Harness("bubble: %s", left)
	}
}

func init() {
	Registry["C37"] = &Info{
		Run:   C37,
		Level: "exploration",
		Rule:  "each run draws a call history (2-7 calls: unary, producer/exchange/dynamic streams with failing turns, init failures, cancels, malformed and unknown-method requests) and a hook panic plan (rate 0, 3/10 or 6/10 per callback, separately for start and end); the history runs on a simulated pipe and over HTTP (every init/continuation/cancel is its own dispatch; producer batch limit 0-2), each once with the planned hook and once with a silent recording hook (in half of the runs the caller of an HTTP request goes away — its context ends — at the end of a planned turn, the same turns in both runs); per dispatch the hook events are judged and the client-visible responses of the two runs compared; in two runs of three the pipe history runs a third time with the peer hanging up at a drawn byte of the server's output, after which every start must have had exactly one end (the client may have 0-3 further requests on the wire already; the hang-up run is repeated with the panicking hook and must dispatch the same number of calls); distinct = schedule fingerprint",
		Real:  []string{"vgirpc serveOne hook bracket, HttpServer.startDispatchHook and its deferred end on unary / stream init / exchange / producer continuation / cancel paths"},
		Stub:  []string{"transports", "protocol client", "recording / panicking DispatchHook", "scripted handlers"},
		Quick: 700, Thorough: 60000,
		FaultKinds: []string{"hook-panic-in-start", "hook-panic-in-end", "malformed-request", "client-cancel", "peer-hangup-mid-response", "external-input-pointer", "fetch-error", "fetch-status", "fetch-truncated", "caller-gone-during-turn"},
		Assumptions: []string{"calls refused before dispatch (malformed, unknown method, version gate, unresolvable tokens) carry no demand other than 'no end without a start'", "when start panicked the statement makes no demand on end"},
	}
}
