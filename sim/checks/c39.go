package checks

import (
	"context"
	"crypto/sha256"
	"encoding/hex"
	"errors"
	"fmt"
	"sort"
	"strings"

	"verifsim/simkern"
	"verifsim/worlds/alogw"

	"github.com/Query-farm/vgi-rpc-go/vgirpc"
)

// c39Rec is one access-log record an emitter task hands to the real hook.
type c39Rec struct {
	uid     int
	stream  string // stream id ("" = unary record)
	reqID   string // request id ("" = none)
	isErr   bool
	emitter int

	entered int // event tick at which the emit call began (0 = never)
	left    int // event tick at which it returned

	line  *alogw.Line // first written line carrying this record
	lines int
}

func (r *c39Rec) key() string {
	if r.stream != "" {
		return "s:" + r.stream
	}
	if r.reqID != "" {
		return "r:" + r.reqID
	}
	return fmt.Sprintf("#%d", r.uid)
}

func (r *c39Rec) String() string {
	k := "ok"
	if r.isErr {
		k = "err"
	}
	id := "noid"
	if r.stream != "" {
		id = "stream " + r.stream[:6]
	} else if r.reqID != "" {
		id = "req " + r.reqID
	}
	return fmt.Sprintf("r%d(%s,%s)", r.uid, k, id)
}

var c39Rates = []float64{1, 0.5, 0, 0.25, 0.75, 0.1, 0.9, 0.01, 0.99}

func c39ID(salt int, kind string, k int, n int) string {
	h := sha256.Sum256([]byte(fmt.Sprintf("%d/%s/%d", salt, kind, k)))
	return hex.EncodeToString(h[:])[:n]
}

// C39 — access-log sampling and async emission lose nothing silently.
func C39(e *simkern.Env) {
	tp := e.Tape
	// mode 0: async only; 1: sampling only (synchronous writer); 2: both.
	mode := tp.Draw(3)
	asyncOn := mode != 1
	sampleOn := mode != 0
	queue := 1 + tp.Draw(8)
	rate := 1.0
	if sampleOn {
		rate = c39Rates[tp.Draw(len(c39Rates))]
	}
	nEmit := 1 + tp.Draw(4)
	nRec := 4 + tp.Draw(17)
	if e.Tier == "thorough" {
		nRec = 4 + tp.Draw(37)
	}
	salt := tp.Draw(1 << 30)
	nStreams := tp.Draw(4)
	recs := make([]*c39Rec, nRec)
	var unaryIDs []string
	for i := range recs {
		r := &c39Rec{uid: i + 1, emitter: tp.Draw(nEmit), isErr: tp.Bool(1, 4)}
		switch tp.Draw(5) {
		case 0, 1: // unary with its own request id
			r.reqID = "rq-" + c39ID(salt, "req", i, 16)
			unaryIDs = append(unaryIDs, r.reqID)
		case 2: // member of a stream, with or without a request id of its own
			if nStreams > 0 {
				r.stream = c39ID(salt, "stream", tp.Draw(nStreams), 32)
				if tp.Bool(1, 2) {
					r.reqID = "rq-" + c39ID(salt, "req", i, 16)
				}
			} else {
				r.reqID = "rq-" + c39ID(salt, "req", i, 16)
				unaryIDs = append(unaryIDs, r.reqID)
			}
		case 3: // no identifier at all
		case 4: // unary re-using an earlier request id (a retried call)
			if len(unaryIDs) > 0 {
				r.reqID = unaryIDs[tp.Draw(len(unaryIDs))]
			} else {
				r.reqID = "rq-" + c39ID(salt, "req", i, 16)
				unaryIDs = append(unaryIDs, r.reqID)
			}
		}
		recs[i] = r
	}
	closeAfter := nRec // 0 on the tape = close after everything was emitted
	if tp.Bool(1, 2) {
		closeAfter = nRec - tp.Draw(nRec+1)
	}
	closeTwice := tp.Bool(1, 4)
	// async only, one run in three: the operator re-configures async emission
	// (SetAsync again, another queue size) in the middle of the history; the
	// replaced emitter is closed by that call, the replacement goes on
	reconf := mode == 0 && tp.Bool(1, 3)
	reconfAfter, queue2 := 0, 0
	if reconf {
		reconfAfter = tp.Draw(closeAfter + 1)
		queue2 = 1 + tp.Draw(6)
	}
	startStalled := tp.Bool(1, 2)
	e.Knob("mode", []string{"async", "sample", "sample+async"}[mode])
	e.Knob("queue", queue)
	e.Knob("rate", rate)
	e.Knob("emitters", nEmit)
	e.Knob("records", nRec)
	e.Knob("close_after", closeAfter)
	if reconf {
		e.Knob("setasync_again_after", reconfAfter)
		e.Knob("queue2", queue2)
	}

	var sample []string
	left := e.Bubble(func() {
		sim := simkern.NewSim(tp, e.Trace)
		defer sim.Close()

		var lines []*alogw.Line
		w := alogw.NewWriter(sim, "log", &lines)
		w.Stalled = startStalled
		hook := vgirpc.NewAccessLogHook(w, "")
		if sampleOn {
			if err := hook.SetSampleRate(rate); err != nil {
				e.Harness("SetSampleRate(%v): %v", rate, err)
				return
			}
		}
		if asyncOn {
			if err := hook.SetAsync(queue); err != nil {
				e.Harness("SetAsync(%d): %v", queue, err)
				return
			}
		}

		tick := 0
		next := func() int { tick++; return tick }
		closeEntered, closeReturned, snapLines := 0, 0, -1
		nLeft := 0
		var order []*c39Rec // records in the order their emit calls returned
		inEmit := make([]*c39Rec, nEmit)
		emitTask := map[string]int{}
		tasks := make([]*simkern.Task, nEmit)

		w.OnStall = func(t *simkern.Task) {
			sim.Fault("writer-stall")
			if t == nil || !asyncOn || closeEntered != 0 {
				return
			}
			if i, ok := emitTask[t.Name]; ok && inEmit[i] != nil {
				e.Violate("enqueue-blocks", "emit-path-waits-for-writer",
					"async emission on, Close not yet called: emitter %d emitting %s reached the log writer itself and is parked on the stalled file (queue size %d)", i, inEmit[i], queue)
			}
		}

		reconfEntered, reconfReturned, swapTick := 0, 0, 0
		var emitterBefore uintptr
		if reconf {
			sim.Spawn("operator", func() {
				sim.Yield("operator.wait", func() bool { return nLeft >= reconfAfter })
				emitterBefore = vgirpc.VerifAccessLogEmitter(hook)
				reconfEntered = next()
				sim.Fault("async-reconfigured")
				if err := hook.SetAsync(queue2); err != nil {
					e.Harness("SetAsync(%d) again: %v", queue2, err)
				}
				reconfReturned = next()
			})
		}
		var closerTask *simkern.Task
		for i := 0; i < nEmit; i++ {
			i := i
			name := fmt.Sprintf("emitter%d", i)
			emitTask[name] = i
			tasks[i] = sim.Spawn(name, func() {
				for _, r := range recs {
					if r.emitter != i || e.Violated() {
						continue
					}
					info := vgirpc.DispatchInfo{
						Method: fmt.Sprintf("r%d", r.uid), MethodType: vgirpc.DispatchMethodUnary,
						ServerID: "g", Protocol: "G", ProtocolHash: strings.Repeat("ab", 32),
						RequestID: r.reqID, StreamID: r.stream,
					}
					if r.stream != "" {
						info.MethodType = vgirpc.DispatchMethodStream
					}
					var callErr error
					if r.isErr {
						if r.uid%2 == 0 {
							callErr = &vgirpc.RpcError{Type: "ValueError", Message: "scripted"}
						} else {
							callErr = errors.New("scripted plain error")
						}
					}
					sim.Y("emit.before")
					r.entered = next()
					inEmit[i] = r
					ctx, tok := hook.OnDispatchStart(context.Background(), info)
					hook.OnDispatchEnd(ctx, tok, info, nil, callErr)
					inEmit[i] = nil
					r.left = next()
					order = append(order, r)
					nLeft++
					sim.Y("emit.after")
				}
			})
		}
		closerTask = sim.Spawn("closer", func() {
			sim.Yield("closer.wait", func() bool { return nLeft >= closeAfter && (!reconf || reconfReturned != 0) })
			closeEntered = next()
			_ = hook.Close()
			closeReturned = next()
			snapLines = len(lines)
			if closeTwice {
				sim.Y("closer.again")
				_ = hook.Close()
			}
		})

		reason, _ := sim.Run(simkern.RunOpts{
			MaxSteps: 400 + 120*nRec,
			Done:     sim.RootsDone,
			Extra: func() []simkern.Action {
				if w.Stalled {
					// a long stall while records are still being produced, a
					// short one once only the drain is left
					wt := 1
					if nLeft == len(recs) {
						wt = 10
					}
					return []simkern.Action{{Name: "unstall log", Weight: wt, Do: func() { w.Stalled = false }}}
				}
				return []simkern.Action{{Name: "stall log", Weight: 3, Do: func() { w.Stalled = true }}}
			},
			Check: func() error {
				if reconf && reconfEntered != 0 && swapTick == 0 && vgirpc.VerifAccessLogEmitter(hook) != emitterBefore {
					// only the operator ran in the step just taken: this is the
					// instant the hook switched to the replacement emitter
					swapTick = next()
				}
				if asyncOn && closeEntered != 0 && closeReturned == 0 && !e.Violated() {
					// Close is draining. An emit call that had picked up the async
					// emitter before Close swapped it out is still an enqueue and
					// still must not wait for the writer (later emit calls are
					// synchronous by then and may). It does wait if it is parked
					// inside the emitter, cannot proceed, and nothing in the system
					// can move until the stalled file is released.
					var stuck []string
					anyReady := false
					for i, t := range tasks {
						if inEmit[i] == nil {
							continue
						}
						parked, site := t.Parked()
						switch {
						case parked && strings.Contains(site, "accesslog_async.go") && !t.Ready():
							stuck = append(stuck, fmt.Sprintf("emitter %d at %s", i, site))
						case t.Ready():
							anyReady = true
						}
					}
					if len(stuck) > 0 && !anyReady && w.Waiting > 0 && !closerTask.Ready() {
						sort.Strings(stuck)
						e.Violate("enqueue-blocks", "enqueue-waits-for-draining-close",
							"async emission on, Close is draining the queue into a stalled file: %s cannot proceed until the file is released (%s)", strings.Join(stuck, ", "), sim.Stuck())
						return errors.New("violation")
					}
					return nil
				}
				if !asyncOn || closeEntered != 0 || e.Violated() {
					return nil
				}
				anyIn, anyReady := false, false
				for i, t := range tasks {
					if inEmit[i] == nil {
						continue
					}
					anyIn = true
					if t.BlockedElsewhere() {
						e.Violate("enqueue-blocks", "emitter-blocked-in-enqueue",
							"async emission on, Close not yet called: emitter %d is blocked (not at a scheduling point) inside the emit call for %s; queue size %d, writer stalled=%v", i, inEmit[i], queue, w.Stalled)
						return errors.New("violation")
					}
					if t.Ready() {
						anyReady = true
					}
				}
				if anyIn && !anyReady && w.Waiting > 0 {
					e.Violate("enqueue-blocks", "emitters-wait-on-stalled-writer",
						"async emission on, Close not yet called: the writer goroutine is parked on the stalled file and no emitter inside the emit call can proceed (%s)", sim.Stuck())
					return errors.New("violation")
				}
				return nil
			},
		})
		w.Stalled = false
		if reason == simkern.StopCheck {
			reason = simkern.StopDone
		}
		if reason == simkern.StopDone && !e.Violated() {
			if reconf && swapTick == 0 {
				e.Harness("C39: SetAsync was called again but the hook's emitter never changed")
			}
			c39Judge(e, sim, mode, rate, recs, order, lines, closeEntered, closeReturned, snapLines, swapTick)
		}
		e.Conclude(sim, reason, false)
		nW, nDrop := 0, 0
		for _, r := range recs {
			if r.line != nil {
				nW++
			}
		}
		for _, l := range lines {
			if d, ok := alogw.Int(l.Obj, "dropped_records"); ok {
				nDrop += int(d)
			}
		}
		e.Res.Nontrivial = sim.Interleavings > 0 || nW < len(recs)
		sample = append(sample, fmt.Sprintf("%d records by %d emitters, %d written, dropped_records total %d, writer stalls %d, close entered at event %d of %d",
			len(recs), nEmit, nW, nDrop, w.Parked, closeEntered, tick))
	})
	if left != "" && !e.Violated() {
		e.Harness("bubble: %s", left)
	}
	e.Res.Sample = sample
}

// c39Judge is the end-of-run oracle. order is the sequence in which emit calls
// returned, which (only one task runs at a time, and an emitter does not reach
// another scheduling point between the queue operation and its return) is the
// order of the enqueue decisions.
func c39Judge(e *simkern.Env, sim *simkern.Sim, mode int, rate float64, recs, order []*c39Rec, lines []*alogw.Line, closeEntered, closeReturned, snapLines, swapTick int) {
	asyncOn := mode != 1
	sampling := mode != 0 && rate < 1.0
	byUID := map[string]*c39Rec{}
	for _, r := range recs {
		byUID[fmt.Sprintf("r%d", r.uid)] = r
	}
	for _, l := range lines {
		if l.Bad != "" {
			e.Harness("C39: unattributable log line (%s): %s", l.Bad, alogw.Short(l.Raw, 200))
			return
		}
		m, _ := alogw.Str(l.Obj, "method")
		r := byUID[m]
		if r == nil {
			e.Harness("C39: log line for unknown record %q", m)
			return
		}
		r.lines++
		if r.line == nil {
			r.line = l
		}
	}
	if len(order) != len(recs) {
		e.Harness("C39: %d of %d emit calls returned", len(order), len(recs))
		return
	}
	// A record belongs to the "before close" set P when its emit call had
	// returned before Close was entered; the others overlap or follow Close.
	inP := func(r *c39Rec) bool { return !asyncOn || (closeEntered != 0 && r.left < closeEntered) }

	// ---- sampling clauses ----
	if mode != 0 {
		keyKept := map[string]bool{}
		for _, r := range recs {
			if r.line != nil && !r.isErr {
				keyKept[r.key()] = true
			}
		}
		for _, r := range order {
			if r.line != nil && !r.isErr && sampling {
				got, ok := alogw.Num(r.line.Obj, "sample_rate")
				if !ok || got != rate {
					e.Violate("kept-record-without-rate", "sample_rate", "rate %v: kept non-error record %s was written without sample_rate=%v: %s", rate, r, rate, alogw.Short(r.line.Raw, 300))
					return
				}
				sim.Probe("kept-carries-rate")
			}
			if mode != 1 {
				continue // with async emission a kept record may be dropped by the queue: judged below
			}
			if r.isErr {
				if r.line == nil {
					e.Violate("error-record-sampled-out", "sampler", "rate %v: error record %s was never written", rate, r)
					return
				}
				sim.Probe("error-kept")
				continue
			}
			if r.line == nil {
				sim.Probe("sampled-out")
				if !sampling {
					e.Violate("record-lost", "sampler", "rate 1.0 (sampling off), synchronous writer: record %s was never written", r)
					return
				}
				if keyKept[r.key()] {
					var sib *c39Rec
					for _, o := range recs {
						if o != r && o.key() == r.key() && o.line != nil && !o.isErr {
							sib = o
						}
					}
					e.Violate("call-split-by-sampling", "sampler", "rate %v: records %s and %s share the sampling identifier, yet the first was dropped and the second kept", rate, r, sib)
					return
				}
			} else {
				sim.Probe("sampled-kept")
			}
		}
	}
	if !asyncOn {
		return
	}
	if closeEntered == 0 || closeReturned == 0 {
		e.Harness("C39: closer did not finish")
		return
	}
	// ---- async clauses, over P in enqueue order ----
	type constraint struct {
		at   *c39Rec
		gap  []*c39Rec
		drop int64
	}
	var cons []constraint
	var gap []*c39Rec
	nP := 0
	for _, r := range order {
		if !inP(r) {
			if r.entered < closeEntered {
				sim.Probe("emit-overlaps-close")
			} else {
				sim.Probe("emit-after-close")
			}
			continue
		}
		nP++
		if r.line == nil {
			gap = append(gap, r)
			continue
		}
		if r.line.Seq >= snapLines {
			e.Violate("close-returned-before-drain", "Close", "record %s was handed to the hook before Close was called, but reached the log only after Close had returned (line %d, %d lines existed when Close returned)", r, r.line.Seq, snapLines)
			return
		}
		var d int64
		if v, present := r.line.Obj["dropped_records"]; present {
			n, ok := alogw.Int(r.line.Obj, "dropped_records")
			if !ok || n < 0 {
				e.Violate("bad-dropped-records", "dropped_records", "record %s carries dropped_records=%v, not a non-negative integer", r, v)
				return
			}
			d = n
			sim.Probe("dropped_records-stamp")
		}
		cons = append(cons, constraint{at: r, gap: gap, drop: d})
		gap = nil
	}
	sim.ProbeN("trailing-unwritten", len(gap))
	sim.ProbeN("records-before-close", nP)
	names := func(g []*c39Rec) string {
		var s []string
		for _, r := range g {
			s = append(s, r.String())
		}
		return "[" + strings.Join(s, " ") + "]"
	}
	if mode == 0 && swapTick != 0 {
		// Two emitters, one after the other. A record whose emit call returned
		// before the swap went to the first, one whose emit call began after
		// it to the second; a call that spans the swap may have gone to either
		// (it picked up the emitter at some point inside the call). Per
		// emitter, in enqueue order: a written record reports exactly the
		// records of that emitter lost since that emitter's previous written
		// record; spanning records widen the bounds instead of being guessed.
		// The first emitter was closed by SetAsync: its trailing run is the
		// exception the property names, and so is the second's.
		class := func(r *c39Rec) int {
			switch {
			case r.left < swapTick:
				return 1
			case r.entered > swapTick:
				return 2
			}
			return 0
		}
		for k := 1; k <= 2; k++ {
			var lo, hi int64
			var certain, maybe []*c39Rec
			for _, r := range order {
				if !inP(r) {
					continue
				}
				cl := class(r)
				if cl != k && cl != 0 {
					continue
				}
				if cl == 0 {
					sim.Probe("emit-spans-reconfiguration")
				}
				if r.line == nil {
					hi++
					if cl == k {
						lo++
						certain = append(certain, r)
					} else {
						maybe = append(maybe, r)
					}
					continue
				}
				var d int64
				if n, ok := alogw.Int(r.line.Obj, "dropped_records"); ok {
					d = n
				}
				if cl == 0 {
					lo, certain = 0, nil // it may have reported them
					continue
				}
				sim.ProbeN(fmt.Sprintf("queue-full-drop-emitter%d", k), len(certain))
				if d < lo {
					e.Violate("drop-not-reported", "dropped_records", "async emission re-configured during the run: %d record(s) %s were handed to emitter %d after its previous written record and before %s and never written, but %s reports dropped_records=%d", lo, names(certain), k, r, r, d)
					return
				}
				if d > hi {
					e.Violate("drop-overreported", "dropped_records", "async emission re-configured during the run: record %s (emitter %d) reports dropped_records=%d but at most %d record(s) %s %s were lost on that emitter since its previous written record", r, k, d, hi, names(certain), names(maybe))
					return
				}
				lo, hi, certain, maybe = 0, 0, nil, nil
			}
		}
		return
	}
	if mode == 0 {
		for _, c := range cons {
			sim.ProbeN("queue-full-drop", len(c.gap))
			if int64(len(c.gap)) > c.drop {
				e.Violate("drop-not-reported", "dropped_records", "queue: %d record(s) %s were handed to the hook after the previous written record and before %s and never written, but %s reports dropped_records=%d", len(c.gap), names(c.gap), c.at, c.at, c.drop)
				return
			}
			if int64(len(c.gap)) < c.drop {
				e.Violate("drop-overreported", "dropped_records", "record %s reports dropped_records=%d but only %d record(s) %s were lost since the previous written record", c.at, c.drop, len(c.gap), names(c.gap))
				return
			}
		}
		return
	}
	// mode 2: a record missing from the log was either sampled out (whole
	// sampling identifier at once) or dropped by the queue (then counted).
	keyKept := map[string]bool{}
	for _, r := range recs {
		if r.line != nil && !r.isErr {
			keyKept[r.key()] = true
		}
	}
	must := func(r *c39Rec) bool { return r.isErr || !sampling || keyKept[r.key()] }
	groupIdx := map[string]int{}
	var groups []string
	base := make([]int64, len(cons))
	var cnt [][]int64 // cnt[g][i]
	for i, c := range cons {
		for _, r := range c.gap {
			if must(r) {
				base[i]++
				continue
			}
			g, ok := groupIdx[r.key()]
			if !ok {
				g = len(groups)
				groupIdx[r.key()] = g
				groups = append(groups, r.key())
				cnt = append(cnt, make([]int64, len(cons)))
			}
			cnt[g][i]++
		}
	}
	// bounds first (always sound)
	for i, c := range cons {
		var hi int64 = base[i]
		for g := range groups {
			hi += cnt[g][i]
		}
		if c.drop < base[i] {
			var lost []*c39Rec
			for _, r := range c.gap {
				if must(r) {
					lost = append(lost, r)
				}
			}
			e.Violate("drop-not-reported", "dropped_records+sampling", "rate %v: records %s must have passed the sampler (error records, or records whose sampling identifier has a written non-error record) and were handed to the hook before %s, were never written, yet %s reports dropped_records=%d", rate, names(lost), c.at, c.at, c.drop)
			return
		}
		if c.drop > hi {
			e.Violate("drop-overreported", "dropped_records+sampling", "record %s reports dropped_records=%d but only %d record(s) %s are missing since the previous written record", c.at, c.drop, len(c.gap), names(c.gap))
			return
		}
	}
	// exact: is there an all-or-nothing fate per unknown identifier that
	// explains every stamp?
	rem := make([][]int64, len(groups)+1) // rem[g][i] = sum over groups >= g
	rem[len(groups)] = make([]int64, len(cons))
	for g := len(groups) - 1; g >= 0; g-- {
		rem[g] = make([]int64, len(cons))
		for i := range cons {
			rem[g][i] = rem[g+1][i] + cnt[g][i]
		}
	}
	cur := append([]int64(nil), base...)
	nodes := 0
	var dfs func(g int) (bool, bool)
	dfs = func(g int) (found bool, exhausted bool) {
		nodes++
		if nodes > 400000 {
			return false, true
		}
		for i, c := range cons {
			if cur[i] > c.drop || cur[i]+rem[g][i] < c.drop {
				return false, false
			}
		}
		if g == len(groups) {
			return true, false
		}
		for _, take := range []bool{false, true} {
			if take {
				for i := range cons {
					cur[i] += cnt[g][i]
				}
			}
			ok, ex := dfs(g + 1)
			if take {
				for i := range cons {
					cur[i] -= cnt[g][i]
				}
			}
			if ok || ex {
				return ok, ex
			}
		}
		return false, false
	}
	ok, exhausted := dfs(0)
	if exhausted {
		sim.Probe("mode2-search-exhausted")
		return
	}
	if !ok {
		var sb strings.Builder
		for _, c := range cons {
			fmt.Fprintf(&sb, "%s dropped_records=%d after missing %s; ", c.at, c.drop, names(c.gap))
		}
		e.Violate("drops-unexplained", "dropped_records+sampling", "rate %v: no assignment of kept/sampled-out to whole sampling identifiers explains the dropped_records stamps: %s", rate, sb.String())
		return
	}
	sim.Probe("mode2-explained")
}

func init() {
	Registry["C39"] = &Info{
		Run:   C39,
		Level: "exploration",
		Rule:  "each run draws a mode (async only / sampling only / both), queue size 1-8, a sample rate from {0,.01,.1,.25,.5,.75,.9,.99,1}, 1-4 emitter tasks, 4-20 records (unary with own request id, stream members sharing one of 0-3 stream ids, records with no identifier, retried request ids; 1 in 4 an error) and the point after which a closer task calls Close (once or twice); in a third of the async-only runs an operator task calls SetAsync again (another queue size) at a drawn point of the history, which closes the first emitter and installs a second (the instant of the swap is observed, records are attributed to an emitter by whether their emit call ended before or began after it, calls spanning it widen the bounds); emitters call the real AccessLogHook.OnDispatchEnd, the real writer goroutine (woven go statement) drains the real queue into a harness log file that the scheduler stalls and releases; the tape interleaves emitters, writer, closer and stall/unstall at every woven synchronisation point; distinct = distinct schedule fingerprint; non-trivial = two tasks were runnable at once or a record did not reach the log",
		Real:  []string{"vgirpc.AccessLogHook (OnDispatchStart/End, emit, writeRecord, SetSampleRate, SetAsync, Close)", "vgirpc.accessLogSampler", "vgirpc.asyncEmitter incl. its writer goroutine", "testing/synctest clock"},
		Stub:  []string{"log file (harness io.Writer that yields and stalls)", "dispatches (emitter tasks call the hook with synthesised DispatchInfo)"},
		Quick: 6000, Thorough: 300000,
		FaultKinds: []string{"writer-stall", "async-reconfigured"},
		Assumptions: []string{
			"while Close is draining, an emit call that had loaded the async emitter before Close swapped it out is still an enqueue and is held to the never-blocks clause (judged when it is parked inside the emitter, cannot proceed, and nothing can move until the stalled file is released); emit calls that start after the swap are synchronous and may wait for the file",
			"'enqueued before close' = the emit call had returned before Close was entered; records whose emit call overlaps or follows Close are unconstrained (they may be written, counted or discarded)",
			"'written' for such a record means on the log by the time Close returns (Close is documented to drain); a record that reaches the log only after Close returned is reported as close-returned-before-drain",
			"a rate of 1.0 is 'sampling off' (the documented default): every record must be kept and sample_rate is not demanded",
			"'all kept or all dropped' is applied to the non-error records of one identifier, since error records are always kept",
			"with sampling and async emission both on, a missing record's fate (sampled out vs dropped by the queue) is not observable per record; the oracle demands that some all-or-nothing assignment per sampling identifier explains every dropped_records stamp exactly (exact accounting is decided in the async-only mode, exact sampling clauses in the sampling-only mode)",
			"the statistical accuracy of the sample rate is not checked",
			"an emitter replaced by a second SetAsync is 'closed' in the property's sense: its trailing run of drops is the named exception, and the replacement's accounting starts at zero",
		},
	}
}
