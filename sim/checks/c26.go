package checks

import (
	"bytes"
	"encoding/json"
	"errors"
	"fmt"
	"net/http"
	"regexp"
	"sort"
	"strings"
	"time"

	"verifsim/simkern"
	"verifsim/worlds/gatesw"

	"github.com/Query-farm/vgi-rpc-go/vgirpc"
)

// ---- world A(b): the token-introspection route ----

type c26Caller struct {
	name          string // value of the X-Sim-Caller header
	authenticated bool
	principal     string
	reject        bool // the authenticator refuses this caller outright (401)
}

type c26Req struct {
	id          int
	caller      c26Caller
	allowlisted bool
	marker      string // unique substring of the credential ("" = too short to carry one)
	shape       string
	bodyShape   string
	credLen     int
	at          time.Duration
	inGate      bool
	body        *gatesw.Body
	resolver    int    // resolver invocations on behalf of this request
	outcome     string // last resolver outcome
	status      int
}

// c26DefinitelyJWS: the JWS compact serialization of RFC 7515 §7.1 —
// BASE64URL(header) "." BASE64URL(payload) "." BASE64URL(signature) — with a
// non-empty header and payload; the signature segment is empty for an
// unsecured JWS (RFC 7515 §A.5, alg "none"), which is still a JWS. (A detached
// payload "h..s", or a credential with other characters, is not demanded
// either way.)
var c26DefinitelyJWS = regexp.MustCompile(`\A[A-Za-z0-9_-]+\.[A-Za-z0-9_-]+\.[A-Za-z0-9_-]*\z`)

// c26MaxCredential is the documented cap on a credential the route will try
// to resolve (introspect_token.go: "Cap on a credential we will even attempt
// to resolve").
const c26MaxCredential = 4096

// c26WindowsExist decides whether disjoint windows of length w can be placed
// so that every window holds at most limit of the (sorted) instants ts.
func c26WindowsExist(ts []time.Duration, limit int, w time.Duration) bool {
	n := len(ts)
	const inf = time.Duration(1<<62 - 1)
	// f[j] = smallest possible end (start+w) of the window holding the last
	// group when the first j instants are covered; windows are [s, s+w).
	f := make([]time.Duration, n+1)
	for j := 1; j <= n; j++ {
		f[j] = inf
	}
	f[0] = -inf
	for j := 1; j <= n; j++ {
		for i := j - 1; i >= 0 && j-i <= limit; i-- {
			if f[i] == inf {
				continue
			}
			first, last := ts[i], ts[j-1]
			if last-first >= w {
				break
			}
			s := last - w + 1 // smallest start that still contains last
			if f[i] > s {
				s = f[i]
			}
			if s > first {
				continue
			}
			if s+w < f[j] {
				f[j] = s + w
			}
		}
	}
	return f[n] != inf
}

// C26 — token introspection never becomes an open credential oracle.
func C26(e *simkern.Env) {
	tp := e.Tape
	enabled := !tp.Bool(1, 8)
	limit := tp.Pick(1, 2, 3, 5)
	withAuth := !tp.Bool(1, 12)
	prefix := []string{"", "/vgi"}[tp.Draw(2)]
	nTasks := 2 + tp.Draw(3)
	ops := 5 + tp.Draw(8)
	if e.Tier == "thorough" {
		ops = 8 + tp.Draw(20)
	}
	e.Knob("enabled", enabled)
	e.Knob("limit_per_second", limit)
	e.Knob("authenticator", withAuth)
	e.Knob("prefix", prefix)
	e.Knob("caller_tasks", nTasks)

	var sample []string
	left := e.Bubble(func() {
		sim := simkern.NewSim(tp, e.Trace)
		defer sim.Close()
		logs := gatesw.CaptureLogs()
		defer logs.Restore()
		clk := gatesw.NewClock(sim)
		inGate := 0
		clk.Frozen = func() bool { return inGate > 0 }
		clk.Jitter = []time.Duration{time.Millisecond, 250 * time.Millisecond}
		const window = time.Second

		allow := []string{"proxy-a", "proxy-b"}
		isAllowed := func(p string) bool { return p == "proxy-a" || p == "proxy-b" }
		callers := []c26Caller{
			{name: "proxy-a", authenticated: true, principal: "proxy-a"},
			{name: "proxy-b", authenticated: true, principal: "proxy-b"},
			{name: "mallory", authenticated: true, principal: "mallory"},
			{name: "anon"},
			{name: "anon-claiming-proxy-a", authenticated: false, principal: "proxy-a"},
			{name: "authenticated-empty-principal", authenticated: true, principal: ""},
			{name: "authenticated-case-variant", authenticated: true, principal: "Proxy-A"},
			{name: "rejected", reject: true},
		}
		byName := map[string]c26Caller{}
		for _, c := range callers {
			byName[c.name] = c
		}

		var reqs []*c26Req
		cur := map[*simkern.Task]*c26Req{}
		admitted := map[string][]time.Duration{}
		var first403, first404 []byte
		logScanned := 0
		resolverCalls := 0
		leaveGate := func(rq *c26Req) {
			if rq.inGate {
				rq.inGate = false
				inGate--
			}
		}

		resolver := func(cred string) (vgirpc.TokenIdentity, bool, error) {
			rq := cur[sim.Current()]
			if rq == nil {
				e.Harness("resolver called outside a request task")
				return vgirpc.TokenIdentity{}, false, nil
			}
			leaveGate(rq)
			resolverCalls++
			rq.resolver++
			site := rq.shape + "/" + rq.bodyShape
			desc := fmt.Sprintf("request %d by %s (allowlisted=%v), credential shape %s len %d in body shape %s", rq.id, rq.caller.name, rq.allowlisted, rq.shape, len(cred), rq.bodyShape)
			if !rq.allowlisted {
				e.Violate("resolver-called-for-non-introspector", rq.caller.name, "%s", desc)
			}
			if c26DefinitelyJWS.MatchString(cred) {
				e.Violate("jws-shaped-credential-reached-resolver", site, "%s", desc)
			}
			if len(cred) > c26MaxCredential {
				e.Violate("oversized-credential-reached-resolver", site, "%s", desc)
			}
			sim.Probe("resolver-called")
			sim.Y("resolver")
			switch tp.Weighted([]int{5, 3, 1, 1}) {
			case 1:
				sim.Fault("resolver-unresolved")
				rq.outcome = "unresolved"
				return vgirpc.TokenIdentity{}, false, nil
			case 2:
				sim.Fault("resolver-unavailable")
				rq.outcome = "unavailable"
				return vgirpc.TokenIdentity{}, false, vgirpc.NewAuthUnavailable("token store is down")
			case 3:
				sim.Fault("resolver-error")
				rq.outcome = "error"
				return vgirpc.TokenIdentity{}, false, errors.New("token store: connection reset")
			}
			rq.outcome = "ok"
			return vgirpc.TokenIdentity{Principal: fmt.Sprintf("user-%d", rq.id), TokenName: fmt.Sprintf("key-%d", rq.id), TTLSeconds: []int{0, 60, -5}[rq.id%3]}, true, nil
		}

		srv := vgirpc.NewServer()
		h, err := vgirpc.NewHttpServerWithKey(srv, []byte("0123456789abcdef0123456789abcdef"))
		if err != nil {
			e.Harness("NewHttpServerWithKey: %v", err)
			return
		}
		if prefix != "" {
			h.SetPrefix(prefix)
		}
		if withAuth {
			h.SetAuthenticate(func(r *http.Request) (*vgirpc.AuthContext, error) {
				sim.Y("authenticate")
				c, ok := byName[r.Header.Get("X-Sim-Caller")]
				if !ok {
					return vgirpc.Anonymous(), nil
				}
				if c.reject {
					return nil, vgirpc.NewAuthFailure(vgirpc.AuthReasonInvalidCredential, "bad bearer")
				}
				if !c.authenticated && c.principal == "" {
					return vgirpc.Anonymous(), nil
				}
				return &vgirpc.AuthContext{Domain: "bearer", Authenticated: c.authenticated, Principal: c.principal}, nil
			})
		}
		if enabled {
			if err := h.EnableTokenIntrospection(vgirpc.TokenIntrospectionConfig{Resolver: resolver, Principals: allow, RateLimitPerSecond: limit}); err != nil {
				e.Harness("EnableTokenIntrospection: %v", err)
				return
			}
		}

		markers := []string{}
		scanLeak := func(where string, rq *c26Req, text string) {
			for _, m := range markers {
				if strings.Contains(text, m) {
					n := len(text)
					if n > 300 {
						n = 300
					}
					e.Violate("credential-leaked", where, "request %d by %s: %s contains the credential marker %s: %q", rq.id, rq.caller.name, where, m, text[:n])
					return
				}
			}
		}
		scanLogs := func(rq *c26Req) {
			lines := logs.Snapshot()
			for ; logScanned < len(lines); logScanned++ {
				scanLeak("log line", rq, lines[logScanned])
			}
		}

		const alnum = "ABCDEFGHIJKLMNOPQRSTUVWXYZabcdefghijklmnopqrstuvwxyz0123456789"
		pad := func(n int, seed int) string {
			if n <= 0 {
				return ""
			}
			b := make([]byte, n)
			for i := range b {
				b[i] = alnum[(seed*7+i*13)%len(alnum)]
			}
			return string(b)
		}

		request := func(task string, home c26Caller) {
			c := home
			if tp.Bool(1, 6) {
				c = callers[tp.Draw(len(callers))]
			}
			id := len(reqs) + 1
			marker := fmt.Sprintf("kX%05dQz", id)
			rq := &c26Req{id: id, caller: c}
			rq.allowlisted = withAuth && c.authenticated && isAllowed(c.principal) && !c.reject

			// credential
			var cred string
			jsonEscapeDots := false
			switch tp.Weighted([]int{6, 4, 2, 2, 1, 1, 1, 1, 1, 2}) {
			case 0:
				rq.shape = "opaque"
				L := []int{24, 9, 16, 40, 200, 4095, 4096}[tp.Draw(7)]
				cred = marker + pad(L-len(marker), id)
			case 1:
				rq.shape = "jws"
				cred = marker + "eyJhbGciOiJSUzI1NiJ9." + pad(12+tp.Draw(40), id) + "." + pad(1+tp.Draw(43), id+1)
			case 2:
				rq.shape = "oversized"
				L := []int{4097, 5000, 4200}[tp.Draw(3)]
				cred = marker + pad(L-len(marker), id)
			case 3:
				rq.shape = "short"
				cred = strings.Repeat("s", tp.Draw(9))
			case 4:
				rq.shape = "jws-json-escaped-dots"
				cred = marker + "a." + pad(8, id) + "." + pad(6, id)
				jsonEscapeDots = true
			case 5:
				rq.shape = "jws-long"
				cred = marker + pad(1500, id) + "." + pad(1500, id+1) + "." + pad(1000, id+2)
			case 6:
				rq.shape = "jws-empty-signature"
				cred = marker + "a." + pad(10, id) + "."
			case 7:
				rq.shape = "two-or-four-segments"
				cred = []string{marker + "." + pad(8, id), marker + ".b.c.d"}[tp.Draw(2)]
			case 8:
				rq.shape = "jws-with-foreign-character"
				cred = []string{marker + "a=." + pad(8, id) + ".sig", " " + marker + ".b.c", marker + ".b+.c", marker + ".b.c\n"}[tp.Draw(4)]
			case 9:
				rq.shape = "jws-oversized"
				cred = marker + pad(2000, id) + "." + pad(2000, id+1) + "." + pad(600, id+2)
			}
			if len(cred) >= len(marker) && strings.Contains(cred, marker) {
				rq.marker = marker
				markers = append(markers, marker)
			}
			rq.credLen = len(cred)
			credJSON, _ := json.Marshal(cred)
			if jsonEscapeDots {
				credJSON = bytes.ReplaceAll(credJSON, []byte("."), []byte(`\u002e`))
			}
			cj := string(credJSON)

			// body
			var body string
			switch tp.Weighted([]int{12, 2, 1, 1, 2, 1, 1, 1, 1, 1}) {
			case 0:
				rq.bodyShape = "object"
				body = `{"token":` + cj + `}`
			case 1:
				rq.bodyShape = "object-extra-keys"
				body = []string{`{"hint":"x","token":` + cj + `,"n":1}`, ` {"token" : ` + cj + ` } `}[tp.Draw(2)]
			case 2:
				rq.bodyShape = "duplicate-key"
				body = []string{`{"token":"decoy","token":` + cj + `}`, `{"token":` + cj + `,"token":"decoy"}`}[tp.Draw(2)]
			case 3:
				rq.bodyShape = "key-case-variant"
				body = `{"Token":` + cj + `}`
			case 4:
				rq.bodyShape = "token-not-a-string"
				body = []string{`{"token":12345}`, `{"token":null}`, `{"token":[` + cj + `]}`, `{"token":{"v":` + cj + `}}`, `{"token":true}`}[tp.Draw(5)]
			case 5:
				rq.bodyShape = "not-an-object"
				body = []string{cj, `[` + cj + `]`, `null`}[tp.Draw(3)]
			case 6:
				rq.bodyShape = "malformed"
				body = []string{``, `{`, `{"token":` + cj, `{"token":` + cj + `} trailing`, `{}`}[tp.Draw(5)]
			case 7:
				rq.bodyShape = "body-over-cap"
				body = `{"pad":"` + pad(9000, id) + `","token":` + cj + `}`
			case 8:
				rq.bodyShape = "body-over-cap-token-first"
				body = `{"token":` + cj + `,"pad":"` + pad(9000, id) + `"}`
			case 9:
				rq.bodyShape = "empty-token"
				body = `{"token":""}`
			}
			cl := int64(len(body))
			if tp.Bool(1, 5) {
				cl = -1
			}

			rq.at = sim.Now()
			rq.inGate = true
			inGate++
			reqs = append(reqs, rq)
			t := sim.Current()
			cur[t] = rq
			rq.body = gatesw.NewBody([]byte(body), func() { leaveGate(rq) })
			hdr := map[string]string{"Content-Type": "application/json", "X-Sim-Caller": c.name}
			if tp.Bool(1, 3) {
				// this caller drains its answer slowly: other requests are
				// answered while this response is being written
				hdr[gatesw.SlowPeerHeader] = "1"
				sim.Fault("slow-peer")
			}
			resp := gatesw.Serve(h, http.MethodPost, prefix+vgirpc.IntrospectEndpoint, rq.body, cl, hdr)
			leaveGate(rq)
			delete(cur, t)
			rq.status = resp.Status
			sim.Logf("req %d %s %s/%s -> %d resolver=%d(%s)", rq.id, c.name, rq.shape, rq.bodyShape, resp.Status, rq.resolver, rq.outcome)

			desc := fmt.Sprintf("request %d at t=%v by %s (authenticated=%v principal=%q allowlisted=%v), credential %s len %d, body %s, Content-Length %d: status %d body %q, resolver calls %d (%s)",
				rq.id, rq.at, c.name, c.authenticated, c.principal, rq.allowlisted, rq.shape, rq.credLen, rq.bodyShape, cl, resp.Status, c26Clip(resp.Body), rq.resolver, rq.outcome)
			if resp.Panicked != nil {
				e.Harness("panic escaped ServeHTTP: %v\n%s", resp.Panicked, resp.Stack)
				return
			}
			// the credential never appears in a response or a log line
			var hb strings.Builder
			for _, k := range simkern.SortedKeys(resp.Header) {
				hb.WriteString(k + ": " + strings.Join(resp.Header[k], ",") + "\n")
			}
			scanLeak("response header", rq, hb.String())
			scanLeak("response body", rq, string(resp.Body))
			scanLogs(rq)

			if !enabled {
				sim.Probe("disabled-route-request")
				if resp.Status >= 200 && resp.Status < 300 {
					e.Violate("disabled-route-resolved", c.name, "%s", desc)
				}
				return
			}
			if c.reject {
				sim.Probe("authenticator-rejected")
				if rq.body.WasRead {
					e.Violate("subject-read-before-refusal", c.name, "%s", desc)
				}
				return
			}
			if !rq.allowlisted {
				sim.Probe("refused-403")
				if resp.Status != http.StatusForbidden {
					e.Violate("non-introspector-not-refused-403", c.name, "%s", desc)
					return
				}
				if first403 == nil {
					first403 = resp.Body
				} else if !bytes.Equal(first403, resp.Body) {
					e.Violate("403-body-not-fixed", c.name, "%s; an earlier 403 body was %q", desc, c26Clip(first403))
					return
				}
				if rq.body.WasRead {
					e.Violate("subject-read-before-refusal", c.name, "%s", desc)
				}
				return
			}
			if resp.Status == http.StatusForbidden {
				// not a clause of this property (the statement does not
				// demand that introspectors succeed) but worth counting
				sim.Probe("introspector-got-403")
				return
			}
			if resp.Status == http.StatusTooManyRequests {
				sim.Probe("rate-limited-429")
				if rq.resolver > 0 {
					e.Violate("resolver-called-for-rate-limited-request", rq.shape+"/"+rq.bodyShape, "%s", desc)
				}
				return
			}
			// admitted
			sim.Probe("admitted")
			adm := append(admitted[c.principal], rq.at)
			sort.Slice(adm, func(i, j int) bool { return adm[i] < adm[j] })
			admitted[c.principal] = adm
			if !c26WindowsExist(adm, limit, window) {
				e.Violate("more-than-limit-admitted-per-window", "fixed-window", "%s: caller %q was admitted at %v — no placement of disjoint %v windows holds at most %d of these per window",
					desc, c.principal, adm, window, limit)
				return
			}
			unresolvable := rq.resolver == 0 || rq.outcome == "unresolved"
			if unresolvable {
				sim.Probe("unresolvable-404")
				if resp.Status != http.StatusNotFound {
					e.Violate("unresolvable-credential-not-404", rq.shape+"/"+rq.bodyShape, "%s", desc)
					return
				}
				if first404 == nil {
					first404 = resp.Body
				} else if !bytes.Equal(first404, resp.Body) {
					e.Violate("404-body-not-fixed", rq.shape+"/"+rq.bodyShape, "%s; an earlier 404 body was %q", desc, c26Clip(first404))
				}
				return
			}
			if rq.outcome == "ok" && resp.Status == http.StatusOK {
				sim.Probe("resolved-200")
			}
		}

		gaps := []time.Duration{0, 0, 0, 0, time.Millisecond, 100 * time.Millisecond, 300 * time.Millisecond, 500 * time.Millisecond,
			900 * time.Millisecond, 999 * time.Millisecond, time.Second, 1001 * time.Millisecond, 1500 * time.Millisecond}
		for i := 0; i < nTasks; i++ {
			name := fmt.Sprintf("caller%d", i)
			// introspectors are favoured; several tasks may share one principal
			home := callers[[]int{0, 0, 0, 1, 2, 3, 4, 5, 6, 7}[tp.Draw(10)]]
			sim.Spawn(name, func() {
				for op := 0; op < ops && !e.Violated(); op++ {
					clk.WaitFor(name, gaps[tp.Draw(len(gaps))])
					request(name, home)
				}
			})
		}
		reason, _ := sim.Run(simkern.RunOpts{
			MaxSteps: 20000,
			Done:     func() bool { return sim.RootsDone() || e.Violated() },
			Extra:    clk.Actions,
		})
		e.Conclude(sim, reason, false)
		if len(reqs) > 0 {
			scanLogs(reqs[len(reqs)-1])
		}
		nAdm := 0
		for _, k := range simkern.SortedKeys(admitted) {
			nAdm += len(admitted[k])
			sample = append(sample, fmt.Sprintf("caller %q admitted at %v", k, admitted[k]))
		}
		sample = append(sample, fmt.Sprintf("%d requests, %d admitted, %d resolver calls, %d log lines, %d clock advances", len(reqs), nAdm, resolverCalls, len(logs.Snapshot()), clk.Advances))
		e.Res.Nontrivial = len(reqs) > 0 && (sim.Interleavings > 0 || clk.Advances > 0)
	})
	if left != "" {
		e.Harness("bubble: %s", left)
	}
	e.Res.Sample = sample
}

func c26Clip(b []byte) string {
	if len(b) > 160 {
		return string(b[:160]) + "…"
	}
	return string(b)
}

// warmIntrospect serves one introspection request outside any bubble so that
// lazily created process-wide objects of the HTTP server are bubble-free.
func warmIntrospect() {
	srv := vgirpc.NewServer()
	h, err := vgirpc.NewHttpServerWithKey(srv, []byte("0123456789abcdef0123456789abcdef"))
	if err != nil {
		return
	}
	h.SetAuthenticate(func(r *http.Request) (*vgirpc.AuthContext, error) {
		return &vgirpc.AuthContext{Domain: "bearer", Authenticated: true, Principal: "proxy-a"}, nil
	})
	_ = h.EnableTokenIntrospection(vgirpc.TokenIntrospectionConfig{
		Resolver:   func(string) (vgirpc.TokenIdentity, bool, error) { return vgirpc.TokenIdentity{Principal: "u"}, true, nil },
		Principals: []string{"proxy-a"},
	})
	for _, b := range []string{`{"token":"abc"}`, `{"token":"a.b.c"}`, `{`} {
		gatesw.Serve(h, http.MethodPost, vgirpc.IntrospectEndpoint, gatesw.NewBody([]byte(b), nil), int64(len(b)), map[string]string{"Content-Type": "application/json"})
	}
}

func init() {
	Registry["C26"] = &Info{
		Run:   C26,
		Level: "exploration",
		Rule: "each run draws enabled/disabled, the per-second limit {1,2,3,5}, authenticator present/absent, route prefix, 2-4 caller tasks with a home identity (two allowlisted principals — several tasks may share one — a non-allowlisted principal, anonymous, unauthenticated-but-claiming an allowlisted name, authenticated with empty / case-variant principal, rejected by the authenticator) and per request a gap from {0 … 1.5 s} chosen around the one-second window, a credential (opaque 9…4096 chars, JWS-shaped short/long/JSON-escaped/empty-signature/foreign-character, 2 or 4 segments, 0…8 chars, oversized 4097…5000) in a JSON shape (object, extra/duplicate/case-variant keys, non-string token, non-object, malformed, body over the cap, unknown Content-Length) and, when the resolver is reached, its outcome ok/unresolved/unavailable/error; requests run concurrently, the scheduler interleaves them at the authenticator, the limiter lock and the resolver, and the clock moves between requests and while requests sit in the resolver; distinct = distinct schedule fingerprint; non-trivial = at least one request was served and (two tasks were runnable at once or the clock moved)",
		Real:  []string{"vgirpc.HttpServer (ServeHTTP, mux, handleIntrospectToken, introspectRateLimiter, readIntrospectToken)", "log/slog records emitted by the route", "testing/synctest clock"},
		Stub:  []string{"HTTP transport (direct ServeHTTP call, httptest recorder, body that reports its first read)", "authenticator (identity header)", "token resolver (fault plan)", "capturing slog handler"},
		Quick: 1600, Thorough: 96000,
		Warm:       warmIntrospect,
		FaultKinds: []string{"clock-advance", "resolver-unresolved", "resolver-unavailable", "resolver-error", "slow-peer"},
		Assumptions: []string{
			"window notion: the statement says 'per caller per window' and the configuration field is a per-second rate served by a fixed-window limiter whose phase is not specified; the oracle demands only that SOME placement of disjoint one-second windows exists in which every allowlisted principal has at most `limit` admitted (non-429) requests per window, each principal judged on its own (this implies at most 2×limit in any one-second sliding interval, which is all the documentation promises across a boundary)",
			"the clock does not move while a request is between arrival and its first body read / resolver call / response, so the instant of the limiter's decision is the request's arrival instant",
			"'JWS-shaped' = RFC 7515 compact serialization with non-empty header and payload and a possibly empty signature (unsecured JWS); a detached payload or foreign characters are not demanded either way",
			"'oversized' is the documented 4096-character cap on a credential the route will attempt to resolve",
			"credentials shorter than 9 characters carry no unique marker and are not searched for in responses and logs",
			"callers rejected by the authenticator (401) are only required to leave the resolver and the subject untouched; the disabled route is only required not to answer 2xx",
			"an admitted request whose resolver was never reached counts as an unresolvable credential and must get the fixed 404 body",
		},
	}
}
