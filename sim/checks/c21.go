package checks

import (
	"context"
	"errors"
	"fmt"
	"net/http"
	"sort"
	"strings"
	"time"

	"github.com/Query-farm/vgi-rpc-go/vgirpc"
	"github.com/apache/arrow-go/v18/arrow"

	"verifsim/hx"
	"verifsim/simkern"
	"verifsim/worlds/clientw"
	"verifsim/worlds/httpw"
)

// C21 — the native HTTP client returns the server's stream and never replays
// a cursor (world C: real HttpClient -> simulated network -> real HttpServer).

type c21Call struct {
	id     int
	kind   string // unary | producer | exchange
	method string
	header bool
	sc     *hx.Script
	st     *clientw.Stream
	// harness behaviour
	turns     int // exchange: planned number of Exchange calls
	cancelAt  int // cancel a live stream after this many results (-1 = never)
	afterFail int // calls made after the first failure
	// lateCancelTurn: the exchange turn during whose decoding the caller cancels (-1 none)
	lateCancelTurn int
	lateCxl   bool
	big       bool // one turn is far beyond the client's response limits
	ctxShort  int  // op index that runs under a short context deadline (-1 = none)
	// progress
	pos     int
	ops     int
	outcome string
}

var c21UnarySchemas = map[string]*arrow.Schema{
	"u_int": arrow.NewSchema([]arrow.Field{{Name: "result", Type: arrow.PrimitiveTypes.Int64}}, nil),
	"u_str": arrow.NewSchema([]arrow.Field{{Name: "result", Type: arrow.BinaryTypes.String}}, nil),
}

func c21StripTokens(m map[string]string) map[string]string {
	out := map[string]string{}
	for k, v := range m {
		if k == hx.KState || k == hx.KCallState {
			continue
		}
		out[k] = v
	}
	return out
}

// c21Diff compares a batch the client returned with the batch the server put
// on the wire (decoded independently). "" = equal.
func c21Diff(cb *vgirpc.ClientBatch, want *hx.Batch) string {
	if cb == nil || cb.Batch == nil {
		return "client returned a nil batch"
	}
	got := hx.DecodeBatch(cb.Batch)
	if got.Schema != want.Schema {
		return fmt.Sprintf("schema %s, server sent %s", got.Schema, want.Schema)
	}
	if got.Rows != want.Rows {
		return fmt.Sprintf("%d rows, server sent %d", got.Rows, want.Rows)
	}
	if got.JSON != want.JSON {
		return fmt.Sprintf("values %s, server sent %s", c21Short(got.JSON), c21Short(want.JSON))
	}
	wm := hx.SortedMeta(c21StripTokens(want.Meta))
	gm := hx.SortedMeta(cb.Metadata)
	if wm != gm {
		return fmt.Sprintf("metadata {%s}, server sent {%s} (framework token keys excluded)", c21Short(gm), c21Short(wm))
	}
	return ""
}

func c21Short(s string) string {
	if len(s) > 160 {
		return s[:160] + "…"
	}
	return s
}

func c21TokenKeys(cb *vgirpc.ClientBatch) string {
	if cb == nil {
		return ""
	}
	var ks []string
	for k := range cb.Metadata {
		if k == hx.KState || k == hx.KCallState {
			ks = append(ks, k)
		}
	}
	sort.Strings(ks)
	return strings.Join(ks, ",")
}

func c21Turn(b *hx.Batch) int64 {
	if len(b.Turn) > 0 {
		return b.Turn[0]
	}
	return -1
}

func C21(e *simkern.Env) {
	tp := e.Tape
	faultFree := tp.Draw(4) == 0
	batchLimit := 1 + tp.Draw(3)
	compress := tp.Draw(2) == 0
	pad := tp.Pick(0, 60, 200)
	nClients := 1 + tp.Draw(2)
	timeout := time.Duration(tp.Pick(2, 5, 1)) * time.Second
	identityFwd := tp.Bool(1, 2)
	const maxEnc, maxDec = 20 << 10, 64 << 10 // distinct caps: a body can exceed one and not the other
	maxCalls := 2
	if e.Tier == "thorough" {
		maxCalls = 3
	}
	draw16 := func() int { return tp.Draw(1 << 16) }

	// ---- plan the calls (everything drawn before the bubble) ----
	var calls [][]*c21Call
	id := 0
	for ci := 0; ci < nClients; ci++ {
		n := 1 + tp.Draw(maxCalls)
		var mine []*c21Call
		for k := 0; k < n; k++ {
			c := &c21Call{id: id, cancelAt: -1, ctxShort: -1, lateCancelTurn: -1}
			nonce := int64(100 + id)
			id++
			switch tp.Weighted([]int{4, 3, 1}) {
			case 0:
				c.kind = "exchange"
			case 1:
				c.kind = "producer"
			default:
				c.kind = "unary"
			}
			if c.kind == "unary" {
				c.method = []string{"u_int", "u_str"}[tp.Draw(2)]
				c.sc = hx.GenUnaryScript(tp, nonce)
				if c.method == "u_str" {
					c.sc.Pad = pad
				}
			} else {
				c.sc = hx.GenStreamScript(tp, nonce, c.kind, hx.GenOpts{MaxTurns: 7, FailBias: 3, AllowMeta: true, MaxRows: 3, Pad: pad})
				if tp.Bool(1, 8) {
					hx.GenInitFailure(tp, c.sc)
				}
				c.header = c.sc.Header
				c.method = map[string]string{"producertrue": "prod", "producerfalse": "prod2", "exchangetrue": "exch", "exchangefalse": "exch2"}[fmt.Sprintf("%s%v", c.kind, c.header)]
				c.turns = 2 + tp.Draw(5)
				if tp.Bool(1, 5) {
					c.cancelAt = tp.Draw(4)
				}
			}
			c.afterFail = 1 + tp.Draw(3)
			c.lateCxl = tp.Bool(1, 2)
			if tp.Bool(1, 6) {
				c.lateCancelTurn = tp.Draw(4)
			}
			c.st = &clientw.Stream{ID: c.id, Kind: c.kind, Label: c.method, Plan: map[int]*clientw.Fault{}}
			if !faultFree {
				// expected number of requests of this call
				nreq := 1
				switch c.kind {
				case "exchange":
					nreq = 1 + c.turns
				case "producer":
					nreq = 1 + (len(c.sc.Turns)+batchLimit-1)/batchLimit
				}
				nf := tp.Pick(1, 1, 2, 0)
				for j := 0; j < nf; j++ {
					at := tp.Draw(nreq + 1)
					kind := clientw.PlanKinds[tp.Draw(len(clientw.PlanKinds))]
					c.st.Plan[at] = &clientw.Fault{Kind: kind, P1: draw16(), P2: draw16(), P3: draw16()}
				}
				// a turn whose response is far beyond the client's limits
				if c.kind != "unary" && len(c.sc.Turns) > 0 && tp.Bool(1, 4) {
					t := tp.Draw(len(c.sc.Turns))
					if c.sc.Turns[t].Act == "emit" {
						// ~37 KB (beyond the encoded cap only when it travels
						// uncompressed) or ~110 KB (beyond both caps)
						c.sc.Turns[t].Rows = tp.Pick(300, 900, 900)
						c.sc.Pad = 100
						c.big = true
					}
				}
				if tp.Bool(1, 6) {
					c.ctxShort = tp.Draw(nreq + 1)
				}
			}
			mine = append(mine, c)
		}
		calls = append(calls, mine)
	}
	e.Knob("fault_free", faultFree)
	e.Knob("batch_limit", batchLimit)
	e.Knob("compression", compress)
	e.Knob("pad", pad)
	e.Knob("clients", nClients)
	e.Knob("http_timeout_s", int(timeout/time.Second))

	var sample []string
	left := e.Bubble(func() {
		sim := simkern.NewSim(tp, e.Trace)
		defer sim.Close()
		sim.TaskWeight = 30 // clock advances (weight 1) stay occasional
		hx.Rec.Reset()
		comp := 0
		if !compress {
			comp = -1
		}
		cl := httpw.NewCluster(httpw.Config{
			Key: []byte("0123456789abcdef0123456789abcdef"), TTL: time.Hour, CacheSizes: []int{-1},
			BatchLimit: batchLimit, NoTwin: true, Compression: comp,
		})
		net := &clientw.Net{H: cl.Inst[0].H, IdentityForward: identityFwd}
		hc := &http.Client{Transport: net}
		// the caller may give up while a response is being decoded: its log
		// handler (caller code that runs in the middle of the decoding) cancels
		// the context of the running operation when the plan says so
		lateCancel := map[string]func(){}
		lateFired := map[string]bool{}
		opts := []vgirpc.HttpClientOption{vgirpc.WithClientHTTPClient(hc), vgirpc.WithClientLogHandler(func(vgirpc.LogMessage) {
			sim.Probe("client-log-delivered")
			if t := sim.Current(); t != nil {
				if f := lateCancel[t.Name]; f != nil {
					delete(lateCancel, t.Name)
					sim.Fault("caller-cancels-while-decoding")
					lateFired[t.Name] = true
					f()
				}
			}
		})}
		if !faultFree {
			hc.Timeout = timeout
			net.MaxEnc, net.MaxDec = maxEnc, maxDec
			opts = append(opts, vgirpc.WithClientResponseLimits(maxEnc, maxDec))
		}
		client, err := vgirpc.NewHttpClient("http://sim.local", opts...)
		if err != nil {
			e.Harness("NewHttpClient: %v", err)
			return
		}
		net.OnForeignCursor = func(s, owner *clientw.Stream, x *clientw.Xchg) {
			e.Violate("cursor-replayed", "cursor-of-another-stream",
				"call %d (%s): request #%d carries a cursor that belongs to call %d (%s)", s.ID, s.Label, x.Idx, owner.ID, owner.Label)
		}
		net.OnReplay = func(s *clientw.Stream, r *clientw.ReplayInfo) {
			op := "exchange"
			if r.Cancel {
				op = "cancel"
			}
			cause := r.FirstFault
			if cause == "" {
				cause = "no-fault"
			}
			e.Violate("cursor-replayed", op+"-after-"+cause,
				"call %d (%s): the cursor sent in request #%d was sent again in request #%d (first carrier's fault: %q)", s.ID, s.Label, r.First, r.Second, r.FirstFault)
		}

		// guarded runs one client operation: a panic escaping the client is the
		// client failing to reject what it was given.
		guarded := func(c *c21Call, op string, fn func()) (reqs []*clientw.Xchg) {
			before := len(c.st.Reqs)
			defer func() {
				if r := recover(); r != nil {
					e.Violate("client-panic", op, "call %d (%s): %s panicked: %v", c.id, c.method, op, r)
				}
				reqs = c.st.Reqs[before:]
			}()
			sim.Y("client." + op)
			c.ops++
			fn()
			return
		}
		opctx := func(c *c21Call) (context.Context, context.CancelFunc) {
			ctx := clientw.WithStream(context.Background(), c.st)
			if c.ctxShort >= 0 && c.ctxShort == len(c.st.Reqs) {
				return context.WithTimeout(ctx, 700*time.Millisecond)
			}
			return ctx, func() {}
		}
		describe := func(c *c21Call, x *clientw.Xchg) string {
			s := fmt.Sprintf("call %d (%s %s, script %s) request #%d %s", c.id, c.kind, c.method, c.sc.Describe(), x.Idx, x.Path)
			if x.Fault != "" {
				s += fmt.Sprintf(" [fault %s %s]", x.Fault, x.Detail)
			}
			return s
		}
		// typed: the server's exception must surface as *RpcError with its type.
		typed := func(c *c21Call, op string, x *clientw.Xchg, err error) {
			sim.Probe("server-exception-surfaced")
			var re *vgirpc.RpcError
			if !errors.As(err, &re) {
				e.Violate("exception-not-typed", op, "%s: server answered with exception %q but the client returned %T: %v", describe(c, x), x.True.Err.ExcType(), err, err)
				return
			}
			if want := x.True.Err.ExcType(); want != "" && re.Type != want {
				e.Violate("exception-type-lost", op, "%s: server exception type %q (%q) surfaced as RpcError type %q (%q)", describe(c, x), want, c21Short(x.True.Err.Message), re.Type, c21Short(re.Message))
			}
		}
		// failed judges a call that returned an error and names what the
		// outcome was: a fault kind, "server-non-2xx", "server-breach" (the
		// server's own answer broke the response contract), "server-exception"
		// or "spurious".
		failed := func(c *c21Call, op string, reqs []*clientw.Xchg, err error) string {
			if len(reqs) == 0 {
				e.Violate("spurious-error", op+"-without-request", "call %d (%s): %s failed without any request and without cause: %v", c.id, c.method, op, err)
				return "spurious"
			}
			x := reqs[len(reqs)-1]
			if (x.Fault == clientw.FOverEnc || x.Fault == clientw.FOverDec) && !c.big {
				sim.Probe("oversize-without-big-turn")
			}
			switch {
			case x.Fault != "":
				sim.Probe("fault-rejected")
				return x.Fault
			case x.True != nil && (x.True.Resp.Status < 200 || x.True.Resp.Status > 299):
				// the server itself refused the request (e.g. a cursor damaged on
				// an earlier turn): a non-2xx outcome, any error value will do
				sim.Probe("server-non-2xx")
				return "server-non-2xx"
			case x.True != nil && x.True.Err != nil:
				typed(c, op, x, err)
				return "server-exception"
			case x.True != nil && (op == "exchange" || op == "unary") && (len(x.True.Data) != 1 || (op == "exchange" && x.True.Cursor == "")):
				// the server itself broke the response contract; rejecting is right
				sim.Probe("server-contract-breach-rejected")
				return "server-breach"
			case x.True != nil && op == "open-exchange" && (x.True.Cursor == "" || x.True.Call == "" || len(x.True.Data) > 0):
				sim.Probe("server-contract-breach-rejected")
				return "server-breach"
			}
			e.Violate("spurious-error", op, "%s: the server's answer was intact and carried no exception, yet the client returned %T: %v", describe(c, x), err, err)
			return "spurious"
		}
		noTokens := func(c *c21Call, op string, cb *vgirpc.ClientBatch) {
			if ks := c21TokenKeys(cb); ks != "" {
				e.Violate("token-in-metadata", op, "call %d (%s): returned batch metadata still carries %s", c.id, c.method, ks)
			}
		}

		runUnary := func(c *c21Call) {
			params := hx.StringBatch([]string{"script"}, []string{c.sc.Encode()})
			defer params.Release()
			var cb *vgirpc.ClientBatch
			var err error
			reqs := guarded(c, "unary", func() {
				ctx, cancel := opctx(c)
				defer cancel()
				cb, err = client.CallUnary(ctx, c.method, params, c21UnarySchemas[c.method])
			})
			if e.Violated() {
				return
			}
			if err != nil {
				failed(c, "unary", reqs, err)
				c.outcome = "error"
				return
			}
			defer cb.Release()
			if len(reqs) != 1 {
				e.Violate("result-without-response", "unary", "call %d: CallUnary returned a batch after %d requests", c.id, len(reqs))
				return
			}
			x := reqs[0]
			noTokens(c, "unary", cb)
			switch {
			case x.MustReject():
				e.Violate("fault-not-rejected", "unary-"+x.Fault, "%s: the client returned a batch", describe(c, x))
			case x.NoCompare():
			case x.True.Err != nil && x.Fault == "":
				e.Violate("exception-swallowed", "unary", "%s: server exception %q but the client returned a batch", describe(c, x), x.True.Err.ExcType())
			case len(x.True.Data) != 1:
				e.Violate("batch-not-from-server", "unary", "%s: server sent %d data batches, client returned one", describe(c, x), len(x.True.Data))
			default:
				if d := c21Diff(cb, &x.True.Data[0]); d != "" {
					e.Violate("batch-differs", "unary", "%s: client returned %s", describe(c, x), d)
				}
			}
			c.outcome = "value"
		}

		runExchange := func(c *c21Call) {
			params := hx.StringBatch([]string{"script"}, []string{c.sc.Encode()})
			defer params.Release()
			schemas := vgirpc.ClientStreamSchema{Input: hx.InSchema, Output: hx.OutSchema}
			if c.header {
				schemas.Header = hx.HdrSchema
			}
			var stream *vgirpc.HttpClientStream
			var err error
			reqs := guarded(c, "open-exchange", func() {
				ctx, cancel := opctx(c)
				defer cancel()
				stream, err = client.OpenExchange(ctx, c.method, params, schemas)
			})
			if e.Violated() {
				return
			}
			if err != nil {
				failed(c, "open-exchange", reqs, err)
				c.outcome = "open-error"
				return
			}
			defer stream.Close()
			if len(reqs) != 1 {
				e.Violate("result-without-response", "open-exchange", "call %d: OpenExchange succeeded after %d requests", c.id, len(reqs))
				return
			}
			x0 := reqs[0]
			dead := "" // non-empty: why the stream must refuse further turns
			switch {
			case x0.MustReject():
				e.Violate("fault-not-rejected", "open-exchange-"+x0.Fault, "%s: the client opened the stream", describe(c, x0))
				return
			case x0.NoCompare():
			case x0.True.Err != nil && x0.Fault == "":
				e.Violate("exception-swallowed", "open-exchange", "%s: server exception %q but the stream opened", describe(c, x0), x0.True.Err.ExcType())
				return
			default:
				if c.header {
					sim.Probe("stream-with-header")
					h := stream.Header()
					if h == nil || x0.True.Header == nil {
						e.Violate("header-differs", "open-exchange", "%s: header present at client=%v at server=%v", describe(c, x0), h != nil, x0.True.Header != nil)
					} else {
						if d := c21Diff(h, x0.True.Header); d != "" {
							e.Violate("header-differs", "open-exchange", "%s: client header has %s", describe(c, x0), d)
						}
						h.Release()
					}
				}
			}
			if x0.AlwaysAmbiguous() {
				dead = x0.Fault
			}
			failures := 0
			cancelled := false
			for turn := 0; turn < c.turns+c.afterFail && !e.Violated(); turn++ {
				if dead == "" && c.cancelAt >= 0 && c.pos >= c.cancelAt && !cancelled || (dead != "" && c.lateCxl && failures == c.afterFail-1 && !cancelled) {
					var cerr error
					wasDead := dead
					creqs := guarded(c, "cancel", func() {
						ctx, cancel := opctx(c)
						defer cancel()
						cerr = stream.Cancel(ctx)
					})
					cancelled = true
					if e.Violated() {
						return
					}
					if wasDead != "" {
						// Cancel is not a turn: only the no-replay invariant (judged at
						// the network) applies to whatever it sends
						if len(creqs) == 0 {
							sim.Probe("cancel-local-after-ambiguity")
						}
					} else {
						sim.Probe("cancel-sent")
						_ = cerr // Cancel is best effort; its result is not part of the property
						dead = "cancel"
					}
					continue
				}
				if dead == "" && turn >= c.turns {
					break
				}
				in := hx.Int64Batch("x", []int64{int64(turn + 1)}, false)
				var cb *vgirpc.ClientBatch
				var xerr error
				wasDead := dead
				me := ""
				if t := sim.Current(); t != nil {
					me = t.Name
				}
				xreqs := guarded(c, "exchange", func() {
					ctx, cancel := opctx(c)
					if c.lateCancelTurn == turn && !faultFree {
						var cancel2 context.CancelFunc
						ctx, cancel2 = context.WithCancel(ctx)
						defer cancel2()
						lateCancel[me] = cancel2
					}
					defer cancel()
					cb, xerr = stream.Exchange(ctx, in)
				})
				delete(lateCancel, me)
				lateHit := lateFired[me]
				delete(lateFired, me)
				in.Release()
				if e.Violated() {
					return
				}
				if wasDead == "cancel" || wasDead == "server-exception" {
					// after a live Cancel or an unambiguous server exception only
					// the no-replay invariant applies (the spent cursor must not
					// travel again); it is judged at the network
					sim.Probe("exchange-after-" + wasDead)
					if cb != nil {
						cb.Release()
					}
					break
				}
				if wasDead != "" {
					// refuse-after-ambiguity: exact on every turn
					if len(xreqs) != 0 {
						e.Violate("request-after-ambiguity", "exchange-after-"+wasDead, "%s: Exchange reached the network although the stream's last outcome was %s", describe(c, xreqs[0]), wasDead)
						return
					}
					if xerr == nil {
						e.Violate("result-without-response", "exchange-after-"+wasDead, "call %d (%s): Exchange returned a batch with no request after %s", c.id, c.method, wasDead)
						return
					}
					sim.Probe("exchange-refused-locally")
					failures++
					continue
				}
				if xerr != nil && lateHit && wasDead == "" && len(xreqs) == 1 && xreqs[0].Fault == "" {
					// the caller cancelled while the (intact) answer was being
					// decoded and the client reported the turn as failed: for the
					// caller that is an ambiguous outcome like any other
					sim.Probe("late-cancel-reported-as-failure")
					dead = "caller-cancelled-late"
					failures++
					continue
				}
				if xerr != nil {
					dead = failed(c, "exchange", xreqs, xerr)
					failures++
					continue
				}
				if len(xreqs) != 1 {
					e.Violate("result-without-response", "exchange", "call %d (%s): Exchange returned a batch after %d requests", c.id, c.method, len(xreqs))
					return
				}
				x := xreqs[0]
				noTokens(c, "exchange", cb)
				switch {
				case x.MustReject():
					e.Violate("fault-not-rejected", "exchange-"+x.Fault, "%s: the client returned a batch", describe(c, x))
				case x.NoCompare():
					sim.Probe("corrupt-turn-not-compared")
				case x.True.Err != nil && x.Fault == "":
					e.Violate("exception-swallowed", "exchange", "%s: server exception %q but the client returned a batch", describe(c, x), x.True.Err.ExcType())
				case len(x.True.Data) != 1:
					e.Violate("batch-not-from-server", "exchange", "%s: server sent %d data batches, client returned one", describe(c, x), len(x.True.Data))
				default:
					if d := c21Diff(cb, &x.True.Data[0]); d != "" {
						e.Violate("batch-differs", "exchange", "%s: client returned %s", describe(c, x), d)
					} else if t := c21Turn(&x.True.Data[0]); t != int64(c.pos) {
						e.Violate("out-of-order", "exchange", "%s: result #%d is the server's turn %d", describe(c, x), c.pos, t)
					}
					if x.Fault != "" {
						sim.Probe("exact-batch-despite-fault")
					}
				}
				cb.Release()
				c.pos++
				if x.AlwaysAmbiguous() {
					dead = x.Fault
				}
			}
			c.outcome = fmt.Sprintf("results=%d dead=%q", c.pos, dead)
		}

		runProducer := func(c *c21Call) {
			params := hx.StringBatch([]string{"script"}, []string{c.sc.Encode()})
			defer params.Release()
			schemas := vgirpc.ClientStreamSchema{Output: hx.OutSchema}
			if c.header {
				schemas.Header = hx.HdrSchema
			}
			var stream *vgirpc.HttpClientStream
			var err error
			reqs := guarded(c, "open-producer", func() {
				ctx, cancel := opctx(c)
				defer cancel()
				stream, err = client.OpenProducer(ctx, c.method, params, schemas)
			})
			if e.Violated() {
				return
			}
			if err != nil {
				failed(c, "open-producer", reqs, err)
				c.outcome = "open-error"
				return
			}
			defer stream.Close()
			if len(reqs) != 1 {
				e.Violate("result-without-response", "open-producer", "call %d: OpenProducer succeeded after %d requests", c.id, len(reqs))
				return
			}
			src := reqs[0] // the response currently being drained
			idx := 0
			if src.MustReject() {
				e.Violate("fault-not-rejected", "open-producer-"+src.Fault, "%s: the client opened the stream", describe(c, src))
				return
			}
			if c.header && !src.NoCompare() && src.True.Err == nil {
				sim.Probe("stream-with-header")
				h := stream.Header()
				if h == nil || src.True.Header == nil {
					e.Violate("header-differs", "open-producer", "%s: header present at client=%v at server=%v", describe(c, src), h != nil, src.True.Header != nil)
					return
				}
				if d := c21Diff(h, src.True.Header); d != "" {
					e.Violate("header-differs", "open-producer", "%s: client header has %s", describe(c, src), d)
				}
				h.Release()
			}
			failures := 0
			cancelled := false
			for n := 0; n < 60 && !e.Violated(); n++ {
				if c.cancelAt >= 0 && c.pos >= c.cancelAt && !cancelled {
					cancelled = true
					guarded(c, "cancel", func() {
						ctx, cancel := opctx(c)
						defer cancel()
						_ = stream.Cancel(ctx)
					})
					sim.Probe("cancel-sent")
					continue
				}
				var cb *vgirpc.ClientBatch
				var ok bool
				var nerr error
				nreqs := guarded(c, "next", func() {
					ctx, cancel := opctx(c)
					defer cancel()
					cb, ok, nerr = stream.Next(ctx)
				})
				if e.Violated() {
					return
				}
				if len(nreqs) > 0 {
					sim.Probe("producer-continuation")
					if cancelled {
						// producer continuations are idempotent; nothing in the
						// property forbids this
						sim.Probe("producer-request-after-cancel")
					}
					// a new request is only legitimate once everything the last
					// accepted response carried has been handed out
					if src != nil && src.Fault == "" && idx < len(src.True.Data) {
						e.Violate("batches-skipped", "next", "%s: the client asked for more after returning %d of the %d batches of request #%d", describe(c, nreqs[0]), idx, len(src.True.Data), src.Idx)
						return
					}
					for _, xi := range nreqs[:len(nreqs)-1] {
						// the client went on without returning: it accepted xi as
						// carrying no data batch but a cursor
						if xi.Fault == "" && xi.True != nil && (len(xi.True.Data) > 0 || xi.True.Err != nil) {
							e.Violate("batches-skipped", "next", "%s: answer with %d data batches passed over", describe(c, xi), len(xi.True.Data))
							return
						}
					}
					src = nreqs[len(nreqs)-1]
					idx = 0
					if failures > 0 {
						sim.Probe("producer-retry-after-fault")
					}
				}
				switch {
				case nerr != nil:
					if cancelled {
						c.outcome = "cancelled"
						return
					}
					failed(c, "next", nreqs, nerr)
					src, idx = nil, 0
					failures++
					if failures > c.afterFail {
						c.outcome = fmt.Sprintf("results=%d gave-up", c.pos)
						if c.lateCxl {
							guarded(c, "cancel", func() {
								ctx, cancel := opctx(c)
								defer cancel()
								_ = stream.Cancel(ctx)
							})
						}
						return
					}
				case ok:
					noTokens(c, "next", cb)
					switch {
					case src == nil:
						e.Violate("result-without-response", "next", "call %d (%s): Next returned a batch although no answer had been accepted", c.id, c.method)
					case len(nreqs) > 0 && src.MustReject():
						e.Violate("fault-not-rejected", "next-"+src.Fault, "%s: the client returned a batch", describe(c, src))
					case src.NoCompare():
						sim.Probe("corrupt-turn-not-compared")
					case idx >= len(src.True.Data):
						e.Violate("batch-not-from-server", "next", "%s: the client returned batch #%d of an answer that carried %d", describe(c, src), idx, len(src.True.Data))
					default:
						want := &src.True.Data[idx]
						if d := c21Diff(cb, want); d != "" {
							e.Violate("batch-differs", "next", "%s: batch #%d of the answer: client returned %s", describe(c, src), idx, d)
						} else if t := c21Turn(want); t != int64(c.pos) {
							e.Violate("out-of-order", "next", "%s: result #%d is the server's turn %d", describe(c, src), c.pos, t)
						}
					}
					cb.Release()
					idx++
					c.pos++
				default: // end of stream
					c.outcome = fmt.Sprintf("results=%d end", c.pos)
					switch {
					case cancelled:
					case len(nreqs) > 0 && src.MustReject():
						e.Violate("fault-not-rejected", "next-"+src.Fault, "%s: the client reported end of stream", describe(c, src))
					case src == nil:
						// ended after a failure without asking again: a shorter prefix
						sim.Probe("ended-after-failure")
					case src.NoCompare():
					case src.True.Err != nil && src.Fault == "":
						e.Violate("exception-swallowed", "next", "%s: server exception %q but the client reported end of stream", describe(c, src), src.True.Err.ExcType())
					case idx >= len(src.True.Data) && src.True.Cursor == "":
						sim.Probe("producer-complete")
					case src.Fault != "":
						// truncated / cursor stripped / status: a shorter stream is the channel's doing
						sim.Probe("early-end-after-fault")
					default:
						e.Violate("premature-end", "next", "%s: end of stream after batch %d of %d, server cursor present=%v", describe(c, src), idx, len(src.True.Data), src.True.Cursor != "")
					}
					return
				}
			}
			c.outcome = fmt.Sprintf("results=%d", c.pos)
		}

		task := func(mine []*c21Call) func() {
			return func() {
				for _, c := range mine {
					if e.Violated() {
						return
					}
					switch c.kind {
					case "unary":
						runUnary(c)
					case "exchange":
						runExchange(c)
					default:
						runProducer(c)
					}
				}
			}
		}
		for ci, mine := range calls {
			sim.Spawn(fmt.Sprintf("client%d", ci), task(mine))
		}
		menu := []int{1, 10, 100, 600}
		reason, _ := sim.Run(simkern.RunOpts{
			MaxSteps: 60000,
			Done:     sim.RootsDone,
			Extra: func() []simkern.Action {
				if faultFree || e.Violated() {
					return nil
				}
				return []simkern.Action{{Name: "advance clock", Weight: 1, Do: func() {
					d := time.Duration(tp.Pick(menu...)) * time.Millisecond
					sim.Fault("clock-advance")
					sim.Logf("clock +%v", d)
					sim.Advance(d)
				}}}
			},
		})
		if net.Broken != "" {
			e.Harness("simulated network panicked: %s", net.Broken)
		}
		if net.Unattributed > 0 {
			e.Harness("%d requests could not be attributed to a call", net.Unattributed)
		}
		for _, t := range sim.Panicked() {
			e.Harness("task %s panicked: %v\n%s", t.Name, t.Panic, t.PanicStack)
		}
		client.Close()
		e.Conclude(sim, reason, true)
		nf := 0
		for _, v := range e.Res.Faults {
			nf += v
		}
		e.Res.Nontrivial = nf > 0 || sim.Interleavings > 0 || net.Requests > 2
		for _, mine := range calls {
			for _, c := range mine {
				var fs []string
				for _, x := range c.st.Reqs {
					if x.Fault != "" {
						fs = append(fs, fmt.Sprintf("#%d:%s", x.Idx, x.Fault))
					}
				}
				sample = append(sample, fmt.Sprintf("call %d %s %s [%s] requests=%d faults=%v -> %s", c.id, c.kind, c.method, c.sc.Describe(), len(c.st.Reqs), fs, c.outcome))
			}
		}
	})
	if left != "" {
		e.Harness("bubble: %s", left)
	}
	e.Res.Sample = sample
}

// warmClient exercises the whole client path (zstd and gzip decoding, Arrow
// IPC reading, re-encoding helpers) once outside any bubble.
func warmClient() {
	warmHTTP()
	cl := httpw.NewCluster(httpw.Config{Key: []byte("0123456789abcdef0123456789abcdef"), CacheSizes: []int{-1}, BatchLimit: 1, NoTwin: true})
	for round := 0; round < 3; round++ {
		net := &clientw.Net{H: cl.Inst[0].H}
		client, err := vgirpc.NewHttpClient("http://sim.local", vgirpc.WithClientHTTPClient(&http.Client{Transport: net, Timeout: time.Minute}))
		if err != nil {
			return
		}
		sc := &hx.Script{Nonce: int64(3 + round), Outcome: "ok", Mode: "producer", Turns: []hx.Step{{Act: "emit"}, {Act: "emit"}}, Pad: 300}
		st := &clientw.Stream{Kind: "producer", Plan: map[int]*clientw.Fault{}}
		switch round {
		case 1:
			st.Plan[1] = &clientw.Fault{Kind: clientw.FDrift, P3: 1} // re-encoded with gzip
		case 2:
			st.Plan[1] = &clientw.Fault{Kind: clientw.FTruncBoundary, P3: 0} // re-encoded with zstd
		}
		ctx := clientw.WithStream(context.Background(), st)
		params := hx.StringBatch([]string{"script"}, []string{sc.Encode()})
		if s, err := client.OpenProducer(ctx, "prod2", params, vgirpc.ClientStreamSchema{Output: hx.OutSchema}); err == nil {
			for i := 0; i < 6; i++ {
				b, ok, err := s.Next(ctx)
				if err != nil || !ok {
					break
				}
				b.Release()
			}
			s.Close()
		}
		params.Release()
		client.Close()
	}
	hx.Rec.Reset()
}

func init() {
	Registry["C21"] = &Info{
		Run:   C21,
		Level: "exploration",
		Rule:  "each run draws fault-free (1/4) or faulty mode, producer batch limit 1-3, response compression on/off, pad size, HTTP timeout, 1-2 client tasks each making 1-2 (thorough: 1-3) calls (exchange / producer / unary, generated scripts with logs, metadata, failing turns and failing inits) through one real HttpClient; in faulty mode each call gets 0-2 response faults at tape-chosen request indices (init, any continuation, cancel) with tape-chosen parameters, sometimes a turn far beyond the client's response limits and a short context deadline; after the first failure the harness keeps calling Exchange/Next/Cancel; the scheduler interleaves the client tasks at woven yields and network yields and advances the clock; distinct = distinct schedule fingerprint; non-trivial = a fault fired, tasks interleaved, or a stream spanned more than two requests",
		Real:  []string{"vgirpc.HttpClient / HttpClientStream (CallUnary, OpenProducer, OpenExchange, Next, Exchange, Cancel, Close, post, parseIPCStream)", "net/http.Client (timeout, body wrappers)", "vgirpc.HttpServer + Server (stream init/exchange, token sealing, response compression)", "testing/synctest clock"},
		Stub:  []string{"network (http.RoundTripper calling ServeHTTP; faults; request recorder)", "scripted stream states and handlers", "independent Arrow IPC decoder for the server's answers (arrow-go directly)", "the network also applies net/http.Transport's documented replay rule: a request lost on a re-used connection is re-sent when it is replayable and idempotent (GET/HEAD/OPTIONS/TRACE or an Idempotency-Key header)"},
		Quick: 1000, Thorough: 30000,
		Warm: warmClient,
		FaultKinds: []string{clientw.FDrop, clientw.FDropBefore, clientw.FTimeout, clientw.FTimeoutBody, clientw.FTruncBoundary, clientw.FTruncMid,
			clientw.FCorruptBody, clientw.FCorruptToken, clientw.FCorruptFrame, clientw.FEncUnknown, clientw.FEncWrong, clientw.FDrift, clientw.FStatus,
			clientw.FNoCursor, clientw.FTrailing, clientw.FOverEnc, clientw.FOverDec, "clock-advance"},
		Assumptions: []string{
			"the server's emitted sequence is taken from the server's real answers as recorded at the simulated network (decoded with arrow-go directly, not with the client's parser) and ordered by the scripted turn counter",
			"turn hit by a payload-altering fault (truncate, missing cursor, non-2xx, over-limit): the result may be an error or exactly the server's batch(es); a producer may end early after it (an Arrow stream cut at a message boundary is a valid shorter stream)",
			"turn on which bytes were flipped inside a well-formed message or compressed frame: returned values are not compared; the no-cursor-replay and refuse-after-ambiguity invariants stay exact",
			"drop, timeout, unknown/wrong Content-Encoding, schema drift and trailing bytes must be answered with an error; any error value is accepted for fault turns, *RpcError with the server's exception_type is demanded only for server exceptions",
			"data batches that share one HTTP response with the server's EXCEPTION batch may be withheld by the client (the response as a whole is the failure); earlier responses must have been delivered completely",
			"ClientBatch.Metadata is the metadata judged for token keys (the Arrow record's own custom metadata is not)",
			"refuse-after-ambiguity is judged for Exchange and Cancel on exchange streams; producer continuations are idempotent and may be re-sent",
		},
	}
}
