package checks

import (
	"context"
	"fmt"
	"regexp"
	"strings"
	"time"

	"verifsim/hx"
	"verifsim/simkern"
	"verifsim/worlds/httpw"
	"verifsim/worlds/pipew"

	"github.com/Query-farm/vgi-rpc-go/vgirpc"
)

// a Go type name as %T prints it: optional '*', package path, dot, identifier
var goTypeName = regexp.MustCompile(`^\*?([A-Za-z0-9_]+/)*[a-z][A-Za-z0-9_]*\.[A-Za-z_][A-Za-z0-9_]*$|^\*`)

type errWant struct {
	typ     string  // "" = any wire-stable name (only "not a Go type name" is checked)
	msg     string  // "" = not predicted
	kind    *string // nil = not predicted; else exact ("" = key absent)
	sub     string  // the message must contain this text
}

func strp(s string) *string { return &s }

// c05Judge checks one exception batch.
func c05Judge(e *simkern.Env, site string, b *hx.Batch, w errWant, debug bool) bool {
	bad := func(class, f string, a ...any) bool {
		e.Violate(class, site, f, a...)
		return true
	}
	if b.Extra == nil {
		return bad("error-extra-missing", "exception batch without a JSON log_extra: %q", b.ExtraS)
	}
	typ := b.ExcType()
	if typ == "" {
		if w.typ != "" || b.Extra["exception_type"] == nil {
			return bad("exception-type-missing", "exception batch carries exception_type %q, expected %q", typ, w.typ)
		}
	}
	if goTypeName.MatchString(typ) {
		return bad("go-type-name-on-the-wire", "exception_type %q is a Go type name (message %q)", typ, b.Message)
	}
	if w.typ != "" && typ != w.typ {
		return bad("wrong-exception-type", "exception_type %q, expected %q (message %q)", typ, w.typ, b.Message)
	}
	if w.msg != "" {
		if b.Message != w.msg {
			return bad("wrong-message", "log_message %q, expected %q", b.Message, w.msg)
		}
		if em, _ := b.Extra["exception_message"].(string); em != w.msg {
			return bad("wrong-message", "exception_message %q, expected %q", em, w.msg)
		}
	}
	if w.sub != "" && !strings.Contains(b.Message, w.sub) {
		return bad("message-lost", "log_message %q does not carry %q", b.Message, w.sub)
	}
	if b.Message == "" {
		return bad("message-missing", "exception batch without a message (type %q)", typ)
	}
	if w.kind != nil {
		got, present := b.Meta[hx.KErrorKind]
		if *w.kind == "" && present {
			return bad("unexpected-error-kind", "error_kind %q present, the error carries none", got)
		}
		if *w.kind != "" && got != *w.kind {
			return bad("wrong-error-kind", "error_kind %q (present=%v), expected %q", got, present, *w.kind)
		}
	}
	tb, _ := b.Extra["traceback"].(string)
	frames, _ := b.Extra["frames"].([]any)
	if debug && (tb == "" || len(frames) == 0) {
		return bad("debug-details-missing", "debug errors are on but traceback=%d bytes, frames=%d", len(tb), len(frames))
	}
	if !debug && (tb != "" || len(frames) != 0) {
		return bad("debug-details-leaked", "debug errors are off but the envelope carries traceback=%d bytes, frames=%d", len(tb), len(frames))
	}
	return false
}

// wantFor derives the expectation for the terminating error of a call from
// its script.
func wantFor(op *pipew.Op) (errWant, bool) {
	ex := pipew.Predict(op)
	if ex.Refused {
		if op.Bad == "unknown" {
			return errWant{typ: "AttributeError"}, true
		}
		return errWant{}, true
	}
	var t *pipew.ExpTurn
	if ex.InitErr != nil {
		t = ex.InitErr
	} else if n := len(ex.Turns); n > 0 && ex.Turns[n-1].Kind == "error" {
		t = &ex.Turns[n-1]
	}
	if t == nil {
		return errWant{}, false
	}
	w := errWant{typ: t.ErrType}
	if !t.ErrAny {
		w.msg = t.ErrMsg
		w.kind = strp(t.ErrKind)
	} else {
		w.sub = t.ErrMsg
	}
	return w, true
}

func lastErr(bs []hx.Batch) *hx.Batch {
	for i := len(bs) - 1; i >= 0; i-- {
		if bs[i].Kind == "error" {
			return &bs[i]
		}
	}
	return nil
}

// C05 — error envelopes carry a stable cross-language error type.
func C05(e *simkern.Env) {
	tp := e.Tape
	debug := tp.Bool(1, 2)
	// half of the runs: the pipe server declares a protocol version, so the
	// history contains version-gate refusals (unary and stream) on the pipe too
	pipeVersion := []string{"", "3.4.5"}[tp.Draw(2)]
	ops := pipew.GenOps(tp, pipew.GenCfg{MinOps: 3, MaxOps: 9, Bad: true, BadStream: true, FailBias: 8, InitFail: true, MaxTurns: 4, NonceBase: 5000, ServerVersion: pipeVersion})
	// make failures frequent: every other unary fails
	for i, op := range ops {
		if op.Kind == "unary" && op.Bad == "" && op.Script.Outcome == "ok" && i%2 == 0 {
			op.Script.Outcome = "error"
			op.Script.Err = hx.GenErr(tp, op.Script.Nonce)
		}
	}
	// two more failing calls for a second server of the same process that runs
	// with the opposite debug setting (an admin and a public endpoint side by
	// side): what one server puts into an envelope must not depend on what the
	// other one built before
	var ops2 []*pipew.Op
	for i := 0; i < 2; i++ {
		n := int64(5800 + i)
		sc := &hx.Script{Nonce: n, Outcome: "error", Err: hx.GenErr(tp, n)}
		if tp.Bool(1, 3) {
			sc = &hx.Script{Nonce: n, Outcome: "panic", Panic: "string"}
		}
		ops2 = append(ops2, &pipew.Op{Kind: "unary", Method: "u_int", Script: sc, CancelAt: -1, ReqID: fmt.Sprintf("o%d", i)})
	}
	kn := pipew.DrawKnobs(tp)
	e.Knob("debug_errors", debug)
	e.Res.Sample = pipew.Describe(ops)
	left := e.Bubble(func() {
		sim := simkern.NewSim(tp, e.Trace)
		defer sim.Close()
		hx.Rec.Reset()
		judged := 0
		// in half of the runs a dispatch hook gives every call its own context
		// and the caller's patience runs out — that context is cancelled — while
		// a planned handler is still in flight, just before it returns
		giveUp := tp.Bool(1, 2)
		cancels := map[string]context.CancelFunc{}
		plan := map[int64]bool{}
		if giveUp {
			hx.BeforeOutcome = func(ctx context.Context, sc *hx.Script) {
				v, ok := plan[sc.Nonce]
				if !ok {
					v = tp.Bool(1, 3)
					plan[sc.Nonce] = v
				}
				if !v {
					return
				}
				for _, op := range ops {
					if op.Script != nil && op.Script.Nonce == sc.Nonce {
						if c := cancels[op.ReqID]; c != nil {
							sim.Fault("call-context-cancelled-in-handler")
							c()
						}
					}
				}
			}
			defer func() { hx.BeforeOutcome = nil }()
		}
		sess := &pipew.Session{Srv: pipew.NewServer(func(s *vgirpc.Server) {
			s.SetDebugErrors(debug)
			if giveUp {
				s.SetDispatchHook(c02DeadlineHook{byReq: func(reqID string) (context.CancelFunc, func(context.CancelFunc)) {
					return nil, func(c context.CancelFunc) { cancels[reqID] = c }
				}})
			}
			if pipeVersion != "" {
				s.SetProtocolVersion(pipeVersion)
			}
		}), Ops: ops}
		reason := pipew.RunSession(sim, sess, kn, 60000)
		if reason == simkern.StopDeadlock {
			e.Violate("session-deadlock", "pipe:"+nextSig(sess), "%s", sess.StuckDetail())
		}
		for i, r := range sess.Results {
			if e.Violated() || r.ClientErr != nil {
				break
			}
			w, expect := wantFor(r.Op)
			eb := lastErr(r.AllBatch)
			if expect != (eb != nil) {
				continue // response class is C02/C04/C06's business
			}
			if eb != nil {
				judged++
				sim.Probe("pipe-exception")
				c05Judge(e, "pipe:"+r.Op.Sig(), eb, w, debug)
			}
			_ = i
		}
		judgeOther := func(tr string, op *pipew.Op, eb *hx.Batch) {
			if w, expect := wantFor(op); expect && eb != nil {
				judged++
				sim.Probe(tr + "-exception-other-debug-setting")
				c05Judge(e, tr+":other-debug-setting/"+op.Sig(), eb, w, !debug)
			}
		}
		if !e.Violated() && reason == simkern.StopDone {
			sess2 := &pipew.Session{Srv: pipew.NewServer(func(s *vgirpc.Server) { s.SetDebugErrors(!debug) }), Ops: ops2}
			if r := pipew.RunSession(sim, sess2, kn, 20000); r != simkern.StopDone {
				reason = r
			}
			for _, r := range sess2.Results {
				if e.Violated() || r.ClientErr != nil {
					break
				}
				judgeOther("pipe", r.Op, lastErr(r.AllBatch))
			}
		}
		// ---- HTTP ----
		if !e.Violated() && reason == simkern.StopDone {
			hx.Rec.Reset()
			store := &simStore{sim: sim, objects: map[string][]byte{}, perTask: map[string]int64{}}
			setup := func(i int, srv *vgirpc.Server, h *vgirpc.HttpServer) {
				srv.SetDebugErrors(debug != (i == 4))
				switch i {
				case 1: // wire cap refusals
					h.SetMaxResponseBytes(64)
				case 2: // external cap refusals
					cfg := vgirpc.DefaultExternalLocationConfig(store)
					cfg.ExternalizeThresholdBytes = 16
					srv.SetExternalLocation(cfg)
					h.SetMaxExternalizedResponseBytes(32)
				case 3: // protocol-version gate and sticky sessions
					srv.SetProtocolVersion("2.1.0")
					h.EnableSticky(time.Hour)
				}
			}
			cl := httpw.NewCluster(httpw.Config{Key: []byte("0123456789abcdef0123456789abcdef"), CacheSizes: []int{-1, -1, -1, -1, -1}, NoTwin: true, Setup: setup, BatchLimit: 2})
			sim.Spawn("http-client", func() {
				for _, op := range ops {
					if e.Violated() {
						return
					}
					if op.Bad != "" && op.Bad != "unknown" && op.Bad[:3] != "par" {
						continue
					}
					sim.Y("client.op")
					w, expect := wantFor(op)
					var eb *hx.Batch
					if op.Kind == "stream" && op.Bad == "" {
						res := httpw.RunStream(op, httpw.StreamOpts{Pick: func() *httpw.Instance { return cl.Inst[0] }})
						if res.ClientErr != nil {
							continue
						}
						eb = lastErr(res.AllBatch)
					} else {
						path := "/" + op.Method
						if op.Bad == "unknown" {
							path = "/no_such_method_" + op.Method
						}
						if op.Kind == "stream" {
							path += "/init"
						}
						t := httpw.Decode(httpw.Post(cl.Inst[0], path, pipew.RequestBytes(op), httpw.Ident{}, nil))
						eb = t.Err
					}
					if expect && eb != nil {
						judged++
						sim.Probe("http-exception")
						c05Judge(e, "http:"+op.Sig(), eb, w, debug)
					}
				}
				for _, op := range ops2 {
					if e.Violated() {
						return
					}
					t := httpw.Decode(httpw.Post(cl.Inst[4], "/"+op.Method, pipew.RequestBytes(op), httpw.Ident{}, nil))
					judgeOther("http", op, t.Err)
				}
				if e.Violated() {
					return
				}
				// framework refusals
				big := &pipew.Op{Kind: "unary", Method: "u_str", Script: &hx.Script{Nonce: 5901, Outcome: "ok", Pad: 2000}, CancelAt: -1}
				if t := httpw.Decode(httpw.Post(cl.Inst[1], "/u_str", pipew.RequestBytes(big), httpw.Ident{}, nil)); t.Err != nil {
					judged++
					sim.Probe("wire-cap-refusal")
					if c05Judge(e, "http:max_response_bytes-refusal/unary", t.Err, errWant{typ: "RuntimeError"}, debug) {
						return
					}
				}
				ex := &pipew.Op{Kind: "stream", Method: "exch2", Script: &hx.Script{Nonce: 5902, Outcome: "ok", Mode: "exchange", Pad: 2000}, StreamKind: "exchange", CancelAt: -1, Inputs: 1}
				if res := httpw.RunStream(ex, httpw.StreamOpts{Pick: func() *httpw.Instance { return cl.Inst[1] }}); res.ClientErr == nil {
					if eb := lastErr(res.AllBatch); eb != nil {
						judged++
						if c05Judge(e, "http:max_response_bytes-refusal/exchange", eb, errWant{typ: "RuntimeError"}, debug) {
							return
						}
					}
				}
				if t := httpw.Decode(httpw.Post(cl.Inst[2], "/u_str", pipew.RequestBytes(big), httpw.Ident{}, nil)); t.Err != nil {
					judged++
					sim.Probe("external-cap-refusal")
					if c05Judge(e, "http:max_externalized_response_bytes-refusal/unary", t.Err, errWant{typ: "RuntimeError"}, debug) {
						return
					}
				}
				ok := &pipew.Op{Kind: "unary", Method: "u_int", Script: &hx.Script{Nonce: 5903, Outcome: "ok"}, CancelAt: -1, Extra: hx.M(hx.KProtoVer, "1.0.0")}
				if t := httpw.Decode(httpw.Post(cl.Inst[3], "/u_int", pipew.RequestBytes(ok), httpw.Ident{}, nil)); t.Err != nil {
					judged++
					sim.Probe("version-gate-refusal")
					if c05Judge(e, "http:protocol-version-refusal", t.Err, errWant{kind: strp("protocol_version_mismatch")}, debug) {
						return
					}
				}
				ok.Extra = hx.M(hx.KProtoVer, "2.1.7")
				resp := httpw.Post(cl.Inst[3], "/u_int", pipew.RequestBytes(ok), httpw.Ident{}, map[string]string{"VGI-Session": "bm90LWEtdG9rZW4tYXQtYWxsLW5vdC1hLXRva2VuLWF0LWFsbC1ub3QtYS10b2tlbg=="})
				if t := httpw.Decode(resp); t.Err != nil {
					judged++
					sim.Probe("session-lost-refusal")
					if c05Judge(e, "http:session-lost-refusal", t.Err, errWant{kind: strp("session_lost")}, debug) {
						return
					}
				}
				// the operator drains the worker; a handler that now asks for a new
				// session gets the framework's draining error and returns it as is
				cl.Inst[3].H.DrainHandle().Drain()
				opn := &pipew.Op{Kind: "unary", Method: "u_int", Script: &hx.Script{Nonce: 5904, Outcome: "ok", Sess: "open"}, CancelAt: -1, Extra: hx.M(hx.KProtoVer, "2.1.7")}
				if t := httpw.Decode(httpw.Post(cl.Inst[3], "/u_int", pipew.RequestBytes(opn), httpw.Ident{}, map[string]string{"VGI-Session-Accept": "true"})); t.Err != nil {
					judged++
					sim.Probe("draining-refusal")
					if c05Judge(e, "http:draining-refusal", t.Err, errWant{typ: "ServerDrainingError", kind: strp("server_draining")}, debug) {
						return
					}
				}
			})
			r2, _ := sim.Run(simkern.RunOpts{MaxSteps: 200000, Done: sim.RootsDone})
			cl.Shutdown(sim)
			if r2 != simkern.StopDone {
				reason = r2
			}
		}
		e.Conclude(sim, reason, false)
		e.Res.Nontrivial = judged > 0
	})
	if left != "" && !e.Violated() {
		e.Harness("bubble: %s", left)
	}
}

func init() {
	Registry["C05"] = &Info{
		Run:   C05,
		Level: "exploration",
		Rule:  "session-oracle check: each run draws debug errors on/off and a history of 3-9 calls in which most fail: handler errors of every shape (RpcError with arbitrary Type/Kind incl. empty, plain errors.New, fmt.Errorf %w chains, custom error types, wrapped RpcError, errors.Join), panics with string/error/struct/int/*RpcError/wrapped-RpcError values, stream init failures, mid-stream error/panic/no-emit/double-emit/finish-on-exchange, malformed requests, unknown methods; the history runs on a simulated pipe and over HTTP (unary, stream init, exchange and producer turns), then two failing calls on a second server (pipe) and instance (HTTP) of the same process that runs with the opposite debug setting, followed by the framework's own refusals over HTTP (max_response_bytes on unary and exchange, max_externalized_response_bytes, protocol-version gate, session lost, new session while draining); in half of the runs the pipe server declares a protocol version, so version-gate refusals are judged on the pipe under both debug settings; every exception batch is judged; distinct = schedule fingerprint; non-trivial = at least one exception batch judged",
		Real:  []string{"vgirpc error envelope (buildErrorExtra, writeErrorBatch) on serveUnary/serveStream/HTTP unary/stream paths, response caps, version gate, sticky token resolution"},
		Stub:  []string{"transports", "protocol client", "scripted handlers", "object store"},
		Quick: 600, Thorough: 60000,
		Warm: warmHTTP, FaultKinds: []string{"malformed-request", "read-fragmentation", "write-delay", "call-context-cancelled-in-handler"},
		Assumptions: []string{"for framework refusals that are not scripted RpcError values the check demands a wire-stable name (never a Go %T type name) and, where the documentation names one, that exact name: AttributeError for an unknown method, RuntimeError for cap refusals; error_kind is asserted for scripted errors, protocol_version_mismatch, session_lost and server_draining (type ServerDrainingError, as errors.go documents)"},
	}
}

var _ = fmt.Sprintf
