// Package checks holds one simulated-run function per claimed property.
package checks

import "verifsim/simkern"

// Info describes a property's check.
type Info struct {
	Run   simkern.RunFunc
	Level string // evidence level
	Rule  string // how cases are generated and what counts as distinct/non-trivial
	// Components: which parts ran real code, which a stub.
	Real []string
	Stub []string
	// Quick/Thorough: number of simulated runs per tier.
	Quick    int
	Thorough int
	// Warm, when set, is executed once per worker outside any bubble before
	// the first run (creates process-wide singletons bubble-free).
	Warm        func()
	Assumptions []string
	// FaultKinds lists the fault kinds this world can inject (evidence reports
	// configured-but-never-fired kinds).
	FaultKinds []string
	// Exhaustive: the quick tier sweeps a finite space completely.
	Exhaustive bool
}

// Registry maps property id to its check.
var Registry = map[string]*Info{}
