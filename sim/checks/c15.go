package checks

import (
	"strings"
	"fmt"
	"time"

	"verifsim/hx"
	"verifsim/simkern"
	"verifsim/worlds/httpw"
)

// tokenRec is a token the clients hold, with the simulated instant at which
// the server minted it (exact: the clock is frozen while a request is served).
type tokenRec struct {
	val  string
	mint time.Duration
}

type c15Stream struct {
	id       int
	method   string
	kind     string
	script   *hx.Script
	ident    httpw.Ident
	call     tokenRec
	cursors  []tokenRec
	dead     bool
	started  bool
	nextIn   int64
	accepted int
}

// C15 — token lifetime is enforced and the call cache never changes outcomes.
func C15(e *simkern.Env) {
	tp := e.Tape
	ttl := time.Duration(tp.Pick(2, 5, 10, 30)) * time.Second
	nInst := 1 + tp.Draw(3)
	caches := make([]int, nInst)
	for i := range caches {
		caches[i] = tp.Pick(-1, 0, 1, -1)
	}
	batchLimit := 1 + tp.Draw(2)
	nStreams := 1 + tp.Draw(3)
	nClients := 1 + tp.Draw(2)
	opsPerClient := 3 + tp.Draw(6)
	if e.Tier == "thorough" {
		opsPerClient = 4 + tp.Draw(12)
	}
	// one run in four puts the cache under pressure: one or two instances with a
	// one-entry cache, several streams started at different instants and
	// continued on the same instances, so that entries are evicted, replaced
	// and re-inserted while their call tokens age at different rates
	pressure := tp.Bool(1, 4)
	if pressure {
		nInst = 1 + tp.Draw(2)
		caches = make([]int, nInst)
		for i := range caches {
			caches[i] = 1
		}
		nStreams = 2 + tp.Draw(3)
		opsPerClient += 4 + tp.Draw(6)
	}
	e.Knob("cache_pressure", pressure)
	e.Knob("ttl_s", int(ttl/time.Second))
	e.Knob("caches", caches)
	e.Knob("batch_limit", batchLimit)
	e.Knob("streams", nStreams)
	e.Knob("clients", nClients)

	var sample []string
	left := e.Bubble(func() {
		sim := simkern.NewSim(tp, e.Trace)
		defer sim.Close()
		hx.Rec.Reset()
		cl := httpw.NewCluster(httpw.Config{
			Key: []byte("0123456789abcdef0123456789abcdef"), TTL: ttl, CacheSizes: caches,
			BatchLimit: batchLimit, WithAuth: true,
		})
		idents := []httpw.Ident{{}, {Auth: true, Domain: "bearer", Principal: "alice"}}
		streams := make([]*c15Stream, nStreams)
		for i := range streams {
			kind := "producer"
			method := "prod2"
			if tp.Bool(1, 2) {
				kind, method = "exchange", "exch2"
			}
			sc := &hx.Script{Nonce: int64(100 + i), Outcome: "ok", Mode: kind}
			if kind == "producer" {
				n := 6 + tp.Draw(10)
				for k := 0; k < n; k++ {
					sc.Turns = append(sc.Turns, hx.Step{Act: "emit"})
				}
			}
			streams[i] = &c15Stream{id: i, method: method, kind: kind, script: sc, ident: idents[tp.Draw(len(idents))]}
		}
		retunes := 0
		paired := 0 // clients currently between a main request and its twin
		advanced := false
		postAdvanceOps := 0

		judge := func(st *c15Stream, cur tokenRec, inst *httpw.Instance, main, twin *httpw.Turn, now time.Duration) {
			curAge := now - cur.mint
			callAge := now - st.call.mint
			site := st.kind + "-continuation"
			desc := fmt.Sprintf("stream %d (%s) on %s cache=%d: cursor age %v, call-token age %v, ttl %v; main status %d, twin status %d",
				st.id, st.method, inst.Name, inst.Cache, curAge, callAge, ttl, main.Resp.Status, twin.Resp.Status)
			if main.Resp.Panicked != nil || twin.Resp.Panicked != nil {
				e.Violate("panic-in-continuation", site, "%s: panic %v %v", desc, main.Resp.Panicked, twin.Resp.Panicked)
				return
			}
			mainAcc := main.Resp.Status == 200
			twinAcc := twin.Resp.Status == 200
			if mainAcc != twinAcc {
				e.Violate("cache-changes-outcome", site, "%s: the instance and the cache-less twin disagree at the same instant", desc)
				return
			}
			if curAge > ttl && mainAcc {
				e.Violate("expired-cursor-accepted", site, "%s", desc)
				return
			}
			if callAge > ttl && mainAcc {
				e.Violate("expired-call-token-accepted", site, "%s", desc)
				return
			}
			if curAge < ttl-time.Second && callAge < ttl-time.Second && !mainAcc {
				e.Violate("fresh-token-refused", site, "%s: %s", desc, main.Resp.ErrText())
				return
			}
			if !mainAcc && main.Resp.Status != 400 {
				e.Violate("refusal-not-client-error", site, "%s", desc)
			}
		}

		client := func(ci int) func() {
			return func() {
				for op := 0; op < opsPerClient && !e.Violated(); op++ {
					sim.Y("client.idle")
					// pick a live stream owned by this client
					var own []*c15Stream
					for _, s := range streams {
						if s.id%nClients == ci && !s.dead {
							own = append(own, s)
						}
					}
					if len(own) == 0 {
						return
					}
					st := own[tp.Draw(len(own))]
					inst := cl.Inst[tp.Draw(len(cl.Inst))]
					paired++
					now := sim.Now()
					if !st.started {
						body := httpw.InitBody(st.method, st.script, hx.Meta{})
						turn := httpw.Decode(httpw.Post(inst, "/"+st.method+"/init", body, st.ident, nil))
						st.started = true
						if turn.Resp.Status != 200 || turn.Cursor == "" || turn.Call == "" {
							st.dead = true
							if turn.Resp.Status != 200 || turn.Err != nil {
								e.Violate("init-failed", st.kind+"-init", "stream %d init: %s", st.id, turn.Resp.ErrText())
							}
						} else {
							st.call = tokenRec{turn.Call, now}
							st.cursors = append(st.cursors, tokenRec{turn.Cursor, now})
							sim.Logf("init stream %d on %s", st.id, inst.Name)
						}
						paired--
						continue
					}
					// noise: a confused client pairs this stream's cursor with another
					// stream's call token. Whatever the answer, it is not a continuation
					// of either stream and is not judged — but it must not change what
					// the well-formed continuations that follow are told.
					if tp.Bool(1, 8) {
						var other *c15Stream
						for _, o := range own {
							if o != st && o.started && !o.dead && o.method == st.method && o.ident == st.ident {
								other = o
							}
						}
						if other != nil {
							sim.Fault("mismatched-token-pair")
							var in []int64
							if st.kind == "exchange" {
								in = []int64{0}
							}
							_ = httpw.Post(inst, "/"+st.method+"/exchange", httpw.ContBody(st.cursors[len(st.cursors)-1].val, other.call.val, false, in, false, hx.Meta{}), st.ident, nil)
							paired--
							continue
						}
					}
					// choose a cursor: mostly the latest, sometimes an older one
					cur := st.cursors[len(st.cursors)-1]
					if len(st.cursors) > 1 && tp.Bool(1, 4) {
						cur = st.cursors[tp.Draw(len(st.cursors))]
					}
					var input []int64
					if st.kind == "exchange" {
						st.nextIn++
						input = []int64{st.nextIn}
					}
					body := httpw.ContBody(cur.val, st.call.val, false, input, false, hx.Meta{})
					main := httpw.Decode(httpw.Post(inst, "/"+st.method+"/exchange", body, st.ident, nil))
					twin := httpw.Decode(httpw.Post(cl.Twin, "/"+st.method+"/exchange", body, st.ident, nil))
					judge(st, cur, inst, main, twin, now)
					if advanced {
						postAdvanceOps++
					}
					sim.Logf("cont stream %d on %s cache=%d -> %d (twin %d) curAge=%v callAge=%v", st.id, inst.Name, inst.Cache, main.Resp.Status, twin.Resp.Status, now-cur.mint, now-st.call.mint)
					if main.Resp.Status == 200 {
						st.accepted++
						if main.Cursor != "" {
							st.cursors = append(st.cursors, tokenRec{main.Cursor, now})
						} else if main.Err == nil {
							// producer finished
							if len(main.Data) == 0 || st.kind == "producer" {
								st.dead = st.kind == "producer"
							}
						}
						if main.Err != nil {
							st.dead = true
						}
						sim.Probe("continuation-accepted")
					} else {
						sim.Probe("continuation-refused")
					}
					paired--
				}
			}
		}
		for ci := 0; ci < nClients; ci++ {
			sim.Spawn(fmt.Sprintf("client%d", ci), client(ci))
		}
		menu := []time.Duration{200 * time.Millisecond, time.Second, ttl / 2, ttl - time.Second, ttl - 500*time.Millisecond, ttl + 100*time.Millisecond, ttl + time.Second}
		reason, err := sim.Run(simkern.RunOpts{
			MaxSteps: 6000,
			Done: func() bool {
				for _, t := range sim.Tasks() {
					if t.Root && !t.Done() {
						return false
					}
				}
				return true
			},
			Extra: func() []simkern.Action {
				if paired > 0 {
					return nil
				}
				var acts []simkern.Action
				for _, d := range menu {
					d := d
					acts = append(acts, simkern.Action{Name: fmt.Sprintf("advance %v", d), Weight: 1, Do: func() {
						sim.Fault("clock-advance")
						advanced = true
						sim.Advance(d)
					}})
				}
				if retunes < 1 {
					// the operator changes the token TTL at run time: from then on the
					// new TTL is "the configured TTL" for every token, old or new, on
					// every instance — whatever their caches hold
					acts = append(acts, simkern.Action{Name: "retune token ttl", Weight: 1, Do: func() {
						retunes++
						nt := []time.Duration{ttl / 2, ttl * 2, ttl - time.Second}[tp.Draw(3)]
						if nt < time.Second {
							nt = time.Second
						}
						sim.Fault("ttl-retuned")
						sim.Logf("retune ttl %v -> %v", ttl, nt)
						ttl = nt
						cl.Cfg.TTL = nt
						for _, in := range cl.Inst {
							in.H.SetTokenTTL(nt)
						}
						cl.Twin.H.SetTokenTTL(nt)
						cl.Twin.H.SetCallStateCacheEntries(0)
					}})
				}
				for i := range cl.Inst {
					i := i
					acts = append(acts, simkern.Action{Name: fmt.Sprintf("restart w%d", i), Weight: 1, Do: func() {
						sim.Fault("instance-restart")
						cl.Restart(i)
					}})
				}
				return acts
			},
		})
		_ = err
		if reason == simkern.StopDeadlock && !e.Violated() {
			// nothing can move any more. When what is stuck is a client's request
			// parked inside the instance (on one of the server's own locks), the
			// instance never answers a request that the cache-less twin answers
			inServer := ""
			for _, t := range sim.Tasks() {
				if parked, site := t.Parked(); t.Root && !t.Done() && parked && (strings.Contains(site, "http_state.go") || strings.Contains(site, "http_stream.go") || strings.Contains(site, "http.go")) {
					inServer = t.Name + " at " + site
				}
			}
			if inServer != "" {
				e.Violate("request-never-answered", "call-state-cache", "no task can move and a request is parked inside the instance for good (%s): %s", inServer, sim.Stuck())
			} else {
				e.Harness("C15 world deadlocked: %s", sim.Stuck())
			}
		}
		if reason == simkern.StopBudget {
			e.Inconclusive("step budget")
		}
		for _, t := range sim.Panicked() {
			e.Harness("task %s panicked: %v\n%s", t.Name, t.Panic, t.PanicStack)
		}
		sim.Drain(2000)
		e.Absorb(sim)
		e.Res.Nontrivial = postAdvanceOps > 0 || sim.Interleavings > 0
		for _, s := range streams {
			sample = append(sample, fmt.Sprintf("stream %d %s ident=%s accepted=%d cursors=%d", s.id, s.method, s.ident, s.accepted, len(s.cursors)))
		}
	})
	if left != "" {
		e.Harness("bubble: %s", left)
	}
	e.Res.Sample = sample
}

func init() {
	Registry["C15"] = &Info{
		Run:   C15,
		Level: "exploration",
		Rule:  "each run draws TTL, 1-3 instances with cache sizes {default,0,1}, batch limit, 1-3 streams and 1-2 client tasks from the tape (one run in four: 1-2 instances with one-entry caches, 2-4 streams and longer histories, so that entries are evicted and re-inserted while tokens age); clients issue init/continuation requests routed by tape while the scheduler interleaves them at woven lock sites and injects clock advances around the TTL, instance restarts, one run-time change of the token TTL on every instance, and (as unjudged noise) requests that pair the cursor of one stream with the call token of another; distinct = distinct schedule fingerprint; non-trivial = a continuation was judged after a clock advance or two tasks were runnable at once",
		Real:  []string{"vgirpc.HttpServer (ServeHTTP, stream init/exchange, token seal/open, call-state cache)", "vgirpc.Server dispatch", "testing/synctest clock"},
		Stub:  []string{"HTTP transport (direct ServeHTTP call, httptest recorder)", "load balancer (tape)", "protocol client (arrow-go IPC)", "scripted stream states"},
		Quick: 600, Thorough: 60000,
		Warm:        warmHTTP,
		FaultKinds:  []string{"clock-advance", "instance-restart", "ttl-retuned", "mismatched-token-pair"},
		Assumptions: []string{"token timestamps are whole seconds: the last second before expiry is undecided on the accept side"},
	}
}
