package checks

import (
	"fmt"
	"strings"
	"time"

	"verifsim/hx"
	"verifsim/simkern"
	"verifsim/worlds/httpw"
	"verifsim/worlds/pipew"

	"github.com/Query-farm/vgi-rpc-go/vgirpc"
)

// identities a deployment may see: anonymous, and (domain, principal) pairs
// including empty strings, equal principals under different domains, and a
// principal containing NUL (domains are operator-chosen scheme names without NUL).
var c13Idents = []httpw.Ident{
	{},
	{Auth: true, Domain: "bearer", Principal: "alice"},
	{Auth: true, Domain: "bearer", Principal: "bob"},
	{Auth: true, Domain: "jwt", Principal: "alice"},
	{Auth: true, Domain: "", Principal: "alice"},
	{Auth: true, Domain: "bearer", Principal: ""},
	{Auth: true, Domain: "", Principal: ""},
	{Auth: true, Domain: "b", Principal: "earer\x00alice"},
	{Auth: true, Domain: "bearer", Principal: "alice\x00"},
	{Auth: true, Domain: "", Principal: "anonymous"},
	{Auth: true, Domain: "JWT", Principal: "alice"},
	{Auth: true, Domain: "jwt", Principal: "Alice"},
	{Auth: true, Domain: "jwt", Principal: "caf\u00e9"},
	{Auth: true, Domain: "mtls", Principal: "CN=alice,O=x"},
	{Auth: true, Domain: "bearer", Principal: strings.Repeat("a", 300) + "1"},
}

// c13Neighbours returns identities that differ from a only in a way an
// implementation might normalise away: letter case, surrounding blanks, the
// domain/principal boundary, Unicode composition, a long common prefix, and the
// anonymous / empty / "anonymous"-named corner.
func c13Neighbours(a httpw.Ident) []httpw.Ident {
	var out []httpw.Ident
	add := func(d, p string) {
		b := httpw.Ident{Auth: true, Domain: d, Principal: p}
		if b != a {
			out = append(out, b)
		}
	}
	if !a.Auth {
		add("", "")
		add("", "anonymous")
		add("anonymous", "")
		return out
	}
	d, p := a.Domain, a.Principal
	add(strings.ToUpper(d), p)
	add(strings.ToLower(d), p)
	add(d, strings.ToUpper(p))
	add(d, strings.ToLower(p))
	add(d+" ", p)
	add(d, p+" ")
	add(d, " "+p)
	if len(d) > 0 {
		add(d[:len(d)-1], d[len(d)-1:]+p)
	}
	if len(p) > 0 {
		add(d+p[:1], p[1:])
	}
	add(d, strings.ReplaceAll(p, "\u00e9", "e\u0301"))
	if len(p) > 200 {
		add(d, p[:len(p)-1]+"2")
		add(d, p[:len(p)-1])
	}
	add(p, d)
	if d == "" && p == "" || d == "" && p == "anonymous" {
		out = append(out, httpw.Ident{})
	}
	return out
}

// C13 — tokens are bound to the identity and the kind they were minted for.
func C13(e *simkern.Env) {
	tp := e.Tape
	cacheMain := tp.Pick(-1, 1, 0)
	e.Knob("cache", cacheMain)
	var sample []string
	left := e.Bubble(func() {
		sim := simkern.NewSim(tp, e.Trace)
		defer sim.Close()
		hx.Rec.Reset()
		key := []byte("0123456789abcdef0123456789abcdef")
		setup := func(i int, srv *vgirpc.Server, h *vgirpc.HttpServer) { h.EnableSticky(time.Hour) }
		// one worker identity for all so that a sticky token's server id matches everywhere
		cl := httpw.NewCluster(httpw.Config{Key: key, CacheSizes: []int{cacheMain}, BatchLimit: 1, WithAuth: true, Setup: setup, ServerIDs: []string{"w"}})
		// the twin (cache off) and a fresh instance created at judgement time share the key
		nonce := int64(13000)
		next := func() int64 { nonce++; return nonce }

		type tokens struct {
			owner        httpw.Ident
			method, kind string
			cursor, call string
			session      string
			nonce        int64
		}
		mint := func(id httpw.Ident) *tokens {
			kind, method := "exchange", "exch2"
			if tp.Bool(1, 2) {
				kind, method = "producer", "prod2"
			}
			n := next()
			sc := &hx.Script{Nonce: n, Outcome: "ok", Mode: kind}
			for k := 0; k < 6; k++ {
				sc.Turns = append(sc.Turns, hx.Step{Act: "emit"})
			}
			op := &pipew.Op{Kind: "stream", Method: method, Script: sc, StreamKind: kind, CancelAt: -1}
			t := httpw.Decode(httpw.Post(cl.Inst[0], "/"+method+"/init", pipew.RequestBytes(op), id, nil))
			if t.Cursor == "" || t.Call == "" {
				e.Harness("mint: init for %s failed: %s", id, t.Resp.ErrText())
				return nil
			}
			// a sticky session of the same owner
			sn := next()
			so := &pipew.Op{Kind: "unary", Method: "u_int", Script: &hx.Script{Nonce: sn, Outcome: "ok", Sess: "open"}, CancelAt: -1}
			sr := httpw.Post(cl.Inst[0], "/u_int", pipew.RequestBytes(so), id, map[string]string{"VGI-Session-Accept": "true"})
			sess := sr.Header.Get("VGI-Session")
			if sess == "" {
				e.Harness("mint: no VGI-Session header for %s: %s", id, sr.ErrText())
				return nil
			}
			return &tokens{owner: id, method: method, kind: kind, cursor: t.Cursor, call: t.Call, session: sess, nonce: n}
		}
		// cont presents stream tokens; returns accepted?
		cont := func(inst *httpw.Instance, tk *tokens, cursor, call string, as httpw.Ident) (bool, *hx.Resp) {
			var in []int64
			if tk.kind == "exchange" {
				in = []int64{1}
			}
			resp := httpw.Post(inst, "/"+tk.method+"/exchange", httpw.ContBody(cursor, call, false, in, false, hx.Meta{}), as, nil)
			return resp.Status == 200 && resp.Header.Get("X-VGI-RPC-Error") == "", resp
		}
		// useSession presents a sticky token; accepted = the handler found a session bound
		useSession := func(inst *httpw.Instance, token string, as httpw.Ident) (bool, *hx.Resp) {
			n := next()
			op := &pipew.Op{Kind: "unary", Method: "u_int", Script: &hx.Script{Nonce: n, Outcome: "ok", Sess: "use"}, CancelAt: -1}
			resp := httpw.Post(inst, "/u_int", pipew.RequestBytes(op), as, map[string]string{"VGI-Session": token})
			return hx.Rec.Get(n).SessionSeen != 0, resp
		}
		// one or two adversary tasks: with two, requests of different identities
		// are inside the server (minting, sealing and opening tokens) at once
		nAdv := 1 + tp.Draw(2)
		e.Knob("adversaries", nAdv)
		for ai := 0; ai < nAdv; ai++ {
			sim.Spawn(fmt.Sprintf("adversary%d", ai), func() {
				rounds := 3 + tp.Draw(5)
				var pool []*tokens
				for r := 0; r < rounds && !e.Violated(); r++ {
					sim.Y("round")
					a := c13Idents[tp.Draw(len(c13Idents))]
					tk := mint(a)
					if tk == nil {
						return
					}
					pool = append(pool, tk)
					// sometimes warm the cache with the owner's own continuation first
					if tp.Bool(1, 2) {
						if ok, resp := cont(cl.Inst[0], tk, tk.cursor, tk.call, a); !ok {
							e.Violate("owner-refused", "stream-token", "owner %s refused with its own tokens: %s", a, resp.ErrText())
							return
						}
						sim.Probe("cache-warmed-by-owner")
					}
					b := c13Idents[tp.Draw(len(c13Idents))]
					if nb := c13Neighbours(a); len(nb) > 0 && tp.Bool(1, 2) {
						// a near miss of the owner: what a normalising comparison would confuse
						b = nb[tp.Draw(len(nb))]
						sim.Probe("near-miss-identity")
					}
					same := a == b
					fresh := cl.Inst[0]
					restarted := false
					if nAdv == 1 && tp.Bool(1, 3) {
						// judge on a freshly restarted image too ("never on who used the server before")
						restarted = true
					}
					if cacheMain == 1 && nAdv == 1 && tp.Bool(1, 3) && !e.Violated() {
						// a one-entry cache: another identity's /init in between has
						// certainly pushed the owner's call out, so the server has to
						// consult the call token again — and the one presented here was
						// minted for the other identity
						o := c13Idents[tp.Draw(len(c13Idents))]
						if o != a {
							if tk2 := mint(o); tk2 != nil {
								sim.Fault("evicted-then-foreign-call-token")
								ok, resp := cont(cl.Inst[0], tk, tk.cursor, tk2.call, a)
								if resp.Panicked != nil {
									e.Violate("panic", "stream-token", "panic: %v", resp.Panicked)
									return
								}
								if ok {
									e.Violate("identity-binding", "call-token-after-eviction", "cursor of %s with the call token of %s's stream, presented by %s after its call had been evicted from a one-entry cache: accepted (status %d)", a, o, a, resp.Status)
									return
								}
							}
						}
					}
					switch tp.Draw(4) {
					case 0, 1: // stream tokens of A presented by B on the cached instance and on the twin
						sim.Fault("cross-identity-stream-token")
						okMain, rm := cont(cl.Inst[0], tk, tk.cursor, tk.call, b)
						okTwin, rt := cont(cl.Twin, tk, tk.cursor, tk.call, b)
						okFresh := okTwin
						if restarted {
							cl.Restart(0)
							fresh = cl.Inst[0]
							okFresh, _ = cont(fresh, tk, tk.cursor, tk.call, b)
							sim.Fault("instance-restart")
						}
						site := "stream-token"
						sample = append(sample, fmt.Sprintf("A=%s B=%s stream main=%v twin=%v", a, b, okMain, okTwin))
						if rm.Panicked != nil || rt.Panicked != nil {
							e.Violate("panic", site, "panic: %v %v", rm.Panicked, rt.Panicked)
							return
						}
						if okMain != okTwin || okMain != okFresh {
							e.Violate("decision-depends-on-history", site, "tokens of %s presented by %s: cached instance=%v, cache-less twin=%v, fresh instance=%v", a, b, okMain, okTwin, okFresh)
							return
						}
						if okMain != same {
							e.Violate("identity-binding", site, "tokens of %s presented by %s: accepted=%v, expected %v (status %d)", a, b, okMain, same, rm.Status)
							return
						}
					case 2: // sticky session token of A presented by B
						sim.Fault("cross-identity-session-token")
						ok, resp := useSession(cl.Inst[0], tk.session, b)
						sample = append(sample, fmt.Sprintf("A=%s B=%s session accepted=%v", a, b, ok))
						if resp.Panicked != nil {
							e.Violate("panic", "session-token", "panic: %v", resp.Panicked)
							return
						}
						if ok != same {
							e.Violate("identity-binding", "session-token", "session of %s presented by %s: resolved=%v, expected %v", a, b, ok, same)
							return
						}
					case 3: // kind confusion, presented by the rightful owner
						sim.Fault("kind-confusion")
						type kc struct {
							name         string
							cursor, call string
						}
						variants := []kc{
							{"call-as-cursor", tk.call, tk.call},
							{"cursor-as-call", tk.cursor, tk.cursor},
							{"session-as-cursor", tk.session, tk.call},
							{"session-as-call", tk.cursor, tk.session},
							// the same, with the leading version byte rewritten to the
							// one the slot expects (the version byte is not sealed)
							{"cursor-retagged-as-call", tk.cursor, retag(tk.cursor, tk.call)},
							{"call-retagged-as-cursor", retag(tk.call, tk.cursor), tk.call},
						}
						v := variants[tp.Draw(len(variants))]
						inst := cl.Twin // the call slot is only consulted without a cache hit
						if v.name == "call-as-cursor" || v.name == "session-as-cursor" || v.name == "call-retagged-as-cursor" {
							inst = cl.Inst[0]
						}
						ok, resp := cont(inst, tk, v.cursor, v.call, a)
						sample = append(sample, fmt.Sprintf("A=%s %s accepted=%v", a, v.name, ok))
						if resp.Panicked != nil {
							e.Violate("panic", "kind/"+v.name, "panic: %v", resp.Panicked)
							return
						}
						if ok {
							e.Violate("kind-confusion", "kind/"+v.name, "%s accepted for owner %s (status %d)", v.name, a, resp.Status)
							return
						}
						// a cursor or call token in the VGI-Session header
						other := tk.cursor
						if tp.Bool(1, 2) {
							other = tk.call
						}
						if ok2, r2 := useSession(cl.Inst[0], other, a); ok2 || r2.Panicked != nil {
							e.Violate("kind-confusion", "kind/stream-token-as-session", "a stream token resolved a sticky session for %s (panic=%v)", a, r2.Panicked)
							return
						}
					}
					// a token from an earlier round, by a third identity, after other identities used the server
					if len(pool) > 1 && tp.Bool(1, 3) && !e.Violated() {
						old := pool[tp.Draw(len(pool)-1)]
						c := c13Idents[tp.Draw(len(c13Idents))]
						ok, _ := cont(cl.Inst[0], old, old.cursor, old.call, c)
						okT, _ := cont(cl.Twin, old, old.cursor, old.call, c)
						if ok != (c == old.owner) || ok != okT {
							e.Violate("identity-binding", "stream-token", "older tokens of %s presented by %s: cached=%v twin=%v expected %v", old.owner, c, ok, okT, c == old.owner)
							return
						}
					}
				}
			})
		}
		reason, _ := sim.Run(simkern.RunOpts{MaxSteps: 200000, Done: sim.RootsDone})
		cl.Shutdown(sim)
		e.Conclude(sim, reason, false)
		e.Res.Nontrivial = len(sample) > 0
	})
	if left != "" && !e.Violated() {
		e.Harness("bubble: %s", left)
	}
	e.Res.Sample = firstN(sample, 6)
}

func init() {
	Registry["C13"] = &Info{
		Run:   C13,
		Level: "exploration",
		Rule:  "each run mints, for 3-7 tape-chosen owner identities out of 15 (anonymous; empty domain / empty principal; same principal under two domains; principals containing NUL or spelling the anonymous marker; upper/lower-case domains and principals; a non-ASCII principal; a 301-byte principal), a cursor, a call token and a sticky-session token through real requests, optionally warms the call-state cache with the owner's own continuation, and then presents them as another tape-chosen identity (half of the time a near miss of the owner: other letter case, added blank, shifted domain/principal boundary, decomposed Unicode, same 300-byte prefix, swapped fields) to the cached instance, the cache-less twin and (one run in three) a freshly restarted instance; or presents each token kind in another kind's slot as the rightful owner; older tokens are re-presented after other identities used the server; distinct = schedule fingerprint",
		Real:  []string{"vgirpc.HttpServer token AAD binding (cursor, call, sticky session), call-state cache keying, sticky registry partitioning"},
		Stub:  []string{"HTTP transport", "authenticator mapping an identity header to AuthContext", "scripted handlers"},
		Quick: 600, Thorough: 60000,
		Warm: warmHTTP, FaultKinds: []string{"cross-identity-stream-token", "cross-identity-session-token", "kind-confusion", "instance-restart", "evicted-then-foreign-call-token"},
		Assumptions: []string{"auth domains contain no NUL (operator-chosen scheme names), as the property states"},
	}
}
