package checks

import (
	"fmt"
	"regexp"
	"strconv"
	"strings"

	"verifsim/hx"
	"verifsim/simkern"
	"verifsim/worlds/httpw"
	"verifsim/worlds/pipew"

	"github.com/Query-farm/vgi-rpc-go/vgirpc"
)

// canonical MAJOR.MINOR.PATCH per the property statement (non-negative
// integers, no leading zeros, no prerelease/build suffix, no whitespace).
var c10Canon = regexp.MustCompile(`^(0|[1-9][0-9]*)\.(0|[1-9][0-9]*)\.(0|[1-9][0-9]*)$`)

type c10Client struct {
	present bool
	v       string
}

func c10GenClient(tp *simkern.Tape, sv [3]int) c10Client {
	ver := func(a, b, c int) string { return fmt.Sprintf("%d.%d.%d", a, b, c) }
	switch tp.Draw(17) {
	case 16: // a sign in front of a component (strconv.Atoi takes it; the grammar does not)
		parts := []string{strconv.Itoa(sv[0]), strconv.Itoa(sv[1]), strconv.Itoa(sv[2])}
		k := tp.Draw(3)
		parts[k] = []string{"+", "-"}[tp.Draw(2)] + parts[k]
		return c10Client{true, strings.Join(parts, ".")}
	case 0:
		return c10Client{true, ver(sv[0], sv[1], sv[2])}
	case 1:
		return c10Client{true, ver(sv[0], sv[1], sv[2]+1+tp.Draw(5))}
	case 2:
		return c10Client{true, ver(sv[0], sv[1], 0)}
	case 3:
		return c10Client{true, ver(sv[0], sv[1]+1+tp.Draw(3), tp.Draw(4))}
	case 4:
		if sv[1] > 0 {
			return c10Client{true, ver(sv[0], sv[1]-1, tp.Draw(4))}
		}
		return c10Client{true, ver(sv[0], sv[1]+1, 0)}
	case 5:
		return c10Client{true, ver(sv[0]+1+tp.Draw(3), tp.Draw(4), 0)}
	case 6:
		if sv[0] > 0 {
			return c10Client{true, ver(sv[0]-1, sv[1]+tp.Draw(3), 9)}
		}
		return c10Client{true, ver(sv[0]+1, 0, 0)}
	case 7:
		return c10Client{false, ""}
	case 8:
		return c10Client{true, ""}
	case 9: // leading zeros
		return c10Client{true, fmt.Sprintf("0%d.%d.%d", sv[0], sv[1], sv[2])}
	case 10:
		return c10Client{true, ver(sv[0], sv[1], sv[2]) + "-rc1"}
	case 11:
		return c10Client{true, ver(sv[0], sv[1], sv[2]) + "+build5"}
	case 12:
		return c10Client{true, []string{" ", "\t", "\n"}[tp.Draw(3)] + ver(sv[0], sv[1], sv[2])}
	case 13:
		return c10Client{true, ver(sv[0], sv[1], sv[2]) + " "}
	case 14:
		return c10Client{true, fmt.Sprintf("%d.%d", sv[0], sv[1])}
	default:
		return c10Client{true, []string{"v" + ver(sv[0], sv[1], sv[2]), "abc", "1.2.3.4", fmt.Sprintf("%d.0%d.%d", sv[0], sv[1], sv[2]), "١.٢.٣"}[tp.Draw(5)]}
	}
}

// c10Want: should the call be dispatched; if refused between two canonical
// versions, which side is older ("client"/"server"), else "".
func c10Want(server string, c c10Client) (dispatch bool, older string) {
	if server == "" {
		return true, ""
	}
	if !c.present || !c10Canon.MatchString(c.v) {
		return false, ""
	}
	sm := c10Canon.FindStringSubmatch(server)
	cm := c10Canon.FindStringSubmatch(c.v)
	sMaj, _ := strconv.Atoi(sm[1])
	sMin, _ := strconv.Atoi(sm[2])
	cMaj, _ := strconv.Atoi(cm[1])
	cMin, _ := strconv.Atoi(cm[2])
	if sMaj == cMaj && sMin == cMin {
		return true, ""
	}
	if cMaj < sMaj || (cMaj == sMaj && cMin < sMin) {
		return false, "client"
	}
	return false, "server"
}

var c10Names = map[string][]string{"client": {"client", "extension"}, "server": {"server", "worker"}}

// c10JudgeRefusal checks the refusal envelope.
func c10JudgeRefusal(e *simkern.Env, site string, eb *hx.Batch, server string, c c10Client, older string) bool {
	if eb == nil {
		e.Violate("refusal-without-error", site, "client version %q (present=%v) against server %q: no exception batch", c.v, c.present, server)
		return true
	}
	if k := eb.Meta[hx.KErrorKind]; k != "protocol_version_mismatch" {
		e.Violate("refusal-wrong-kind", site, "client version %q against server %q: error_kind %q, expected protocol_version_mismatch (message %q)", c.v, server, k, eb.Message)
		return true
	}
	if older == "" {
		return false
	}
	// the message names the side that must upgrade: the older side, towards
	// the newer side's version
	msg := strings.ToLower(eb.Message)
	i := strings.LastIndex(msg, "upgrade")
	if i < 0 {
		e.Violate("refusal-message-not-directional", site, "client %q vs server %q: message does not say who must upgrade: %q", c.v, server, eb.Message)
		return true
	}
	tail := msg[i:]
	newerVersion := server
	other := "server"
	if older == "server" {
		newerVersion = c.v
		other = "client"
	}
	named := false
	for _, n := range c10Names[older] {
		if strings.Contains(tail, n) {
			named = true
		}
	}
	wrong := false
	for _, n := range c10Names[other] {
		if strings.Contains(tail, n) {
			wrong = true
		}
	}
	if !named || wrong || !strings.Contains(tail, newerVersion) {
		e.Violate("refusal-names-wrong-side", site, "client %q vs server %q: the %s is older and must upgrade to %s, but the message says: %q", c.v, server, older, newerVersion, eb.Message)
		return true
	}
	return false
}

// C10 — the protocol-version gate admits exactly same-major.minor clients.
func C10(e *simkern.Env) {
	tp := e.Tape
	server := ""
	sv := [3]int{1 + tp.Draw(3), tp.Draw(4), tp.Draw(4)}
	if !tp.Bool(1, 5) {
		server = fmt.Sprintf("%d.%d.%d", sv[0], sv[1], sv[2])
	}
	e.Knob("server_protocol_version", server)
	n := 3 + tp.Draw(6)
	type call struct {
		op *pipew.Op
		c  c10Client
	}
	var calls []call
	var ops []*pipew.Op
	var sample []string
	for i := 0; i < n; i++ {
		nonce := int64(10000 + i)
		c := c10GenClient(tp, sv)
		if i > 0 && tp.Bool(1, 3) {
			// the same version string again on the same connection / worker
			c = calls[i-1].c
		}
		op := &pipew.Op{CancelAt: -1, ReqID: fmt.Sprintf("rq-%d", nonce)}
		switch tp.Draw(3) {
		case 0, 1:
			op.Kind, op.Method = "unary", hx.UnaryMethods[tp.Draw(len(hx.UnaryMethods))]
			op.Script = &hx.Script{Nonce: nonce, Outcome: "ok"}
		default:
			m := hx.StreamMethods[tp.Draw(len(hx.StreamMethods))]
			op.Kind, op.Method, op.HasHeader, op.StreamKind = "stream", m.Name, m.Header, m.Kind
			if m.Kind == "dynamic" {
				op.StreamKind = "producer"
			}
			op.Script = &hx.Script{Nonce: nonce, Outcome: "ok", Mode: op.StreamKind, Header: m.Header, Turns: []hx.Step{{Act: "emit"}}}
			op.Inputs = 2
		}
		if c.present {
			op.Extra = hx.M(hx.KProtoVer, c.v)
		}
		if d, _ := c10Want(server, c); !d {
			op.Bad = "protover" // the transcript model: refused before dispatch
		}
		calls = append(calls, call{op, c})
		ops = append(ops, op)
		sample = append(sample, fmt.Sprintf("%s/%s client=%q present=%v", op.Kind, op.Method, c.v, c.present))
	}
	e.Res.Sample = map[string]any{"server": server, "calls": sample}
	kn := pipew.DrawKnobs(tp)
	left := e.Bubble(func() {
		sim := simkern.NewSim(tp, e.Trace)
		defer sim.Close()
		hx.Rec.Reset()
		cfgSrv := func(s *vgirpc.Server) {
			if server != "" {
				s.SetProtocolVersion(server)
			}
		}
		judged := 0
		judge := func(transport string, i int, ran bool, eb *hx.Batch) bool {
			cl := calls[i]
			site := transport + ":" + cl.op.Kind
			want, older := c10Want(server, cl.c)
			judged++
			if ran != want {
				e.Violate("gate-decision", site, "server %q, client version %q (present=%v): dispatched=%v, expected %v", server, cl.c.v, cl.c.present, ran, want)
				return true
			}
			if !want {
				sim.Probe("refused")
				return c10JudgeRefusal(e, site, eb, server, cl.c, older)
			}
			sim.Probe("admitted")
			return false
		}
		// pipe: the whole history on one connection, then __describe__ with a hostile version
		sess := &pipew.Session{Srv: pipew.NewServer(cfgSrv), Ops: ops}
		reason := pipew.RunSession(sim, sess, kn, 60000)
		if reason == simkern.StopDeadlock {
			e.Violate("session-deadlock", "pipe:"+nextSig(sess), "%s", sess.StuckDetail())
		}
		for i, r := range sess.Results {
			if e.Violated() || r.ClientErr != nil {
				break
			}
			ran := hx.Rec.Get(r.Op.Script.Nonce).InitCalls > 0
			if judge("pipe", i, ran, lastErr(r.AllBatch)) {
				break
			}
		}
		if !e.Violated() && reason == simkern.StopDone {
			// __describe__ is never refused
			d := &pipew.Session{Srv: pipew.NewServer(cfgSrv), Ops: []*pipew.Op{{Kind: "raw", CancelAt: -1, Script: &hx.Script{},
				Raw: hx.RawRequestBytes(hx.EmptyBatch(), hx.M(hx.KMethod, "__describe__", hx.KReqVersion, "1", hx.KProtoVer, "99.99.99"))}}}
			r3 := pipew.RunSession(sim, d, kn, 20000)
			if r3 == simkern.StopDone && len(d.Results) == 1 && d.Results[0].ClientErr == nil {
				if lastErr(d.Results[0].AllBatch) != nil || len(d.Results[0].AllBatch) == 0 {
					e.Violate("describe-refused", "pipe:describe", "__describe__ with a mismatching protocol version was not answered")
				}
				sim.Probe("describe-answered")
			}
		}
		// HTTP unary and stream-init
		if !e.Violated() && reason == simkern.StopDone {
			hx.Rec.Reset()
			cl := httpw.NewCluster(httpw.Config{Key: []byte("0123456789abcdef0123456789abcdef"), CacheSizes: []int{-1}, NoTwin: true,
				Setup: func(i int, s *vgirpc.Server, h *vgirpc.HttpServer) { cfgSrv(s) }})
			for c := 0; c < 2; c++ {
				c := c
				sim.Spawn(fmt.Sprintf("http%d", c), func() {
					for i, ca := range calls {
						if i%2 != c || e.Violated() {
							continue
						}
						sim.Y("client.op")
						path := "/" + ca.op.Method
						if ca.op.Kind == "stream" {
							path += "/init"
						}
						t := httpw.Decode(httpw.Post(cl.Inst[0], path, pipew.RequestBytes(ca.op), httpw.Ident{}, nil))
						if t.Resp.Panicked != nil {
							e.Violate("panic", "http:"+ca.op.Kind, "panic: %v", t.Resp.Panicked)
							return
						}
						ran := hx.Rec.Get(ca.op.Script.Nonce).InitCalls > 0
						if judge("http", i, ran, t.Err) {
							return
						}
					}
					if c == 0 && !e.Violated() {
						t := httpw.Decode(httpw.Post(cl.Inst[0], "/__describe__", hx.RawRequestBytes(hx.EmptyBatch(), hx.M(hx.KMethod, "__describe__", hx.KReqVersion, "1", hx.KProtoVer, "0.0.1")), httpw.Ident{}, nil))
						if t.Resp.Status != 200 || t.Err != nil {
							e.Violate("describe-refused", "http:describe", "__describe__ with a mismatching protocol version: %s", t.Resp.ErrText())
						}
					}
				})
			}
			r2, _ := sim.Run(simkern.RunOpts{MaxSteps: 100000, Done: sim.RootsDone})
			if r2 != simkern.StopDone {
				reason = r2
			}
		}
		// HTTP once more, one client, while the operator changes the declared
		// protocol version between requests (off, on again, another major or
		// minor): every call is judged against the version in force when it was
		// made — what the server admitted earlier must not matter
		if !e.Violated() && reason == simkern.StopDone && tp.Bool(1, 2) {
			hx.Rec.Reset()
			var srv *vgirpc.Server
			cl := httpw.NewCluster(httpw.Config{Key: []byte("0123456789abcdef0123456789abcdef"), CacheSizes: []int{-1}, NoTwin: true,
				Setup: func(i int, s *vgirpc.Server, h *vgirpc.HttpServer) { cfgSrv(s); srv = s }})
			orig := server
			sim.Spawn("http-reversioned", func() {
				for round := 0; round < 2; round++ {
					for i, ca := range calls {
						if e.Violated() {
							return
						}
						sim.Y("client.op")
						if tp.Bool(1, 3) {
							nv := ""
							if !tp.Bool(1, 3) {
								nv = fmt.Sprintf("%d.%d.%d", 1+tp.Draw(4), tp.Draw(4), tp.Draw(4))
							}
							sim.Fault("operator-changes-protocol-version")
							srv.SetProtocolVersion(nv)
							server = nv
						}
						nonce := int64(10500 + round*100 + i)
						op := *ca.op
						sc := *ca.op.Script
						sc.Nonce = nonce
						op.Script = &sc
						path := "/" + op.Method
						if op.Kind == "stream" {
							path += "/init"
						}
						t := httpw.Decode(httpw.Post(cl.Inst[0], path, pipew.RequestBytes(&op), httpw.Ident{}, nil))
						if t.Resp.Panicked != nil {
							e.Violate("panic", "http-reversioned:"+op.Kind, "panic: %v", t.Resp.Panicked)
							return
						}
						ran := hx.Rec.Get(nonce).InitCalls > 0
						if judge("http-reversioned", i, ran, t.Err) {
							return
						}
					}
				}
			})
			r4, _ := sim.Run(simkern.RunOpts{MaxSteps: 100000, Done: sim.RootsDone})
			server = orig
			if r4 != simkern.StopDone {
				reason = r4
			}
		}
		e.Conclude(sim, reason, false)
		e.Res.Nontrivial = judged > 0
	})
	if left != "" && !e.Violated() {
		e.Harness("bubble: %s", left)
	}
}

func init() {
	Registry["C10"] = &Info{
		Run:   C10,
		Level: "exploration",
		Rule:  "session-oracle check: each run draws the server's declared version (none in one run out of five, else a random canonical M.m.p) and 3-8 calls (unary, stream init over producer/exchange/dynamic) whose client version string comes from a generator (equal, patch-different, minor/major older and newer, absent, empty, leading zeros, prerelease, build, leading/trailing whitespace, two/four components, v-prefix, non-ASCII digits); the history runs on a simulated pipe (one connection, so refusals are followed by further calls) and over HTTP unary and stream-init from two concurrent client tasks, plus __describe__ with a hostile version on both; distinct = schedule fingerprint; in half of the runs the history is played twice more over HTTP by one client while an operator changes the declared protocol version between requests (off, on again, another major/minor), every call judged against the version in force when it was made",
		Real:  []string{"vgirpc.Server.checkProtocolVersion, serveOne gate, HTTP unary / stream-init gates, describe paths"},
		Stub:  []string{"transports", "protocol client", "scripted handlers (invocation counters decide 'dispatched')"},
		Quick: 900, Thorough: 80000,
		FaultKinds: []string{"malformed-request", "read-fragmentation", "write-delay", "operator-changes-protocol-version"},
		Assumptions: []string{"'names the side that must upgrade' is judged on the text after the last 'upgrade': it must name the older side (client/extension or server/worker), not the other, and the newer side's version"},
	}
}
