package checks

import (
	"context"
	"fmt"
	"strings"

	"verifsim/hx"
	"verifsim/simkern"
	"verifsim/worlds/httpw"
	"verifsim/worlds/pipew"

	"github.com/Query-farm/vgi-rpc-go/vgirpc"
)

var unaryResultType = map[string]string{
	"u_int": "int64", "u_str": "utf8", "u_f64": "float64", "u_bool": "bool", "u_bytes": "binary", "u_list": "list<", "u_rich": "binary",
}

// c04Judge checks one unary response (its batches in wire order).
func c04Judge(e *simkern.Env, transport string, i int, op *pipew.Op, batches []hx.Batch) bool {
	site := transport + ":" + op.Sig()
	bad := func(class, f string, a ...any) bool {
		e.Violate(class, site, "call %d: "+f, append([]any{i}, a...)...)
		return true
	}
	ex := pipew.Predict(op)
	wantLogs := ex.InitLogs
	if ex.InitErr != nil {
		wantLogs = ex.InitErr.Logs
	}
	var logs []hx.Batch
	var data, errs []hx.Batch
	sawNonLog := false
	for _, b := range batches {
		switch b.Kind {
		case "log":
			if sawNonLog {
				return bad("log-after-result", "a log batch follows the result/exception batch")
			}
			logs = append(logs, b)
		case "error":
			sawNonLog = true
			errs = append(errs, b)
		default:
			sawNonLog = true
			data = append(data, b)
		}
	}
	if msg := logsEqual(logs, wantLogs); msg != "" {
		return bad("logs-wrong", "%s (requested level %q)", msg, op.LogLevel)
	}
	for _, b := range append(append([]hx.Batch(nil), logs...), errs...) {
		if b.Meta[hx.KReqID] != op.ReqID {
			return bad("request-id-not-echoed", "%s batch carries request id %q, expected %q", b.Kind, b.Meta[hx.KReqID], op.ReqID)
		}
	}
	if ex.InitErr != nil {
		if len(errs) != 1 {
			return bad("exception-count", "%d exception batches, expected exactly 1", len(errs))
		}
		if len(data) != 0 {
			return bad("result-with-exception", "a result batch was delivered although the handler failed")
		}
		if batches[len(batches)-1].Kind != "error" {
			return bad("exception-not-last", "the response does not end with the exception batch")
		}
		return false
	}
	if len(errs) != 0 {
		return bad("unexpected-exception", "handler succeeded but the response carries an exception: %s", errs[0].Message)
	}
	if len(data) != 1 {
		return bad("result-count", "%d result batches, expected exactly 1", len(data))
	}
	d := data[0]
	if op.Method == "u_void" {
		if d.Rows != 0 || strings.Contains(d.Schema, "result") {
			return bad("void-result-not-empty", "void method returned rows=%d schema=%s", d.Rows, d.Schema)
		}
		return false
	}
	if !d.HasResult {
		return bad("result-shape", "result batch is not a single one-row 'result' column: rows=%d schema=%s", d.Rows, d.Schema)
	}
	if wt := unaryResultType[op.Method]; !strings.Contains(d.Schema, "type="+wt) {
		return bad("result-schema", "result schema %q does not carry the declared type %q", d.Schema, wt)
	}
	if want := hx.WantResult(op.Method, op.Script.Nonce, op.Script.Pad); d.Result != want {
		return bad("result-value", "result %q, expected %q", d.Result, want)
	}
	return false
}

// C04 — unary calls return the handler's value or its error, after its logs.
func C04(e *simkern.Env) {
	tp := e.Tape
	ops := pipew.GenOps(tp, pipew.GenCfg{MinOps: 2, MaxOps: 8, OnlyUnary: true, Levels: true, NonceBase: 4000})
	kn := pipew.DrawKnobs(tp)
	e.Res.Sample = pipew.Describe(ops)
	left := e.Bubble(func() {
		sim := simkern.NewSim(tp, e.Trace)
		defer sim.Close()
		hx.Rec.Reset()
		// in half of the runs a dispatch hook gives every call its own context,
		// which is cancelled while a planned handler is in flight; a failing
		// handler then reports the context's own error
		giveUp := tp.Bool(1, 2)
		cancels := map[string]context.CancelFunc{}
		plan := map[int64]bool{}
		var cfgSrv func(*vgirpc.Server)
		if giveUp {
			hx.BeforeOutcome = func(ctx context.Context, sc *hx.Script) {
				v, ok := plan[sc.Nonce]
				if !ok {
					v = tp.Bool(1, 3)
					plan[sc.Nonce] = v
				}
				if !v {
					return
				}
				for _, op := range ops {
					if op.Script != nil && op.Script.Nonce == sc.Nonce {
						if c := cancels[op.ReqID]; c != nil {
							sim.Fault("call-context-cancelled-in-handler")
							c()
						}
					}
				}
			}
			hx.OutcomeErr = func(ctx context.Context, sc *hx.Script, err error) error {
				if ctx.Err() != nil {
					return fmt.Errorf("gave up: %w", ctx.Err())
				}
				return err
			}
			defer func() { hx.BeforeOutcome, hx.OutcomeErr = nil, nil }()
			cfgSrv = func(s *vgirpc.Server) {
				s.SetDispatchHook(c02DeadlineHook{byReq: func(reqID string) (context.CancelFunc, func(context.CancelFunc)) {
					return nil, func(c context.CancelFunc) { cancels[reqID] = c }
				}})
			}
		}
		// pipe
		sess := &pipew.Session{Srv: pipew.NewServer(cfgSrv), Ops: ops}
		reason := pipew.RunSession(sim, sess, kn, 30000)
		if reason == simkern.StopDeadlock {
			e.Violate("session-deadlock", "pipe:"+nextSig(sess), "%s", sess.StuckDetail())
		}
		for i, r := range sess.Results {
			if e.Violated() {
				break
			}
			if r.ClientErr != nil {
				e.Violate("response-not-readable", "pipe:"+r.Op.Sig(), "call %d: %v", i, r.ClientErr)
				break
			}
			c04Judge(e, "pipe", i, r.Op, r.AllBatch)
		}
		// HTTP: the same calls from two client tasks against one instance
		if !e.Violated() && reason == simkern.StopDone {
			cl := httpw.NewCluster(httpw.Config{Key: []byte("0123456789abcdef0123456789abcdef"), CacheSizes: []int{-1}, NoTwin: true})
			for c := 0; c < 2; c++ {
				c := c
				sim.Spawn(fmt.Sprintf("http%d", c), func() {
					for i, op := range ops {
						if i%2 != c || e.Violated() {
							continue
						}
						sim.Y("client.op")
						resp := httpw.Post(cl.Inst[0], "/"+op.Method, pipew.RequestBytes(op), httpw.Ident{}, nil)
						if resp.Panicked != nil {
							e.Violate("panic-escaped", "http:"+op.Sig(), "call %d: %v", i, resp.Panicked)
							return
						}
						sts, err := hx.ParseStreams(resp.Decoded)
						if err != nil || len(sts) != 1 {
							e.Violate("response-not-readable", "http:"+op.Sig(), "call %d: status %d, %d streams, err %v", i, resp.Status, len(sts), err)
							return
						}
						c04Judge(e, "http", i, op, sts[0].Batches)
					}
				})
			}
			r2, _ := sim.Run(simkern.RunOpts{MaxSteps: 60000, Done: sim.RootsDone})
			if r2 != simkern.StopDone {
				reason = r2
			}
		}
		e.Conclude(sim, reason, false)
		e.Res.Nontrivial = true
	})
	if left != "" && !e.Violated() {
		e.Harness("bubble: %s", left)
	}
}

func init() {
	Registry["C04"] = &Info{
		Run:   C04,
		Level: "exploration",
		Rule:  "session-oracle check: each run draws 2-8 unary calls over the scripted methods (int64, utf8, float64, bool, binary, list, struct, void) with 0-3 logs at random levels/extras, requested log level, outcome value/error/panic; the history runs once on a simulated pipe (fragmentation/delay knobs, server and client tasks interleaved) and once over HTTP from two concurrent client tasks; distinct = schedule fingerprint; every run is non-trivial (at least two calls)",
		Real:  []string{"vgirpc.Server serveUnary / HttpServer.handleUnary, CallContext.ClientLog, wire writers, result serialization"},
		Stub:  []string{"transports (sim pipe, direct ServeHTTP)", "protocol client", "scripted handlers"},
		Quick: 800, Thorough: 80000,
		FaultKinds: []string{"read-fragmentation", "write-delay", "call-context-cancelled-in-handler"},
		Assumptions: []string{"input family bounded by the compiled-in scripted result types", "no schedule dependence of its own: the simulator contributes position-in-history, transport, chunking and interleaving only"},
	}
}
