package checks

import (
	"bytes"
	"errors"
	"fmt"

	"verifsim/hx"
	"verifsim/simkern"
	"verifsim/worlds/httpw"
	"verifsim/worlds/pipew"

	"github.com/Query-farm/vgi-rpc-go/vgirpc"
	"github.com/apache/arrow-go/v18/arrow"
	"github.com/apache/arrow-go/v18/arrow/ipc"
	"github.com/klauspost/compress/zstd"
)

// simStore is the simulated object store behind ExternalStorage. Uploads are
// attributed to the task that performed them (uploads happen synchronously
// inside the request's goroutine).
type simStore struct {
	sim     *simkern.Sim
	n       int
	objects map[string][]byte
	// arrowBytes uploaded per task name since the last reset
	perTask map[string]int64
	uploads int
	// failUp, when set, decides per upload whether the store refuses it
	failUp func() bool
}

func (s *simStore) Upload(data []byte, schema *arrow.Schema, contentEncoding string) (string, error) {
	s.sim.Y("store.upload")
	if s.failUp != nil && s.failUp() {
		s.sim.Fault("upload-failure")
		return "", errors.New("sim: object store refused the upload")
	}
	s.n++
	url := fmt.Sprintf("https://store.sim/obj/%d", s.n)
	raw := data
	if contentEncoding == "zstd" {
		dec, err := zstd.NewReader(nil, zstd.WithDecoderConcurrency(1))
		if err == nil {
			if out, derr := dec.DecodeAll(data, nil); derr == nil {
				raw = out
			}
			dec.Close()
		}
	}
	s.objects[url] = raw
	s.uploads++
	name := "?"
	if t := s.sim.Current(); t != nil {
		name = t.Name
	}
	s.perTask[name] += arrowSizeOfIPC(raw)
	return url, nil
}

// arrowSizeOfIPC is the Arrow (top-level buffer) size of the batches in an IPC
// stream, computed the way the documentation describes the cap's unit.
func arrowSizeOfIPC(raw []byte) int64 {
	rd, err := ipc.NewReader(bytes.NewReader(raw))
	if err != nil {
		return int64(len(raw))
	}
	defer rd.Release()
	var total int64
	for rd.Next() {
		rec := rd.RecordBatch()
		for i := 0; i < int(rec.NumCols()); i++ {
			for _, b := range rec.Column(i).Data().Buffers() {
				if b != nil {
					total += int64(b.Len())
				}
			}
		}
	}
	return total
}

// cumulativeSizes re-encodes the last IPC stream of body batch by batch and
// returns, for every batch, the stream size after it was written, plus the
// decoded batches. Same library and options as the server, so the prefix
// sizes equal the server's buffer sizes at those points.
func cumulativeSizes(body []byte) ([]int, []hx.Batch, error) {
	// skip a leading header stream if present
	sts, err := hx.ParseStreams(body)
	if err != nil || len(sts) == 0 {
		return nil, nil, fmt.Errorf("unreadable body: %v", err)
	}
	off := 0
	for i := 0; i < len(sts)-1; i++ {
		off += sts[i].Bytes
	}
	rd, err := ipc.NewReader(bytes.NewReader(body[off:]))
	if err != nil {
		return nil, nil, err
	}
	defer rd.Release()
	var buf bytes.Buffer
	w := ipc.NewWriter(&buf, ipc.WithSchema(rd.Schema()))
	var cum []int
	var bs []hx.Batch
	for rd.Next() {
		rec := rd.RecordBatch()
		if err := w.Write(rec); err != nil {
			return nil, nil, err
		}
		cum = append(cum, buf.Len())
		bs = append(bs, hx.DecodeBatch(rec))
	}
	_ = w.Close()
	return cum, bs, nil
}

// C19 — response size caps hold on every response.
func C19(e *simkern.Env) {
	tp := e.Tape
	pad := tp.Pick(300, 50, 1200, 4000)
	storage := tp.Bool(1, 3)
	wireCap := int64(0)
	if !storage || tp.Bool(1, 2) {
		wireCap = int64(tp.Pick(pad/2, pad, pad+400, 2*pad+600, 5*pad, 60))
	}
	extCap := int64(0)
	threshold := int64(0)
	if storage {
		threshold = int64(tp.Pick(pad/2, pad, 64))
		extCap = int64(tp.Pick(pad/2, pad+64, 3*pad, 0))
	}
	batchLimit := tp.Draw(4)
	compress := tp.Bool(1, 3)
	extCompress := storage && tp.Bool(1, 2)
	upFail := storage && tp.Bool(1, 2) // the object store refuses one upload in four
	if upFail && tp.Bool(1, 2) {
		// long producer turns with several uploads around the external cap, so
		// that a refused upload lands between two accepted ones
		batchLimit, wireCap = 0, 0
		extCap = int64(pad) * int64(tp.Pick(3, 4, 5))
		threshold = 64
	}
	e.Knob("pad", pad)
	e.Knob("max_response_bytes", wireCap)
	e.Knob("max_externalized_response_bytes", extCap)
	e.Knob("threshold", threshold)
	e.Knob("storage", storage)
	e.Knob("uploads_may_fail", upFail)
	e.Knob("batch_limit", batchLimit)
	e.Knob("compression", compress)
	var sample []string
	left := e.Bubble(func() {
		sim := simkern.NewSim(tp, e.Trace)
		defer sim.Close()
		hx.Rec.Reset()
		store := &simStore{sim: sim, objects: map[string][]byte{}, perTask: map[string]int64{}}
		if upFail {
			store.failUp = func() bool { return tp.Draw(4) == 0 }
		}
		comp := -1
		if compress {
			comp = 0
		}
		setup := func(i int, srv *vgirpc.Server, h *vgirpc.HttpServer) {
			if wireCap > 0 {
				h.SetMaxResponseBytes(wireCap)
			}
			if storage {
				cfg := vgirpc.DefaultExternalLocationConfig(store)
				cfg.ExternalizeThresholdBytes = threshold
				if extCompress {
					cfg.Compression = &vgirpc.Compression{Algorithm: "zstd", Level: 3}
				}
				srv.SetExternalLocation(cfg)
				if extCap > 0 {
					h.SetMaxExternalizedResponseBytes(extCap)
				}
			}
		}
		cl := httpw.NewCluster(httpw.Config{Key: []byte("0123456789abcdef0123456789abcdef"), CacheSizes: []int{-1}, BatchLimit: batchLimit, NoTwin: true, Compression: comp, Setup: setup})
		hdr := map[string]string{}
		if compress {
			hdr["Accept-Encoding"] = "zstd"
		}
		judged := 0
		// judgeResponse applies the per-response clauses. kind: unary | exchange | producer
		judgeResponse := func(kind, site string, resp *hx.Resp, taskName string, finishedOrErr *bool) bool {
			judged++
			if resp.Panicked != nil {
				e.Violate("panic", site, "panic: %v", resp.Panicked)
				return true
			}
			t := httpw.Decode(resp)
			isErr := t.Err != nil
			up := store.perTask[taskName]
			store.perTask[taskName] = 0
			if extCap > 0 && !isErr && up > extCap {
				e.Violate("external-cap-exceeded", site, "%s response succeeded although its uploads have Arrow size %d > max_externalized_response_bytes %d", kind, up, extCap)
				return true
			}
			if extCap > 0 && kind == "producer" && up > extCap {
				e.Violate("external-cap-exceeded", site, "producer turn uploaded Arrow size %d > max_externalized_response_bytes %d", up, extCap)
				return true
			}
			if up > 0 {
				sim.Probe("uploaded")
			}
			if isErr {
				sim.Probe("error-response")
				*finishedOrErr = true
				return false
			}
			if wireCap <= 0 {
				return false
			}
			switch kind {
			case "unary", "exchange":
				if int64(len(resp.Body)) > wireCap {
					e.Violate("wire-cap-exceeded", site, "%s response body is %d bytes > max_response_bytes %d and was not replaced by an error", kind, len(resp.Body), wireCap)
					return true
				}
			case "producer":
				cum, bs, err := cumulativeSizes(resp.Decoded)
				if err != nil {
					e.Violate("unreadable-response", site, "%v", err)
					return true
				}
				lastData, prevData := -1, -1
				for i, b := range bs {
					if b.Kind == "data" || b.Kind == "pointer" {
						prevData = lastData
						lastData = i
					}
				}
				if prevData >= 0 && int64(cum[prevData]) > wireCap {
					n := 0
					for _, b := range bs {
						if b.Kind == "data" || b.Kind == "pointer" {
							n++
						}
					}
					e.Violate("producer-overshoots-cap-by-more-than-one-batch", site, "producer response: the body already held %d bytes (> max_response_bytes %d) before its last data batch was produced; %d data batches, %d bytes in total", cum[prevData], wireCap, n, len(resp.Decoded))
					return true
				}
				if int64(len(resp.Decoded)) > wireCap {
					sim.Probe("producer-soft-overshoot")
				}
			}
			return false
		}
		nClients := 1 + tp.Draw(2)
		for c := 0; c < nClients; c++ {
			c := c
			name := fmt.Sprintf("client%d", c)
			sim.Spawn(name, func() {
				nOps := 1 + tp.Draw(3)
				for o := 0; o < nOps && !e.Violated(); o++ {
					nonce := int64(19000 + c*100 + o)
					switch tp.Draw(3) {
					case 0: // unary
						sim.Y("client.op")
						op := &pipew.Op{Kind: "unary", Method: "u_str", Script: &hx.Script{Nonce: nonce, Outcome: "ok", Pad: pad * (1 + tp.Draw(3))}, CancelAt: -1}
						store.perTask[name] = 0
						resp := httpw.Post(cl.Inst[0], "/u_str", pipew.RequestBytes(op), httpw.Ident{}, hdr)
						fin := false
						sample = append(sample, fmt.Sprintf("unary pad=%d -> %d bytes", op.Script.Pad, len(resp.Body)))
						if judgeResponse("unary", "unary", resp, name, &fin) {
							return
						}
					case 1: // exchange
						sc := &hx.Script{Nonce: nonce, Outcome: "ok", Mode: "exchange", Pad: pad}
						nt := 2 + tp.Draw(3)
						for k := 0; k < nt; k++ {
							sc.Turns = append(sc.Turns, hx.Step{Act: "emit", Rows: 1 + tp.Draw(4)})
						}
						op := &pipew.Op{Kind: "stream", Method: "exch2", Script: sc, StreamKind: "exchange", CancelAt: -1, Inputs: nt}
						stop := false
						res := httpw.RunStream(op, httpw.StreamOpts{
							Pick: func() *httpw.Instance { return cl.Inst[0] }, Header: hdr,
							BeforeRequest: func(string) { sim.Y("client.request"); store.perTask[name] = 0 },
							OnResponse: func(kind string, _ *httpw.Instance, resp *hx.Resp, _ []byte) {
								if kind == "exchange" && !stop {
									fin := false
									stop = judgeResponse("exchange", "exchange", resp, name, &fin)
								}
							},
						})
						sample = append(sample, fmt.Sprintf("exchange turns=%d ended=%s", nt, res.Ended))
					case 2: // producer
						sc := &hx.Script{Nonce: nonce, Outcome: "ok", Mode: "producer", Pad: pad}
						nt := 2 + tp.Draw(8)
						for k := 0; k < nt; k++ {
							sc.Turns = append(sc.Turns, hx.Step{Act: "emit", Rows: 1 + tp.Draw(3)})
						}
						op := &pipew.Op{Kind: "stream", Method: "prod2", Script: sc, StreamKind: "producer", CancelAt: -1, Inputs: nt + 2}
						stop, ended := false, false
						responses := 0
						res := httpw.RunStream(op, httpw.StreamOpts{
							Pick: func() *httpw.Instance { return cl.Inst[0] }, Header: hdr,
							BeforeRequest: func(string) { sim.Y("client.request"); store.perTask[name] = 0 },
							OnResponse: func(kind string, _ *httpw.Instance, resp *hx.Resp, _ []byte) {
								responses++
								if !stop {
									stop = judgeResponse("producer", "producer", resp, name, &ended)
								}
							},
						})
						sample = append(sample, fmt.Sprintf("producer turns=%d responses=%d ended=%s", nt, responses, res.Ended))
						if stop || e.Violated() {
							return
						}
						// conservation: the full stream still arrives across turns, once, in order
						if !storage && !ended {
							if streamJudge(e, "producer-conservation:", o, res, false) {
								return
							}
							sim.Probe("producer-conserved")
						}
						if storage && !ended && res.ClientErr == nil {
							// with external storage the values travel as pointers; the
							// stream must still deliver one batch per scripted turn
							got := 0
							for _, t := range res.Turns {
								if t.Data != nil {
									got++
								}
							}
							if got != nt {
								e.Violate("producer-stream-truncated", "producer-conservation", "producer of %d batches: the client received %d data/pointer batches over %d responses and a clean end of stream (ended %q)", nt, got, responses, res.Ended)
								return
							}
							sim.Probe("producer-conserved-by-count")
						}
						if responses > 1 {
							sim.Probe("producer-multi-turn")
						}
					}
				}
			})
		}
		reason, _ := sim.Run(simkern.RunOpts{MaxSteps: 300000, Done: sim.RootsDone})
		e.Conclude(sim, reason, false)
		e.Res.Nontrivial = judged > 0 && (wireCap > 0 || extCap > 0)
	})
	if left != "" && !e.Violated() {
		e.Harness("bubble: %s", left)
	}
	e.Res.Sample = firstN(sample, 6)
}

func init() {
	Registry["C19"] = &Info{
		Run:   C19,
		Level: "exploration",
		Rule:  "each run draws payload size (50..4000 bytes per row), max_response_bytes around the sizes the workload emits, external storage on/off with threshold and max_externalized_response_bytes around them, upload compression, producer batch limit 0-3 and response compression; 1-2 concurrent client tasks issue unary calls, exchange streams and producer streams (2-9 turns, 1-4 rows per batch); every response is judged; the object store refuses one upload in four in half of the runs with storage; producer transcripts are checked for conservation (whole stream, once, in order when storage is off; one data or pointer batch per scripted turn when it is on); distinct = schedule fingerprint; non-trivial = a cap is configured and at least one response was judged",
		Real:  []string{"vgirpc.HttpServer unary / exchange / producer paths, enforceResponseBudgets, checkExternalBudget, externalizeBatchCtx, response compression"},
		Stub:  []string{"HTTP transport", "object store behind ExternalStorage (records Arrow size of every upload per request)", "scripted handlers"},
		Quick: 600, Thorough: 60000,
		Warm: warmHTTP, FaultKinds: []string{"upload-failure"},
		Assumptions: []string{"unary/exchange wire cap is judged on the bytes that crossed the wire (post-compression); the producer clause is judged on the uncompressed IPC body, re-encoded batch by batch with the same Arrow library to obtain prefix sizes", "Arrow size of an upload = sum of top-level column buffer lengths of the uploaded batches"},
	}
}
