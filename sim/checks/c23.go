package checks

import (
	"context"
	"fmt"
	"net/http"
	"strconv"
	"strings"

	"verifsim/hx"
	"verifsim/simkern"
	"verifsim/worlds/authw"
	"verifsim/worlds/httpw"

	"github.com/Query-farm/vgi-rpc-go/vgirpc"
)

// c23Outcome is what one link of the authenticator chain answers for one
// request (taken from the fault plan).
type c23Outcome struct {
	ok  bool
	err *authw.ErrSpec
	// withCtx: the failing link also returns a non-nil context (the error
	// alone decides: "return a non-nil error to reject the request")
	withCtx bool
}

func (o c23Outcome) String() string {
	if o.ok {
		return "ok"
	}
	return o.err.String()
}

type c23Req struct {
	id       int64
	kind     string
	outcomes []c23Outcome
	trace    []int // links actually invoked, in order
	// cancelAt >= 0: the request's context is cancelled while that link is
	// answering (the caller gave up, or a deadline in front of the server
	// passed, while the authority was slow)
	cancelAt int
	cancel   context.CancelFunc
}

// ---- the oracle: an independent table written from the property statement ----

// c23Class classifies an error value by the statement alone:
//
//	"unavailable" an AuthUnavailableError anywhere in the error chain (any
//	              wrapper, including multi-errors)                         -> 503 + its Retry-After
//	"rejected"    otherwise an AuthFailure in the Unwrap chain, or an
//	              RpcError ValueError/PermissionError returned directly    -> 401
//	"ambiguous"   otherwise an AuthFailure reachable only through a
//	              multi-error (Unwrap() []error): whether that is "in the
//	              Unwrap chain" is not decided by the statement            -> 401 or 500
//	"error"       anything else                                            -> 500
//
// retry is the set of Retry-After values the statement allows (one per
// AuthUnavailableError in the tree; unset = the documented default).
func c23Class(s *authw.ErrSpec) (cls string, retry map[string]bool) {
	// c23DefaultRetryAfter is taken from the documentation of
	// AuthUnavailableError.RetryAfter ("Zero means the package default") and
	// the doc comment of the default ("Retry-After hint on a 503 ... Short on
	// purpose", declared as 5 seconds in auth.go).
	const c23DefaultRetryAfter = 5
	retry = map[string]bool{}
	anyFailure := false
	for _, l := range s.Leaves() {
		switch l.Kind {
		case authw.KUnavail:
			ra := l.Retry
			if ra <= 0 {
				ra = c23DefaultRetryAfter
			}
			retry[strconv.Itoa(ra)] = true
		case authw.KFailure:
			anyFailure = true
		}
	}
	if len(retry) > 0 {
		return "unavailable", retry
	}
	tail := s.LinearTail()
	if tail.Kind == authw.KFailure {
		return "rejected", nil
	}
	if s.Kind == authw.KRpc && (s.Type == "ValueError" || s.Type == "PermissionError") {
		return "rejected", nil
	}
	if anyFailure {
		return "ambiguous", nil
	}
	return "error", nil
}

// c23DirectValueError: "a directly returned ValueError RpcError" — the only
// outcome a chain may move on past.
func c23DirectValueError(s *authw.ErrSpec) bool {
	return s.Kind == authw.KRpc && s.Type == "ValueError"
}

// C23 — authenticator failures map to the right status and chains stop correctly.
func C23(e *simkern.Env) {
	tp := e.Tape
	// 0 = a bare authenticator installed directly; 1..4 = ChainAuthenticate of n links
	chainLen := tp.Draw(5)
	nLinks := chainLen
	if nLinks == 0 {
		nLinks = 1
	}
	prefix := []string{"", "/vgi", "/a/b"}[tp.Draw(3)]
	withMeta := !tp.Bool(1, 3)
	withClientID := tp.Bool(1, 2)
	withIntrospect := !tp.Bool(1, 3)
	nClients := 1 + tp.Draw(3)
	ops := 3 + tp.Draw(6)
	depth := 3
	if e.Tier == "thorough" {
		ops = 4 + tp.Draw(10)
		depth = 4
	}
	// one run in five with a chain of two or more: a steady history — most
	// requests are accepted by the same link behind the head (the links before
	// it decline with a direct ValueError), for long enough that anything the
	// chain remembers about earlier requests has settled
	favourite := -1
	if chainLen >= 2 && tp.Bool(1, 5) {
		favourite = 1 + tp.Draw(chainLen-1)
		ops = 10 + tp.Draw(8)
		nClients = 1 + tp.Draw(2)
	}
	e.Knob("steady_link", favourite)
	e.Knob("chain_len", chainLen)
	e.Knob("prefix", prefix)
	e.Knob("oauth_metadata", withMeta)
	e.Knob("client_id", withClientID)
	e.Knob("introspection", withIntrospect)
	e.Knob("clients", nClients)

	var sample []string
	left := e.Bubble(func() {
		sim := simkern.NewSim(tp, e.Trace)
		defer sim.Close()
		hx.Rec.Reset()

		plan := map[string]*c23Req{}
		orphans := 0
		resolverCalls := 0
		mkLink := func(i int) vgirpc.AuthenticateFunc {
			return func(r *http.Request) (*vgirpc.AuthContext, error) {
				sim.Y("auth.link")
				rq := plan[r.Header.Get("X-Sim-Req")]
				if rq == nil {
					orphans++
					return vgirpc.Anonymous(), nil
				}
				rq.trace = append(rq.trace, i)
				o := rq.outcomes[i]
				if rq.cancelAt == i && rq.cancel != nil {
					sim.Fault("request-context-cancelled-during-auth")
					rq.cancel()
				}
				if o.ok {
					return &vgirpc.AuthContext{Domain: fmt.Sprintf("d%d", i), Principal: fmt.Sprintf("p%d", i), Authenticated: true}, nil
				}
				sim.Fault(o.err.FaultKind())
				if o.withCtx {
					sim.Fault("auth-error-with-context")
					return &vgirpc.AuthContext{Domain: fmt.Sprintf("d%d", i), Principal: "partial", Authenticated: true}, o.err.Build()
				}
				return nil, o.err.Build()
			}
		}
		links := make([]vgirpc.AuthenticateFunc, nLinks)
		for i := range links {
			links[i] = mkLink(i)
		}
		authFn := links[0]
		if chainLen > 0 {
			authFn = vgirpc.ChainAuthenticate(links...)
		}
		resource := "https://rpc.example.test" + prefix
		// RFC 9728 section 3.1: the well-known segment is inserted between the
		// host and the path of the resource identifier.
		wantMetaURL := "https://rpc.example.test/.well-known/oauth-protected-resource" + prefix
		setupErr := ""
		cl := httpw.NewCluster(httpw.Config{
			Key: []byte("0123456789abcdef0123456789abcdef"), CacheSizes: []int{-1}, NoTwin: true,
			Setup: func(i int, srv *vgirpc.Server, h *vgirpc.HttpServer) {
				h.SetPrefix(prefix)
				h.SetAuthenticate(authFn)
				if withMeta {
					m := &vgirpc.OAuthResourceMetadata{Resource: resource, AuthorizationServers: []string{"https://idp.example.test"}}
					if withClientID {
						m.ClientID = "sim-client"
					}
					if err := h.SetOAuthResourceMetadata(m); err != nil {
						setupErr = err.Error()
					}
				}
				if withIntrospect {
					ps := make([]string, nLinks)
					for k := range ps {
						ps[k] = fmt.Sprintf("p%d", k)
					}
					if err := h.EnableTokenIntrospection(vgirpc.TokenIntrospectionConfig{
						Resolver: func(cred string) (vgirpc.TokenIdentity, bool, error) {
							resolverCalls++
							return vgirpc.TokenIdentity{Principal: "subject", TokenName: "t"}, true, nil
						},
						Principals: ps, RateLimitPerSecond: 100000,
					}); err != nil {
						setupErr = err.Error()
					}
				}
			},
		})
		if setupErr != "" {
			e.Harness("C23 setup: %s", setupErr)
			return
		}
		inst := cl.Inst[0]
		hx.RequestContext = func(r *http.Request) context.Context {
			rq := plan[r.Header.Get("X-Sim-Req")]
			if rq == nil || rq.cancelAt < 0 {
				return r.Context()
			}
			ctx, cancel := context.WithCancel(r.Context())
			rq.cancel = cancel
			return ctx
		}
		defer func() { hx.RequestContext = nil }()
		nextID := int64(1000)
		judged := 0

		closed := map[string]bool{}
		for _, r := range authw.Reasons {
			closed[r] = true
		}

		judge := func(rq *c23Req, resp *hx.Resp) {
			judged++
			// --- expected call trace and final outcome, from the statement ---
			var want []int
			var final *c23Outcome
			for i := 0; i < nLinks; i++ {
				want = append(want, i)
				o := rq.outcomes[i]
				if !o.ok && chainLen > 0 && c23DirectValueError(o.err) {
					continue // the only outcome a chain moves on past
				}
				final = &rq.outcomes[i]
				break
			}
			var outs []string
			for _, o := range rq.outcomes {
				outs = append(outs, o.String())
			}
			desc := fmt.Sprintf("%s request, chain_len=%d (0 = bare authenticator), link outcomes [%s]; links invoked %v; response status %d reason=%q retry-after=%q cache-control=%q www-authenticate=%q",
				rq.kind, chainLen, strings.Join(outs, " | "), rq.trace, resp.Status, resp.Header.Get("VGI-Auth-Reason"), resp.Header.Get("Retry-After"), resp.Header.Get("Cache-Control"), resp.Header.Get("WWW-Authenticate"))
			if resp.Panicked != nil {
				e.Violate("panic-in-authenticate", rq.kind, "%s: panic %v", desc, resp.Panicked)
				return
			}
			if fmt.Sprint(rq.trace) != fmt.Sprint(want) {
				e.Violate("chain-trace", "chain", "%s: the statement allows exactly links %v to be consulted", desc, want)
				return
			}
			if len(want) > 1 {
				sim.Probe("chain-advanced-past-valueerror")
			}
			check401 := func(site string) bool {
				if r := resp.Header.Get("VGI-Auth-Reason"); !closed[r] {
					e.Violate("reason-not-in-closed-set", site, "%s", desc)
					return false
				}
				if !strings.Contains(resp.Header.Get("Cache-Control"), "no-store") {
					e.Violate("rejection-cacheable", site, "%s: a 401 must carry Cache-Control: no-store", desc)
					return false
				}
				www := resp.Header.Get("WWW-Authenticate")
				if withMeta {
					ok := strings.HasPrefix(www, "Bearer ") && strings.Contains(www, `resource_metadata="`+wantMetaURL+`"`)
					if withClientID && !strings.Contains(www, `client_id="sim-client"`) {
						ok = false
					}
					if !ok {
						e.Violate("www-authenticate", site, "%s: configured challenge must name %s", desc, wantMetaURL)
						return false
					}
				} else if www != "" {
					e.Violate("www-authenticate", site, "%s: no challenge is configured", desc)
					return false
				}
				return true
			}
			if final == nil {
				// every link declined with a directly returned ValueError
				sim.Probe("chain-exhausted")
				if resp.Status != 401 {
					e.Violate("wrong-status", "exhausted", "%s: every link rejected the credential; expected 401", desc)
					return
				}
				check401("exhausted")
				return
			}
			if final.ok {
				sim.Probe("outcome-success")
				k := want[len(want)-1]
				wantP := fmt.Sprintf("d%d|p%d", k, k)
				switch rq.kind {
				case "unary", "init":
					rec := hx.Rec.Get(rq.id)
					if resp.Status != 200 || rec.InitCalls != 1 {
						e.Violate("wrong-status", "success", "%s: link %d accepted the request; expected 200 and one handler call (got %d)", desc, k, rec.InitCalls)
						return
					}
					if len(rec.Principals) == 0 || rec.Principals[0] != wantP {
						e.Violate("wrong-principal", "chain-success", "%s: handler saw %v, the first success was link %d (%s)", desc, rec.Principals, k, wantP)
					}
				default:
					if resp.Status != 200 {
						e.Violate("wrong-status", "success", "%s: link %d accepted the request; expected 200", desc, k)
					}
				}
				return
			}
			cls, retry := c23Class(final.err)
			site := cls + "/" + final.err.Kind
			switch cls {
			case "unavailable":
				sim.Probe("outcome-unavailable")
				if final.err.Wrapped() {
					sim.Probe("unavailable-wrapped")
				}
				if final.err.LinearTail().Kind != authw.KUnavail {
					sim.Probe("unavailable-behind-multi-error")
				}
				if resp.Status != 503 {
					e.Violate("wrong-status", site, "%s: an AuthUnavailableError is in the error chain; expected 503", desc)
					return
				}
				if !retry[resp.Header.Get("Retry-After")] {
					e.Violate("retry-after", site, "%s: expected Retry-After in %v", desc, simkern.SortedKeys(retry))
				}
			case "rejected":
				sim.Probe("outcome-rejected")
				if final.err.Wrapped() {
					sim.Probe("failure-wrapped")
				}
				if resp.Status != 401 {
					e.Violate("wrong-status", site, "%s: a rejection; expected 401", desc)
					return
				}
				check401(site)
			case "ambiguous":
				sim.Probe("outcome-failure-behind-multi-error")
				if resp.Status == 401 {
					check401(site)
				} else if resp.Status != 500 {
					e.Violate("wrong-status", site, "%s: expected 401 or 500", desc)
				}
			default:
				sim.Probe("outcome-other-error")
				if final.err.Kind != authw.KRpc && final.err.Kind != authw.KForeign {
					sim.Probe("wrapped-rpcerror-or-foreign-is-500")
				}
				if resp.Status != 500 {
					e.Violate("wrong-status", site, "%s: neither unavailable nor a rejection; expected 500", desc)
				}
			}
		}

		client := func(ci int) func() {
			return func() {
				for op := 0; op < ops && !e.Violated(); op++ {
					sim.Y("client.idle")
					nextID++
					rq := &c23Req{id: nextID, cancelAt: -1}
					steady := favourite >= 0 && !tp.Bool(1, 6)
					kinds := []string{"unary", "init", "describe"}
					if withIntrospect {
						kinds = append(kinds, "introspect")
					}
					rq.kind = kinds[tp.Draw(len(kinds))]
					for i := 0; i < nLinks; i++ {
						var o c23Outcome
						if steady && i <= favourite {
							if i == favourite {
								o.ok = true
							} else {
								o.err = &authw.ErrSpec{Kind: authw.KRpc, Type: "ValueError"}
							}
							rq.outcomes = append(rq.outcomes, o)
							continue
						}
						switch tp.Draw(4) {
						case 0:
							o.ok = true
						case 1, 2:
							o.err = &authw.ErrSpec{Kind: authw.KRpc, Type: "ValueError"}
						default:
							o.err = authw.Gen(tp, depth)
						}
						if !o.ok {
							o.withCtx = tp.Bool(1, 4)
						}
						rq.outcomes = append(rq.outcomes, o)
					}
					// the link at which the chain stops; when it stops with a
					// failure, the caller may give up while that link answers
					stop := nLinks - 1
					for i, o := range rq.outcomes {
						if o.ok || chainLen == 0 || !c23DirectValueError(o.err) {
							stop = i
							break
						}
					}
					if !rq.outcomes[stop].ok && tp.Bool(1, 5) {
						rq.cancelAt = stop
					}
					ids := strconv.FormatInt(rq.id, 10)
					plan[ids] = rq
					hdr := map[string]string{"X-Sim-Req": ids}
					var req hx.Req
					switch rq.kind {
					case "unary":
						sc := &hx.Script{Nonce: rq.id, Outcome: "ok"}
						req = hx.Req{Path: prefix + "/u_int", Body: hx.RequestBytes("u_int", sc, hx.Meta{})}
					case "init":
						sc := &hx.Script{Nonce: rq.id, Outcome: "ok", Mode: "exchange"}
						req = hx.Req{Path: prefix + "/exch2/init", Body: hx.RequestBytes("exch2", sc, hx.Meta{})}
					case "describe":
						req = hx.Req{Path: prefix + "/__describe__", Body: hx.RawRequestBytes(hx.EmptyBatch(), hx.M(hx.KMethod, "__describe__", hx.KReqVersion, "1"))}
					default:
						hdr["Content-Type"] = "application/json"
						req = hx.Req{Path: prefix + "/__introspect_token__", Body: []byte(`{"token":"opaque-` + ids + `"}`)}
					}
					req.Header = hdr
					resp := hx.Do(inst.H, req)
					sim.Logf("c%d %s #%d -> %d trace=%v", ci, rq.kind, rq.id, resp.Status, rq.trace)
					judge(rq, resp)
					if len(sample) < 6 {
						var outs []string
						for _, o := range rq.outcomes {
							outs = append(outs, o.String())
						}
						sample = append(sample, fmt.Sprintf("%s [%s] -> %d invoked=%v", rq.kind, strings.Join(outs, " | "), resp.Status, rq.trace))
					}
				}
			}
		}
		for ci := 0; ci < nClients; ci++ {
			sim.Spawn(fmt.Sprintf("client%d", ci), client(ci))
		}
		reason, _ := sim.Run(simkern.RunOpts{MaxSteps: 20000, Done: sim.RootsDone})
		if orphans > 0 {
			e.Harness("C23: %d authenticator calls without a plan", orphans)
		}
		e.Conclude(sim, reason, false)
		f := e.Res.Faults
		e.Res.Nontrivial = judged > 0 && (f["auth-unavailable"]+f["auth-failure"]+f["auth-rpcerror"]+f["auth-foreign-error"] > 0)
		_ = resolverCalls
	})
	if left != "" {
		e.Harness("bubble: %s", left)
	}
	e.Res.Sample = sample
}

func init() {
	Registry["C23"] = &Info{
		Run:   C23,
		Level: "exploration",
		Rule: "fault sequence on the authority seam: each run draws a configuration (bare authenticator or ChainAuthenticate of 1-4 links, prefix, OAuth metadata/client id, introspection) and 1-3 client tasks; for every request the tape draws one outcome per link — success, a directly returned ValueError RpcError, or an error tree (AuthUnavailableError with/without RetryAfter, AuthFailure with each of the six reasons or the empty reason, RpcError of seven types, foreign error; wrapped 0-3 deep (0-4 in thorough) by fmt.Errorf %w, a custom Unwrap type, errors.Join, or two %w verbs) — and the real authenticate()/ChainAuthenticate code maps it; one failing request in five has its context cancelled while the deciding link answers; one chain run in five is a steady history (10-17 requests per client, most accepted by the same link behind the head); the verdict comes from a table written from the property statement (status, Retry-After, reason in the closed set, no-store, WWW-Authenticate per RFC 9728) and from the call trace of the links. This property has very little schedule in it: the links yield so requests of different clients interleave inside the chain, but the substance is the outcome sequence; distinct = distinct schedule+outcome fingerprint; non-trivial = at least one link returned an error",
		Real:  []string{"vgirpc.HttpServer.authenticate, writeUnauthorized, classifyAuthError", "vgirpc.ChainAuthenticate", "unary / stream-init / __describe__ / introspection routes", "vgirpc.Server dispatch"},
		Stub:  []string{"authenticator links (outcome from the tape)", "HTTP transport (direct ServeHTTP call)", "token resolver", "scripted methods"},
		Quick: 1600, Thorough: 120000,
		Warm:       warmHTTP,
		FaultKinds: []string{"auth-unavailable", "auth-failure", "auth-rpcerror", "auth-foreign-error", "auth-error-with-context", "request-context-cancelled-during-auth"},
		Assumptions: []string{
			"the default Retry-After (5 s) is taken from the doc comments of AuthUnavailableError.RetryAfter / defaultAuthRetryAfterSeconds in auth.go (there is no separate specification document in the repository)",
			"an AuthFailure reachable only through a multi-error (errors.Join or several %w: Unwrap() []error) is not decided by the statement's 'in the Unwrap chain': 401 and 500 are both accepted (a 401 must still be well-formed)",
			"when several AuthUnavailableError values sit in one error tree, the Retry-After of any of them is accepted",
			"a chain whose every link returned a direct ValueError is expected to end in 401 (ChainAuthenticate's doc comment: it returns a ValueError RpcError); the statement itself is silent on exhaustion",
			"AuthFailure.Reason is drawn from the six declared constants and the empty string; application-invented reason strings are not generated (the code passes them through verbatim)",
			"the statement asks for 'a reason code from the closed set', so only membership is checked, not which member",
			"WWW-Authenticate is checked for the Bearer scheme, the RFC 9728 resource_metadata URL and the client_id parameter, not byte-for-byte; negative RetryAfter values are not generated",
		},
	}
}
