package checks

import (
	"context"
	"fmt"
	"net/http"
	"sort"

	"verifsim/hx"
	"verifsim/simkern"
	"verifsim/worlds/httpw"
	"verifsim/worlds/pipew"

	"github.com/Query-farm/vgi-rpc-go/vgirpc"
)

// user metadata keys a client may put on a continuation, including keys that
// collide with the framework's own names (other than the three transport keys
// the handler must not see).
var c16UserKeys = []string{"user.k", "vgi_batch_index", "vgi_pushdown_filters", "vgi_rpc.request_id", "vgi_rpc.method", "vgi_rpc.log_level", "vgi_rpc.server_id", "traceparent", "x"}

func anyCursor(t *httpw.Turn) []string {
	var out []string
	for _, st := range t.Streams {
		for _, b := range st.Batches {
			if v, ok := b.Meta[hx.KState]; ok {
				out = append(out, v)
			}
		}
	}
	return out
}

func mapsEqual(a, b map[string]string) bool {
	if len(a) != len(b) {
		return false
	}
	for k, v := range a {
		if bv, ok := b[k]; !ok || bv != v {
			return false
		}
	}
	return true
}

func renderMap(m map[string]string) string {
	ks := make([]string, 0, len(m))
	for k := range m {
		ks = append(ks, k)
	}
	sort.Strings(ks)
	s := "{"
	for _, k := range ks {
		v := m[k]
		if len(v) > 16 {
			v = v[:16] + "…"
		}
		s += k + "=" + v + " "
	}
	return s + "}"
}

// C16 — HTTP continuations advance the stream exactly one turn.
func C16(e *simkern.Env) {
	tp := e.Tape
	nInst := 1 + tp.Draw(2)
	caches := make([]int, nInst)
	for i := range caches {
		caches[i] = tp.Pick(-1, 0)
	}
	nClients := 1 + tp.Draw(2)
	e.Knob("caches", caches)
	// one run in three: external storage with a low threshold, so that turn
	// outputs travel as pointers, and an object store that refuses one upload
	// in three
	ext := tp.Bool(1, 3)
	e.Knob("external_storage_with_failing_uploads", ext)
	var sample []string
	left := e.Bubble(func() {
		sim := simkern.NewSim(tp, e.Trace)
		defer sim.Close()
		hx.Rec.Reset()
		cfg := httpw.Config{Key: []byte("0123456789abcdef0123456789abcdef"), CacheSizes: caches, NoTwin: true}
		var store *simStore
		if ext {
			store = &simStore{sim: sim, objects: map[string][]byte{}, perTask: map[string]int64{}}
			store.failUp = func() bool { return tp.Draw(3) == 0 }
			cfg.Setup = func(i int, srv *vgirpc.Server, h *vgirpc.HttpServer) {
				ec := vgirpc.DefaultExternalLocationConfig(store)
				ec.ExternalizeThresholdBytes = 64
				srv.SetExternalLocation(ec)
			}
		}
		cl := httpw.NewCluster(cfg)
		// a caller that gives up right after sending its cancel: the request
		// arrives with a context that is already done
		hx.RequestContext = func(r *http.Request) context.Context {
			if r.Header.Get("X-Sim-Ctx") == "gone" {
				ctx, cancel := context.WithCancel(r.Context())
				cancel()
				return ctx
			}
			return r.Context()
		}
		defer func() { hx.RequestContext = nil }()
		turnsJudged := 0
		for c := 0; c < nClients; c++ {
			c := c
			sim.Spawn(fmt.Sprintf("client%d", c), func() {
				nStreams := 1 + tp.Draw(2)
				for s := 0; s < nStreams && !e.Violated(); s++ {
					m := []struct{ name, mode string }{{"exch", "exchange"}, {"exch2", "exchange"}, {"dyn", "exchange"}}[tp.Draw(3)]
					nonce := int64(16000 + c*100 + s)
					sc := hx.GenStreamScript(tp, nonce, "exchange", hx.GenOpts{MaxTurns: 6, FailBias: 5, AllowMeta: true, NoHook: true, Unsealable: true})
					sc.Header = m.name != "exch2"
					if ext {
						sc.Pad = 300
					}
					op := &pipew.Op{Kind: "stream", Method: m.name, Script: sc, StreamKind: "exchange", CancelAt: -1}
					inputs := 1 + tp.Draw(len(sc.Turns)+2)
					cancelAt := -1
					if tp.Bool(1, 4) {
						cancelAt = tp.Draw(inputs)
					}
					site := "exchange/" + m.name
					sim.Y("client.init")
					t := httpw.Decode(httpw.Post(cl.Inst[tp.Draw(nInst)], "/"+m.name+"/init", pipew.RequestBytes(op), httpw.Ident{}, nil))
					if t.Cursor == "" || t.Call == "" {
						e.Violate("init-without-tokens", site, "exchange init returned no tokens: %s", t.Resp.ErrText())
						return
					}
					cursor, call := t.Cursor, t.Call
					seen := map[string]bool{cursor: true}
					for k := 0; k < inputs && !e.Violated(); k++ {
						sim.Y("client.turn")
						um := hx.Meta{}
						want := map[string]string{}
						nk := tp.Draw(4)
						for j := 0; j < nk; j++ {
							key := c16UserKeys[tp.Draw(len(c16UserKeys))]
							if _, dup := want[key]; dup {
								continue
							}
							val := fmt.Sprintf("v%d.%d", k, j)
							um = um.Add(key, val)
							want[key] = val
						}
						// sometimes the request repeats the framework's own token keys
						// (a proxy appending tokens to a batch that already carries
						// them): ContBody puts the genuine ones after the user keys, so
						// the user-supplied copies come first or the genuine ones do
						dupTokens := tp.Bool(1, 5)
						before := hx.Rec.Get(nonce)
						inst := cl.Inst[tp.Draw(nInst)]
						if k == cancelAt {
							sim.Fault("client-cancel")
							var xh map[string]string
							if tp.Bool(1, 3) {
								xh = map[string]string{"X-Sim-Ctx": "gone"}
								sim.Fault("cancel-request-context-already-done")
							}
							ct := httpw.Decode(httpw.Post(inst, "/"+m.name+"/exchange", httpw.ContBody(cursor, call, true, nil, false, um), httpw.Ident{}, xh))
							after := hx.Rec.Get(nonce)
							turnsJudged++
							sample = append(sample, fmt.Sprintf("%s n=%d cancel at input %d -> status %d", m.name, nonce, k, ct.Resp.Status))
							if ct.Resp.Panicked != nil {
								e.Violate("panic", site+"/cancel", "panic: %v", ct.Resp.Panicked)
								return
							}
							wantHook := 1
							if sc.NoHook {
								wantHook = 0 // the state has no cancel hook; the stream must still end
							}
							if after.CancelCalls-before.CancelCalls != wantHook {
								e.Violate("cancel-hook-count", site+"/cancel", "cancel continuation ran the cancel hook %d times, expected %d", after.CancelCalls-before.CancelCalls, wantHook)
								return
							}
							if after.ExchangeCalls != before.ExchangeCalls {
								e.Violate("turn-ran-on-cancel", site+"/cancel", "cancel continuation ran an exchange turn")
								return
							}
							nb := 0
							for _, st := range ct.Streams {
								nb += len(st.Batches)
							}
							if ct.Resp.Status != 200 || len(ct.Streams) != 1 || nb != 0 {
								e.Violate("cancel-response-not-empty", site+"/cancel", "cancel response: status %d, %d streams, %d batches", ct.Resp.Status, len(ct.Streams), nb)
								return
							}
							if cs := anyCursor(ct); len(cs) != 0 {
								e.Violate("cursor-on-cancel", site+"/cancel", "cancel response carries a cursor")
								return
							}
							break
						}
						body := httpw.ContBody(cursor, call, false, []int64{int64(k + 1)}, false, um)
						if dupTokens {
							body = httpw.ContBodyDup(cursor, call, false, []int64{int64(k + 1)}, false, um)
							sim.Fault("duplicate-token-keys")
						}
						ct := httpw.Decode(httpw.Post(inst, "/"+m.name+"/exchange", body, httpw.Ident{}, nil))
						after := hx.Rec.Get(nonce)
						turnsJudged++
						var st *hx.Step
						if k < len(sc.Turns) {
							st = &sc.Turns[k]
						}
						act := "emit"
						if st != nil {
							act = st.Act
						}
						tsite := site + "/" + act
						sample = append(sample, fmt.Sprintf("%s n=%d input %d act=%s meta=%s -> status %d", m.name, nonce, k, act, renderMap(want), ct.Resp.Status))
						if ct.Resp.Panicked != nil {
							e.Violate("panic", tsite, "panic: %v", ct.Resp.Panicked)
							return
						}
						if after.ExchangeCalls-before.ExchangeCalls != 1 {
							e.Violate("turns-per-continuation", tsite, "one continuation ran %d exchange turns", after.ExchangeCalls-before.ExchangeCalls)
							return
						}
						// what the handler saw
						if n := len(after.InputMeta); n > 0 {
							got := after.InputMeta[n-1]
							if !mapsEqual(got, want) {
								e.Violate("input-metadata-wrong", tsite, "handler saw input metadata %s, the request carried %s (plus the framework's token keys)", renderMap(got), renderMap(want))
								return
							}
						}
						if after.SawToken {
							e.Violate("handler-saw-token", tsite, "a handler-visible value is a state token")
							return
						}
						cs := anyCursor(ct)
						if store != nil && len(ct.Data) == 1 && ct.Data[0].Kind == "pointer" {
							// the turn's batch went to external storage: the data batch the
							// client ends up with, cursor included, is the stored object
							sim.Probe("turn-output-externalized")
							obj, ok := store.objects[ct.Data[0].Meta[hx.KLocation]]
							if !ok {
								e.Violate("pointer-to-nothing", tsite, "the response points at %q, which the store never accepted", ct.Data[0].Meta[hx.KLocation])
								return
							}
							inner, perr := hx.ParseStreams(obj)
							var ib []hx.Batch
							if perr == nil {
								for _, st := range inner {
									for _, b := range st.Batches {
										if b.Kind == "data" {
											ib = append(ib, b)
										}
									}
								}
							}
							if perr != nil || len(ib) != 1 {
								e.Violate("data-batches-per-turn", tsite, "the stored object holds %d data batches (parse error: %v), expected exactly 1", len(ib), perr)
								return
							}
							ct.Data = ib
							if v, ok := ib[0].Meta[hx.KState]; ok {
								cs = append(cs, v)
							}
						}
						if act == "emit" {
							if ct.Resp.Status != 200 || ct.Err != nil {
								e.Violate("turn-refused", tsite, "emit turn answered %s", ct.Resp.ErrText())
								return
							}
							if len(ct.Data) != 1 {
								e.Violate("data-batches-per-turn", tsite, "%d data batches, expected exactly 1", len(ct.Data))
								return
							}
							if _, ok := ct.Data[0].Meta[hx.KState]; !ok || len(cs) != 1 {
								e.Violate("cursor-not-on-data-batch", tsite, "%d cursors in the response; data batch carries one: %v", len(cs), ok)
								return
							}
							if seen[cs[0]] {
								e.Violate("cursor-not-fresh", tsite, "the returned cursor equals one presented or returned earlier")
								return
							}
							seen[cs[0]] = true
							cursor = cs[0]
							sim.Probe("turn-accepted")
						} else {
							if ct.Err == nil {
								e.Violate("failed-turn-without-error", tsite, "failing turn (%s) answered without an exception batch: %s", act, ct.Resp.ErrText())
								return
							}
							if len(cs) != 0 {
								e.Violate("cursor-after-failed-turn", tsite, "failing turn (%s) still returned a cursor", act)
								return
							}
							if len(ct.Data) != 0 {
								e.Violate("data-after-failed-turn", tsite, "failing turn (%s) returned a data batch", act)
								return
							}
							sim.Probe("turn-failed")
							break
						}
					}
				}
			})
		}
		reason, _ := sim.Run(simkern.RunOpts{MaxSteps: 200000, Done: sim.RootsDone})
		e.Conclude(sim, reason, false)
		e.Res.Nontrivial = turnsJudged > 0
	})
	if left != "" && !e.Violated() {
		e.Harness("bubble: %s", left)
	}
	e.Res.Sample = firstN(sample, 6)
}

func init() {
	Registry["C16"] = &Info{
		Run:   C16,
		Level: "exploration",
		Rule:  "each run draws 1-2 instances (cache default/0), 1-2 concurrent client tasks each driving 1-2 exchange streams (exch, exch2, dynamic) with 0-6 scripted turns incl. one failing turn (error, panic, no-emit, double-emit, finish-on-exchange, emit-then-error, emit-then-panic, emit and leave the state unserialisable) in half of them, 0-3 user metadata keys per continuation drawn from a set that includes framework-colliding names, and a cancel at a drawn input (one cancel in three arrives with a request context that is already done); one run in three has external storage with a 64-byte threshold (turn outputs travel as pointers) and an object store that refuses one upload in three; every continuation is judged; distinct = schedule fingerprint; non-trivial = at least one continuation judged",
		Real:  []string{"vgirpc.HttpServer.handleStreamExchange / handleExchangeCall / handleStreamCancel, stripFrameworkTickMetadata, token re-mint"},
		Stub:  []string{"HTTP transport", "scripted exchange states recording what they saw"},
		Quick: 700, Thorough: 60000,
		Warm: warmHTTP, FaultKinds: []string{"client-cancel", "duplicate-token-keys", "upload-failure", "cancel-request-context-already-done"},
	}
}
