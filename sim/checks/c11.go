package checks

import (
	"fmt"
	"sort"
	"strings"

	"verifsim/hx"
	"verifsim/simkern"
	"verifsim/worlds/httpw"
	"verifsim/worlds/pipew"
)

func userMeta(m map[string]string) string {
	var ks []string
	for k := range m {
		if strings.HasPrefix(k, "vgi_rpc.") {
			continue
		}
		ks = append(ks, k)
	}
	sort.Strings(ks)
	var sb strings.Builder
	for _, k := range ks {
		fmt.Fprintf(&sb, "%s=%s;", k, m[k])
	}
	return sb.String()
}

func logSig(bs []hx.Batch) string {
	var sb strings.Builder
	for _, b := range bs {
		x := ""
		if b.Extra != nil {
			var ks []string
			for k := range b.Extra {
				ks = append(ks, k)
			}
			sort.Strings(ks)
			for _, k := range ks {
				x += fmt.Sprintf("%s=%v,", k, b.Extra[k])
			}
		}
		fmt.Fprintf(&sb, "[%s|%s|%s]", b.Level, b.Message, x)
	}
	return sb.String()
}

func normTurns(t []pipew.TurnOut) []pipew.TurnOut {
	if n := len(t); n >= 2 && t[n-1].EOS && t[n-1].Data == nil && t[n-1].Err == nil && len(t[n-1].Logs) == 0 && t[n-2].Err != nil {
		return t[:n-1]
	}
	return t
}

// compareTranscripts reports the first client-visible difference between the
// pipe and the HTTP transcript of the same stream program ("" = equal).
// Compared: header (values), data batches (schema, values, user metadata),
// log messages (level, text, extras), terminating error (type, message).
// Ignored, because they legitimately differ by transport: request-id echo,
// server id, tokens, how many HTTP turns carried the stream.
func compareTranscripts(p, h *pipew.OpResult) (string, string) {
	if (p.Header == nil) != (h.Header == nil) {
		return "header", fmt.Sprintf("header present on pipe=%v, on http=%v", p.Header != nil, h.Header != nil)
	}
	if p.Header != nil && (p.Header.JSON != h.Header.JSON || p.Header.Schema != h.Header.Schema) {
		return "header", fmt.Sprintf("header differs: pipe %s vs http %s", p.Header.JSON, h.Header.JSON)
	}
	if a, b := logSig(p.InitLogs), logSig(h.InitLogs); a != b {
		return "init-logs", fmt.Sprintf("init logs differ: pipe %s vs http %s", a, b)
	}
	pt, ht := normTurns(p.Turns), normTurns(h.Turns)
	if len(pt) != len(ht) {
		return "turn-count", fmt.Sprintf("pipe shows %d turn outcomes (ended %s), http %d (ended %s)", len(pt), p.Ended, len(ht), h.Ended)
	}
	for k := range pt {
		a, b := pt[k], ht[k]
		if x, y := logSig(a.Logs), logSig(b.Logs); x != y {
			return "logs", fmt.Sprintf("turn %d logs differ: pipe %s vs http %s", k, x, y)
		}
		if (a.Data == nil) != (b.Data == nil) {
			return "data-presence", fmt.Sprintf("turn %d: data batch on pipe=%v, on http=%v", k, a.Data != nil, b.Data != nil)
		}
		if a.Data != nil {
			if a.Data.Schema != b.Data.Schema {
				return "schema", fmt.Sprintf("turn %d: schema differs: pipe %q vs http %q", k, a.Data.Schema, b.Data.Schema)
			}
			if a.Data.JSON != b.Data.JSON {
				return "values", fmt.Sprintf("turn %d: values differ: pipe %s vs http %s", k, a.Data.JSON, b.Data.JSON)
			}
			if x, y := userMeta(a.Data.Meta), userMeta(b.Data.Meta); x != y {
				return "user-metadata", fmt.Sprintf("turn %d: user metadata differs: pipe %q vs http %q", k, x, y)
			}
		}
		if (a.Err == nil) != (b.Err == nil) {
			return "error", fmt.Sprintf("turn %d: exception on pipe=%v, on http=%v", k, a.Err != nil, b.Err != nil)
		}
		if a.Err != nil {
			if a.Err.ExcType() != b.Err.ExcType() || a.Err.Message != b.Err.Message {
				return "error", fmt.Sprintf("turn %d: terminating error differs: pipe %s %q vs http %s %q", k, a.Err.ExcType(), a.Err.Message, b.Err.ExcType(), b.Err.Message)
			}
		}
		if a.EOS != b.EOS {
			return "eos", fmt.Sprintf("turn %d: end of stream on pipe=%v, on http=%v", k, a.EOS, b.EOS)
		}
	}
	return "", ""
}

// C11 — a stream behaves the same over HTTP as over a pipe.
func C11(e *simkern.Env) {
	tp := e.Tape
	nOps := 1 + tp.Draw(3)
	// one run in four puts the call-state caches under pressure: one- or
	// two-entry caches and 3-4 streams alive at once, so that a stream's entry
	// is evicted (and its slot taken by another stream) between two of its turns
	pressure := tp.Bool(1, 4)
	if pressure {
		nOps = 3 + tp.Draw(2)
	}
	ops := pipew.GenOps(tp, pipew.GenCfg{MinOps: nOps, MaxOps: nOps, OnlyStream: true, FailBias: 4, InitFail: true,
		Cancel: true, Cast: true, Levels: true, MaxTurns: 7, NonceBase: 11000, EmitMeta: true, ZeroRows: true, AfterCancel: true, NoHook: true})
	for _, op := range ops {
		if op.StreamKind == "producer" {
			op.CancelAt = -1
			op.Inputs = len(op.Script.Turns) + 2
		}
		op.WriteAhead = 0
	}
	kn := pipew.DrawKnobs(tp)
	nInst := 1 + tp.Draw(3)
	caches := make([]int, nInst)
	for i := range caches {
		caches[i] = tp.Pick(-1, 0)
		if pressure {
			caches[i] = tp.Pick(1, 2, 1)
		}
	}
	if pressure && nInst > 2 {
		nInst = 2
		caches = caches[:nInst]
	}
	batchLimit := tp.Draw(4)
	compress := tp.Bool(1, 2)
	e.Knob("instances", nInst)
	e.Knob("caches", caches)
	e.Knob("batch_limit", batchLimit)
	e.Knob("compression", compress)
	e.Res.Sample = pipew.Describe(ops)
	left := e.Bubble(func() {
		sim := simkern.NewSim(tp, e.Trace)
		defer sim.Close()
		hx.Rec.Reset()
		sess := &pipew.Session{Srv: pipew.NewServer(nil), Ops: ops}
		reason := pipew.RunSession(sim, sess, kn, 60000)
		if reason == simkern.StopDeadlock {
			e.Violate("pipe-deadlock", "pipe:"+nextSig(sess), "%s", sess.StuckDetail())
		}
		if reason != simkern.StopDone || len(sess.Results) != len(ops) {
			e.Conclude(sim, reason, false)
			return
		}
		hx.Rec.Reset()
		comp := 0
		if !compress {
			comp = -1
		}
		cl := httpw.NewCluster(httpw.Config{Key: []byte("0123456789abcdef0123456789abcdef"), CacheSizes: caches, BatchLimit: batchLimit, NoTwin: true, Compression: comp})
		hdr := map[string]string{}
		if compress {
			hdr["Accept-Encoding"] = "zstd"
		}
		httpRes := make([]*pipew.OpResult, len(ops))
		inFlight := 0
		// several streams may be alive at once on the same instances: the ops are
		// dealt to 1-2 client tasks which the scheduler interleaves
		nTasks := 1 + tp.Draw(2)
		if pressure {
			nTasks = 2 + tp.Draw(2)
		}
		for c := 0; c < nTasks; c++ {
			c := c
			sim.Spawn(fmt.Sprintf("http-client%d", c), func() {
				for i, op := range ops {
					if i%nTasks != c {
						continue
					}
					httpRes[i] = httpw.RunStream(op, httpw.StreamOpts{
						Pick:          func() *httpw.Instance { return cl.Inst[tp.Draw(len(cl.Inst))] },
						Header:        hdr,
						BeforeRequest: func(string) { sim.Y("client.request"); inFlight++ },
						OnResponse: func(kind string, inst *httpw.Instance, resp *hx.Resp, _ []byte) {
							inFlight--
							if resp.Header.Get("Content-Encoding") == "zstd" || resp.Header.Get("X-VGI-Content-Encoding") == "zstd" {
								sim.Probe("compressed-response")
							}
							sim.Probe("http-" + kind)
						},
					})
				}
			})
		}
		r2, _ := sim.Run(simkern.RunOpts{MaxSteps: 80000, Done: sim.RootsDone, Extra: func() []simkern.Action {
			if inFlight > 0 {
				return nil
			}
			var acts []simkern.Action
			for i := range cl.Inst {
				i := i
				acts = append(acts, simkern.Action{Name: fmt.Sprintf("restart w%d", i), Weight: 2, Do: func() { sim.Fault("instance-restart"); cl.Restart(i) }})
			}
			return acts
		}})
		if r2 == simkern.StopDone {
			for i := range ops {
				if e.Violated() {
					break
				}
				p, h := sess.Results[i], httpRes[i]
				site := ops[i].Method + "/" + ops[i].StreamKind
				if ops[i].Cast {
					site += "/castable-input"
				}
				if p.ClientErr != nil {
					e.Violate("pipe-stream-not-readable", site, "call %d: %v", i, p.ClientErr)
					break
				}
				if h == nil || h.ClientErr != nil {
					var err error
					if h != nil {
						err = h.ClientErr
					}
					e.Violate("http-stream-not-readable", site, "call %d: %v", i, err)
					break
				}
				if cat, d := compareTranscripts(p, h); cat != "" {
					e.Violate("transports-differ-"+cat, site, "call %d (instances=%d caches=%v batch_limit=%d compression=%v): %s", i, nInst, caches, batchLimit, compress, d)
					break
				}
				// both equal the script's own prediction ("both wrong in the same way")
				if streamJudge(e, "http:", i, h, false) {
					break
				}
				// the state saw inputs of the declared type on both transports
				if ops[i].StreamKind == "exchange" && ops[i].Method != "dyn" {
					for k, ty := range hx.Rec.Get(ops[i].Script.Nonce).InputTypes {
						if ty != "int64" {
							e.Violate("input-not-cast-to-declared-schema", site, "call %d over HTTP: exchange %d received a column of type %s, the declared input schema says int64", i, k, ty)
							break
						}
					}
				}
			}
		} else {
			reason = r2
		}
		e.Conclude(sim, reason, false)
		e.Res.Nontrivial = true
	})
	if left != "" && !e.Violated() {
		e.Harness("bubble: %s", left)
	}
}

func init() {
	Registry["C11"] = &Info{
		Run:   C11,
		Level: "exploration",
		Rule:  "each run draws 1-3 stream programs (producer/exchange/dynamic, header or none, 0-7 turns with logs and user metadata, failing turn, init failure, castable int32 inputs, cancel on exchanges) and drives each once over a simulated pipe and once over HTTP where every request is routed by tape to one of 1-3 instances sharing the token key (cache default or 0; one run in four: one- or two-entry caches with 3-4 streams alive at once on 1-2 instances, so entries are evicted and slots re-used between a stream's turns), producer batch limit 0-3, compression on/off, with instance restarts injected between requests; transcripts are compared with each other and with the script's own prediction; distinct = schedule fingerprint",
		Real:  []string{"vgirpc.Server.serveStream", "vgirpc.HttpServer stream init/exchange/producer continuation, state tokens, call-state cache, response compression"},
		Stub:  []string{"transports", "load balancer", "protocol clients", "scripted states"},
		Quick: 700, Thorough: 100000,
		Warm:        warmHTTP,
		FaultKinds:  []string{"instance-restart", "read-fragmentation", "write-delay", "client-cancel"},
		Assumptions: []string{"producer cancel is exercised on exchanges only (a producer over HTTP can be cancelled only at response boundaries, which has no pipe equivalent at the same tick)", "comparison is semantic and ignores request-id echo, server id, tokens and the number of HTTP turns"},
	}
}
