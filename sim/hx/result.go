package hx

import (
	"encoding/hex"
	"encoding/json"
	"fmt"

	"github.com/apache/arrow-go/v18/arrow"
	"github.com/apache/arrow-go/v18/arrow/array"
)

// renderResult renders row 0 of a unary "result" column canonically.
func renderResult(col arrow.Array) string {
	if col.Len() == 0 {
		return "<empty>"
	}
	if col.IsNull(0) {
		return "<null>"
	}
	switch a := col.(type) {
	case *array.Int64:
		return fmt.Sprintf("i:%d", a.Value(0))
	case *array.Float64:
		return fmt.Sprintf("f:%v", a.Value(0))
	case *array.String:
		return "s:" + a.Value(0)
	case *array.Boolean:
		return fmt.Sprintf("b:%v", a.Value(0))
	case *array.Binary:
		raw := a.Value(0)
		// struct results travel as an IPC stream inside a binary column
		if sts, err := ParseStreams(raw); err == nil && len(sts) == 1 && len(sts[0].Batches) == 1 && sts[0].Batches[0].JSON != "" {
			var rows []map[string]any
			if json.Unmarshal([]byte(sts[0].Batches[0].JSON), &rows) == nil {
				norm, _ := json.Marshal(rows)
				return "ipc:" + string(norm)
			}
			return "ipc:" + sts[0].Batches[0].JSON
		}
		return "x:" + hex.EncodeToString(raw)
	case *array.List:
		start, end := a.ValueOffsets(0)
		if vals, ok := a.ListValues().(*array.Int64); ok {
			out := make([]int64, 0, end-start)
			for i := start; i < end; i++ {
				out = append(out, vals.Value(int(i)))
			}
			return fmt.Sprintf("l:%v", out)
		}
	}
	return "?:" + col.String()
}

// WantResult is the canonical rendering of what a scripted unary method
// returns for a nonce ("" for void).
func WantResult(method string, nonce int64, pad int) string {
	switch method {
	case "u_int":
		return fmt.Sprintf("i:%d", UnaryIntValue(nonce))
	case "u_str":
		if pad > 0 {
			return "s:" + UnaryBigValue(nonce, pad)
		}
		return "s:" + UnaryStrValue(nonce)
	case "u_f64":
		return fmt.Sprintf("f:%v", UnaryF64Value(nonce))
	case "u_bool":
		return fmt.Sprintf("b:%v", UnaryBoolValue(nonce))
	case "u_bytes":
		return "x:" + hex.EncodeToString(UnaryBytesValue(nonce))
	case "u_list":
		return fmt.Sprintf("l:%v", UnaryListValue(nonce))
	case "u_rich":
		norm, _ := json.Marshal([]map[string]any{{"a": nonce, "b": UnaryStrValue(nonce)}})
		return "ipc:" + string(norm)
	}
	return ""
}
