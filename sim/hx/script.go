// Package hx is the shared harness: scripted methods registered on the real
// Server, a recorder of what the code under test did to harness code, a stub
// protocol client written on arrow-go directly, a simulated duplex pipe and
// HTTP request helpers.
package hx

import (
	"encoding/json"
	"errors"
	"fmt"
	"strings"

	"verifsim/simkern"

	"github.com/Query-farm/vgi-rpc-go/vgirpc"
)

// LogSpec is one client log the handler emits.
type LogSpec struct {
	Level  string            `json:"l"`
	Msg    string            `json:"m"`
	Extras map[string]string `json:"x,omitempty"`
}

// ErrSpec describes an error value a handler returns.
type ErrSpec struct {
	// Shape: rpc | plain | fmtwrap | custom | wraprpc | joined
	Shape string `json:"s"`
	Type  string `json:"t,omitempty"` // RpcError.Type
	Kind  string `json:"k,omitempty"` // RpcError.Kind
	Msg   string `json:"m"`
}

// customErr is a harness error type whose Go type name must never reach the wire.
type customErr struct{ msg string }

func (e *customErr) Error() string { return e.msg }

// Build constructs the error value.
func (e *ErrSpec) Build() error {
	switch e.Shape {
	case "rpc":
		return &vgirpc.RpcError{Type: e.Type, Message: e.Msg, Kind: e.Kind}
	case "plain":
		return errors.New(e.Msg)
	case "fmtwrap":
		return fmt.Errorf("%s: %w", e.Msg, errors.New("inner"))
	case "custom":
		return &customErr{msg: e.Msg}
	case "wraprpc":
		return fmt.Errorf("%s: %w", e.Msg, &vgirpc.RpcError{Type: e.Type, Message: "wrapped", Kind: e.Kind})
	case "joined":
		return errors.Join(errors.New(e.Msg), errors.New("second"))
	}
	return errors.New(e.Msg)
}

// WantType is the exception_type the property demands on the wire.
func (e *ErrSpec) WantType() string {
	if e.Shape == "rpc" {
		return e.Type
	}
	return "RuntimeError"
}

// WantKind is the error_kind the property demands ("" = key absent).
func (e *ErrSpec) WantKind() string {
	if e.Shape == "rpc" {
		return e.Kind
	}
	return ""
}

// WantMessage is the log_message the wire must carry (err.Error()).
func (e *ErrSpec) WantMessage() string { return e.Build().Error() }

// Step is one turn of a stream state.
type Step struct {
	// Act: emit | finish | error | panic | noemit | double | finishx (Finish on
	// an exchange; the state returns Finish's error) | emitpanic | emiterror
	// (the turn emits its data batch and then panics / returns an error)
	Act   string            `json:"a"`
	Logs  []LogSpec         `json:"g,omitempty"`
	Meta  map[string]string `json:"md,omitempty"`
	Rows  int               `json:"r,omitempty"`
	Err   *ErrSpec          `json:"e,omitempty"`
	Panic string            `json:"p,omitempty"` // string | error | struct
}

// Script is the behaviour of one call, carried in the request parameters so
// that every server instance (pipe or HTTP, any worker) interprets the same
// program.
type Script struct {
	Nonce   int64     `json:"n"`
	Mode    string    `json:"mode,omitempty"` // dynamic: producer | exchange
	Logs    []LogSpec `json:"g,omitempty"`
	Outcome string    `json:"o"` // ok | error | panic | nilresult | wrongstate
	Err     *ErrSpec  `json:"e,omitempty"`
	Panic   string    `json:"p,omitempty"`
	Header  bool      `json:"h,omitempty"`
	Turns   []Step    `json:"t,omitempty"`
	Pad     int       `json:"pad,omitempty"`
	// Sess: sticky-session action of the (init) handler: "" | open | use | close.
	// "open" calls OpenSession (its error is returned), "use" fails with a
	// ValueError when no session is bound, "close" closes the bound session.
	Sess string `json:"sess,omitempty"`
	// Dyn2: a dynamic stream picks its second run-time output schema.
	Dyn2 bool `json:"d2,omitempty"`
	// NoHook: the stream state does not implement StreamCanceller (a cancel
	// must still end the stream with no further turn).
	NoHook bool `json:"nh,omitempty"`
	// CancelFail: what the state's cancel hook does after recording the call:
	// "" (returns nil) | "error" | "panic". Neither is reported to the client.
	CancelFail string `json:"cf,omitempty"`
	// Tail: what a producer does after Turns are exhausted is always finish;
	// what an exchange does after Turns are exhausted is emit.
}

// Encode renders the script for the request parameter.
func (s *Script) Encode() string {
	b, _ := json.Marshal(s)
	return string(b)
}

// DecodeScript parses a script parameter.
func DecodeScript(v string) (*Script, error) {
	var s Script
	if err := json.Unmarshal([]byte(v), &s); err != nil {
		return nil, err
	}
	return &s, nil
}

// Levels in severity order.
var Levels = []string{"EXCEPTION", "ERROR", "WARN", "INFO", "DEBUG", "TRACE"}

func levelPrio(l string) int {
	for i, x := range Levels {
		if x == l {
			return i
		}
	}
	return 6
}

// VisibleLogs filters logs by the requested level ("" = everything).
func VisibleLogs(logs []LogSpec, requested string) []LogSpec {
	if requested == "" {
		requested = "TRACE"
	}
	var out []LogSpec
	for _, l := range logs {
		if levelPrio(l.Level) <= levelPrio(requested) {
			out = append(out, l)
		}
	}
	return out
}

// panicValue builds the value a scripted panic uses.
func panicValue(kind string, nonce int64) any {
	switch kind {
	case "error":
		return fmt.Errorf("scripted panic error %d", nonce)
	case "struct":
		return struct {
			A int
			B string
		}{int(nonce), "boom"}
	case "rpcerror":
		// a must-style helper panicking with the framework's own error value
		return &vgirpc.RpcError{Type: "ValueError", Kind: "row_range", Message: fmt.Sprintf("scripted panic rpcerror %d", nonce)}
	case "wrapped-rpcerror":
		return fmt.Errorf("scripted panic wrap %d: %w", nonce, &vgirpc.RpcError{Type: "KeyError", Kind: "k", Message: "inner"})
	case "int":
		return int(nonce)
	}
	return fmt.Sprintf("scripted panic %d", nonce)
}

// PanicText is fmt.Sprintf("%v") of the panic value.
func PanicText(kind string, nonce int64) string { return fmt.Sprintf("%v", panicValue(kind, nonce)) }

// ---- generation ----

var rpcTypes = []string{"ValueError", "RuntimeError", "TypeError", "PermissionError", "KeyError", "MyAppError", "", "x.Y-z"}
var rpcKinds = []string{"", "", "quota_exceeded", "not_found"}

// GenErr draws an error spec.
func GenErr(t *simkern.Tape, nonce int64) *ErrSpec {
	shapes := []string{"rpc", "rpc", "plain", "fmtwrap", "custom", "wraprpc", "joined"}
	sh := shapes[t.Draw(len(shapes))]
	e := &ErrSpec{Shape: sh, Msg: fmt.Sprintf("scripted failure %d", nonce)}
	if sh == "rpc" || sh == "wraprpc" {
		e.Type = rpcTypes[t.Draw(len(rpcTypes))]
		e.Kind = rpcKinds[t.Draw(len(rpcKinds))]
	}
	return e
}

// GenLogs draws 0..max logs.
func GenLogs(t *simkern.Tape, max int, tag string) []LogSpec {
	n := t.Draw(max + 1)
	var out []LogSpec
	for i := 0; i < n; i++ {
		l := LogSpec{Level: Levels[1+t.Draw(len(Levels)-1)], Msg: fmt.Sprintf("%s log %d", tag, i)}
		if t.Bool(1, 3) {
			l.Extras = map[string]string{"k": fmt.Sprintf("v%d", i)}
			if t.Bool(1, 2) {
				l.Extras["z"] = "ü∑"
			}
		}
		out = append(out, l)
	}
	return out
}

var panicKinds = []string{"string", "error", "struct", "rpcerror", "wrapped-rpcerror", "int"}

// GenOpts biases stream script generation.
type GenOpts struct {
	MaxTurns   int
	FailBias   int // out of 10: chance a stream has a failing turn
	AllowMeta  bool
	MaxRows    int
	NoBadTurns bool // only emit/finish turns
	Pad        int
	// Unsealable: a failing turn may be one that leaves the state
	// unserialisable (a failure only where the state has to be sealed: HTTP)
	Unsealable bool
	NoHook     bool // some states come without a cancel hook
	// Icept: some turns run with an emit interceptor that fails (the state
	// either gives up on the turn's batch or retries without the interceptor)
	Icept bool
}

// GenStreamScript draws a stream script for the given method kind
// ("producer" or "exchange").
func GenStreamScript(t *simkern.Tape, nonce int64, kind string, o GenOpts) *Script {
	s := &Script{Nonce: nonce, Outcome: "ok", Mode: kind, Pad: o.Pad}
	s.Logs = GenLogs(t, 2, "init")
	s.Header = t.Bool(1, 2)
	s.Dyn2 = t.Bool(1, 2) // only read by the dynamic method
	if o.NoHook {
		s.NoHook = t.Bool(1, 3)
		s.CancelFail = []string{"", "", "error", "panic"}[t.Draw(4)]
	}
	if o.MaxTurns <= 0 {
		o.MaxTurns = 6
	}
	n := t.Draw(o.MaxTurns + 1)
	failAt := -1
	if !o.NoBadTurns && n > 0 && t.Draw(10) < o.FailBias {
		failAt = t.Draw(n)
	}
	for i := 0; i < n; i++ {
		st := Step{Act: "emit", Logs: GenLogs(t, 2, fmt.Sprintf("turn%d", i))}
		if o.MaxRows > 1 {
			st.Rows = 1 + t.Draw(o.MaxRows)
		}
		if o.AllowMeta && t.Bool(1, 3) {
			st.Meta = map[string]string{"user.key": fmt.Sprintf("u%d", i)}
			if t.Bool(1, 3) {
				st.Meta["vgi_batch_index"] = fmt.Sprint(i)
			}
		}
		if o.Icept && i != failAt && t.Bool(1, 10) {
			st.Act = "iceptretry"
		}
		if i == failAt {
			acts := []string{"error", "panic", "noemit", "double", "emitpanic", "emiterror"}
			if kind == "exchange" {
				acts = append(acts, "finishx")
			}
			if o.Unsealable {
				acts = append(acts, "emitunsealable", "emitunsealable")
			}
			if o.Icept {
				acts = append(acts, "iceptswallow")
			}
			st.Act = acts[t.Draw(len(acts))]
			switch st.Act {
			case "error", "emiterror":
				st.Err = GenErr(t, nonce)
			case "panic", "emitpanic":
				st.Panic = panicKinds[t.Draw(len(panicKinds))]
			}
		}
		s.Turns = append(s.Turns, st)
	}
	return s
}

// GenInitFailure turns a script into one whose init handler fails.
func GenInitFailure(t *simkern.Tape, s *Script) {
	switch t.Draw(4) {
	case 0:
		s.Outcome = "error"
		s.Err = GenErr(t, s.Nonce)
	case 1:
		s.Outcome = "panic"
		s.Panic = panicKinds[t.Draw(len(panicKinds))]
	case 2:
		// the handler returns a state of the wrong kind for the method (a
		// producer state from an exchange method, ...; neither from a dynamic one)
		s.Outcome = "wrongstate"
	default:
		s.Outcome = "nilresult"
	}
}

// GenUnaryScript draws a unary script.
func GenUnaryScript(t *simkern.Tape, nonce int64) *Script {
	s := &Script{Nonce: nonce, Outcome: "ok"}
	s.Logs = GenLogs(t, 3, "unary")
	switch t.Draw(6) {
	case 0:
		s.Outcome = "error"
		s.Err = GenErr(t, nonce)
	case 1:
		s.Outcome = "panic"
		s.Panic = panicKinds[t.Draw(len(panicKinds))]
	}
	return s
}

// Describe renders a script compactly for samples and traces.
func (s *Script) Describe() string {
	var sb strings.Builder
	fmt.Fprintf(&sb, "n=%d %s", s.Nonce, s.Outcome)
	if s.Header {
		sb.WriteString(" hdr")
	}
	if len(s.Turns) > 0 {
		sb.WriteString(" [")
		for i, t := range s.Turns {
			if i > 0 {
				sb.WriteByte(' ')
			}
			sb.WriteString(t.Act)
		}
		sb.WriteString("]")
	}
	return sb.String()
}
