package hx

import (
	"bytes"
	"encoding/json"
	"fmt"
	"io"
	"sort"

	"github.com/apache/arrow-go/v18/arrow"
	"github.com/apache/arrow-go/v18/arrow/array"
	"github.com/apache/arrow-go/v18/arrow/ipc"
	"github.com/apache/arrow-go/v18/arrow/memory"
)

// The stub client is written directly on arrow-go's IPC reader/writer, not on
// the repository's own WriteRequest/ReadUnaryResult helpers, so that a defect
// there cannot mask itself.

// Well-known metadata keys, restated from the protocol documentation (not
// imported from the code under test).
const (
	KMethod     = "vgi_rpc.method"
	KReqVersion = "vgi_rpc.request_version"
	KReqID      = "vgi_rpc.request_id"
	KLogLevel   = "vgi_rpc.log_level"
	KLogMessage = "vgi_rpc.log_message"
	KLogExtra   = "vgi_rpc.log_extra"
	KServerID   = "vgi_rpc.server_id"
	KState      = "vgi_rpc.stream_state#b64"
	KCallState  = "vgi_rpc.call_state#b64"
	KCancel     = "vgi_rpc.cancel"
	KLocation   = "vgi_rpc.location"
	KErrorKind  = "vgi_rpc.error_kind"
	KProtoVer   = "vgi_rpc.protocol_version"
	KShmOffset  = "vgi_rpc.shm_offset"
	KShmLength  = "vgi_rpc.shm_length"
	KShmName    = "vgi_rpc.shm_segment_name"
	KShmSize    = "vgi_rpc.shm_segment_size"
)

// Meta is an ordered metadata list.
type Meta struct {
	Keys []string
	Vals []string
}

// M builds Meta from pairs.
func M(kv ...string) Meta {
	var m Meta
	for i := 0; i+1 < len(kv); i += 2 {
		m.Keys = append(m.Keys, kv[i])
		m.Vals = append(m.Vals, kv[i+1])
	}
	return m
}

// Add appends a pair.
func (m Meta) Add(k, v string) Meta {
	m.Keys = append(append([]string(nil), m.Keys...), k)
	m.Vals = append(append([]string(nil), m.Vals...), v)
	return m
}

// Arrow converts to arrow.Metadata.
func (m Meta) Arrow() arrow.Metadata { return arrow.NewMetadata(m.Keys, m.Vals) }

// StringBatch builds a one-row (or n-row) batch of string columns.
func StringBatch(names []string, vals []string) arrow.RecordBatch {
	mem := memory.NewGoAllocator()
	fields := make([]arrow.Field, len(names))
	cols := make([]arrow.Array, len(names))
	for i, n := range names {
		fields[i] = arrow.Field{Name: n, Type: arrow.BinaryTypes.String}
		b := array.NewStringBuilder(mem)
		b.Append(vals[i])
		cols[i] = b.NewArray()
		b.Release()
	}
	rb := array.NewRecordBatch(arrow.NewSchema(fields, nil), cols, 1)
	for _, c := range cols {
		c.Release()
	}
	return rb
}

// StringBatchN builds an n-row batch of string columns (rows[i][j] = row i, column j).
func StringBatchN(names []string, rows [][]string) arrow.RecordBatch {
	mem := memory.NewGoAllocator()
	fields := make([]arrow.Field, len(names))
	cols := make([]arrow.Array, len(names))
	for j, n := range names {
		fields[j] = arrow.Field{Name: n, Type: arrow.BinaryTypes.String}
		b := array.NewStringBuilder(mem)
		for _, r := range rows {
			b.Append(r[j])
		}
		cols[j] = b.NewArray()
		b.Release()
	}
	rb := array.NewRecordBatch(arrow.NewSchema(fields, nil), cols, int64(len(rows)))
	for _, c := range cols {
		c.Release()
	}
	return rb
}

// Int64Batch builds a batch with one int column named name (type t is int64 or
// int32 for castable inputs).
func Int64Batch(name string, vals []int64, as32 bool) arrow.RecordBatch {
	mem := memory.NewGoAllocator()
	if as32 {
		b := array.NewInt32Builder(mem)
		for _, v := range vals {
			b.Append(int32(v))
		}
		arr := b.NewArray()
		b.Release()
		defer arr.Release()
		return array.NewRecordBatch(arrow.NewSchema([]arrow.Field{{Name: name, Type: arrow.PrimitiveTypes.Int32}}, nil), []arrow.Array{arr}, int64(len(vals)))
	}
	b := array.NewInt64Builder(mem)
	for _, v := range vals {
		b.Append(v)
	}
	arr := b.NewArray()
	b.Release()
	defer arr.Release()
	return array.NewRecordBatch(arrow.NewSchema([]arrow.Field{{Name: name, Type: arrow.PrimitiveTypes.Int64}}, nil), []arrow.Array{arr}, int64(len(vals)))
}

// Int64Cols is a batch of int64 columns with the given names; every column
// holds vals.
func Int64Cols(names []string, vals []int64) arrow.RecordBatch {
	mem := memory.NewGoAllocator()
	var fields []arrow.Field
	var cols []arrow.Array
	for _, n := range names {
		b := array.NewInt64Builder(mem)
		for _, v := range vals {
			b.Append(v)
		}
		arr := b.NewArray()
		b.Release()
		defer arr.Release()
		fields = append(fields, arrow.Field{Name: n, Type: arrow.PrimitiveTypes.Int64})
		cols = append(cols, arr)
	}
	return array.NewRecordBatch(arrow.NewSchema(fields, nil), cols, int64(len(vals)))
}

// EmptyBatch is a zero-column zero-row batch (tick / cancel / void).
func EmptyBatch() arrow.RecordBatch {
	return array.NewRecordBatch(arrow.NewSchema(nil, nil), nil, 0)
}

// WithMeta attaches custom metadata to a batch (the batch is consumed).
func WithMeta(b arrow.RecordBatch, m Meta) arrow.RecordBatch {
	out := array.NewRecordBatchWithMetadata(b.Schema(), b.Columns(), b.NumRows(), m.Arrow())
	b.Release()
	return out
}

// PointerLike returns the zero-row batch of b's schema carrying b's custom
// metadata plus extra (an external-location or shared-memory pointer batch
// standing in for b). b is not released.
func PointerLike(b arrow.RecordBatch, extra Meta) arrow.RecordBatch {
	mem := memory.NewGoAllocator()
	cols := make([]arrow.Array, b.Schema().NumFields())
	for i, f := range b.Schema().Fields() {
		bl := array.NewBuilder(mem, f.Type)
		cols[i] = bl.NewArray()
		bl.Release()
	}
	m := Meta{}
	if bm, ok := b.(arrow.RecordBatchWithMetadata); ok {
		md := bm.Metadata()
		for i, k := range md.Keys() {
			m = m.Add(k, md.Values()[i])
		}
	}
	m.Keys = append(m.Keys, extra.Keys...)
	m.Vals = append(m.Vals, extra.Vals...)
	return array.NewRecordBatchWithMetadata(b.Schema(), cols, 0, m.Arrow())
}

// EncodeStream writes batches as one complete IPC stream.
func EncodeStream(schema *arrow.Schema, batches ...arrow.RecordBatch) []byte {
	var buf bytes.Buffer
	w := ipc.NewWriter(&buf, ipc.WithSchema(schema))
	for _, b := range batches {
		if err := w.Write(b); err != nil {
			panic(fmt.Sprintf("hx: encode: %v", err))
		}
	}
	_ = w.Close()
	return buf.Bytes()
}

// RequestBytes frames a scripted-method request.
func RequestBytes(method string, script *Script, extra Meta) []byte {
	b := StringBatch([]string{"script"}, []string{script.Encode()})
	m := M(KMethod, method, KReqVersion, "1")
	m.Keys = append(m.Keys, extra.Keys...)
	m.Vals = append(m.Vals, extra.Vals...)
	wb := WithMeta(b, m)
	defer wb.Release()
	return EncodeStream(wb.Schema(), wb)
}

// RawRequestBytes frames an arbitrary request batch with the given metadata.
func RawRequestBytes(b arrow.RecordBatch, m Meta) []byte {
	wb := WithMeta(b, m)
	defer wb.Release()
	return EncodeStream(wb.Schema(), wb)
}

// ---- parsing ----

// Batch is a decoded response batch.
type Batch struct {
	Kind   string // data | log | error | token | pointer
	Rows   int64
	Meta   map[string]string
	MetaK  []string
	Schema string
	// decoded columns of scripted outputs (when the schema matches)
	Nonce []int64
	Turn  []int64
	Echo  []int64
	Pad   []string
	// unary result column rendered as JSON
	JSON string
	// single "result" column, row 0, rendered canonically (see renderResult)
	HasResult bool
	Result    string
	// log / error fields
	Level   string
	Message string
	Extra   map[string]any
	ExtraS  string
}

// Stream is one decoded IPC stream.
type Stream struct {
	Schema  string
	Fields  []string
	Batches []Batch
	Bytes   int
}

func classify(rows int64, meta map[string]string) string {
	if lvl, ok := meta[KLogLevel]; ok && rows == 0 {
		if _, hasMsg := meta[KLogMessage]; hasMsg {
			if lvl == "EXCEPTION" {
				return "error"
			}
			return "log"
		}
	}
	if _, ok := meta[KLocation]; ok && rows == 0 {
		return "pointer"
	}
	if _, ok := meta[KShmOffset]; ok && rows == 0 {
		return "shmpointer"
	}
	if _, ok := meta[KState]; ok && rows == 0 {
		return "token"
	}
	return "data"
}

// DecodeBatch converts a record batch.
func DecodeBatch(rec arrow.RecordBatch) Batch {
	b := Batch{Rows: rec.NumRows(), Meta: map[string]string{}, Schema: rec.Schema().String()}
	if rm, ok := rec.(arrow.RecordBatchWithMetadata); ok {
		md := rm.Metadata()
		ks, vs := md.Keys(), md.Values()
		for i := range ks {
			b.Meta[ks[i]] = vs[i]
			b.MetaK = append(b.MetaK, ks[i])
		}
	}
	b.Kind = classify(b.Rows, b.Meta)
	switch b.Kind {
	case "log", "error":
		b.Level = b.Meta[KLogLevel]
		b.Message = b.Meta[KLogMessage]
		if x, ok := b.Meta[KLogExtra]; ok {
			b.ExtraS = x
			_ = json.Unmarshal([]byte(x), &b.Extra)
		}
	default:
		sc := rec.Schema()
		for i, f := range sc.Fields() {
			col := rec.Column(i)
			switch f.Name {
			case "nonce", "turn", "echo":
				if a, ok := col.(*array.Int64); ok {
					vals := make([]int64, a.Len())
					for j := range vals {
						vals[j] = a.Value(j)
					}
					switch f.Name {
					case "nonce":
						b.Nonce = vals
					case "turn":
						b.Turn = vals
					case "echo":
						b.Echo = vals
					}
				}
			case "pad":
				if a, ok := col.(*array.String); ok {
					for j := 0; j < a.Len(); j++ {
						b.Pad = append(b.Pad, a.Value(j))
					}
				}
			}
		}
		if rec.NumCols() > 0 && rec.NumRows() > 0 {
			if js, err := rec.MarshalJSON(); err == nil {
				b.JSON = string(js)
			}
		}
		if rec.NumCols() == 1 && rec.NumRows() == 1 && sc.Field(0).Name == "result" {
			b.HasResult = true
			b.Result = renderResult(rec.Column(0))
		}
	}
	return b
}

// ReadStream decodes exactly one IPC stream from r (blocking reads).
func ReadStream(r io.Reader) (*Stream, error) { return ReadStreamFn(r, nil) }

// ReadStreamFn is ReadStream with a hook applied to every record before it is
// decoded (shared-memory pointer resolution). The hook returns the record to
// decode and whether the caller must release it.
func ReadStreamFn(r io.Reader, fn func(arrow.RecordBatch) (arrow.RecordBatch, bool)) (*Stream, error) {
	rd, err := ipc.NewReader(r)
	if err != nil {
		return nil, err
	}
	defer rd.Release()
	st := &Stream{Schema: rd.Schema().String()}
	for _, f := range rd.Schema().Fields() {
		st.Fields = append(st.Fields, f.Name+":"+f.Type.String())
	}
	for rd.Next() {
		rec := rd.RecordBatch()
		if fn != nil {
			out, owned := fn(rec)
			st.Batches = append(st.Batches, DecodeBatch(out))
			if owned {
				out.Release()
			}
			continue
		}
		st.Batches = append(st.Batches, DecodeBatch(rec))
	}
	if err := rd.Err(); err != nil && err != io.EOF {
		return st, err
	}
	return st, nil
}

// ParseStreams decodes a byte slice that is a concatenation of IPC streams.
func ParseStreams(data []byte) ([]*Stream, error) {
	var out []*Stream
	r := bytes.NewReader(data)
	for r.Len() > 0 {
		before := r.Len()
		st, err := ReadStream(r)
		if err != nil {
			return out, err
		}
		st.Bytes = before - r.Len()
		out = append(out, st)
	}
	return out, nil
}

// ExcType returns the exception_type of an error batch.
func (b *Batch) ExcType() string {
	if b.Extra == nil {
		return ""
	}
	s, _ := b.Extra["exception_type"].(string)
	return s
}

// SortedMeta renders metadata deterministically.
func SortedMeta(m map[string]string) string {
	ks := make([]string, 0, len(m))
	for k := range m {
		ks = append(ks, k)
	}
	sort.Strings(ks)
	var sb bytes.Buffer
	for _, k := range ks {
		fmt.Fprintf(&sb, "%s=%s;", k, m[k])
	}
	return sb.String()
}
