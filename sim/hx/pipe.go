package hx

import (
	"errors"
	"io"
	"net"
	"sync"
	"time"

	"verifsim/simkern"
)

// Pipe is one direction of a simulated byte stream. Reads park the calling
// task while the buffer is empty; delivery is fragmented to at most Frag bytes
// per Read (0 = unlimited).
type Pipe struct {
	Name string
	mu   sync.Mutex
	buf  []byte
	// closed: writer side closed (reader sees EOF after draining)
	closed bool
	// broken: reader side closed (writer sees an error)
	broken bool
	Frag   int
	// YieldOnWrite makes every Write a scheduling point (lets the peer run
	// between two writes of one message).
	YieldOnWrite bool
	// Total bytes written, for byte-position faults.
	Written int
	// Log, when non-nil, receives every byte written (the wire record).
	Log *[]byte
	// CutAt >= 0: the stream is cut (writer closed) once this many bytes were
	// written; excess bytes are dropped (truncation fault).
	CutAt int
}

// NewPipe creates a pipe.
func NewPipe(name string) *Pipe { return &Pipe{Name: name, CutAt: -1} }

func (p *Pipe) readable() bool {
	p.mu.Lock()
	defer p.mu.Unlock()
	return len(p.buf) > 0 || p.closed || p.broken
}

// Read implements io.Reader.
func (p *Pipe) Read(b []byte) (int, error) {
	if len(b) == 0 {
		return 0, nil
	}
	for {
		p.mu.Lock()
		if p.broken {
			p.mu.Unlock()
			return 0, io.ErrClosedPipe
		}
		if len(p.buf) > 0 {
			n := len(b)
			if n > len(p.buf) {
				n = len(p.buf)
			}
			if p.Frag > 0 && n > p.Frag {
				n = p.Frag
			}
			copy(b, p.buf[:n])
			p.buf = p.buf[n:]
			p.mu.Unlock()
			return n, nil
		}
		if p.closed {
			p.mu.Unlock()
			return 0, io.EOF
		}
		p.mu.Unlock()
		s := simkern.CurrentSim()
		if s == nil || s.Current() == nil {
			return 0, errors.New("hx.Pipe: blocking read outside a task")
		}
		s.Yield("pipe.read:"+p.Name, p.readable)
	}
}

// Write implements io.Writer.
func (p *Pipe) Write(b []byte) (int, error) {
	if p.YieldOnWrite {
		if s := simkern.CurrentSim(); s != nil {
			s.Y("pipe.write:" + p.Name)
		}
	}
	p.mu.Lock()
	defer p.mu.Unlock()
	if p.broken || p.closed {
		return 0, errors.New("write on closed pipe: broken pipe")
	}
	data := b
	if p.CutAt >= 0 {
		room := p.CutAt - p.Written
		if room <= 0 {
			p.closed = true
			return 0, errors.New("write on closed pipe: broken pipe")
		}
		if len(data) > room {
			data = data[:room]
		}
	}
	p.buf = append(p.buf, data...)
	if p.Log != nil {
		*p.Log = append(*p.Log, data...)
	}
	p.Written += len(data)
	if p.CutAt >= 0 && p.Written >= p.CutAt {
		p.closed = true
		if len(data) < len(b) {
			return len(data), errors.New("write on closed pipe: broken pipe")
		}
	}
	return len(b), nil
}

// CloseWrite closes the writer side (reader gets EOF after draining).
func (p *Pipe) CloseWrite() {
	p.mu.Lock()
	p.closed = true
	p.mu.Unlock()
}

// CloseRead closes the reader side (pending data is dropped, writer errors).
func (p *Pipe) CloseRead() {
	p.mu.Lock()
	p.broken = true
	p.buf = nil
	p.mu.Unlock()
}

// Inject appends bytes as if written by the peer (used by adversaries).
func (p *Pipe) Inject(b []byte) {
	p.mu.Lock()
	p.buf = append(p.buf, b...)
	p.Written += len(b)
	p.mu.Unlock()
}

// Buffered returns the number of undelivered bytes.
func (p *Pipe) Buffered() int {
	p.mu.Lock()
	defer p.mu.Unlock()
	return len(p.buf)
}

// Conn is a simulated net.Conn made of two pipes.
type Conn struct {
	R      *Pipe // bytes arriving at this end
	W      *Pipe // bytes leaving this end
	name   string
	mu     sync.Mutex
	closed bool
	// OnClose is called once when this end is closed.
	OnClose func()
	// Local / Remote, when set, are what LocalAddr / RemoteAddr report (a
	// listener world makes them look like the real network's addresses).
	Local, Remote net.Addr
}

// NewConnPair returns the two ends of a simulated connection.
func NewConnPair(name string) (client *Conn, server *Conn) {
	c2s := NewPipe(name + ".c2s")
	s2c := NewPipe(name + ".s2c")
	return &Conn{R: s2c, W: c2s, name: name + ".client"}, &Conn{R: c2s, W: s2c, name: name + ".server"}
}

func (c *Conn) Read(b []byte) (int, error)  { return c.R.Read(b) }
func (c *Conn) Write(b []byte) (int, error) { return c.W.Write(b) }

// Close closes both directions of this end.
func (c *Conn) Close() error {
	c.mu.Lock()
	if c.closed {
		c.mu.Unlock()
		return nil
	}
	c.closed = true
	cb := c.OnClose
	c.mu.Unlock()
	c.W.CloseWrite()
	c.R.CloseRead()
	if cb != nil {
		cb()
	}
	return nil
}

// Closed reports whether Close was called on this end.
func (c *Conn) Closed() bool {
	c.mu.Lock()
	defer c.mu.Unlock()
	return c.closed
}

type addr string

func (a addr) Network() string { return "sim" }
func (a addr) String() string  { return string(a) }

func (c *Conn) LocalAddr() net.Addr {
	if c.Local != nil {
		return c.Local
	}
	return addr(c.name)
}
func (c *Conn) RemoteAddr() net.Addr {
	if c.Remote != nil {
		return c.Remote
	}
	return addr(c.name + ".peer")
}
func (c *Conn) SetDeadline(t time.Time) error      { return nil }
func (c *Conn) SetReadDeadline(t time.Time) error  { return nil }
func (c *Conn) SetWriteDeadline(t time.Time) error { return nil }
