package hx

import (
	"bytes"
	"context"
	"fmt"
	"io"
	"net/http"
	"net/http/httptest"
	"runtime/debug"

	"github.com/klauspost/compress/zstd"
)

// ArrowCT is the Arrow IPC stream content type.
const ArrowCT = "application/vnd.apache.arrow.stream"

// Resp is the outcome of one simulated HTTP request.
type Resp struct {
	// HungUp: the simulated peer went away before the whole body was written.
	HungUp   bool
	Status   int
	Header   http.Header
	Body     []byte // as sent on the wire (possibly compressed)
	Decoded  []byte // after undoing Content-Encoding / X-VGI-Content-Encoding
	Panicked any    // a panic escaped ServeHTTP (net/http would abort the connection)
	Stack    string
	Wrote    bool
}

// Req describes a request.
type Req struct {
	Method  string // HTTP method, default POST
	Path    string
	Body    []byte
	Header  map[string]string
	NoCT    bool   // do not set Content-Type
	Accept  string // Accept-Encoding
	XAccept string // X-VGI-Accept-Encoding
	// HangUpAfter > 0: the peer hangs up after that many body bytes have been
	// written to it: the write that crosses the mark is partial and fails, later
	// writes fail outright. Resp.Body then holds what crossed the wire.
	HangUpAfter int
	// SlowPeer: the simulated peer drains the response slowly — every write
	// to the response body is a scheduling point ("peer.slow-read"), so other
	// tasks can run while this response is half written.
	SlowPeer bool
}

// cutWriter is a ResponseWriter whose peer goes away mid-body.
type cutWriter struct {
	*httptest.ResponseRecorder
	left int
	Cut  bool
}

func (c *cutWriter) Write(p []byte) (int, error) {
	if c.left <= 0 {
		c.Cut = true
		return 0, io.ErrClosedPipe
	}
	if len(p) > c.left {
		n, _ := c.ResponseRecorder.Write(p[:c.left])
		c.left = 0
		c.Cut = true
		return n, io.ErrClosedPipe
	}
	c.left -= len(p)
	return c.ResponseRecorder.Write(p)
}

// slowWriter is a response writer whose peer reads slowly: each body write is
// a scheduling point.
type slowWriter struct {
	http.ResponseWriter
}

func (s *slowWriter) Write(p []byte) (int, error) {
	yield("peer.slow-read")
	return s.ResponseWriter.Write(p)
}

func (s *slowWriter) Flush() {
	if f, ok := s.ResponseWriter.(http.Flusher); ok {
		f.Flush()
	}
}

// RequestContext, when set, supplies the context of every simulated request
// (what middleware in front of the handler would have put there).
var RequestContext func(r *http.Request) context.Context

// Do calls h.ServeHTTP the way net/http would: a panic that escapes is
// recovered and recorded (the real server would abort the connection and the
// client would see no response).
func Do(h http.Handler, rq Req) (resp *Resp) {
	m := rq.Method
	if m == "" {
		m = http.MethodPost
	}
	r := httptest.NewRequest(m, rq.Path, bytes.NewReader(rq.Body))
	r.ContentLength = int64(len(rq.Body))
	if !rq.NoCT && m == http.MethodPost {
		r.Header.Set("Content-Type", ArrowCT)
	}
	for k, v := range rq.Header {
		r.Header.Set(k, v)
	}
	if rq.Accept != "" {
		r.Header.Set("Accept-Encoding", rq.Accept)
	}
	if rq.XAccept != "" {
		r.Header.Set("X-VGI-Accept-Encoding", rq.XAccept)
	}
	if RequestContext != nil {
		r = r.WithContext(RequestContext(r))
	}
	w := httptest.NewRecorder()
	resp = &Resp{}
	var rw http.ResponseWriter = w
	var cw *cutWriter
	if rq.HangUpAfter > 0 {
		cw = &cutWriter{ResponseRecorder: w, left: rq.HangUpAfter}
		rw = cw
	}
	if rq.SlowPeer {
		rw = &slowWriter{ResponseWriter: rw}
	}
	func() {
		defer func() {
			if rv := recover(); rv != nil {
				resp.Panicked = rv
				resp.Stack = string(debug.Stack())
			}
		}()
		h.ServeHTTP(rw, r)
	}()
	if cw != nil {
		resp.HungUp = cw.Cut
	}
	resp.Status = w.Code
	resp.Header = w.Header().Clone()
	resp.Body = w.Body.Bytes()
	resp.Wrote = w.Flushed || w.Body.Len() > 0 || w.Code != 200 || len(w.Header()) > 0
	resp.Decoded = resp.Body
	enc := resp.Header.Get("Content-Encoding")
	if enc == "" {
		enc = resp.Header.Get("X-VGI-Content-Encoding")
	}
	switch enc {
	case "zstd":
		dec, err := zstd.NewReader(nil)
		if err == nil {
			out, derr := dec.DecodeAll(resp.Body, nil)
			dec.Close()
			if derr == nil {
				resp.Decoded = out
			} else {
				resp.Decoded = nil
			}
		}
	}
	return resp
}

// ErrText summarises a response for diagnostics.
func (r *Resp) ErrText() string {
	if r.Panicked != nil {
		return fmt.Sprintf("panic: %v", r.Panicked)
	}
	n := len(r.Decoded)
	if n > 200 {
		n = 200
	}
	return fmt.Sprintf("status=%d rpcerr=%q body[%d]=%q", r.Status, r.Header.Get("X-VGI-RPC-Error"), len(r.Decoded), string(r.Decoded[:n]))
}
