package hx

import (
	"context"
	"fmt"
	"sort"
	"strings"
	"sync"

	"verifsim/simkern"

	"github.com/Query-farm/vgi-rpc-go/vgirpc"
	"github.com/apache/arrow-go/v18/arrow"
	"github.com/apache/arrow-go/v18/arrow/array"
	"github.com/apache/arrow-go/v18/arrow/memory"
)

// ---- recorder ----

// CallRec is what harness code observed for one call (keyed by script nonce).
type CallRec struct {
	InitCalls     int
	ProduceCalls  int
	ExchangeCalls int
	CancelCalls   int
	Rehydrates    int
	TurnsAfterEnd int // turns dispatched after the stream had ended (error/finish/cancel)
	Ended         bool
	Kinds         []string            // transport kind seen by each handler entry
	InputMeta     []map[string]string // InputMetadata seen per turn
	InputSums     []int64
	InputTypes    []string // Arrow type of the first input column, per exchange turn
	Principals    []string
	SawToken      bool // a handler-visible value looked like a state token
	Hashes        []string
	SessionOpened bool
	SessionSeen   int64 // nonce of the session state a "use" handler found bound
}

// SessState is the sticky-session state scripted handlers open.
type SessState struct {
	Nonce  int64
	Closes int
}

// Close counts Close calls (the registry calls it when the session ends).
func (s *SessState) Close() error { s.Closes++; return nil }

// Recorder is the process-wide record of harness callbacks. It is reset per run.
type Recorder struct {
	mu    sync.Mutex
	calls map[int64]*CallRec
	order []int64
}

// Rec is the global recorder.
var Rec = &Recorder{calls: map[int64]*CallRec{}}

// Reset clears the recorder.
func (r *Recorder) Reset() {
	r.mu.Lock()
	r.calls = map[int64]*CallRec{}
	r.order = nil
	r.mu.Unlock()
}

// With runs fn on the record for nonce.
func (r *Recorder) With(nonce int64, fn func(c *CallRec)) {
	r.mu.Lock()
	c := r.calls[nonce]
	if c == nil {
		c = &CallRec{}
		r.calls[nonce] = c
		r.order = append(r.order, nonce)
	}
	fn(c)
	r.mu.Unlock()
}

// Get returns a copy of the record for nonce.
func (r *Recorder) Get(nonce int64) CallRec {
	r.mu.Lock()
	defer r.mu.Unlock()
	if c := r.calls[nonce]; c != nil {
		cp := *c
		return cp
	}
	return CallRec{}
}

// TotalInvocations counts every harness callback run so far (handlers, state
// methods, cancel hooks, rehydrates).
func (r *Recorder) TotalInvocations() int {
	r.mu.Lock()
	defer r.mu.Unlock()
	n := 0
	for _, c := range r.calls {
		n += c.InitCalls + c.ProduceCalls + c.ExchangeCalls + c.CancelCalls + c.Rehydrates
	}
	return n
}

func yield(site string) {
	if s := simkern.CurrentSim(); s != nil {
		s.Y(site)
	}
}

// ---- schemas and types ----

// ScriptParams is the parameter struct of every scripted method.
type ScriptParams struct {
	Script string `vgirpc:"script"`
}

// ParamsSchema is the declared parameter schema of scripted methods.
var ParamsSchema = arrow.NewSchema([]arrow.Field{{Name: "script", Type: arrow.BinaryTypes.String}}, nil)

// OutSchema is the output schema of scripted streams.
var OutSchema = arrow.NewSchema([]arrow.Field{
	{Name: "nonce", Type: arrow.PrimitiveTypes.Int64},
	{Name: "turn", Type: arrow.PrimitiveTypes.Int64},
	{Name: "echo", Type: arrow.PrimitiveTypes.Int64},
	{Name: "pad", Type: arrow.BinaryTypes.String},
}, nil)

// DynOutSchema is the output schema a dynamic stream picks at run time.
var DynOutSchema = arrow.NewSchema([]arrow.Field{
	{Name: "nonce", Type: arrow.PrimitiveTypes.Int64},
	{Name: "turn", Type: arrow.PrimitiveTypes.Int64},
	{Name: "echo", Type: arrow.PrimitiveTypes.Int64},
	{Name: "pad", Type: arrow.BinaryTypes.String},
	{Name: "dyn", Type: arrow.FixedWidthTypes.Boolean},
}, nil)

// InSchema is the declared exchange input schema.
var InSchema = arrow.NewSchema([]arrow.Field{{Name: "x", Type: arrow.PrimitiveTypes.Int64}}, nil)

// Hdr is the stream header type.
type Hdr struct {
	Nonce int64  `arrow:"nonce"`
	Tag   string `arrow:"tag"`
}

// ArrowSchema implements vgirpc.ArrowSerializable.
func (Hdr) ArrowSchema() *arrow.Schema { return HdrSchema }

// HdrSchema is the header schema.
var HdrSchema = arrow.NewSchema([]arrow.Field{
	{Name: "nonce", Type: arrow.PrimitiveTypes.Int64},
	{Name: "tag", Type: arrow.BinaryTypes.String},
}, nil)

// HdrTag is the header tag value for a nonce.
func HdrTag(nonce int64) string { return fmt.Sprintf("hdr-%d", nonce) }

// StreamCore is the serialisable, deterministic state of a scripted stream.
type StreamCore struct {
	S    Script
	Turn int
	Dyn  bool
	Dead bool // set once the stream has ended; a later turn is a contract breach
	// Junk, when a script says so, receives a value of a type the state codec
	// has never heard of: from then on the state cannot be serialised (over
	// HTTP the turn that did it cannot hand out a cursor and must fail).
	Junk any
}

type unsealable struct{ N int }

// ProdState is the producer state.
type ProdState struct{ StreamCore }

// ExchState is the exchange state.
type ExchState struct{ StreamCore }

// ProdStateNC / ExchStateNC are the same states without a cancel hook.
type ProdStateNC struct{ StreamCore }
type ExchStateNC struct{ StreamCore }

func init() {
	vgirpc.RegisterStateType(&ProdState{})
	vgirpc.RegisterStateType(&ExchState{})
	vgirpc.RegisterStateType(&ProdStateNC{})
	vgirpc.RegisterStateType(&ExchStateNC{})
}

// Produce implements vgirpc.ProducerState.
func (s *ProdStateNC) Produce(ctx context.Context, out *vgirpc.OutputCollector, cc *vgirpc.CallContext) error {
	p := ProdState{s.StreamCore}
	err := p.Produce(ctx, out, cc)
	s.StreamCore = p.StreamCore
	return err
}

// Exchange implements vgirpc.ExchangeState.
func (s *ExchStateNC) Exchange(ctx context.Context, input arrow.RecordBatch, out *vgirpc.OutputCollector, cc *vgirpc.CallContext) error {
	p := ExchState{s.StreamCore}
	err := p.Exchange(ctx, input, out, cc)
	s.StreamCore = p.StreamCore
	return err
}

// StateNonce returns the stream nonce of a scripted state (0 for anything else).
func StateNonce(state interface{}) int64 {
	switch s := state.(type) {
	case *ProdState:
		return s.S.Nonce
	case *ExchState:
		return s.S.Nonce
	case *ProdStateNC:
		return s.S.Nonce
	case *ExchStateNC:
		return s.S.Nonce
	}
	return 0
}

// PadFor is the pad string of a turn.
func PadFor(nonce int64, turn int, pad int) string {
	base := fmt.Sprintf("p%d.%d", nonce, turn)
	if pad > len(base) {
		base += strings.Repeat("x", pad-len(base))
	}
	return base
}

// TokenLike reports whether v looks like a sealed state token (long base64).
func TokenLike(v string) bool {
	if len(v) < 60 {
		return false
	}
	for _, c := range v {
		if !(c >= 'A' && c <= 'Z' || c >= 'a' && c <= 'z' || c >= '0' && c <= '9' || c == '+' || c == '/' || c == '=') {
			return false
		}
	}
	return true
}

func metaMap(m arrow.Metadata) map[string]string {
	out := map[string]string{}
	ks, vs := m.Keys(), m.Values()
	for i := range ks {
		out[ks[i]] = vs[i]
	}
	return out
}

func observe(c *CallRec, cc *vgirpc.CallContext) {
	c.Kinds = append(c.Kinds, string(cc.Kind))
	if cc.Auth != nil {
		c.Principals = append(c.Principals, cc.Auth.Domain+"|"+cc.Auth.Principal)
	}
	im := metaMap(cc.InputMetadata)
	c.InputMeta = append(c.InputMeta, im)
	for _, v := range im {
		if TokenLike(v) {
			c.SawToken = true
		}
	}
	for k, v := range cc.TransportMetadata {
		if strings.HasPrefix(k, "vgi_rpc.stream_state") || strings.HasPrefix(k, "vgi_rpc.call_state") || TokenLike(v) {
			c.SawToken = true
		}
	}
}

func emitLogsCtx(cc *vgirpc.CallContext, logs []LogSpec) {
	for _, l := range logs {
		var kv []vgirpc.KV
		for _, k := range sortedKeys(l.Extras) {
			kv = append(kv, vgirpc.KV{Key: k, Value: l.Extras[k]})
		}
		cc.ClientLog(vgirpc.LogLevel(l.Level), l.Msg, kv...)
	}
}

func emitLogsOut(out *vgirpc.OutputCollector, logs []LogSpec) {
	for _, l := range logs {
		var kv []vgirpc.KV
		for _, k := range sortedKeys(l.Extras) {
			kv = append(kv, vgirpc.KV{Key: k, Value: l.Extras[k]})
		}
		out.ClientLog(vgirpc.LogLevel(l.Level), l.Msg, kv...)
	}
}

func sortedKeys(m map[string]string) []string {
	ks := make([]string, 0, len(m))
	for k := range m {
		ks = append(ks, k)
	}
	sort.Strings(ks)
	return ks
}

func (c *StreamCore) schema() *arrow.Schema {
	if c.Dyn {
		if c.S.Dyn2 {
			return DynOutSchema2
		}
		return DynOutSchema
	}
	return OutSchema
}

// DynOutSchema2 is a second, shorter run-time schema (so that two dynamic
// streams alive at once differ in what their call state must carry).
var DynOutSchema2 = arrow.NewSchema([]arrow.Field{
	{Name: "nonce", Type: arrow.PrimitiveTypes.Int64},
	{Name: "turn", Type: arrow.PrimitiveTypes.Int64},
	{Name: "echo", Type: arrow.PrimitiveTypes.Int64},
	{Name: "pad", Type: arrow.BinaryTypes.String},
	{Name: "d2", Type: arrow.PrimitiveTypes.Int64},
}, nil)

func (c *StreamCore) emit(out *vgirpc.OutputCollector, st *Step, echo int64) error {
	rows := 1
	if st != nil && st.Rows > 1 {
		rows = st.Rows
	}
	mem := memory.NewGoAllocator()
	nb := array.NewInt64Builder(mem)
	tb := array.NewInt64Builder(mem)
	eb := array.NewInt64Builder(mem)
	pb := array.NewStringBuilder(mem)
	db := array.NewBooleanBuilder(mem)
	defer nb.Release()
	defer tb.Release()
	defer eb.Release()
	defer pb.Release()
	defer db.Release()
	for i := 0; i < rows; i++ {
		nb.Append(c.S.Nonce)
		tb.Append(int64(c.Turn))
		eb.Append(echo)
		pb.Append(PadFor(c.S.Nonce, c.Turn, c.S.Pad))
		db.Append(true)
	}
	cols := []arrow.Array{nb.NewArray(), tb.NewArray(), eb.NewArray(), pb.NewArray()}
	if c.Dyn && c.S.Dyn2 {
		d2 := array.NewInt64Builder(mem)
		for i := 0; i < rows; i++ {
			d2.Append(int64(c.Turn) * 2)
		}
		cols = append(cols, d2.NewArray())
		d2.Release()
	} else if c.Dyn {
		cols = append(cols, db.NewArray())
	}
	defer func() {
		for _, a := range cols {
			a.Release()
		}
	}()
	batch := array.NewRecordBatch(c.schema(), cols, int64(rows))
	if st != nil && len(st.Meta) > 0 {
		return out.EmitWithMetadata(batch, st.Meta)
	}
	return out.Emit(batch)
}

// step runs the scripted turn. producer tells which contract applies.
func (c *StreamCore) step(out *vgirpc.OutputCollector, producer bool, echo int64) error {
	var st *Step
	if c.Turn < len(c.S.Turns) {
		st = &c.S.Turns[c.Turn]
	}
	if st == nil {
		if producer {
			c.Dead = true
			return out.Finish()
		}
		err := c.emit(out, nil, echo)
		c.Turn++
		return err
	}
	emitLogsOut(out, st.Logs)
	switch st.Act {
	case "emit":
		err := c.emit(out, st, echo)
		c.Turn++
		return err
	case "finish":
		c.Dead = true
		return out.Finish()
	case "finishx":
		c.Dead = true
		return out.Finish()
	case "error":
		c.Dead = true
		return st.Err.Build()
	case "panic":
		c.Dead = true
		panic(panicValue(st.Panic, c.S.Nonce))
	case "emitunsealable":
		// the handler succeeds and emits, but leaves the state unserialisable
		c.Junk = unsealable{N: c.Turn}
		err := c.emit(out, st, echo)
		c.Turn++
		return err
	case "emitpanic":
		// fails after having emitted: the turn is still a failed turn
		c.Dead = true
		if err := c.emit(out, st, echo); err != nil {
			return err
		}
		panic(panicValue(st.Panic, c.S.Nonce))
	case "emiterror":
		c.Dead = true
		if err := c.emit(out, st, echo); err != nil {
			return err
		}
		return st.Err.Build()
	case "noemit":
		c.Dead = true
		return nil
	case "iceptswallow":
		// an emit interceptor (the framework's pushdown filter) fails; the
		// state logs that and returns without a data batch: a turn that
		// emitted nothing
		c.Dead = true
		out.EmitInterceptor = func(b arrow.RecordBatch) (arrow.RecordBatch, error) {
			return nil, fmt.Errorf("scripted interceptor failure")
		}
		_ = c.emit(out, st, echo)
		out.EmitInterceptor = nil
		return nil
	case "iceptretry":
		// the interceptor fails once; the state falls back to emitting the
		// batch without it: an ordinary turn
		out.EmitInterceptor = func(b arrow.RecordBatch) (arrow.RecordBatch, error) {
			return nil, fmt.Errorf("scripted interceptor failure")
		}
		err := c.emit(out, st, echo)
		out.EmitInterceptor = nil
		if err != nil {
			err = c.emit(out, st, echo)
		}
		c.Turn++
		return err
	case "double":
		c.Dead = true
		if err := c.emit(out, st, echo); err != nil {
			return err
		}
		return c.emit(out, st, echo)
	}
	return fmt.Errorf("bad act %q", st.Act)
}

// Produce implements vgirpc.ProducerState.
func (s *ProdState) Produce(_ context.Context, out *vgirpc.OutputCollector, cc *vgirpc.CallContext) error {
	Rec.With(s.S.Nonce, func(c *CallRec) {
		c.ProduceCalls++
		if s.Dead {
			c.TurnsAfterEnd++
		}
		observe(c, cc)
	})
	yield("state.produce")
	err := s.step(out, true, 0)
	if f := TurnDone; f != nil {
		f(s.S.Nonce)
	}
	return err
}

// OnCancel implements vgirpc.StreamCanceller.
func (s *ProdState) OnCancel(_ context.Context, cc *vgirpc.CallContext) error {
	Rec.With(s.S.Nonce, func(c *CallRec) { c.CancelCalls++; observe(c, cc) })
	yield("state.cancel")
	s.Dead = true
	return cancelOutcome(&s.S)
}

// Exchange implements vgirpc.ExchangeState.
func (s *ExchState) Exchange(_ context.Context, input arrow.RecordBatch, out *vgirpc.OutputCollector, cc *vgirpc.CallContext) error {
	var sum int64
	if input.NumCols() > 0 {
		if col, ok := input.Column(0).(*array.Int64); ok {
			for i := 0; i < col.Len(); i++ {
				if col.IsValid(i) {
					sum += col.Value(i)
				}
			}
		}
	}
	inType := "none"
	if input.NumCols() > 0 {
		inType = input.Column(0).DataType().String()
	}
	Rec.With(s.S.Nonce, func(c *CallRec) {
		c.ExchangeCalls++
		if s.Dead {
			c.TurnsAfterEnd++
		}
		c.InputSums = append(c.InputSums, sum)
		c.InputTypes = append(c.InputTypes, inType)
		observe(c, cc)
	})
	yield("state.exchange")
	err := s.step(out, false, sum)
	if f := TurnDone; f != nil {
		f(s.S.Nonce)
	}
	return err
}

// OnCancel implements vgirpc.StreamCanceller.
func (s *ExchState) OnCancel(_ context.Context, cc *vgirpc.CallContext) error {
	Rec.With(s.S.Nonce, func(c *CallRec) { c.CancelCalls++; observe(c, cc) })
	yield("state.cancel")
	s.Dead = true
	return cancelOutcome(&s.S)
}

// TurnDone, when set, is called at the end of every scripted stream turn,
// still inside Produce / Exchange, after the state has emitted (a world uses it
// to land a fault — the caller hanging up — at exactly that point).
var TurnDone func(nonce int64)

// cancelOutcome is what a scripted cancel hook does once it has run.
func cancelOutcome(s *Script) error {
	switch s.CancelFail {
	case "error":
		return fmt.Errorf("scripted cancel-hook failure %d", s.Nonce)
	case "panic":
		panic(fmt.Sprintf("scripted cancel-hook panic %d", s.Nonce))
	}
	return nil
}

// ---- handlers ----

// BeforeOutcome, when set, is called inside every scripted unary / init
// handler after its logs went out and right before it returns its scripted
// outcome (the seam through which a world ends the call's context while the
// handler is still in flight).
var BeforeOutcome func(ctx context.Context, s *Script)

// OutcomeErr, when set, may replace the error a failing scripted unary / init
// handler is about to return (a handler that reports why it gave up: the
// context's own error).
var OutcomeErr func(ctx context.Context, s *Script, err error) error

// InitHook, when set, is called at the start of every scripted handler (world
// specific probes: sticky sessions, transport kind, hash ...).
var InitHook func(ctx context.Context, cc *vgirpc.CallContext, s *Script)

func preamble(ctx context.Context, cc *vgirpc.CallContext, p ScriptParams) (*Script, error) {
	s, err := DecodeScript(p.Script)
	if err != nil {
		return nil, &vgirpc.RpcError{Type: "ValueError", Message: "bad script: " + err.Error()}
	}
	Rec.With(s.Nonce, func(c *CallRec) { c.InitCalls++; observe(c, cc) })
	if InitHook != nil {
		InitHook(ctx, cc, s)
	}
	yield("handler")
	switch s.Sess {
	case "open":
		st := &SessState{Nonce: s.Nonce}
		if err := cc.OpenSession(st, 0); err != nil {
			return s, err
		}
		Rec.With(s.Nonce, func(c *CallRec) { c.SessionOpened = true })
	case "use":
		st, _ := cc.Session().(*SessState)
		if st == nil {
			return s, &vgirpc.RpcError{Type: "ValueError", Message: "no session bound to this request"}
		}
		Rec.With(s.Nonce, func(c *CallRec) { c.SessionSeen = st.Nonce })
	case "close":
		cc.CloseSession()
	}
	emitLogsCtx(cc, s.Logs)
	if f := BeforeOutcome; f != nil {
		f(ctx, s)
	}
	switch s.Outcome {
	case "error":
		err := s.Err.Build()
		if f := OutcomeErr; f != nil {
			err = f(ctx, s, err)
		}
		return s, err
	case "panic":
		panic(panicValue(s.Panic, s.Nonce))
	}
	return s, nil
}

// UnaryIntValue etc. are the values scripted unary methods return.
func UnaryIntValue(n int64) int64    { return n*7 + 1 }
func UnaryStrValue(n int64) string   { return fmt.Sprintf("s-%d-ü", n) }
func UnaryF64Value(n int64) float64  { return float64(n) + 0.5 }
func UnaryBoolValue(n int64) bool    { return n%2 == 0 }
func UnaryBytesValue(n int64) []byte { return []byte{byte(n), 0, 255, byte(n >> 8)} }
func UnaryListValue(n int64) []int64 { return []int64{n, n + 1, n + 2} }
func UnaryBigValue(n int64, sz int) string {
	return PadFor(n, 0, sz)
}

// Rich is a struct result (serialised as IPC bytes in a binary column).
type Rich struct {
	A int64  `vgirpc:"a"`
	B string `vgirpc:"b"`
}

func streamResult(s *Script, dyn bool, kind string) *vgirpc.StreamResult {
	core := StreamCore{S: *s, Dyn: dyn}
	res := &vgirpc.StreamResult{OutputSchema: OutSchema}
	if dyn {
		res.OutputSchema = DynOutSchema
		if s.Dyn2 {
			res.OutputSchema = DynOutSchema2
		}
	}
	if s.Outcome == "wrongstate" {
		switch {
		case dyn:
			res.State = &struct{ N int64 }{s.Nonce}
		case kind == "producer":
			res.State = &ExchState{core}
		default:
			res.State = &ProdState{core}
		}
		return res
	}
	if kind == "producer" {
		res.State = &ProdState{core}
		if s.NoHook {
			res.State = &ProdStateNC{core}
		}
	} else {
		res.State = &ExchState{core}
		if s.NoHook {
			res.State = &ExchStateNC{core}
		}
		res.InputSchema = InSchema
	}
	if s.Header {
		res.Header = Hdr{Nonce: s.Nonce, Tag: HdrTag(s.Nonce)}
	}
	return res
}

// Register installs the scripted methods on srv.
func Register(srv *vgirpc.Server) {
	vgirpc.Unary(srv, "u_int", func(ctx context.Context, cc *vgirpc.CallContext, p ScriptParams) (int64, error) {
		s, err := preamble(ctx, cc, p)
		if err != nil {
			return 0, err
		}
		return UnaryIntValue(s.Nonce), nil
	})
	vgirpc.Unary(srv, "u_str", func(ctx context.Context, cc *vgirpc.CallContext, p ScriptParams) (string, error) {
		s, err := preamble(ctx, cc, p)
		if err != nil {
			return "", err
		}
		if s.Pad > 0 {
			return UnaryBigValue(s.Nonce, s.Pad), nil
		}
		return UnaryStrValue(s.Nonce), nil
	})
	vgirpc.Unary(srv, "u_f64", func(ctx context.Context, cc *vgirpc.CallContext, p ScriptParams) (float64, error) {
		s, err := preamble(ctx, cc, p)
		if err != nil {
			return 0, err
		}
		return UnaryF64Value(s.Nonce), nil
	})
	vgirpc.Unary(srv, "u_bool", func(ctx context.Context, cc *vgirpc.CallContext, p ScriptParams) (bool, error) {
		s, err := preamble(ctx, cc, p)
		if err != nil {
			return false, err
		}
		return UnaryBoolValue(s.Nonce), nil
	})
	vgirpc.Unary(srv, "u_bytes", func(ctx context.Context, cc *vgirpc.CallContext, p ScriptParams) ([]byte, error) {
		s, err := preamble(ctx, cc, p)
		if err != nil {
			return nil, err
		}
		return UnaryBytesValue(s.Nonce), nil
	})
	vgirpc.Unary(srv, "u_list", func(ctx context.Context, cc *vgirpc.CallContext, p ScriptParams) ([]int64, error) {
		s, err := preamble(ctx, cc, p)
		if err != nil {
			return nil, err
		}
		return UnaryListValue(s.Nonce), nil
	})
	vgirpc.Unary(srv, "u_rich", func(ctx context.Context, cc *vgirpc.CallContext, p ScriptParams) (Rich, error) {
		s, err := preamble(ctx, cc, p)
		if err != nil {
			return Rich{}, err
		}
		return Rich{A: s.Nonce, B: UnaryStrValue(s.Nonce)}, nil
	})
	vgirpc.UnaryVoid(srv, "u_void", func(ctx context.Context, cc *vgirpc.CallContext, p ScriptParams) error {
		_, err := preamble(ctx, cc, p)
		return err
	})
	mk := func(kind string, dyn bool) func(ctx context.Context, cc *vgirpc.CallContext, p ScriptParams) (*vgirpc.StreamResult, error) {
		return func(ctx context.Context, cc *vgirpc.CallContext, p ScriptParams) (*vgirpc.StreamResult, error) {
			s, err := preamble(ctx, cc, p)
			if err != nil {
				return nil, err
			}
			if s.Outcome == "nilresult" {
				return nil, nil
			}
			k := kind
			if dyn {
				k = s.Mode
			}
			return streamResult(s, dyn, k), nil
		}
	}
	vgirpc.ProducerWithHeader(srv, "prod", OutSchema, HdrSchema, mk("producer", false))
	vgirpc.ExchangeWithHeader(srv, "exch", OutSchema, InSchema, HdrSchema, mk("exchange", false))
	vgirpc.Producer(srv, "prod2", OutSchema, mk("producer", false))
	vgirpc.Exchange(srv, "exch2", OutSchema, InSchema, mk("exchange", false))
	vgirpc.DynamicStreamWithHeader(srv, "dyn", HdrSchema, mk("", true))
}

// UnaryMethods lists scripted unary methods.
var UnaryMethods = []string{"u_int", "u_str", "u_f64", "u_bool", "u_bytes", "u_list", "u_rich", "u_void"}

// StreamMethod describes a scripted stream method.
type StreamMethod struct {
	Name   string
	Kind   string // producer | exchange | dynamic
	Header bool   // declared with a header type
}

// StreamMethods lists scripted stream methods.
var StreamMethods = []StreamMethod{
	{"prod", "producer", true},
	{"exch", "exchange", true},
	{"prod2", "producer", false},
	{"exch2", "exchange", false},
	{"dyn", "dynamic", true},
}
