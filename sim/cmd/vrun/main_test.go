// Package vrun is the simulation worker. It is built with `go test -c` because
// testing/synctest needs a *testing.T; the driver (/verif/check) starts one OS
// process per worker and hands each a disjoint seed range.
package vrun

import (
	"crypto/sha256"
	"encoding/hex"
	"encoding/json"
	"fmt"
	"io"
	"log/slog"
	"os"
	"strconv"
	"strings"
	"testing"
	"time"

	"verifsim/checks"
	"verifsim/simkern"
)

type replayFile struct {
	Property  string             `json:"property"`
	Tier      string             `json:"tier"`
	Seed      uint64             `json:"seed"`
	Tape      []uint32           `json:"tape"`
	Violation *simkern.Violation `json:"violation"`
	Knobs     map[string]any     `json:"knobs,omitempty"`
	Trace     []string           `json:"trace,omitempty"`
	Sample    any                `json:"sample,omitempty"`
	OrigTape  int                `json:"original_tape_len"`
	MinExecs  int                `json:"minimiser_executions"`
	// PreludeSeeds: the violation depends on state the code under test keeps
	// across runs (a process-wide pool, memo or cache): it reproduces from a
	// fresh process that first executes the runs of these seeds, in order, and
	// then the tape. Such a replay is not minimised.
	PreludeSeeds []uint64 `json:"prelude_seeds,omitempty"`
	Note         string   `json:"note,omitempty"`
	// SeedOnly: the run killed the whole process (a Go runtime fatal error
	// thrown inside the code under test), so no tape was recorded; the replay
	// is the run of this seed in a fresh process, which dies the same way.
	SeedOnly bool `json:"seed_only,omitempty"`
}

type workerOut struct {
	Property     string            `json:"property"`
	Tier         string            `json:"tier"`
	SeedStart    uint64            `json:"seed_start"`
	Runs         int               `json:"runs"`
	Results      []*simkern.Result `json:"results"`
	Replays      []string          `json:"replays"`
	// VerifyFresh lists replay files whose violation did not reproduce inside
	// the worker from the tape alone; the driver replays them in a fresh process
	// (prelude included) before it believes them.
	VerifyFresh []string `json:"verify_fresh,omitempty"`
	HarnessError string            `json:"harness_error,omitempty"`
	WallS        float64           `json:"wall_s"`
	Info         map[string]any    `json:"info"`
}

func envInt(name string, def int) int {
	if v := os.Getenv(name); v != "" {
		if n, err := strconv.Atoi(v); err == nil {
			return n
		}
	}
	return def
}

func TestVerif(t *testing.T) {
	prop := os.Getenv("VERIF_PROP")
	if prop == "" {
		t.Skip("VERIF_PROP not set")
	}
	info := checks.Registry[prop]
	if info == nil {
		fmt.Fprintf(os.Stderr, "unknown property %q\n", prop)
		os.Exit(2)
	}
	if os.Getenv("VERIF_SLOG") == "" {
		slog.SetDefault(slog.New(slog.NewTextHandler(io.Discard, nil)))
	}
	tier := os.Getenv("VERIF_TIER")
	if tier == "" {
		tier = "quick"
	}
	outPath := os.Getenv("VERIF_OUT")
	start := time.Now()
	// process-wide singletons of the code under test (token codec, Arrow)
	// must be created outside any bubble
	checks.DefaultWarm()
	if info.Warm != nil {
		info.Warm()
	}
	if rp := os.Getenv("VERIF_REPLAY"); rp != "" {
		data, err := os.ReadFile(rp)
		if err != nil {
			fmt.Fprintln(os.Stderr, err)
			os.Exit(2)
		}
		var rf replayFile
		if err := json.Unmarshal(data, &rf); err != nil {
			fmt.Fprintln(os.Stderr, err)
			os.Exit(2)
		}
		for _, ps := range rf.PreludeSeeds {
			_ = simkern.Exec(t, prop, rf.Tier, simkern.NewSeedTape(ps), false, info.Run)
		}
		tape := simkern.NewReplayTape(rf.Tape)
		if rf.SeedOnly {
			tape = simkern.NewSeedTape(rf.Seed)
		}
		res := simkern.Exec(t, prop, rf.Tier, tape, true, info.Run)
		out := map[string]any{"result": res, "expected": rf.Violation}
		same := res.Violation != nil && rf.Violation != nil && res.Violation.Key() == rf.Violation.Key()
		out["reproduced"] = same
		data, _ = json.MarshalIndent(out, "", " ")
		if outPath != "" {
			_ = os.WriteFile(outPath, data, 0o644)
		} else {
			fmt.Println(string(data))
		}
		return
	}
	seedStart := uint64(envInt("VERIF_SEED_START", 1))
	count := envInt("VERIF_SEED_COUNT", 10)
	if os.Getenv("VERIF_NWORKERS") != "" {
		total := info.Quick
		if tier == "thorough" {
			total = info.Thorough
		}
		if v := envInt("VERIF_RUNS", 0); v > 0 {
			total = v
		}
		nw := envInt("VERIF_NWORKERS", 1)
		per := (total + nw - 1) / nw
		count = per
		seedStart = uint64(envInt("VERIF_BASE_SEED", 1))*1000003 + uint64(envInt("VERIF_WORKER", 0)*per)
	}
	determinism := os.Getenv("VERIF_DETERMINISM") != ""
	maxViol := envInt("VERIF_MAX_VIOLATIONS", 3)
	deadline := time.Time{}
	if s := envInt("VERIF_BUDGET_S", 0); s > 0 {
		deadline = start.Add(time.Duration(s) * time.Second)
	}
	replayDir := os.Getenv("VERIF_REPLAY_DIR")
	wo := &workerOut{Property: prop, Tier: tier, SeedStart: seedStart}
	wo.Info = map[string]any{"level": info.Level, "rule": info.Rule, "real": info.Real, "stub": info.Stub,
		"assumptions": info.Assumptions, "fault_kinds": info.FaultKinds, "exhaustive": info.Exhaustive}
	seen := map[string]bool{}
	extraExecs := 0 // executions other than one per seed (minimisation, re-execution)
	newViolations := 0
	for i := 0; i < count; i++ {
		if !deadline.IsZero() && time.Now().After(deadline) {
			break
		}
		if os.Getenv("VERIF_STOP_AT_FIRST") != "" && newViolations > 0 && len(wo.Replays)+len(wo.VerifyFresh) > 0 {
			// evaluation of a deliberately broken tree: one violation that is
			// not a listed known finding settles it
			break
		}
		seed := seedStart + uint64(i)
		if outPath != "" {
			// which run is in progress, for the driver, should the process die
			_ = os.WriteFile(outPath+".cur", []byte(fmt.Sprintf("%d %d", seed, seedStart)), 0o644)
		}
		res := simkern.Exec(t, prop, tier, simkern.NewSeedTape(seed), determinism, info.Run)
		res.Seed = seed
		wo.Runs++
		if determinism {
			h := sha256.New()
			for _, ln := range res.Trace {
				h.Write([]byte(ln))
				h.Write([]byte{10})
			}
			fmt.Fprintf(h, "fp=%d steps=%d", res.Fingerprint, res.Steps)
			if res.Violation != nil {
				fmt.Fprintf(h, "viol=%s", res.Violation.Key())
			}
			res.TraceDigest = hex.EncodeToString(h.Sum(nil))[:24]
			res.Trace = nil
		}
		// a run that recorded a violation and then could not be wound down
		// cleanly (e.g. goroutines left blocked by the very deadlock it
		// reports) is a violation, not harness trouble
		if res.HarnessError != "" && res.Violation == nil {
			wo.HarnessError = fmt.Sprintf("seed %d: %s", seed, res.HarnessError)
			wo.Results = append(wo.Results, res)
			break
		}
		if res.Violation != nil && !strings.Contains(";"+os.Getenv("VERIF_KNOWN_KEYS")+";", ";"+res.Violation.Class+"|"+res.Violation.Site+";") {
			newViolations++
		}
		if res.Violation != nil {
			key := res.Violation.Key()
			if !seen[key] && len(wo.Replays) < maxViol && replayDir != "" {
				seen[key] = true
				min, execs := simkern.Minimise(t, prop, tier, info.Run, res, 60*time.Second, 400)
				// re-execute the minimised tape with tracing on for the replay file
				final := simkern.Exec(t, prop, tier, simkern.NewReplayTape(min.Tape), true, info.Run)
				if final.Violation == nil || final.Violation.Key() != key {
					// fall back to the unminimised tape
					final = simkern.Exec(t, prop, tier, simkern.NewReplayTape(res.Tape), true, info.Run)
				}
				if final.Violation == nil || final.Violation.Key() != key {
					if extraExecs == 0 && !determinism {
						// Nothing but the runs of seedStart..seed has executed in
						// this process: the violation may rest on state the code
						// under test carried over from earlier runs. A fresh process
						// that executes those runs first and then this tape is an
						// exact repetition of what happened here; the driver checks.
						var prelude []uint64
						for s := seedStart; s < seed; s++ {
							prelude = append(prelude, s)
						}
						rf := replayFile{Property: prop, Tier: tier, Seed: seed, Tape: res.Tape, Violation: res.Violation, Knobs: res.Knobs,
							Sample: res.Sample, OrigTape: len(res.Tape), PreludeSeeds: prelude,
							Note: "did not reproduce from its tape alone inside the worker; reproduces only after the runs of prelude_seeds (state kept across runs by the code under test)"}
						path := fmt.Sprintf("%s/%s-%d.json", replayDir, prop, seed)
						data, _ := json.MarshalIndent(rf, "", " ")
						_ = os.WriteFile(path, data, 0o644)
						wo.Replays = append(wo.Replays, path)
						wo.VerifyFresh = append(wo.VerifyFresh, path)
						res.Tape = nil
						wo.Results = append(wo.Results, res)
						break
					}
					wo.HarnessError = fmt.Sprintf("seed %d: violation %s did not reproduce from its own tape (nondeterminism)", seed, key)
					wo.Results = append(wo.Results, res)
					break
				}
				extraExecs += execs + 2
				rf := replayFile{Property: prop, Tier: tier, Seed: seed, Tape: final.Tape, Violation: final.Violation,
					Knobs: final.Knobs, Trace: compactTrace(final.Trace), Sample: final.Sample, OrigTape: len(res.Tape), MinExecs: execs}
				path := fmt.Sprintf("%s/%s-%d.json", replayDir, prop, seed)
				data, _ := json.MarshalIndent(rf, "", " ")
				_ = os.WriteFile(path, data, 0o644)
				wo.Replays = append(wo.Replays, path)
				res.Violation = final.Violation
			}
		}
		// keep results small
		res.Tape = nil
		if i >= 3 {
			res.Sample = nil
			res.Knobs = nil
		}
		wo.Results = append(wo.Results, res)
	}
	wo.WallS = time.Since(start).Seconds()
	data, _ := json.Marshal(wo)
	if outPath != "" {
		if err := os.WriteFile(outPath, data, 0o644); err != nil {
			fmt.Fprintln(os.Stderr, err)
			os.Exit(2)
		}
	} else {
		fmt.Println(string(data))
	}
}

// compactTrace collapses runs of consecutive steps of one task into one line
// (count, first and last site) so that a replay file shows the schedule and
// the fault sequence rather than every woven scheduling point.
func compactTrace(tr []string) []string {
	var out []string
	var curTask, first, last, firstPrefix string
	n := 0
	flush := func() {
		if n == 0 {
			return
		}
		if n == 1 {
			out = append(out, firstPrefix+"run "+curTask+" @"+first)
		} else {
			out = append(out, fmt.Sprintf("%srun %s x%d @%s .. @%s", firstPrefix, curTask, n, first, last))
		}
		n = 0
	}
	for _, ln := range tr {
		i := strings.Index(ln, " run ")
		j := strings.LastIndex(ln, " @")
		if i < 0 || j < i {
			flush()
			out = append(out, ln)
			continue
		}
		task := ln[i+5 : j]
		site := ln[j+2:]
		if n > 0 && task == curTask {
			last = site
			n++
			continue
		}
		flush()
		curTask, first, last, firstPrefix, n = task, site, site, ln[:i+1], 1
	}
	flush()
	if len(out) > 400 {
		out = append(out[:100], append([]string{"..."}, out[len(out)-300:]...)...)
	}
	return out
}
