package simkern

import (
	"fmt"
	"hash/fnv"
	"net"
	"runtime"
	"runtime/debug"
	"sort"
	"strings"
	"sync"
	"sync/atomic"
	"testing/synctest"
	"time"
	"unsafe"

	"github.com/Query-farm/vgi-rpc-go/vgirpc"
)

// Task states.
const (
	stNew int32 = iota
	stParked
	stRunning
	stDone
)

// Task is a goroutine known to the scheduler.
type Task struct {
	Name string
	sim  *Sim
	wake chan struct{}

	mu    sync.Mutex
	state int32
	site  string
	obj   any

	Panic      any
	PanicStack string
	Root       bool

	kids map[string]int

	// Releases counts how often the scheduler has released this task.
	Releases int
}

func (t *Task) snapshot() (int32, string, any) {
	t.mu.Lock()
	defer t.mu.Unlock()
	return t.state, t.site, t.obj
}

// Done reports whether the task function has returned (or panicked).
func (t *Task) Done() bool {
	st, _, _ := t.snapshot()
	return st == stDone
}

// Parked reports whether the task is parked at a yield, and where.
func (t *Task) Parked() (bool, string) {
	st, site, _ := t.snapshot()
	return st == stParked, site
}

// BlockedElsewhere is only meaningful at a quiescent point: the task is
// durably blocked in something that is not a scheduler yield (channel op,
// sleep, WaitGroup.Wait).
func (t *Task) BlockedElsewhere() bool {
	st, _, _ := t.snapshot()
	return st == stRunning
}

// Action is something the scheduler can choose at a quiescent point.
type Action struct {
	Name   string
	Weight int
	Do     func()
}

// Sim is one simulated run. It must be created and used inside a synctest
// bubble (see Bubble).
type Sim struct {
	Tape *Tape

	mu       sync.Mutex
	byGoid   map[uint64]*Task
	tasks    []*Task
	mainKids map[string]int

	Steps         int
	Interleavings int // steps at which more than one task was runnable
	fp            uint64
	traceOn       bool
	Trace         []string
	traceCap      int
	faults        map[string]int
	probes        map[string]int
	t0            time.Time
	schedGoid     uint64
	active        atomic.Bool

	// TaskWeight is the weight given to each runnable task (default 10).
	TaskWeight int
	// WeightFn, when set, overrides TaskWeight per runnable task (by task name
	// and the site it is parked at); a result <= 0 means "use TaskWeight".
	// Worlds use it to bias a run towards starving one class of task.
	WeightFn func(task, site string) int
}

var current atomic.Pointer[Sim]

// NewSim creates the run's simulator and installs the vgirpc hooks. Only one
// Sim may be active per process at a time.
func NewSim(tape *Tape, trace bool) *Sim {
	s := &Sim{
		Tape:       tape,
		byGoid:     map[uint64]*Task{},
		mainKids:   map[string]int{},
		faults:     map[string]int{},
		probes:     map[string]int{},
		traceOn:    trace,
		traceCap:   4000,
		t0:         time.Now(),
		schedGoid:  goid(),
		TaskWeight: 10,
		fp:         14695981039346656037,
	}
	// every run draws its crypto/rand stream from the tape (one value; an
	// exhausted replay tape yields stream 0)
	installDetRand(uint64(tape.Draw(1 << 30)))
	// pooled objects do not survive into a run: what a Get reuses is decided
	// by this run's tape alone
	vgirpc.VerifPoolsReset()
	s.active.Store(true)
	current.Store(s)
	installHooks()
	return s
}

// Close deactivates the simulator (hooks fall back to the ordinary behaviour).
func (s *Sim) Close() {
	s.active.Store(false)
	current.CompareAndSwap(s, nil)
	restoreRand()
}

var hooksOnce sync.Once

func installHooks() {
	hooksOnce.Do(func() {
		checkOnceLayout()
		vgirpc.VerifYield = func(site string, obj any) {
			if s := current.Load(); s != nil && s.active.Load() {
				s.Yield(site, obj)
			}
		}
		vgirpc.VerifGo = func(site string, fn func()) {
			if s := current.Load(); s != nil && s.active.Load() {
				s.goChild(site, fn)
				return
			}
			go fn()
		}
		vgirpc.VerifAfterFunc = func(site string, d time.Duration, fn func()) *time.Timer {
			if s := current.Load(); s != nil && s.active.Load() {
				return s.afterFunc(site, d, fn)
			}
			return time.AfterFunc(d, fn)
		}
		vgirpc.VerifPoolPick = func(n int) int {
			s := current.Load()
			if s == nil || !s.active.Load() {
				return n - 1
			}
			// mostly the most recent Put (what the runtime does on one P),
			// sometimes an older one, sometimes a miss
			switch s.Tape.Pick(0, 0, 0, 0, 0, 1, 2) {
			case 1:
				s.Probe("pool-older-item")
				return s.Tape.Draw(n)
			case 2:
				s.Probe("pool-miss")
				return -1
			}
			return n - 1
		}
		vgirpc.VerifListen = func(network, address string) (net.Listener, error) {
			if f := ListenHook; f != nil {
				return f(network, address)
			}
			return net.Listen(network, address)
		}
	})
}

// ListenHook, when set by a world, supplies simulated listeners.
var ListenHook func(network, address string) (net.Listener, error)

func goid() uint64 {
	var buf [64]byte
	n := runtime.Stack(buf[:], false)
	// "goroutine 123 ["
	var id uint64
	for i := len("goroutine "); i < n; i++ {
		c := buf[i]
		if c < '0' || c > '9' {
			break
		}
		id = id*10 + uint64(c-'0')
	}
	return id
}

// Now returns simulated time elapsed since the Sim was created.
func (s *Sim) Now() time.Duration { return time.Since(s.t0) }

// Fault counts a fault that actually fired.
func (s *Sim) Fault(kind string) {
	s.mu.Lock()
	s.faults[kind]++
	s.mu.Unlock()
}

// Probe counts a "this branch was reached" observation.
func (s *Sim) Probe(name string) {
	s.mu.Lock()
	s.probes[name]++
	s.mu.Unlock()
}

// ProbeN adds n to a probe.
func (s *Sim) ProbeN(name string, n int) {
	s.mu.Lock()
	s.probes[name] += n
	s.mu.Unlock()
}

// Faults returns a copy of the fault counters.
func (s *Sim) Faults() map[string]int { return s.copyMap(s.faults) }

// Probes returns a copy of the probe counters.
func (s *Sim) Probes() map[string]int { return s.copyMap(s.probes) }

func (s *Sim) copyMap(m map[string]int) map[string]int {
	s.mu.Lock()
	defer s.mu.Unlock()
	out := make(map[string]int, len(m))
	for k, v := range m {
		out[k] = v
	}
	return out
}

// Fingerprint identifies the schedule (sequence of chosen actions).
func (s *Sim) Fingerprint() uint64 { return s.fp }

func (s *Sim) note(ev string) {
	h := fnv.New64a()
	var b [8]byte
	for i := 0; i < 8; i++ {
		b[i] = byte(s.fp >> (8 * i))
	}
	h.Write(b[:])
	h.Write([]byte(ev))
	s.fp = h.Sum64()
	if s.traceOn && len(s.Trace) < s.traceCap {
		s.Trace = append(s.Trace, fmt.Sprintf("%d t=%v %s", s.Steps, s.Now(), ev))
	}
}

// Logf adds a line to the trace (never draws from the tape, never reads a real
// clock) and folds it into the fingerprint.
func (s *Sim) Logf(format string, a ...any) {
	s.mu.Lock()
	defer s.mu.Unlock()
	s.note(fmt.Sprintf(format, a...))
}

func (s *Sim) lookup() *Task {
	id := goid()
	s.mu.Lock()
	t := s.byGoid[id]
	s.mu.Unlock()
	return t
}

// Current returns the task of the calling goroutine, or nil.
func (s *Sim) Current() *Task { return s.lookup() }

func (s *Sim) register(t *Task) {
	id := goid()
	s.mu.Lock()
	s.byGoid[id] = t
	s.mu.Unlock()
}

func (s *Sim) unregister() {
	id := goid()
	s.mu.Lock()
	delete(s.byGoid, id)
	s.mu.Unlock()
}

func (s *Sim) newTask(name string, root bool) *Task {
	t := &Task{Name: name, sim: s, wake: make(chan struct{}), Root: root, kids: map[string]int{}}
	s.mu.Lock()
	s.tasks = append(s.tasks, t)
	s.mu.Unlock()
	return t
}

func (t *Task) park(site string, obj any) {
	t.mu.Lock()
	t.state = stParked
	t.site = site
	t.obj = obj
	t.mu.Unlock()
	<-t.wake
}

func (t *Task) body(fn func()) {
	s := t.sim
	s.register(t)
	defer func() {
		if r := recover(); r != nil {
			t.Panic = r
			t.PanicStack = string(debug.Stack())
		}
		s.unregister()
		t.mu.Lock()
		t.state = stDone
		t.mu.Unlock()
	}()
	t.park("start", nil)
	fn()
}

// Spawn starts a root task. It parks before its first statement.
func (s *Sim) Spawn(name string, fn func()) *Task {
	t := s.newTask(name, true)
	go t.body(fn)
	return t
}

func shortSite(site string) string {
	if i := strings.LastIndex(site, "/"); i >= 0 {
		return site[i+1:]
	}
	return site
}

func (s *Sim) childName(site string) string {
	parent := s.lookup()
	key := shortSite(site)
	if parent == nil {
		s.mu.Lock()
		n := s.mainKids[key]
		s.mainKids[key] = n + 1
		s.mu.Unlock()
		return fmt.Sprintf("main>%s#%d", key, n)
	}
	parent.mu.Lock()
	n := parent.kids[key]
	parent.kids[key] = n + 1
	parent.mu.Unlock()
	return fmt.Sprintf("%s>%s#%d", parent.Name, key, n)
}

func (s *Sim) goChild(site string, fn func()) {
	t := s.newTask(s.childName(site), false)
	go t.body(fn)
}

func (s *Sim) afterFunc(site string, d time.Duration, fn func()) *time.Timer {
	name := s.childName(site) + "@timer"
	return time.AfterFunc(d, func() {
		if !s.active.Load() {
			return
		}
		t := s.newTask(name, false)
		t.body(fn)
	})
}

// Yield is the only scheduling primitive. Called from a task it parks the
// task until the scheduler releases it; called from any other goroutine
// (set-up code on the scheduler goroutine, un-woven library goroutines) it is
// a no-op.
func (s *Sim) Yield(site string, obj any) {
	t := s.lookup()
	if t == nil {
		return
	}
	t.park(site, obj)
}

// Y is shorthand for a harness-side yield with no guard.
func (s *Sim) Y(site string) { s.Yield(site, nil) }

type onceLayout struct {
	done uint32
	m    sync.Mutex
}

func checkOnceLayout() {
	if unsafe.Sizeof(sync.Once{}) != unsafe.Sizeof(onceLayout{}) {
		panic("simkern: sync.Once layout changed")
	}
	var o sync.Once
	ol := (*onceLayout)(unsafe.Pointer(&o))
	inside := false
	o.Do(func() {
		if ol.m.TryLock() {
			ol.m.Unlock()
		} else {
			inside = true
		}
	})
	if !inside || atomic.LoadUint32(&ol.done) != 1 {
		panic("simkern: sync.Once layout assumption failed")
	}
}

// guardReady reports whether the primitive a task is parked in front of can be
// acquired right now. It reads the real primitive.
func guardReady(site string, obj any) bool {
	switch m := obj.(type) {
	case nil:
		return true
	case *sync.Mutex:
		if m.TryLock() {
			m.Unlock()
			return true
		}
		return false
	case *sync.RWMutex:
		if strings.HasSuffix(site, ":RLock") {
			if m.TryRLock() {
				m.RUnlock()
				return true
			}
			return false
		}
		if m.TryLock() {
			m.Unlock()
			return true
		}
		return false
	case *sync.Once:
		ol := (*onceLayout)(unsafe.Pointer(m))
		if atomic.LoadUint32(&ol.done) == 1 {
			return true
		}
		if ol.m.TryLock() {
			ol.m.Unlock()
			return true
		}
		return false
	case func() bool:
		return m()
	}
	return true
}

// Quiesce waits until every goroutine in the bubble is durably blocked.
func (s *Sim) Quiesce() { synctest.Wait() }

// StopReason says why Run returned.
type StopReason int

const (
	StopDone StopReason = iota
	StopBudget
	StopDeadlock
	StopCheck
)

func (r StopReason) String() string {
	return [...]string{"done", "budget", "deadlock", "check"}[r]
}

// RunOpts configures the step loop.
type RunOpts struct {
	MaxSteps int
	// Extra returns the world's own actions (faults, clock advances, operator
	// actions) available at this quiescent point.
	Extra func() []Action
	// Check is the invariant evaluated after every step.
	Check func() error
	// Done ends the run.
	Done func() bool
	// IdleLimit bounds how far simulated time is advanced when nothing is
	// runnable before the state is declared a deadlock (default 3h).
	IdleLimit time.Duration
	// IdleStepMax > 0 caps the escalating idle step: a task that sleeps d
	// resumes at most IdleStepMax after d (default: the step grows fourfold
	// up to 20 minutes, which suits timeouts but not histories that place
	// requests around a deadline).
	IdleStepMax time.Duration
}

type readyTask struct {
	t    *Task
	site string
}

func (s *Sim) ready() ([]readyTask, int) {
	s.mu.Lock()
	ts := append([]*Task(nil), s.tasks...)
	s.mu.Unlock()
	var out []readyTask
	blocked := 0
	for _, t := range ts {
		st, site, obj := t.snapshot()
		switch st {
		case stParked:
			if guardReady(site, obj) {
				out = append(out, readyTask{t, site})
			} else {
				blocked++
			}
		case stRunning, stNew:
			blocked++
		}
	}
	sort.SliceStable(out, func(i, j int) bool { return out[i].t.Name < out[j].t.Name })
	return out, blocked
}

func (s *Sim) release(t *Task) {
	t.mu.Lock()
	t.Releases++
	t.state = stRunning
	t.mu.Unlock()
	t.wake <- struct{}{}
}

// Run is the step loop. It returns why it stopped and, for StopCheck, the
// invariant's error.
func (s *Sim) Run(o RunOpts) (StopReason, error) {
	if o.IdleLimit == 0 {
		o.IdleLimit = 3 * time.Hour
	}
	idle := time.Duration(0)
	idleStep := time.Millisecond
	for {
		synctest.Wait()
		if o.Done != nil && o.Done() {
			return StopDone, nil
		}
		if s.Steps >= o.MaxSteps {
			return StopBudget, nil
		}
		rdy, _ := s.ready()
		var acts []Action
		for _, r := range rdy {
			r := r
			wt := s.TaskWeight
			if s.WeightFn != nil {
				if x := s.WeightFn(r.t.Name, r.site); x > 0 {
					wt = x
				}
			}
			acts = append(acts, Action{Name: "run " + r.t.Name + " @" + shortSite(r.site), Weight: wt, Do: func() { s.release(r.t) }})
		}
		if len(rdy) > 1 {
			s.Interleavings++
		}
		if o.Extra != nil {
			acts = append(acts, o.Extra()...)
		}
		w := make([]int, len(acts))
		for i, a := range acts {
			w[i] = a.Weight
		}
		idx := s.Tape.Weighted(w)
		if idx < 0 {
			// Nothing runnable: let simulated time pass (timers, sleeps,
			// tickers) with escalating steps.
			if idle >= o.IdleLimit {
				return StopDeadlock, nil
			}
			time.Sleep(idleStep)
			idle += idleStep
			if idleStep < 20*time.Minute {
				idleStep *= 4
			}
			if o.IdleStepMax > 0 && idleStep > o.IdleStepMax {
				idleStep = o.IdleStepMax
			}
			continue
		}
		idle, idleStep = 0, time.Millisecond
		s.mu.Lock()
		s.note(acts[idx].Name)
		s.mu.Unlock()
		s.Steps++
		acts[idx].Do()
		synctest.Wait()
		if o.Check != nil {
			if err := o.Check(); err != nil {
				return StopCheck, err
			}
		}
	}
}

// Advance moves simulated time forward by d (as a scheduler action).
func (s *Sim) Advance(d time.Duration) {
	time.Sleep(d)
	synctest.Wait()
}

// Drain releases every parked task (first-ready order, no tape) until all
// tasks are done or nothing can move. It returns the tasks still alive.
func (s *Sim) Drain(maxSteps int) []*Task {
	idleStep := time.Millisecond
	idleTries := 0
	for i := 0; i < maxSteps; i++ {
		synctest.Wait()
		rdy, blocked := s.ready()
		if len(rdy) == 0 {
			if blocked == 0 {
				return nil
			}
			if idleTries > 12 {
				break
			}
			time.Sleep(idleStep)
			idleStep *= 4
			idleTries++
			continue
		}
		idleTries, idleStep = 0, time.Millisecond
		s.release(rdy[0].t)
	}
	synctest.Wait()
	var left []*Task
	s.mu.Lock()
	ts := append([]*Task(nil), s.tasks...)
	s.mu.Unlock()
	for _, t := range ts {
		if !t.Done() {
			left = append(left, t)
		}
	}
	return left
}

// Tasks returns all tasks created so far.
func (s *Sim) Tasks() []*Task {
	s.mu.Lock()
	defer s.mu.Unlock()
	return append([]*Task(nil), s.tasks...)
}

// Panicked returns the tasks whose function panicked (a panic that reaches a
// task boundary is what would have crashed the process or aborted the
// connection in a real deployment).
func (s *Sim) Panicked() []*Task {
	var out []*Task
	for _, t := range s.Tasks() {
		if t.Done() && t.Panic != nil {
			out = append(out, t)
		}
	}
	return out
}

// CurrentSim returns the active simulator, or nil.
func CurrentSim() *Sim {
	if s := current.Load(); s != nil && s.active.Load() {
		return s
	}
	return nil
}

// RootsDone reports whether every root task has finished.
func (s *Sim) RootsDone() bool {
	for _, t := range s.Tasks() {
		if t.Root && !t.Done() {
			return false
		}
	}
	return true
}

// AllDone reports whether every task (root or implicit) has finished.
func (s *Sim) AllDone() bool {
	for _, t := range s.Tasks() {
		if !t.Done() {
			return false
		}
	}
	return true
}

// Stuck describes the tasks that are not done (name, state, site) — used in
// deadlock verdicts.
func (s *Sim) Stuck() string {
	var sb strings.Builder
	for _, t := range s.Tasks() {
		st, site, _ := t.snapshot()
		switch st {
		case stParked:
			fmt.Fprintf(&sb, "%s parked@%s; ", t.Name, shortSite(site))
		case stRunning, stNew:
			fmt.Fprintf(&sb, "%s blocked-elsewhere; ", t.Name)
		}
	}
	return sb.String()
}

// Ready reports whether the task is parked at a yield whose guard (if any) is
// satisfied right now, i.e. the scheduler could release it. Only meaningful
// at a quiescent point.
func (t *Task) Ready() bool {
	st, site, obj := t.snapshot()
	return st == stParked && guardReady(site, obj)
}
