package simkern

import (
	crand "crypto/rand"
	"io"
	"math/rand/v2"
	"sync"
)

// detRand replaces crypto/rand.Reader while a simulation is active. The code
// under test draws nonces, call ids, stream ids and request ids from
// crypto/rand; no property depends on their values, but token *lengths*
// (compressed payload size) and therefore base64 padding do, and a replay must
// reproduce those too. The stream is derived from the run's tape.
type detRand struct {
	mu  sync.Mutex
	rng *rand.ChaCha8
}

func (d *detRand) Read(p []byte) (int, error) {
	d.mu.Lock()
	defer d.mu.Unlock()
	return d.rng.Read(p)
}

var realRandReader io.Reader

func installDetRand(seed uint64) {
	if realRandReader == nil {
		realRandReader = crand.Reader
	}
	var s [32]byte
	for i := 0; i < 8; i++ {
		s[i] = byte(seed >> (8 * i))
	}
	crand.Reader = &detRand{rng: rand.NewChaCha8(s)}
}

func restoreRand() {
	if realRandReader != nil {
		crand.Reader = realRandReader
	}
}
