package simkern

import (
	"fmt"
	"sort"
	"testing"
	"testing/synctest"
	"time"
)

// Violation is a property violation found in one run.
type Violation struct {
	Property string `json:"property"`
	// Class is the stable violation class (what kind of thing went wrong).
	Class string `json:"class"`
	// Site is the stable signature of where (operation kind, call site, route).
	Site string `json:"site"`
	// Detail is the human-readable description of this occurrence.
	Detail string `json:"detail"`
}

// Key identifies a violation for minimisation and known-finding matching.
func (v *Violation) Key() string { return v.Class + "|" + v.Site }

// Result is what one simulated run reports.
type Result struct {
	Seed          uint64         `json:"seed"`
	Violation     *Violation     `json:"violation,omitempty"`
	Inconclusive  string         `json:"inconclusive,omitempty"`
	HarnessError  string         `json:"harness_error,omitempty"`
	Steps         int            `json:"steps"`
	Interleavings int            `json:"interleavings"`
	SimTimeNs     int64          `json:"sim_time_ns"`
	Faults        map[string]int `json:"faults,omitempty"`
	Probes        map[string]int `json:"probes,omitempty"`
	Fingerprint   uint64         `json:"fingerprint"`
	Nontrivial    bool           `json:"nontrivial"`
	Tape          []uint32       `json:"tape,omitempty"`
	Trace         []string       `json:"trace,omitempty"`
	Sample        any            `json:"sample,omitempty"`
	Knobs         map[string]any `json:"knobs,omitempty"`
	TraceDigest   string         `json:"trace_digest,omitempty"`
}

// Env is handed to a property's run function.
type Env struct {
	T     *testing.T
	Tape  *Tape
	Tier  string
	Trace bool
	Res   *Result
	Prop  string
}

// Violate records a violation (the first one wins).
func (e *Env) Violate(class, site, format string, a ...any) {
	if e.Res.Violation != nil {
		return
	}
	e.Res.Violation = &Violation{Property: e.Prop, Class: class, Site: site, Detail: fmt.Sprintf(format, a...)}
}

// Violated reports whether a violation has been recorded.
func (e *Env) Violated() bool { return e.Res.Violation != nil }

// Inconclusive marks the run as inconclusive (never a violation).
func (e *Env) Inconclusive(format string, a ...any) {
	if e.Res.Inconclusive == "" {
		e.Res.Inconclusive = fmt.Sprintf(format, a...)
	}
}

// Harness records harness trouble (exit 2, never a violation).
func (e *Env) Harness(format string, a ...any) {
	if e.Res.HarnessError == "" {
		e.Res.HarnessError = fmt.Sprintf(format, a...)
	}
}

// Knob records a per-run configuration value for the evidence/replay file.
func (e *Env) Knob(name string, v any) {
	if e.Res.Knobs == nil {
		e.Res.Knobs = map[string]any{}
	}
	e.Res.Knobs[name] = v
}

// Absorb copies the simulator's counters into the result.
func (e *Env) Absorb(s *Sim) {
	e.Res.Steps += s.Steps
	e.Res.Interleavings += s.Interleavings
	e.Res.SimTimeNs += int64(s.Now())
	e.Res.Fingerprint ^= s.Fingerprint() * 1099511628211
	if e.Res.Faults == nil {
		e.Res.Faults = map[string]int{}
	}
	if e.Res.Probes == nil {
		e.Res.Probes = map[string]int{}
	}
	for k, v := range s.Faults() {
		e.Res.Faults[k] += v
	}
	for k, v := range s.Probes() {
		e.Res.Probes[k] += v
	}
	if e.Trace {
		e.Res.Trace = append(e.Res.Trace, s.Trace...)
	}
}

// Bubble runs fn inside a fresh synctest bubble. A bubble that ends with
// blocked goroutines is reported through the returned string (the caller
// decides whether that is the property's verdict or harness trouble).
func (e *Env) Bubble(fn func()) (leftover string) {
	defer func() {
		if r := recover(); r != nil {
			leftover = fmt.Sprint(r)
		}
	}()
	synctest.Test(e.T, func(t *testing.T) {
		fn()
	})
	return ""
}

// RunFunc is a property's simulated run.
type RunFunc func(e *Env)

// Exec performs one run of fn on the given tape.
func Exec(t *testing.T, prop, tier string, tape *Tape, trace bool, fn RunFunc) *Result {
	res := &Result{}
	e := &Env{T: t, Tape: tape, Tier: tier, Trace: trace, Res: res, Prop: prop}
	func() {
		defer func() {
			if r := recover(); r != nil {
				e.Harness("panic in harness: %v", r)
			}
		}()
		fn(e)
	}()
	res.Tape = append([]uint32(nil), tape.Rec...)
	return res
}

// Minimise shrinks a failing tape while the same violation (class and site)
// recurs. It returns the smallest failing result found.
func Minimise(t *testing.T, prop, tier string, fn RunFunc, failing *Result, budget time.Duration, maxExec int) (*Result, int) {
	key := failing.Violation.Key()
	best := failing
	execs := 0
	deadline := time.Now().Add(budget)
	try := func(tp []uint32) bool {
		if execs >= maxExec || time.Now().After(deadline) {
			return false
		}
		execs++
		r := Exec(t, prop, tier, NewReplayTape(tp), false, fn)
		if r.Violation != nil && r.Violation.Key() == key && r.HarnessError == "" {
			// Keep the tape as actually consumed (may be shorter than tp).
			if len(r.Tape) <= len(tp) || true {
				best = r
			}
			return true
		}
		return false
	}
	cur := func() []uint32 { return trimZeros(best.Tape) }
	// 1. tail truncation (binary)
	for {
		tp := cur()
		if len(tp) == 0 {
			break
		}
		progressed := false
		for cut := len(tp) / 2; cut >= 1; cut /= 2 {
			if try(tp[:len(tp)-cut]) {
				progressed = true
				break
			}
		}
		if !progressed {
			break
		}
	}
	// 2. chunk deletion (ddmin style) and zeroing
	for pass := 0; pass < 3; pass++ {
		changed := false
		startChunk := 1
		for startChunk*2 <= len(cur())/2 {
			startChunk *= 2
		}
		for chunk := startChunk; chunk >= 1; chunk /= 2 {
			i := 0
			for {
				tp := cur()
				if i >= len(tp) {
					break
				}
				end := i + chunk
				if end > len(tp) {
					end = len(tp)
				}
				cand := append(append([]uint32(nil), tp[:i]...), tp[end:]...)
				if try(cand) {
					changed = true
					continue
				}
				if chunk <= 4 {
					// zero the chunk instead
					allZero := true
					for _, v := range tp[i:end] {
						if v != 0 {
							allZero = false
						}
					}
					if !allZero {
						cand = append([]uint32(nil), tp...)
						for j := i; j < end; j++ {
							cand[j] = 0
						}
						if try(cand) {
							changed = true
						}
					}
				}
				i += chunk
			}
			if execs >= maxExec || time.Now().After(deadline) {
				break
			}
		}
		// 3. per-value shrinking
		tp := cur()
		for i := 0; i < len(tp); i++ {
			tp = cur()
			if i >= len(tp) {
				break
			}
			for tp[i] > 0 {
				cand := append([]uint32(nil), tp...)
				cand[i] = tp[i] / 2
				if !try(cand) {
					cand[i] = tp[i] - 1
					if !try(cand) {
						break
					}
				}
				changed = true
				tp = cur()
				if i >= len(tp) {
					break
				}
			}
		}
		if !changed || execs >= maxExec || time.Now().After(deadline) {
			break
		}
	}
	return best, execs
}

func trimZeros(tp []uint32) []uint32 {
	n := len(tp)
	for n > 0 && tp[n-1] == 0 {
		n--
	}
	return append([]uint32(nil), tp[:n]...)
}

// SortedKeys is a small helper for deterministic iteration over string maps.
func SortedKeys[V any](m map[string]V) []string {
	ks := make([]string, 0, len(m))
	for k := range m {
		ks = append(ks, k)
	}
	sort.Strings(ks)
	return ks
}

// Conclude is the standard end of a simulated run: it maps the stop reason to
// inconclusive / harness trouble (a world whose property *is* about deadlock
// or panics handles those before calling Conclude), reports panics that
// reached a task boundary as harness trouble unless allowPanics, drains the
// remaining tasks and absorbs the counters.
func (e *Env) Conclude(s *Sim, reason StopReason, allowPanics bool) {
	switch reason {
	case StopBudget:
		e.Inconclusive("step budget exhausted after %d steps", s.Steps)
	case StopDeadlock:
		if !e.Violated() {
			e.Harness("world deadlocked: %s", s.Stuck())
		}
	}
	if !allowPanics {
		for _, t := range s.Panicked() {
			e.Harness("task %s panicked: %v\n%s", t.Name, t.Panic, t.PanicStack)
		}
	}
	s.Drain(5000)
	e.Absorb(s)
}
