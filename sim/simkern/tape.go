// Package simkern is the deterministic simulation kernel: a choice tape, a
// cooperative task scheduler that runs inside a testing/synctest bubble, fault
// and probe counters, a tape minimiser and the result/evidence types.
package simkern

import (
	"math/rand/v2"
)

// Tape is the single source of every choice a simulated run makes: workload
// generation, knob values, which task runs next, which fault fires, how far
// the clock moves. In search mode it is a PRNG stream seeded from one integer;
// in replay/minimisation mode it is a recorded vector (exhausted => 0, which by
// convention is always the simplest choice: first ready task, no fault).
type Tape struct {
	rng    *rand.Rand
	replay []uint32
	isRep  bool
	pos    int
	Rec    []uint32 // every value actually used, already reduced modulo its range
}

// NewSeedTape returns a PRNG-backed tape.
func NewSeedTape(seed uint64) *Tape {
	return &Tape{rng: rand.New(rand.NewPCG(seed, 0x9e3779b97f4a7c15^seed<<1))}
}

// NewReplayTape returns a tape that replays v.
func NewReplayTape(v []uint32) *Tape {
	cp := append([]uint32(nil), v...)
	return &Tape{replay: cp, isRep: true}
}

// Draw returns a value in [0,n). n<=1 consumes nothing and returns 0.
func (t *Tape) Draw(n int) int {
	if n <= 1 {
		return 0
	}
	var v int
	if t.isRep {
		if t.pos < len(t.replay) {
			v = int(t.replay[t.pos] % uint32(n))
		}
		t.pos++
	} else {
		v = t.rng.IntN(n)
	}
	t.Rec = append(t.Rec, uint32(v))
	return v
}

// Bool is true with probability num/den (false is the "simple" outcome).
func (t *Tape) Bool(num, den int) bool {
	if num <= 0 {
		return false
	}
	return t.Draw(den) >= den-num
}

// Range returns a value in [lo,hi].
func (t *Tape) Range(lo, hi int) int {
	if hi <= lo {
		return lo
	}
	return lo + t.Draw(hi-lo+1)
}

// Weighted picks an index with probability proportional to w[i]; index 0 is
// the simple outcome. Zero/negative weights are never picked. Returns -1 when
// every weight is zero.
func (t *Tape) Weighted(w []int) int {
	total, npos, only := 0, 0, -1
	for i, x := range w {
		if x > 0 {
			total += x
			npos++
			only = i
		}
	}
	if total == 0 {
		return -1
	}
	if npos == 1 {
		return only // a forced move consumes no tape
	}
	v := t.Draw(total)
	for i, x := range w {
		if x <= 0 {
			continue
		}
		if v < x {
			return i
		}
		v -= x
	}
	return -1
}

// Pick returns one of the given ints.
func (t *Tape) Pick(vals ...int) int { return vals[t.Draw(len(vals))] }

// Used reports how many tape values have been consumed.
func (t *Tape) Used() int { return len(t.Rec) }
